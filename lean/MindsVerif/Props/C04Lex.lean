import MindsVerif.Lemmas.ReWord
import MindsVerif.Lemmas.ReWordAt
import MindsVerif.Lemmas.ReString
import MindsVerif.Props.C02Lex
import MindsVerif.Lemmas.SlyLexSound
import MindsVerif.Gen.LexRe_sqlite
import MindsVerif.Gen.LexRe_mysql
import MindsVerif.Gen.LexRe_mindsdb
import MindsVerif.Gen.Reserved
import MindsVerif.Gen.Lex_sqlite
import MindsVerif.Gen.Lex_mysql
import MindsVerif.Gen.Lex_mindsdb
/-!
# C04 / C01, identifier half at the level of the live regexes: a plain non-keyword word is ONE `ID` token

`Identifier.parts_to_str` prints a part without back-quotes when it matches `[a-zA-Z_][a-zA-Z_0-9]*` and is not a
reserved word.  For the round trip that text must come back from the lexer as one `ID` token.  `C04_identifier_*`
(`Props/C04.lean`) prove the round trip over a hand model of the lexer's keyword classification (`KwTable`, built from the
regex *strings* by shape heuristics).  Here the statement is proved about the REGEX-LEVEL lexer model over the live master
regex (`Gen/LexRe_<d>`), for every word:

`C04_word_is_ID`: for every rule list that passes the kernel-decided classification `classOK` (every rule in front of `ID` either
needs a character outside the word class, or is a keyword rule `\b s1 … sn \b`, or cannot start with a letter / underscore; the
`ID` rule is `A* B+ A* | …` with `A ⊇ [0-9A-Za-z_]`, `B ⊇ [A-Za-z_]`), and every word `w` over `[0-9A-Za-z_]` that starts with a
letter or underscore and is not matched class-by-class by one of the keyword rules: `lex c w = ok [ID w]`.

`isKw` is decidable and exact: `C04_kw_examples` checks it on examples for the live lists; the reserved-word side
(`upper(w) ∈ get_reserved_words()` ⇒ quoted) stays with `phi4_*` of `Props/C04.lean`.
-/
namespace MindsVerif.Props.C04Lex
open MindsVerif.Re MindsVerif.SlyLex MindsVerif.Gen

/-- `[0-9A-Za-z_]` -/
def plainSet : CSet := [(48, 57), (65, 90), (95, 95), (97, 122)]
/-- `[A-Za-z_]` -/
def letterSet : CSet := [(65, 90), (95, 95), (97, 122)]

/-- what `no_wrap_identifier_regex` accepts -/
def PlainWord (w : List Nat) : Prop :=
  (∀ c ∈ w, inSet plainSet c) ∧ ∃ c t, w = c :: t ∧ inSet letterSet c

inductive RuleClass where
  | out | kw | first
  deriving DecidableEq, Repr

/-- why a rule in front of `ID` cannot swallow a plain non-keyword word -/
def ruleOK (W : CSet) (r : Re) : Bool :=
  needsOut W r ||
  (match kwSets r with | some sets => !sets.isEmpty | none => false) ||
  (nonNull r && disjointR (first r) letterSet)

/-- split the rule list at `ID` -/
def splitAtID : List Rule → Option (List Rule × Rule × List Rule)
  | [] => none
  | r :: rs => if r.name == "ID" then some ([], r, rs) else (splitAtID rs).map fun (a, x, b) => (r :: a, x, b)

def idShape (r : Re) : Option (CSet × CSet) :=
  match r with
  | .alt (.seq (.star true (.set a)) (.seq (.seq (.set b) (.star true (.set b'))) (.star true (.set a')))) _ =>
    if a == a' && b == b' then some (a, b) else none
  | _ => none

/-- the classification the kernel decides on the regenerated rule list -/
def classOK (c : Cfg) : Bool :=
  match splitAtID c.rules with
  | none => false
  | some (pre, idr, _) =>
    pre.all (fun r => ruleOK c.word r.re) && !idr.ignored &&
    (match idShape idr.re with
     | some (a, b) => allMemR a plainSet && allMemR b letterSet
     | none => false) &&
    allMemR c.word plainSet && disjointR c.ignore letterSet

/-- `w` is, class by class, one of the keyword rules in front of `ID` -/
def isKw (c : Cfg) (w : List Nat) : Bool :=
  match splitAtID c.rules with
  | none => false
  | some (pre, _, _) => pre.any fun r => match kwSets r.re with | some sets => kwMatch sets w | none => false

theorem splitAtID_spec : ∀ {rules pre idr post}, splitAtID rules = some (pre, idr, post) →
    rules = pre ++ idr :: post ∧ idr.name = "ID" := by
  intro rules
  induction rules with
  | nil => intro _ _ _ h; simp [splitAtID] at h
  | cons r rs ih =>
    intro pre idr post h
    unfold splitAtID at h
    by_cases hn : (r.name == "ID") = true
    · simp only [hn, if_true, Option.some.injEq, Prod.mk.injEq] at h
      obtain ⟨h1, h2, h3⟩ := h
      subst h1; subst h2; subst h3
      exact ⟨rfl, by simpa using hn⟩
    · simp only [hn, Bool.false_eq_true, if_false, Option.map_eq_some_iff] at h
      obtain ⟨⟨a, x, b⟩, hs, he⟩ := h
      simp only [Prod.mk.injEq] at he
      obtain ⟨h1, h2, h3⟩ := he
      subst h1; subst h2; subst h3
      obtain ⟨e1, e2⟩ := ih hs
      exact ⟨by rw [e1]; rfl, e2⟩

theorem firstMatch_skip {w : CSet} {p : Pos} : ∀ (pre : List Rule) (rest : List Rule),
    (∀ r ∈ pre, matchAt w r.re p = none) → firstMatch w (pre ++ rest) p = firstMatch w rest p := by
  intro pre
  induction pre with
  | nil => intro rest _; rfl
  | cons r rs ih =>
    intro rest h
    simp only [List.cons_append, firstMatch, h r List.mem_cons_self]
    exact ih rest fun x hx => h x (List.mem_cons_of_mem _ hx)

theorem idShape_spec {r : Re} {a b : CSet} (h : idShape r = some (a, b)) : ∃ x, r = .alt (idCore a b) x := by
  unfold idShape at h
  split at h
  · rename_i a0 b0 b1 a1 x
    by_cases hc : (a0 == a1 && b0 == b1) = true
    · simp only [hc, if_true, Option.some.injEq, Prod.mk.injEq] at h
      simp only [Bool.and_eq_true, beq_iff_eq] at hc
      obtain ⟨h1, h2⟩ := h
      obtain ⟨c1, c2⟩ := hc
      subst h1; subst h2; subst c1; subst c2
      exact ⟨x, rfl⟩
    · simp [hc] at h
  · cases h

/-- **every plain non-keyword word is one `ID` token** — every rule list with `classOK`, every word -/
theorem C04_word_is_ID (c : Cfg) (hc : classOK c = true) (w : List Nat) (hw : PlainWord w) (hk : isKw c w = false) :
    lex c w = .ok [.tok "ID" false w] := by
  unfold classOK at hc
  unfold isKw at hk
  cases hs : splitAtID c.rules with
  | none => rw [hs] at hc; cases hc
  | some x =>
    obtain ⟨pre, idr, post⟩ := x
    rw [hs] at hc hk
    simp only [Bool.and_eq_true, List.all_eq_true, Bool.not_eq_true'] at hc
    obtain ⟨⟨⟨⟨hpre, hign⟩, hid⟩, hword⟩, hignore⟩ := hc
    obtain ⟨erules, ename⟩ := splitAtID_spec hs
    obtain ⟨hall, c0, t0, ew, hlet⟩ := hw
    -- membership facts as Booleans
    have hW : ∀ d ∈ w, c.word.mem d = true := fun d hd => allMemR_sound hword (hall d hd)
    cases hsh : idShape idr.re with
    | none => rw [hsh] at hid; cases hid
    | some ab =>
      obtain ⟨A, B⟩ := ab
      rw [hsh] at hid
      simp only [Bool.and_eq_true] at hid
      obtain ⟨hA, hB⟩ := hid
      obtain ⟨alt2, ere⟩ := idShape_spec hsh
      have hAw : ∀ d ∈ w, A.mem d = true := fun d hd => allMemR_sound hA (hall d hd)
      have hBw : ∃ d ∈ w, B.mem d = true := ⟨c0, by rw [ew]; exact List.mem_cons_self, allMemR_sound hB hlet⟩
      -- the rules in front of `ID` do not match at the start of `w`
      have hnone : ∀ r ∈ pre, matchAt c.word r.re ⟨[], w⟩ = none := by
        intro r hr
        have hok := hpre r hr
        unfold ruleOK at hok
        simp only [Bool.or_eq_true] at hok
        rcases hok with (ho | hkw) | hf
        · exact matchAt_none_of_needsOut ho (fun d hd => mem_sound (hW d hd))
        · cases hks : kwSets r.re with
          | none => rw [hks] at hkw; cases hkw
          | some sets =>
            rw [hks] at hkw
            cases hm : matchAt c.word r.re ⟨[], w⟩ with
            | none => rfl
            | some q =>
              have hne : sets ≠ [] := by
                intro h0; subst h0; simp at hkw
              have := kw_match hks hne (p := ⟨[], w⟩) hW hm
              have hk' := (List.any_eq_false.mp hk) r hr
              rw [hks] at hk'
              simp only at this hk'
              rw [this] at hk'
              exact absurd rfl hk'
        · simp only [Bool.and_eq_true] at hf
          exact matchAt_none_of_first hf.1 hf.2 (p := ⟨[], w⟩) ew hlet
      -- the `ID` rule takes the whole word
      have hidm : matchAt c.word idr.re ⟨[], w⟩ = some ⟨w.reverse, []⟩ := by
        rw [ere]
        unfold matchAt
        simp only [m]
        have := idCore_match c.word A B w [] hAw hBw
        unfold matchAt at this
        rw [this]
        simp [Option.orElse, Pos.fin]
      have hfm : firstMatch c.word c.rules ⟨[], w⟩ = some (idr, ⟨w.reverse, []⟩) := by
        rw [erules, firstMatch_skip pre _ hnone]
        simp [firstMatch, hidm]
      -- run the loop
      have hc0 : c.ignore.mem c0 = false := by
        cases h : c.ignore.mem c0 with
        | false => rfl
        | true => exact (disjointR_sound hignore (mem_sound h) hlet).elim
      unfold lex
      rw [ew] at hfm ⊢
      simp only [List.length_cons, lexLoop, hc0, Bool.false_eq_true, if_false, hfm]
      simp only [List.length_nil, Nat.zero_lt_succ, if_true]
      cases hn : t0.length + 1 with
      | zero => omega
      | succ n => simp [lexLoop, ename, hign, between]

/-! ### the live rule lists -/

theorem classOK_sqlite : classOK LexRe_sqlite.cfg = true := by decide +kernel
theorem classOK_mysql : classOK LexRe_mysql.cfg = true := by decide +kernel
theorem classOK_mindsdb : classOK LexRe_mindsdb.cfg = true := by decide +kernel

theorem C04_word_is_ID_sqlite (w : List Nat) (hw : PlainWord w) (hk : isKw LexRe_sqlite.cfg w = false) :
    lex LexRe_sqlite.cfg w = .ok [.tok "ID" false w] := C04_word_is_ID _ classOK_sqlite w hw hk
theorem C04_word_is_ID_mysql (w : List Nat) (hw : PlainWord w) (hk : isKw LexRe_mysql.cfg w = false) :
    lex LexRe_mysql.cfg w = .ok [.tok "ID" false w] := C04_word_is_ID _ classOK_mysql w hw hk
theorem C04_word_is_ID_mindsdb (w : List Nat) (hw : PlainWord w) (hk : isKw LexRe_mindsdb.cfg w = false) :
    lex LexRe_mindsdb.cfg w = .ok [.tok "ID" false w] := C04_word_is_ID _ classOK_mindsdb w hw hk

/-- non-vacuity / exactness on examples: `selected`, `_x1`, `fromage` are not keywords; `select`, `SeLeCt`, `knowledge_base`
are; a keyword word does NOT lex as `ID` -/
theorem C04_kw_examples :
    isKw LexRe_mindsdb.cfg [115, 101, 108, 101, 99, 116, 101, 100] = false ∧
    isKw LexRe_mindsdb.cfg [95, 120, 49] = false ∧
    isKw LexRe_mindsdb.cfg [115, 101, 108, 101, 99, 116] = true ∧
    isKw LexRe_mindsdb.cfg [83, 101, 76, 101, 67, 116] = true ∧
    isKw LexRe_mindsdb.cfg [107, 110, 111, 119, 108, 101, 100, 103, 101, 95, 98, 97, 115, 101] = true ∧
    lex LexRe_mindsdb.cfg [115, 101, 108, 101, 99, 116] = .ok [.tok "SELECT" false [115, 101, 108, 101, 99, 116]] := by
  decide +kernel

/-! ### Φ4 at the regex level: every keyword word is (a case variant of) a reserved word or an `id` alternative -/

def plainChars : List Nat := List.range' 48 10 ++ List.range' 65 26 ++ [95] ++ List.range' 97 26

theorem plain_mem {c : Nat} (h : inSet plainSet c) : c ∈ plainChars := by
  obtain ⟨r, hr, h1, h2⟩ := h
  simp only [plainSet, List.mem_cons, List.not_mem_nil, or_false] at hr
  simp only [plainChars, List.mem_append, List.mem_range', List.mem_cons, List.not_mem_nil, or_false]
  rcases hr with rfl | rfl | rfl | rfl
  · left; left; left; exact ⟨c - 48, by omega, by omega⟩
  · left; left; right; exact ⟨c - 65, by omega, by omega⟩
  · left; right; omega
  · right; exact ⟨c - 97, by omega, by omega⟩

/-- ASCII `str.upper()` -/
def upperA (c : Nat) : Nat := if 97 ≤ c ∧ c ≤ 122 then c - 32 else c

/-- the plain characters of a class all have one upper case: that character -/
def canonChar (s : CSet) : Option Nat :=
  match plainChars.filter (fun c => s.mem c) with
  | [] => none
  | m0 :: ms => if ms.all (fun x => upperA x == upperA m0) then some (upperA m0) else none

def canonWord : List CSet → Option (List Nat)
  | [] => some []
  | s :: ss => match canonChar s, canonWord ss with
    | some u, some us => some (u :: us)
    | _, _ => none

theorem canonChar_spec {s : CSet} {u c : Nat} (h : canonChar s = some u) (hc : s.mem c = true) (hp : c ∈ plainChars) :
    upperA c = u := by
  unfold canonChar at h
  have hm : c ∈ plainChars.filter (fun c => s.mem c) := List.mem_filter.mpr ⟨hp, hc⟩
  cases hf : plainChars.filter (fun c => s.mem c) with
  | nil => rw [hf] at hm; cases hm
  | cons m0 ms =>
    rw [hf] at h hm
    simp only at h
    by_cases ha : (ms.all fun x => upperA x == upperA m0) = true
    · simp only [ha, if_true, Option.some.injEq] at h
      rcases List.mem_cons.mp hm with h0 | h0
      · subst h0; exact h
      · have := (List.all_eq_true.mp ha) c h0
        simp only [beq_iff_eq] at this
        rw [this]; exact h
    · simp [ha] at h

theorem canon_of_match : ∀ (sets : List CSet) (w u : List Nat), canonWord sets = some u → kwMatch sets w = true →
    (∀ c ∈ w, c ∈ plainChars) → w.map upperA = u := by
  intro sets
  induction sets with
  | nil =>
    intro w u hcw hm _
    cases w with
    | nil => simp only [canonWord, Option.some.injEq] at hcw; subst hcw; rfl
    | cons c t => simp [kwMatch] at hm
  | cons s ss ih =>
    intro w u hcw hm hp
    cases w with
    | nil => simp [kwMatch] at hm
    | cons c t =>
      simp only [kwMatch, Bool.and_eq_true] at hm
      unfold canonWord at hcw
      cases hc : canonChar s with
      | none => rw [hc] at hcw; simp at hcw
      | some u0 =>
        cases hw : canonWord ss with
        | none => rw [hc, hw] at hcw; simp at hcw
        | some us =>
          rw [hc, hw] at hcw
          simp only [Option.some.injEq] at hcw
          subst hcw
          simp only [List.map_cons, List.cons.injEq]
          exact ⟨canonChar_spec hc hm.1 (hp c List.mem_cons_self),
            ih t us hw hm.2 fun d hd => hp d (List.mem_cons_of_mem _ hd)⟩

/-- a class without a plain character (the blank of `\bGROUP BY\b`): such a rule matches no plain word -/
def unmatchable (sets : List CSet) : Bool := sets.any fun s => plainChars.all fun c => !s.mem c

theorem unmatchable_spec : ∀ (sets : List CSet) (w : List Nat), unmatchable sets = true → kwMatch sets w = true →
    (∀ c ∈ w, c ∈ plainChars) → False := by
  intro sets
  induction sets with
  | nil => intro w h; simp [unmatchable] at h
  | cons s ss ih =>
    intro w h hm hp
    cases w with
    | nil => simp [kwMatch] at hm
    | cons c t =>
      simp only [kwMatch, Bool.and_eq_true] at hm
      simp only [unmatchable, List.any_cons, Bool.or_eq_true] at h
      rcases h with h0 | h0
      · have := (List.all_eq_true.mp h0) c (hp c List.mem_cons_self)
        simp [hm.1] at this
      · exact ih t (by simpa [unmatchable] using h0) hm.2 fun d hd => hp d (List.mem_cons_of_mem _ hd)

/-- the obligation the kernel decides: every keyword rule in front of `ID` has one canonical upper-case word, and that word
is reserved (`get_reserved_words()`) or the rule's token is an `id` alternative of the grammar -/
def kwReserved (reserved : List (List Nat)) (idAlts : List String) (c : Cfg) : Bool :=
  match splitAtID c.rules with
  | none => false
  | some (pre, _, _) => pre.all fun r =>
    match kwSets r.re with
    | none => true
    | some sets =>
      unmatchable sets ||
      match canonWord sets with
      | none => false
      | some u => reserved.contains u || idAlts.contains r.name

/-- **Φ4, regex level**: a plain word that a keyword rule matches is, upper-cased, a reserved word — or the keyword is one
the grammar also accepts as an identifier -/
theorem C04_kw_reserved (reserved : List (List Nat)) (idAlts : List String) (c : Cfg)
    (hk : kwReserved reserved idAlts c = true) (w : List Nat) (hw : PlainWord w) (hkw : isKw c w = true) :
    reserved.contains (w.map upperA) = true ∨
      ∃ r ∈ c.rules, idAlts.contains r.name = true ∧ ∃ sets, kwSets r.re = some sets ∧ kwMatch sets w = true := by
  unfold kwReserved at hk
  unfold isKw at hkw
  cases hs : splitAtID c.rules with
  | none => rw [hs] at hk; cases hk
  | some x =>
    obtain ⟨pre, idr, post⟩ := x
    rw [hs] at hk hkw
    obtain ⟨erules, _⟩ := splitAtID_spec hs
    obtain ⟨r, hr, hm⟩ := List.any_eq_true.mp hkw
    have hok := (List.all_eq_true.mp hk) r hr
    cases hks : kwSets r.re with
    | none => rw [hks] at hm; cases hm
    | some sets =>
      rw [hks] at hm hok
      simp only [Bool.or_eq_true] at hm hok
      have hpl : ∀ d ∈ w, d ∈ plainChars := fun d hd => plain_mem (hw.1 d hd)
      rcases hok with hun | hok
      · exact (unmatchable_spec sets w hun hm hpl).elim
      · cases hcw : canonWord sets with
        | none => rw [hcw] at hok; cases hok
        | some u =>
          rw [hcw] at hok
          simp only [Bool.or_eq_true] at hok
          have hu := canon_of_match sets w u hcw hm hpl
          rcases hok with h1 | h2
          · left; rw [hu]; exact h1
          · right
            exact ⟨r, by rw [erules]; exact List.mem_append_left _ hr, h2, sets, hks, hm⟩

def reservedN : List (List Nat) := Reserved.wordsC.map fun w => w.map Char.toNat

theorem kwReserved_sqlite : kwReserved reservedN Lex_sqlite.idAlts LexRe_sqlite.cfg = true := by decide +kernel
theorem kwReserved_mysql : kwReserved reservedN Lex_mysql.idAlts LexRe_mysql.cfg = true := by decide +kernel
theorem kwReserved_mindsdb : kwReserved reservedN Lex_mindsdb.idAlts LexRe_mindsdb.cfg = true := by decide +kernel

/-- **the printer's condition suffices** (single-part identifiers, live lexers): a word that `parts_to_str` prints without
back-quotes — plain, upper case not reserved — comes back from the lexer as one `ID` token, unless it is a keyword that the
grammar itself accepts in `id` position -/
theorem C04_unquoted_word (reserved : List (List Nat)) (idAlts : List String) (c : Cfg) (hc : classOK c = true)
    (hk : kwReserved reserved idAlts c = true) (w : List Nat) (hw : PlainWord w)
    (hr : reserved.contains (w.map upperA) = false) :
    lex c w = .ok [.tok "ID" false w] ∨
      ∃ r ∈ c.rules, idAlts.contains r.name = true ∧ ∃ sets, kwSets r.re = some sets ∧ kwMatch sets w = true := by
  cases hkw : isKw c w with
  | false => left; exact C04_word_is_ID c hc w hw hkw
  | true =>
    rcases C04_kw_reserved reserved idAlts c hk w hw hkw with h | h
    · rw [hr] at h; cases h
    · right; exact h

theorem C04_unquoted_word_mindsdb (w : List Nat) (hw : PlainWord w) (hr : reservedN.contains (w.map upperA) = false) :
    lex LexRe_mindsdb.cfg w = .ok [.tok "ID" false w] ∨
      ∃ r ∈ LexRe_mindsdb.cfg.rules, Lex_mindsdb.idAlts.contains r.name = true ∧
        ∃ sets, kwSets r.re = some sets ∧ kwMatch sets w = true :=
  C04_unquoted_word _ _ _ classOK_mindsdb kwReserved_mindsdb w hw hr
theorem C04_unquoted_word_mysql (w : List Nat) (hw : PlainWord w) (hr : reservedN.contains (w.map upperA) = false) :
    lex LexRe_mysql.cfg w = .ok [.tok "ID" false w] ∨
      ∃ r ∈ LexRe_mysql.cfg.rules, Lex_mysql.idAlts.contains r.name = true ∧
        ∃ sets, kwSets r.re = some sets ∧ kwMatch sets w = true :=
  C04_unquoted_word _ _ _ classOK_mysql kwReserved_mysql w hw hr
theorem C04_unquoted_word_sqlite (w : List Nat) (hw : PlainWord w) (hr : reservedN.contains (w.map upperA) = false) :
    lex LexRe_sqlite.cfg w = .ok [.tok "ID" false w] ∨
      ∃ r ∈ LexRe_sqlite.cfg.rules, Lex_sqlite.idAlts.contains r.name = true ∧
        ∃ sets, kwSets r.re = some sets ∧ kwMatch sets w = true :=
  C04_unquoted_word _ _ _ classOK_sqlite kwReserved_sqlite w hw hr

/-! ### numbers: a string of ASCII digits is ONE `INTEGER` token -/

def digitSet : CSet := [(48, 57)]

def splitAt (name : String) : List Rule → Option (List Rule × Rule × List Rule)
  | [] => none
  | r :: rs => if r.name == name then some ([], r, rs) else (splitAt name rs).map fun (a, x, b) => (r :: a, x, b)

theorem splitAt_spec {name : String} : ∀ {rules pre x post}, splitAt name rules = some (pre, x, post) →
    rules = pre ++ x :: post ∧ x.name = name := by
  intro rules
  induction rules with
  | nil => intro _ _ _ h; simp [splitAt] at h
  | cons r rs ih =>
    intro pre x post h
    unfold splitAt at h
    by_cases hn : (r.name == name) = true
    · simp only [hn, if_true, Option.some.injEq, Prod.mk.injEq] at h
      obtain ⟨h1, h2, h3⟩ := h
      subst h1; subst h2; subst h3
      exact ⟨rfl, by simpa using hn⟩
    · simp only [hn, Bool.false_eq_true, if_false, Option.map_eq_some_iff] at h
      obtain ⟨⟨a, y, b⟩, hs, he⟩ := h
      simp only [Prod.mk.injEq] at he
      obtain ⟨h1, h2, h3⟩ := he
      subst h1; subst h2; subst h3
      obtain ⟨e1, e2⟩ := ih hs
      exact ⟨by rw [e1]; rfl, e2⟩

/-- why a rule in front of `INTEGER` cannot match at the start of an all-digit text -/
def ruleOKnum (r : Re) : Bool :=
  needsOut digitSet r ||
  (nonNull r && disjointR (first r) digitSet) ||
  (match r with
   | .alt a b => (match idShape r with | some (_, bset) => noneMemR bset digitSet | none => false) &&
                 nonNull b && disjointR (first b) digitSet
   | _ => false)

def intShape : Re → Option CSet
  | .seq (.set a) (.star true (.set b)) => if a == b then some a else none
  | _ => none

def classOKnum (c : Cfg) : Bool :=
  match splitAt "INTEGER" c.rules with
  | none => false
  | some (pre, ir, _) =>
    pre.all (fun r => ruleOKnum r.re) && !ir.ignored &&
    (match intShape ir.re with | some d => allMemR d digitSet | none => false) &&
    disjointR c.ignore digitSet

theorem intShape_spec {r : Re} {D : CSet} (h : intShape r = some D) : r = .seq (.set D) (.star true (.set D)) := by
  unfold intShape at h
  split at h
  · rename_i a b
    by_cases hab : (a == b) = true
    · simp only [hab, if_true, Option.some.injEq] at h
      simp only [beq_iff_eq] at hab
      subst hab; subst h; rfl
    · simp [hab] at h
  · cases h

theorem idShape_alt {r : Re} {a b : CSet} (h : idShape r = some (a, b)) {x y : Re} (hr : r = .alt x y) : x = idCore a b := by
  obtain ⟨z, hz⟩ := idShape_spec h
  rw [hr] at hz
  cases hz
  rfl

/-- **every non-empty string of ASCII digits is one `INTEGER` token** — every rule list with `classOKnum`, every length -/
theorem C04_digits_are_INTEGER (c : Cfg) (hc : classOKnum c = true) (d : List Nat) (hne : d ≠ [])
    (hd : ∀ x ∈ d, inSet digitSet x) : lex c d = .ok [.tok "INTEGER" false d] := by
  unfold classOKnum at hc
  cases hs : splitAt "INTEGER" c.rules with
  | none => rw [hs] at hc; cases hc
  | some x =>
    obtain ⟨pre, ir, post⟩ := x
    rw [hs] at hc
    simp only [Bool.and_eq_true, List.all_eq_true, Bool.not_eq_true'] at hc
    obtain ⟨⟨⟨hpre, hign⟩, hint⟩, hignore⟩ := hc
    obtain ⟨erules, ename⟩ := splitAt_spec hs
    cases d with
    | nil => exact absurd rfl hne
    | cons c0 t0 =>
      have hc0d : inSet digitSet c0 := hd c0 List.mem_cons_self
      have hnone : ∀ r ∈ pre, matchAt c.word r.re ⟨[], c0 :: t0⟩ = none := by
        intro r hr
        have hok := hpre r hr
        unfold ruleOKnum at hok
        simp only [Bool.or_eq_true] at hok
        rcases hok with (ho | hf) | hid
        · exact matchAt_none_of_needsOut ho (fun x hx => hd x hx)
        · simp only [Bool.and_eq_true] at hf
          exact matchAt_none_of_first hf.1 hf.2 (p := ⟨[], c0 :: t0⟩) rfl hc0d
        · -- the `ID` rule: its core needs a character of `B`, its other branch starts with a back-quote
          cases hre : r.re with
          | alt a b =>
            rw [hre] at hid
            simp only [Bool.and_eq_true] at hid
            obtain ⟨⟨hsh, hnb⟩, hfb⟩ := hid
            cases hsp : idShape (Re.alt a b) with
            | none => rw [hsp] at hsh; cases hsh
            | some ab =>
              obtain ⟨A, B⟩ := ab
              rw [hsp] at hsh
              have ea := idShape_alt hsp rfl
              unfold matchAt
              simp only [m]
              have h1 : m c.word a ⟨[], c0 :: t0⟩ some = none := by
                rw [ea]
                exact idCore_none c.word A B ⟨[], c0 :: t0⟩ (fun x hx => noneMemR_sound hsh (hd x hx))
              have h2 : m c.word b ⟨[], c0 :: t0⟩ some = none :=
                matchAt_none_of_first hnb hfb (p := ⟨[], c0 :: t0⟩) rfl hc0d
              rw [h1, h2]; rfl
          | _ => rw [hre] at hid; simp at hid
      cases hsh : intShape ir.re with
      | none => rw [hsh] at hint; cases hint
      | some D =>
        rw [hsh] at hint
        have ere : ir.re = .seq (.set D) (.star true (.set D)) := intShape_spec hsh
        have hD : ∀ x ∈ c0 :: t0, D.mem x = true := fun x hx => allMemR_sound hint (hd x hx)
        have him : matchAt c.word ir.re ⟨[], c0 :: t0⟩ = some ⟨(c0 :: t0).reverse, []⟩ := by
          rw [ere, plus_set_all c.word D [] c0 t0 hD]
          simp [Pos.fin]
        have hfm : firstMatch c.word c.rules ⟨[], c0 :: t0⟩ = some (ir, ⟨(c0 :: t0).reverse, []⟩) := by
          rw [erules, firstMatch_skip pre _ hnone]
          simp [firstMatch, him]
        have hig : c.ignore.mem c0 = false := by
          cases h : c.ignore.mem c0 with
          | false => rfl
          | true => exact (disjointR_sound hignore (mem_sound h) hc0d).elim
        unfold lex
        simp only [List.length_cons, lexLoop, hig, Bool.false_eq_true, if_false, hfm]
        simp only [List.length_nil, Nat.zero_lt_succ, if_true]
        cases hn : t0.length + 1 with
        | zero => omega
        | succ n => simp [lexLoop, ename, hign, between]

theorem classOKnum_sqlite : classOKnum LexRe_sqlite.cfg = true := by decide +kernel
theorem classOKnum_mysql : classOKnum LexRe_mysql.cfg = true := by decide +kernel
theorem classOKnum_mindsdb : classOKnum LexRe_mindsdb.cfg = true := by decide +kernel

theorem C04_digits_are_INTEGER_sqlite (d : List Nat) (hne : d ≠ []) (hd : ∀ x ∈ d, inSet digitSet x) :
    lex LexRe_sqlite.cfg d = .ok [.tok "INTEGER" false d] := C04_digits_are_INTEGER _ classOKnum_sqlite d hne hd
theorem C04_digits_are_INTEGER_mysql (d : List Nat) (hne : d ≠ []) (hd : ∀ x ∈ d, inSet digitSet x) :
    lex LexRe_mysql.cfg d = .ok [.tok "INTEGER" false d] := C04_digits_are_INTEGER _ classOKnum_mysql d hne hd
theorem C04_digits_are_INTEGER_mindsdb (d : List Nat) (hne : d ≠ []) (hd : ∀ x ∈ d, inSet digitSet x) :
    lex LexRe_mindsdb.cfg d = .ok [.tok "INTEGER" false d] := C04_digits_are_INTEGER _ classOKnum_mindsdb d hne hd

/-! ### quoted names: the printer's back-quoted form of ANY name is ONE `ID` token -/

def bqSet : CSet := [(96, 96)]
def notBqSet : CSet := [(0, 95), (97, 1114111)]

def idShape2 (r : Re) : Option (CSet × CSet × CSet × CSet) :=
  match r with
  | .alt (.seq (.star true (.set a)) (.seq (.seq (.set b) (.star true (.set b'))) (.star true (.set a'))))
      (.seq (.set q) (.seq (.seq (.alt (.set n) (.seq (.set q1) (.set q2)))
        (.star true (.alt (.set n') (.seq (.set q3) (.set q4))))) (.set q5))) =>
    if a == a' && b == b' && q == q1 && q == q2 && q == q3 && q == q4 && q == q5 && n == n' then some (a, b, q, n) else none
  | _ => none

theorem idShape2_spec {r : Re} {a b q n : CSet} (h : idShape2 r = some (a, b, q, n)) :
    r = .alt (idCore a b) (bqRe q n) := by
  unfold idShape2 at h
  split at h
  · rename_i a0 b0 b1 a1 q0 n0 q1 q2 n1 q3 q4 q5
    by_cases hc : (a0 == a1 && b0 == b1 && q0 == q1 && q0 == q2 && q0 == q3 && q0 == q4 && q0 == q5 && n0 == n1) = true
    · simp only [hc, if_true, Option.some.injEq, Prod.mk.injEq] at h
      simp only [Bool.and_eq_true, beq_iff_eq] at hc
      obtain ⟨⟨⟨⟨⟨⟨⟨c1, c2⟩, c3⟩, c4⟩, c5⟩, c6⟩, c7⟩, c8⟩ := hc
      obtain ⟨h1, h2, h3, h4⟩ := h
      subst h1; subst h2; subst h3; subst h4
      subst c1; subst c2; subst c3; subst c4; subst c5; subst c6; subst c7; subst c8
      rfl
    · simp [hc] at h
  · cases h

def classOKbq (c : Cfg) : Bool :=
  match splitAtID c.rules with
  | none => false
  | some (pre, idr, _) =>
    pre.all (fun r => nonNull r.re && disjointR (first r.re) bqSet) && !idr.ignored &&
    (match idShape2 idr.re with
     | some (a, b, q, n) => !a.mem 96 && !b.mem 96 && q == bqSet && n == notBqSet
     | none => false) &&
    disjointR c.ignore bqSet

theorem notBq_mem {c : Nat} (h1 : c ≠ 96) (h2 : c ≤ 1114111) : notBqSet.mem c = true := by
  unfold notBqSet
  by_cases h : c ≤ 95
  · have : Nat.ble c 95 = true := Nat.ble_eq_true_of_le h
    simp [CSet.mem, this]
  · have h97 : 97 ≤ c := by omega
    have a : Nat.blt c 97 = false := by
      cases ha : Nat.blt c 97 with
      | false => rfl
      | true => rw [Nat.blt_eq] at ha; omega
    have b : Nat.ble c 95 = false := by
      cases hb : Nat.ble c 95 with
      | false => rfl
      | true => exact absurd (Nat.le_of_ble_eq_true hb) h
    have d : Nat.ble c 1114111 = true := Nat.ble_eq_true_of_le h2
    simp [CSet.mem, a, b, d]

/-- **the back-quoted form of every non-empty name is one `ID` token** — every rule list with `classOKbq`, every name over
the code points of a Python string (back-quotes inside doubled, as `parts_to_str` prints them) -/
theorem C04_quoted_is_ID (c : Cfg) (hc : classOKbq c = true) (body : List Nat) (hne : body ≠ [])
    (hcp : ∀ x ∈ body, x ≤ 1114111) :
    lex c (96 :: (bqBody 96 body ++ [96])) = .ok [.tok "ID" false (96 :: (bqBody 96 body ++ [96]))] := by
  unfold classOKbq at hc
  cases hs : splitAtID c.rules with
  | none => rw [hs] at hc; cases hc
  | some x =>
    obtain ⟨pre, idr, post⟩ := x
    rw [hs] at hc
    simp only [Bool.and_eq_true, List.all_eq_true, Bool.not_eq_true'] at hc
    obtain ⟨⟨⟨hpre, hign⟩, hid⟩, hignore⟩ := hc
    obtain ⟨erules, ename⟩ := splitAtID_spec hs
    have hq96 : inSet bqSet 96 := ⟨(96, 96), List.mem_cons_self, Nat.le_refl _, Nat.le_refl _⟩
    have hnone : ∀ r ∈ pre, matchAt c.word r.re ⟨[], 96 :: (bqBody 96 body ++ [96])⟩ = none := by
      intro r hr
      have := hpre r hr
      exact matchAt_none_of_first this.1 this.2 (p := ⟨[], 96 :: (bqBody 96 body ++ [96])⟩) rfl hq96
    cases hsh : idShape2 idr.re with
    | none => rw [hsh] at hid; cases hid
    | some t4 =>
      obtain ⟨A, B, Q, N⟩ := t4
      rw [hsh] at hid
      simp only [Bool.and_eq_true, Bool.not_eq_true', beq_iff_eq] at hid
      obtain ⟨⟨⟨hA, hB⟩, hQ⟩, hN⟩ := hid
      subst hQ; subst hN
      have ere := idShape2_spec hsh
      have hok : BqOK bqSet notBqSet 96 body :=
        ⟨by decide, by decide, fun x hx hne => notBq_mem hne (hcp x hx)⟩
      have hidm : matchAt c.word idr.re ⟨[], 96 :: (bqBody 96 body ++ [96])⟩
          = some ⟨(96 :: (bqBody 96 body ++ [96])).reverse, []⟩ := by
        rw [ere]
        unfold matchAt
        rw [m_alt]
        have h1 := idCore_none_head c.word A B [] 96 (bqBody 96 body ++ [96]) hA hB
        have h2 := bqRe_match c.word bqSet notBqSet 96 body hne hok []
        unfold matchAt at h1 h2
        rw [h1, h2]
        simp [Option.orElse, Pos.fin]
      have hfm : firstMatch c.word c.rules ⟨[], 96 :: (bqBody 96 body ++ [96])⟩
          = some (idr, ⟨(96 :: (bqBody 96 body ++ [96])).reverse, []⟩) := by
        rw [erules, firstMatch_skip pre _ hnone]
        simp [firstMatch, hidm]
      have hig : c.ignore.mem 96 = false := by
        cases h : c.ignore.mem 96 with
        | false => rfl
        | true => exact (disjointR_sound hignore (mem_sound h) hq96).elim
      unfold lex
      simp only [List.length_cons, lexLoop, hig, Bool.false_eq_true, if_false, hfm]
      simp only [List.length_nil, Nat.zero_lt_succ, if_true]
      cases hn : (bqBody 96 body ++ [96]).length + 1 with
      | zero => omega
      | succ n =>
        have ht : List.take ((bqBody 96 body).length + 1) (bqBody 96 body ++ [96]) = bqBody 96 body ++ [96] := by
          apply List.take_of_length_le; simp
        simp [lexLoop, ename, hign, between, ht]

theorem classOKbq_sqlite : classOKbq LexRe_sqlite.cfg = true := by decide +kernel
theorem classOKbq_mysql : classOKbq LexRe_mysql.cfg = true := by decide +kernel
theorem classOKbq_mindsdb : classOKbq LexRe_mindsdb.cfg = true := by decide +kernel

theorem C04_quoted_is_ID_sqlite (body : List Nat) (hne : body ≠ []) (hcp : ∀ x ∈ body, x ≤ 1114111) :
    lex LexRe_sqlite.cfg (96 :: (bqBody 96 body ++ [96])) = .ok [.tok "ID" false (96 :: (bqBody 96 body ++ [96]))] :=
  C04_quoted_is_ID _ classOKbq_sqlite body hne hcp
theorem C04_quoted_is_ID_mysql (body : List Nat) (hne : body ≠ []) (hcp : ∀ x ∈ body, x ≤ 1114111) :
    lex LexRe_mysql.cfg (96 :: (bqBody 96 body ++ [96])) = .ok [.tok "ID" false (96 :: (bqBody 96 body ++ [96]))] :=
  C04_quoted_is_ID _ classOKbq_mysql body hne hcp
theorem C04_quoted_is_ID_mindsdb (body : List Nat) (hne : body ≠ []) (hcp : ∀ x ∈ body, x ≤ 1114111) :
    lex LexRe_mindsdb.cfg (96 :: (bqBody 96 body ++ [96])) = .ok [.tok "ID" false (96 :: (bqBody 96 body ++ [96]))] :=
  C04_quoted_is_ID _ classOKbq_mindsdb body hne hcp

/-! ### [review] non-vacuity on concrete words, and what the theorems do NOT say -/

-- [review] `selected` (a keyword plus two letters) satisfies the hypotheses of `C04_word_is_ID_mindsdb`; the conclusion is
-- obtained FROM THE THEOREM, not by evaluation
theorem review_selected_is_ID :
    lex LexRe_mindsdb.cfg [115, 101, 108, 101, 99, 116, 101, 100] = .ok [.tok "ID" false [115, 101, 108, 101, 99, 116, 101, 100]] := by
  apply C04_word_is_ID_mindsdb
  · refine ⟨?_, 115, [101, 108, 101, 99, 116, 101, 100], rfl, ⟨(97, 122), by simp [letterSet], by decide, by decide⟩⟩
    intro c hc
    simp only [List.mem_cons, List.not_mem_nil, or_false] at hc
    refine ⟨(97, 122), by simp [plainSet], ?_, ?_⟩ <;> rcases hc with h | h | h | h | h | h | h | h <;> subst h <;> decide
  · decide +kernel

-- [review] a quoted name with odd characters: body = back-quote, newline, NUL, U+1F600, `'`, lone surrogate U+D800 —
-- printed as `` ` `` `` `` ⏎ NUL 😀 ' \ud800 `` ` `` — is one `ID` token (from the theorem)
theorem review_odd_quoted_name :
    lex LexRe_mindsdb.cfg (96 :: (bqBody 96 [96, 10, 0, 128512, 39, 55296] ++ [96])) =
      .ok [.tok "ID" false (96 :: (bqBody 96 [96, 10, 0, 128512, 39, 55296] ++ [96]))] := by
  apply C04_quoted_is_ID_mindsdb
  · simp
  · intro x hx
    simp only [List.mem_cons, List.not_mem_nil, or_false] at hx
    rcases hx with h | h | h | h | h | h <;> subst h <;> decide

-- [review] and the encoded text really is what one expects (the inner back-quote is doubled)
theorem review_bqBody_example : bqBody 96 [96, 10, 0, 128512, 39, 55296] = [96, 96, 10, 0, 128512, 39, 55296] := by decide

-- [review] **scope of `C04_word_is_ID`**: the theorem is about a text that IS the word.  Inside a statement the same word
-- is an `ID` token here (evaluation on one instance, `select selected from t`) — but that is not what the theorem states,
-- and it does depend on the neighbours: `1selected`, `$selected` are ONE `ID` token including the prefix (the `ID` class
-- holds digits and `$`), `@selected` is a VARIABLE, `selected.` / `.selected` are fine.  A general in-context statement
-- (start position with a previous character outside the `ID` class A and outside `\w`, next character outside A) is
-- not proved anywhere.
theorem review_word_in_context :
    (match lex LexRe_mindsdb.cfg [115, 101, 108, 101, 99, 116, 32, 115, 101, 108, 101, 99, 116, 101, 100, 32, 102, 114, 111, 109, 32, 116] with
     | .ok segs => tokensFrom 0 segs | _ => []) = [("SELECT", 0, 6), ("ID", 7, 15), ("FROM", 16, 20), ("ID", 21, 22)] ∧
    (match lex LexRe_mindsdb.cfg [49, 115, 101, 108, 101, 99, 116, 101, 100] with
     | .ok segs => tokensFrom 0 segs | _ => []) = [("ID", 0, 9)] ∧
    (match lex LexRe_mindsdb.cfg [36, 115, 101, 108, 101, 99, 116] with
     | .ok segs => tokensFrom 0 segs | _ => []) = [("ID", 0, 7)] ∧
    (match lex LexRe_mindsdb.cfg [64, 115, 101, 108, 101, 99, 116, 101, 100] with
     | .ok segs => tokensFrom 0 segs | _ => []) = [("VARIABLE", 0, 9)] := by
  decide +kernel

-- [review] **`PlainWord` is ASCII; the live `ID` class is not**: under IGNORECASE+UNICODE `[a-zA-Z_$0-9]` also holds U+017F (ſ),
-- U+212A (K), U+0130 (İ), U+0131 (ı): `ſ` alone is an `ID` token, `ſelect` is the keyword SELECT.  The theorems are silent
-- about such words (their hypothesis excludes them); the printer never emits them unquoted, so the round trip is unaffected.
theorem review_nonascii_id :
    lex LexRe_mindsdb.cfg [383] = .ok [.tok "ID" false [383]] ∧
    lex LexRe_mindsdb.cfg [383, 101, 108, 101, 99, 116] = .ok [.tok "SELECT" false [383, 101, 108, 101, 99, 116]] := by
  decide +kernel

/-! ### inside a text: a plain non-keyword word followed by a stop character is the next token, `ID`

[review F2] the theorems above are about a text that IS the word.  Here the word stands anywhere (`pre` arbitrary) and is
followed by a character `d` that is no word character, no identifier character and occurs in no class of the keyword-like
rules — `.` `,` `(` `)` `;` `=` … (decided per character by the kernel: `stopOK`).  White space is not such a character for
every word: `knowledge base` is ONE keyword token, so a statement for blanks needs the word not to be a prefix of a
multi-word keyword; not done. -/

def stopOK (c : Cfg) (d : Nat) : Bool :=
  match splitAtID c.rules with
  | none => false
  | some (pre, idr, _) =>
    !c.word.mem d &&
    pre.all (fun r =>
      (needsOut c.word r.re && noChar d r.re) ||
      (match kwSets r.re with | some sets => !sets.isEmpty && noChar d r.re | none => false) ||
      (nonNull r.re && disjointR (first r.re) letterSet)) &&
    (match idShape idr.re with | some (a, b) => !a.mem d && !b.mem d | none => false)

/-- **the next token at a plain non-keyword word that is followed by a stop character is `ID`, and it ends behind the word**
— every rule list with `classOK`, every stop character with `stopOK`, every left context, every continuation -/
theorem C04_word_is_ID_at (c : Cfg) (hc : classOK c = true) (d : Nat) (hd : stopOK c d = true)
    (pre w rest : List Nat) (hw : PlainWord w) (hk : isKw c w = false) :
    ∃ idr, idr.name = "ID" ∧ idr.ignored = false ∧
      firstMatch c.word c.rules ⟨pre, w ++ d :: rest⟩ = some (idr, ⟨w.reverse ++ pre, d :: rest⟩) := by
  unfold classOK at hc
  unfold stopOK at hd
  unfold isKw at hk
  cases hs : splitAtID c.rules with
  | none => rw [hs] at hc; cases hc
  | some x =>
    obtain ⟨prer, idr, post⟩ := x
    rw [hs] at hc hk hd
    simp only [Bool.and_eq_true, List.all_eq_true, Bool.not_eq_true'] at hc hd
    obtain ⟨⟨⟨⟨_, hign⟩, hid⟩, hword⟩, _⟩ := hc
    obtain ⟨⟨hWd, hpre⟩, hidd⟩ := hd
    obtain ⟨erules, ename⟩ := splitAtID_spec hs
    obtain ⟨hall, c0, t0, ew, hlet⟩ := hw
    have hW : ∀ x ∈ w, c.word.mem x = true := fun x hx => allMemR_sound hword (hall x hx)
    cases hsh : idShape idr.re with
    | none => rw [hsh] at hid; cases hid
    | some ab =>
      obtain ⟨A, B⟩ := ab
      rw [hsh] at hid hidd
      simp only [Bool.and_eq_true, Bool.not_eq_true'] at hid hidd
      obtain ⟨hA, hB⟩ := hid
      obtain ⟨alt2, ere⟩ := idShape_spec hsh
      have hAw : ∀ x ∈ w, A.mem x = true := fun x hx => allMemR_sound hA (hall x hx)
      have hBw : ∃ x ∈ w, B.mem x = true := ⟨c0, by rw [ew]; exact List.mem_cons_self, allMemR_sound hB hlet⟩
      have hnone : ∀ r ∈ prer, matchAt c.word r.re ⟨pre, w ++ d :: rest⟩ = none := by
        intro r hr
        have hok := hpre r hr
        simp only [Bool.or_eq_true, Bool.and_eq_true] at hok
        rcases hok with (ho | hkw) | hf
        · exact matchAt_none_of_needsOut_at ho.1 ho.2 (fun x hx => mem_sound (hW x hx))
        · cases hks : kwSets r.re with
          | none => rw [hks] at hkw; cases hkw
          | some sets =>
            rw [hks] at hkw
            simp only [Bool.and_eq_true, Bool.not_eq_true'] at hkw
            cases hm : matchAt c.word r.re ⟨pre, w ++ d :: rest⟩ with
            | none => rfl
            | some q =>
              have hne : sets ≠ [] := by
                intro h0; subst h0; simp at hkw
              have := kw_match_at hks hne hWd hkw.2 hW hm
              have hk' := (List.any_eq_false.mp hk) r hr
              rw [hks] at hk'
              simp only at this hk'
              rw [this] at hk'
              exact absurd rfl hk'
        · have e : w ++ d :: rest = c0 :: (t0 ++ d :: rest) := by rw [ew]; rfl
          exact matchAt_none_of_first hf.1 hf.2 (p := ⟨pre, w ++ d :: rest⟩) e hlet
      have hidm : matchAt c.word idr.re ⟨pre, w ++ d :: rest⟩ = some ⟨w.reverse ++ pre, d :: rest⟩ := by
        rw [ere]
        unfold matchAt
        rw [m_alt]
        have := idCore_match_stop c.word A B d hidd.1 hidd.2 rest w pre hAw hBw
        unfold matchAt at this
        rw [this]
        rfl
      refine ⟨idr, ename, hign, ?_⟩
      rw [erules, firstMatch_skip prer _ hnone]
      simp [firstMatch, hidm]

/-- the stop characters the printers put behind a name: `.` `,` `(` `)` `;` `=` `<` `>` `+` `*` `/` `%` `[` `]` `{` `}` `:` `~` — for the
three live rule lists -/
def stops : List Nat := [46, 44, 40, 41, 59, 61, 60, 62, 43, 42, 47, 37, 91, 93, 123, 125, 58, 126]

theorem stopOK_live :
    (stops.all fun d => stopOK LexRe_sqlite.cfg d) = true ∧ (stops.all fun d => stopOK LexRe_mysql.cfg d) = true ∧
    (stops.all fun d => stopOK LexRe_mindsdb.cfg d) = true := by
  decide +kernel

theorem C04_word_is_ID_at_mindsdb (d : Nat) (hd : d ∈ stops) (pre w rest : List Nat) (hw : PlainWord w)
    (hk : isKw LexRe_mindsdb.cfg w = false) :
    ∃ idr, idr.name = "ID" ∧ idr.ignored = false ∧
      firstMatch LexRe_mindsdb.cfg.word LexRe_mindsdb.cfg.rules ⟨pre, w ++ d :: rest⟩
        = some (idr, ⟨w.reverse ++ pre, d :: rest⟩) :=
  C04_word_is_ID_at _ classOK_mindsdb d ((List.all_eq_true.mp stopOK_live.2.2) d hd) pre w rest hw hk

/-- example: in `tab1.col2,` the first token is `ID` `tab1` and, behind the dot, the next is `ID` `col2` (left context `tab1.`) -/
theorem C04_at_example :
    (firstMatch LexRe_mindsdb.cfg.word LexRe_mindsdb.cfg.rules ⟨[], [116, 97, 98, 49, 46, 99, 111, 108, 50, 44]⟩).map
        (fun x => (x.1.name, x.2)) = some ("ID", ⟨[49, 98, 97, 116], [46, 99, 111, 108, 50, 44]⟩) ∧
    (firstMatch LexRe_mindsdb.cfg.word LexRe_mindsdb.cfg.rules ⟨[46, 49, 98, 97, 116], [99, 111, 108, 50, 44]⟩).map
        (fun x => (x.1.name, x.2)) = some ("ID", ⟨[50, 108, 111, 99, 46, 49, 98, 97, 116], [44]⟩) := by
  decide +kernel

/-! ### dotted paths: `w1.w2.….wn` of plain non-keyword words lexes to `ID (DOT ID)*`

The per-position facts are chained with the step relation of the loop (`Props/C02Lex.lean: Step / Steps`, [review]); `steps_lex`
is the converse of `C02_lexer_run_spec`: a step chain from the start to the end of the text IS the run. -/

open MindsVerif.Props.C02Lex in
theorem steps_lexLoop (c : Cfg) : ∀ {p e : Pos} {segs : List Seg}, Steps c p segs e → e.suf = [] →
    ∀ (n : Nat) (acc : List Seg), p.suf.length < n → lexLoop c n p acc = .ok (acc.reverse ++ segs) := by
  intro p e segs h
  induction h with
  | nil p =>
    intro he n acc hn
    cases n with
    | zero => omega
    | succ n =>
      obtain ⟨pre, suf⟩ := p
      have hsuf : suf = [] := he
      subst hsuf
      simp [lexLoop]
  | @cons p q e s segs hs _ ih =>
    intro he n acc hn
    cases n with
    | zero => omega
    | succ n =>
      obtain ⟨ppre, psuf⟩ := p
      cases hs with
      | skip pre ch t hig =>
        simp only [lexLoop, hig, if_true]
        rw [ih he n _ (by simp at hn ⊢; omega)]
        simp
      | tok _ ch t r q hsuf hig hfm hlt =>
        have hsuf' : psuf = ch :: t := hsuf
        subst hsuf'
        simp only [lexLoop, hig, Bool.false_eq_true, if_false, hfm]
        have hlt' : q.suf.length < (ch :: t).length := hlt
        rw [if_pos hlt', ih he n _ (by simp at hn hlt' ⊢; omega)]
        simp

open MindsVerif.Props.C02Lex in
/-- a step chain from the start to the end of the text is the run of the lexer -/
theorem steps_lex (c : Cfg) (s : List Nat) (segs : List Seg) (e : Pos) (h : Steps c ⟨[], s⟩ segs e) (he : e.suf = []) :
    lex c s = .ok segs := by
  have := steps_lexLoop c h he (s.length + 1) [] (by simp)
  simpa [lex] using this

/-- the `DOT` rule and the rules in front of it -/
def classOKdot (c : Cfg) : Bool :=
  match splitAt "DOT" c.rules with
  | none => false
  | some (pre, dr, _) =>
    pre.all (fun r => nonNull r.re && disjointR (first r.re) [(46, 46)]) && !dr.ignored &&
    (match dr.re with | .set D => D.mem 46 | _ => false) && !c.ignore.mem 46

theorem dot_firstMatch (c : Cfg) (hc : classOKdot c = true) (pre rest : List Nat) :
    ∃ dr, dr.name = "DOT" ∧ dr.ignored = false ∧
      firstMatch c.word c.rules ⟨pre, 46 :: rest⟩ = some (dr, ⟨46 :: pre, rest⟩) := by
  unfold classOKdot at hc
  cases hs : splitAt "DOT" c.rules with
  | none => rw [hs] at hc; cases hc
  | some x =>
    obtain ⟨prer, dr, post⟩ := x
    rw [hs] at hc
    simp only [Bool.and_eq_true, List.all_eq_true, Bool.not_eq_true'] at hc
    obtain ⟨⟨⟨hpre, hign⟩, hre⟩, _⟩ := hc
    obtain ⟨erules, ename⟩ := splitAt_spec hs
    have h46 : inSet [(46, 46)] 46 := ⟨(46, 46), List.mem_cons_self, Nat.le_refl _, Nat.le_refl _⟩
    have hnone : ∀ r ∈ prer, matchAt c.word r.re ⟨pre, 46 :: rest⟩ = none := fun r hr =>
      matchAt_none_of_first (hpre r hr).1 (hpre r hr).2 (p := ⟨pre, 46 :: rest⟩) rfl h46
    cases hd : dr.re with
    | set D =>
      rw [hd] at hre
      simp only at hre
      refine ⟨dr, ename, hign, ?_⟩
      rw [erules, firstMatch_skip prer _ hnone]
      simp [firstMatch, matchAt, hd, m, hre]
    | _ => rw [hd] at hre; simp at hre

/-- a plain non-keyword word that ends the text, any left context: the next token is `ID` and it takes the rest -/
theorem C04_word_is_ID_end (c : Cfg) (hc : classOK c = true) (pre w : List Nat) (hw : PlainWord w) (hk : isKw c w = false) :
    ∃ idr, idr.name = "ID" ∧ idr.ignored = false ∧
      firstMatch c.word c.rules ⟨pre, w⟩ = some (idr, ⟨w.reverse ++ pre, []⟩) := by
  unfold classOK at hc
  unfold isKw at hk
  cases hs : splitAtID c.rules with
  | none => rw [hs] at hc; cases hc
  | some x =>
    obtain ⟨prer, idr, post⟩ := x
    rw [hs] at hc hk
    simp only [Bool.and_eq_true, List.all_eq_true, Bool.not_eq_true'] at hc
    obtain ⟨⟨⟨⟨hpre, hign⟩, hid⟩, hword⟩, _⟩ := hc
    obtain ⟨erules, ename⟩ := splitAtID_spec hs
    obtain ⟨hall, c0, t0, ew, hlet⟩ := hw
    have hW : ∀ x ∈ w, c.word.mem x = true := fun x hx => allMemR_sound hword (hall x hx)
    cases hsh : idShape idr.re with
    | none => rw [hsh] at hid; cases hid
    | some ab =>
      obtain ⟨A, B⟩ := ab
      rw [hsh] at hid
      simp only [Bool.and_eq_true] at hid
      obtain ⟨hA, hB⟩ := hid
      obtain ⟨alt2, ere⟩ := idShape_spec hsh
      have hAw : ∀ x ∈ w, A.mem x = true := fun x hx => allMemR_sound hA (hall x hx)
      have hBw : ∃ x ∈ w, B.mem x = true := ⟨c0, by rw [ew]; exact List.mem_cons_self, allMemR_sound hB hlet⟩
      have hnone : ∀ r ∈ prer, matchAt c.word r.re ⟨pre, w⟩ = none := by
        intro r hr
        have hok := hpre r hr
        unfold ruleOK at hok
        simp only [Bool.or_eq_true] at hok
        rcases hok with (ho | hkw) | hf
        · exact matchAt_none_of_needsOut ho (fun x hx => mem_sound (hW x hx))
        · cases hks : kwSets r.re with
          | none => rw [hks] at hkw; cases hkw
          | some sets =>
            rw [hks] at hkw
            cases hm : matchAt c.word r.re ⟨pre, w⟩ with
            | none => rfl
            | some q =>
              have hne : sets ≠ [] := by
                intro h0; subst h0; simp at hkw
              have := kw_match hks hne (p := ⟨pre, w⟩) hW hm
              have hk' := (List.any_eq_false.mp hk) r hr
              rw [hks] at hk'
              simp only at this hk'
              rw [this] at hk'
              exact absurd rfl hk'
        · simp only [Bool.and_eq_true] at hf
          exact matchAt_none_of_first hf.1 hf.2 (p := ⟨pre, w⟩) ew hlet
      have hidm : matchAt c.word idr.re ⟨pre, w⟩ = some ⟨w.reverse ++ pre, []⟩ := by
        rw [ere]
        unfold matchAt
        rw [m_alt]
        have := idCore_match c.word A B w pre hAw hBw
        unfold matchAt at this
        rw [this]
        simp [Option.orElse, Pos.fin]
      refine ⟨idr, ename, hign, ?_⟩
      rw [erules, firstMatch_skip prer _ hnone]
      simp [firstMatch, hidm]

/-- the text of a dotted path -/
def pathText : List (List Nat) → List Nat
  | [] => []
  | [w] => w
  | w :: r => w ++ 46 :: pathText r

/-- its token pieces -/
def pathSegs : List (List Nat) → List Seg
  | [] => []
  | [w] => [.tok "ID" false w]
  | w :: r => .tok "ID" false w :: .tok "DOT" false [46] :: pathSegs r

theorem between_adv (pre l rest : List Nat) : between ⟨pre, l ++ rest⟩ ⟨l.reverse ++ pre, rest⟩ = l := by
  simp [between]

open MindsVerif.Props.C02Lex in
theorem path_steps (c : Cfg) (hc : classOK c = true) (hdot : classOKdot c = true) (hst : stopOK c 46 = true) :
    ∀ (ws : List (List Nat)), ws ≠ [] → (∀ w ∈ ws, PlainWord w ∧ isKw c w = false) →
    ∀ (pre : List Nat), ∃ e, e.suf = [] ∧ Steps c ⟨pre, pathText ws⟩ (pathSegs ws) e := by
  have hignL : disjointR c.ignore letterSet = true := by
    unfold classOK at hc
    cases hs : splitAtID c.rules with
    | none => rw [hs] at hc; cases hc
    | some x => rw [hs] at hc; simp only [Bool.and_eq_true] at hc; exact hc.2
  have hign46 : c.ignore.mem 46 = false := by
    unfold classOKdot at hdot
    cases hs : splitAt "DOT" c.rules with
    | none => rw [hs] at hdot; cases hdot
    | some x => rw [hs] at hdot; simp only [Bool.and_eq_true, Bool.not_eq_true'] at hdot; exact hdot.2
  have hhead : ∀ {w : List Nat}, PlainWord w → ∃ c0 t0, w = c0 :: t0 ∧ c.ignore.mem c0 = false := by
    intro w hw
    obtain ⟨_, c0, t0, ew, hlet⟩ := hw
    refine ⟨c0, t0, ew, ?_⟩
    cases h : c.ignore.mem c0 with
    | false => rfl
    | true => exact (disjointR_sound hignL (mem_sound h) hlet).elim
  intro ws
  induction ws with
  | nil => intro h; exact absurd rfl h
  | cons w r ih =>
    intro _ hall pre
    obtain ⟨hw, hk⟩ := hall w List.mem_cons_self
    obtain ⟨c0, t0, ew, hig0⟩ := hhead hw
    cases r with
    | nil =>
      obtain ⟨idr, hn, hi, hfm⟩ := C04_word_is_ID_end c hc pre w hw hk
      refine ⟨⟨w.reverse ++ pre, []⟩, rfl, ?_⟩
      have hs : Step c ⟨pre, w⟩ (.tok idr.name idr.ignored (between ⟨pre, w⟩ ⟨w.reverse ++ pre, []⟩)) ⟨w.reverse ++ pre, []⟩ :=
        Step.tok ⟨pre, w⟩ c0 t0 idr _ ew hig0 hfm (by rw [ew]; simp)
      have hb : between ⟨pre, w⟩ ⟨w.reverse ++ pre, []⟩ = w := by
        have := between_adv pre w []; simpa using this
      rw [hn, hi, hb] at hs
      exact Steps.cons hs (Steps.nil _)
    | cons w2 r2 =>
      obtain ⟨idr, hn, hi, hfm⟩ := C04_word_is_ID_at c hc 46 hst pre w (pathText (w2 :: r2)) hw hk
      obtain ⟨dr, hdn, hdi, hdfm⟩ := dot_firstMatch c hdot (w.reverse ++ pre) (pathText (w2 :: r2))
      obtain ⟨e, he, hrest⟩ := ih (by simp) (fun x hx => hall x (List.mem_cons_of_mem _ hx)) (46 :: (w.reverse ++ pre))
      refine ⟨e, he, ?_⟩
      have hs1 : Step c ⟨pre, w ++ 46 :: pathText (w2 :: r2)⟩
          (.tok idr.name idr.ignored (between ⟨pre, w ++ 46 :: pathText (w2 :: r2)⟩ ⟨w.reverse ++ pre, 46 :: pathText (w2 :: r2)⟩))
          ⟨w.reverse ++ pre, 46 :: pathText (w2 :: r2)⟩ :=
        Step.tok _ c0 (t0 ++ 46 :: pathText (w2 :: r2)) idr _ (by rw [ew]; rfl) hig0 hfm (by rw [ew]; simp; omega)
      rw [hn, hi, between_adv pre w (46 :: pathText (w2 :: r2))] at hs1
      have hs2 : Step c ⟨w.reverse ++ pre, 46 :: pathText (w2 :: r2)⟩
          (.tok dr.name dr.ignored (between ⟨w.reverse ++ pre, 46 :: pathText (w2 :: r2)⟩ ⟨46 :: (w.reverse ++ pre), pathText (w2 :: r2)⟩))
          ⟨46 :: (w.reverse ++ pre), pathText (w2 :: r2)⟩ :=
        Step.tok _ 46 (pathText (w2 :: r2)) dr _ rfl hign46 hdfm (by simp)
      have hb2 : between ⟨w.reverse ++ pre, 46 :: pathText (w2 :: r2)⟩ ⟨46 :: (w.reverse ++ pre), pathText (w2 :: r2)⟩ = [46] := by
        have := between_adv (w.reverse ++ pre) [46] (pathText (w2 :: r2)); simpa using this
      rw [hdn, hdi, hb2] at hs2
      exact Steps.cons hs1 (Steps.cons hs2 hrest)

/-- **every dotted path of plain non-keyword words lexes to `ID (DOT ID)*`** — any number of parts, any lengths -/
theorem C04_path_lexes (c : Cfg) (hc : classOK c = true) (hdot : classOKdot c = true) (hst : stopOK c 46 = true)
    (ws : List (List Nat)) (hne : ws ≠ []) (hall : ∀ w ∈ ws, PlainWord w ∧ isKw c w = false) :
    lex c (pathText ws) = .ok (pathSegs ws) := by
  obtain ⟨e, he, hs⟩ := path_steps c hc hdot hst ws hne hall []
  exact steps_lex c _ _ e hs he

theorem classOKdot_live : classOKdot LexRe_sqlite.cfg = true ∧ classOKdot LexRe_mysql.cfg = true ∧
    classOKdot LexRe_mindsdb.cfg = true := by decide +kernel

theorem C04_path_lexes_mindsdb (ws : List (List Nat)) (hne : ws ≠ [])
    (hall : ∀ w ∈ ws, PlainWord w ∧ isKw LexRe_mindsdb.cfg w = false) :
    lex LexRe_mindsdb.cfg (pathText ws) = .ok (pathSegs ws) :=
  C04_path_lexes _ classOK_mindsdb classOKdot_live.2.2
    ((List.all_eq_true.mp stopOK_live.2.2) 46 (by decide)) ws hne hall
theorem C04_path_lexes_mysql (ws : List (List Nat)) (hne : ws ≠ [])
    (hall : ∀ w ∈ ws, PlainWord w ∧ isKw LexRe_mysql.cfg w = false) :
    lex LexRe_mysql.cfg (pathText ws) = .ok (pathSegs ws) :=
  C04_path_lexes _ classOK_mysql classOKdot_live.2.1
    ((List.all_eq_true.mp stopOK_live.2.1) 46 (by decide)) ws hne hall
theorem C04_path_lexes_sqlite (ws : List (List Nat)) (hne : ws ≠ [])
    (hall : ∀ w ∈ ws, PlainWord w ∧ isKw LexRe_sqlite.cfg w = false) :
    lex LexRe_sqlite.cfg (pathText ws) = .ok (pathSegs ws) :=
  C04_path_lexes _ classOK_sqlite classOKdot_live.1
    ((List.all_eq_true.mp stopOK_live.1) 46 (by decide)) ws hne hall

/-! ### a keyword word lexes as ITS keyword token

The other half of `C04_unquoted_word`: when a plain word is matched by keyword rules, the first of them (rule order) wins and
the whole word is one token of that type — so an unquoted `id`-alternative keyword (`status`, `tables`, …) comes back as that
keyword token, which the grammar's `id` rule accepts. -/

def kwHit (r : Rule) (w : List Nat) : Bool := match kwSets r.re with | some sets => kwMatch sets w | none => false

def firstKwSplit : List Rule → List Nat → Option (List Rule × Rule × List Rule)
  | [], _ => none
  | r :: rs, w => if kwHit r w then some ([], r, rs) else (firstKwSplit rs w).map fun (a, x, b) => (r :: a, x, b)

theorem firstKwSplit_spec : ∀ {rules : List Rule} {w : List Nat} {a x b}, firstKwSplit rules w = some (a, x, b) →
    rules = a ++ x :: b ∧ kwHit x w = true ∧ ∀ y ∈ a, kwHit y w = false := by
  intro rules
  induction rules with
  | nil => intro w a x b h; simp [firstKwSplit] at h
  | cons r rs ih =>
    intro w a x b h
    unfold firstKwSplit at h
    by_cases hh : kwHit r w = true
    · simp only [hh, if_true, Option.some.injEq, Prod.mk.injEq] at h
      obtain ⟨h1, h2, h3⟩ := h
      subst h1; subst h2; subst h3
      exact ⟨rfl, hh, fun y hy => by cases hy⟩
    · simp only [hh, Bool.false_eq_true, if_false, Option.map_eq_some_iff] at h
      obtain ⟨⟨a', x', b'⟩, hs, he⟩ := h
      simp only [Prod.mk.injEq] at he
      obtain ⟨h1, h2, h3⟩ := he
      subst h1; subst h2; subst h3
      obtain ⟨e1, e2, e3⟩ := ih hs
      refine ⟨by rw [e1]; rfl, e2, ?_⟩
      intro y hy
      rcases List.mem_cons.mp hy with h0 | h0
      · subst h0; simpa using hh
      · exact e3 y h0

/-- the keyword rule that takes a plain word: the first one (rule order) in front of `ID` that fits it class by class -/
def kwRuleOf (c : Cfg) (w : List Nat) : Option Rule :=
  match splitAtID c.rules with
  | none => none
  | some (pre, _, _) => (firstKwSplit pre w).map fun x => x.2.1

/-- **a plain keyword word is one token of its keyword rule** — every rule list with `classOK`, every word -/
theorem C04_kw_lexes (c : Cfg) (hc : classOK c = true) (w : List Nat) (hw : PlainWord w) (r : Rule)
    (hr : kwRuleOf c w = some r) : lex c w = .ok [.tok r.name r.ignored w] := by
  unfold classOK at hc
  unfold kwRuleOf at hr
  cases hs : splitAtID c.rules with
  | none => rw [hs] at hc; cases hc
  | some x =>
    obtain ⟨pre, idr, post⟩ := x
    rw [hs] at hc hr
    dsimp only at hr
    simp only [Bool.and_eq_true, List.all_eq_true, Bool.not_eq_true'] at hc
    obtain ⟨⟨⟨⟨hpre, _⟩, _⟩, hword⟩, hignore⟩ := hc
    obtain ⟨erules, _⟩ := splitAtID_spec hs
    obtain ⟨hall, c0, t0, ew, hlet⟩ := hw
    have hW : ∀ x ∈ w, c.word.mem x = true := fun x hx => allMemR_sound hword (hall x hx)
    cases hfs : firstKwSplit pre w with
    | none => rw [hfs] at hr; cases hr
    | some y =>
      obtain ⟨a, x, b⟩ := y
      rw [hfs] at hr
      simp only [Option.map_some, Option.some.injEq] at hr
      subst hr
      obtain ⟨epre, hhit, hmiss⟩ := firstKwSplit_spec hfs
      -- the rules in front of `x` do not match
      have hnone : ∀ y ∈ a, matchAt c.word y.re ⟨[], w⟩ = none := by
        intro y hy
        have hok := hpre y (by rw [epre]; exact List.mem_append_left _ hy)
        unfold ruleOK at hok
        simp only [Bool.or_eq_true] at hok
        rcases hok with (ho | hkw) | hf
        · exact matchAt_none_of_needsOut ho (fun z hz => mem_sound (hW z hz))
        · cases hks : kwSets y.re with
          | none => rw [hks] at hkw; cases hkw
          | some sets =>
            rw [hks] at hkw
            cases hm : matchAt c.word y.re ⟨[], w⟩ with
            | none => rfl
            | some q =>
              have hne : sets ≠ [] := by
                intro h0; subst h0; simp at hkw
              have := kw_match hks hne (p := ⟨[], w⟩) hW hm
              have hmy := hmiss y hy
              unfold kwHit at hmy
              rw [hks] at hmy
              simp only at this hmy
              rw [this] at hmy
              cases hmy
        · simp only [Bool.and_eq_true] at hf
          exact matchAt_none_of_first hf.1 hf.2 (p := ⟨[], w⟩) ew hlet
      -- `x` matches the whole word
      unfold kwHit at hhit
      cases hks : kwSets x.re with
      | none => rw [hks] at hhit; cases hhit
      | some sets =>
        rw [hks] at hhit
        simp only at hhit
        have hne : sets ≠ [] := by
          intro h0; subst h0; rw [ew] at hhit; simp [kwMatch] at hhit
        have hxm : matchAt c.word x.re ⟨[], w⟩ = some ⟨w.reverse, []⟩ := by
          have := kw_matches hks hne (pre := []) (u := w) rfl hhit hW
          simpa using this
        have hfm : firstMatch c.word c.rules ⟨[], w⟩ = some (x, ⟨w.reverse, []⟩) := by
          rw [erules, epre]
          simp only [List.append_assoc, List.cons_append]
          rw [firstMatch_skip a _ hnone]
          simp [firstMatch, hxm]
        have hc0 : c.ignore.mem c0 = false := by
          cases h : c.ignore.mem c0 with
          | false => rfl
          | true => exact (disjointR_sound hignore (mem_sound h) hlet).elim
        unfold lex
        rw [ew] at hfm ⊢
        simp only [List.length_cons, lexLoop, hc0, Bool.false_eq_true, if_false, hfm]
        simp only [List.length_nil, Nat.zero_lt_succ, if_true]
        cases hn : t0.length + 1 with
        | zero => omega
        | succ n => simp [lexLoop, between]

/-- examples on the live mindsdb rules: `status` → STATUS, `TaBlEs` → TABLES, `knowledge_base` → KNOWLEDGE_BASE;
`selected` has no keyword rule -/
theorem C04_kw_lexes_examples :
    (kwRuleOf LexRe_mindsdb.cfg [115, 116, 97, 116, 117, 115]).map (·.name) = some "STATUS" ∧
    (kwRuleOf LexRe_mindsdb.cfg [84, 97, 66, 108, 69, 115]).map (·.name) = some "TABLES" ∧
    (kwRuleOf LexRe_mindsdb.cfg [107, 110, 111, 119, 108, 101, 100, 103, 101, 95, 98, 97, 115, 101]).map (·.name) = some "KNOWLEDGE_BASE" ∧
    (kwRuleOf LexRe_mindsdb.cfg [115, 101, 108, 101, 99, 116, 101, 100]).map (·.name) = none := by
  decide +kernel

theorem C04_kw_lexes_mindsdb (w : List Nat) (hw : PlainWord w) (r : Rule) (hr : kwRuleOf LexRe_mindsdb.cfg w = some r) :
    lex LexRe_mindsdb.cfg w = .ok [.tok r.name r.ignored w] := C04_kw_lexes _ classOK_mindsdb w hw r hr

theorem C04_kw_lexes_sqlite (w : List Nat) (hw : PlainWord w) (r : Rule) (hr : kwRuleOf LexRe_sqlite.cfg w = some r) :
    lex LexRe_sqlite.cfg w = .ok [.tok r.name r.ignored w] := C04_kw_lexes _ classOK_sqlite w hw r hr
theorem C04_kw_lexes_mysql (w : List Nat) (hw : PlainWord w) (r : Rule) (hr : kwRuleOf LexRe_mysql.cfg w = some r) :
    lex LexRe_mysql.cfg w = .ok [.tok r.name r.ignored w] := C04_kw_lexes _ classOK_mysql w hw r hr

theorem C04_word_is_ID_at_sqlite (d : Nat) (hd : d ∈ stops) (pre w rest : List Nat) (hw : PlainWord w)
    (hk : isKw LexRe_sqlite.cfg w = false) :
    ∃ idr, idr.name = "ID" ∧ idr.ignored = false ∧
      firstMatch LexRe_sqlite.cfg.word LexRe_sqlite.cfg.rules ⟨pre, w ++ d :: rest⟩
        = some (idr, ⟨w.reverse ++ pre, d :: rest⟩) :=
  C04_word_is_ID_at _ classOK_sqlite d ((List.all_eq_true.mp stopOK_live.1) d hd) pre w rest hw hk
theorem C04_word_is_ID_at_mysql (d : Nat) (hd : d ∈ stops) (pre w rest : List Nat) (hw : PlainWord w)
    (hk : isKw LexRe_mysql.cfg w = false) :
    ∃ idr, idr.name = "ID" ∧ idr.ignored = false ∧
      firstMatch LexRe_mysql.cfg.word LexRe_mysql.cfg.rules ⟨pre, w ++ d :: rest⟩
        = some (idr, ⟨w.reverse ++ pre, d :: rest⟩) :=
  C04_word_is_ID_at _ classOK_mysql d ((List.all_eq_true.mp stopOK_live.2.1) d hd) pre w rest hw hk

/-! ### numbers with a point: `digits . digits` is ONE `FLOAT` token -/

inductive FltTail where
  | plus | star
  deriving DecidableEq, Repr

/-- `D+ \. D+` (mindsdb) or `D+ \. D*` (sqlite, mysql) -/
def fltShape : Re → Option (CSet × CSet × FltTail)
  | .seq (.seq (.set a) (.star true (.set a'))) (.seq (.set p) (.seq (.set b) (.star true (.set b')))) =>
    if a == a' && a == b && a == b' then some (a, p, .plus) else none
  | .seq (.seq (.set a) (.star true (.set a'))) (.seq (.set p) (.star true (.set b))) =>
    if a == a' && a == b then some (a, p, .star) else none
  | _ => none

def fltTailRe (D : CSet) : FltTail → Re
  | .plus => .seq (.set D) (.star true (.set D))
  | .star => .star true (.set D)

theorem fltShape_spec {r : Re} {D P : CSet} {k : FltTail} (h : fltShape r = some (D, P, k)) :
    r = .seq (.seq (.set D) (.star true (.set D))) (.seq (.set P) (fltTailRe D k)) := by
  unfold fltShape at h
  split at h
  · rename_i a a' p b b'
    by_cases hc : (a == a' && a == b && a == b') = true
    · simp only [hc, if_true, Option.some.injEq, Prod.mk.injEq] at h
      simp only [Bool.and_eq_true, beq_iff_eq] at hc
      obtain ⟨⟨c1, c2⟩, c3⟩ := hc
      obtain ⟨h1, h2, h3⟩ := h
      subst h1; subst h2; subst h3; subst c1; subst c2; subst c3
      rfl
    · simp [hc] at h
  · rename_i a a' p b
    by_cases hc : (a == a' && a == b) = true
    · simp only [hc, if_true, Option.some.injEq, Prod.mk.injEq] at h
      simp only [Bool.and_eq_true, beq_iff_eq] at hc
      obtain ⟨c1, c2⟩ := hc
      obtain ⟨h1, h2, h3⟩ := h
      subst h1; subst h2; subst h3; subst c1; subst c2
      rfl
    · simp [hc] at h
  · cases h

def ruleOKflt (r : Re) : Bool :=
  (nonNull r && disjointR (first r) digitSet) ||
  (match r with
   | .alt _ b => (match idShape r with | some (_, bset) => noneMemR bset digitSet && !bset.mem 46 | none => false) &&
                 nonNull b && disjointR (first b) digitSet
   | _ => false)

def classOKflt (c : Cfg) : Bool :=
  match splitAt "FLOAT" c.rules with
  | none => false
  | some (pre, fr, _) =>
    pre.all (fun r => ruleOKflt r.re) && !fr.ignored &&
    (match fltShape fr.re with | some (d, p, _) => allMemR d digitSet && !d.mem 46 && p.mem 46 | none => false) &&
    disjointR c.ignore digitSet

def fltTailKind (c : Cfg) : Option FltTail :=
  match splitAt "FLOAT" c.rules with
  | none => none
  | some (_, fr, _) => (fltShape fr.re).map fun x => x.2.2

/-- **`digits . digits` is one `FLOAT` token** (the fraction may be empty where the rule is `D+ \. D*`) — every rule list with
`classOKflt`, every pair of digit strings -/
theorem C04_float_lexes (c : Cfg) (hc : classOKflt c = true) (a b : List Nat) (hna : a ≠ [])
    (hnb : fltTailKind c = some .plus → b ≠ [])
    (ha : ∀ x ∈ a, inSet digitSet x) (hb : ∀ x ∈ b, inSet digitSet x) :
    lex c (a ++ 46 :: b) = .ok [.tok "FLOAT" false (a ++ 46 :: b)] := by
  unfold classOKflt at hc
  unfold fltTailKind at hnb
  cases hs : splitAt "FLOAT" c.rules with
  | none => rw [hs] at hc; cases hc
  | some x =>
    obtain ⟨pre, fr, post⟩ := x
    rw [hs] at hc hnb
    dsimp only at hnb
    simp only [Bool.and_eq_true, List.all_eq_true, Bool.not_eq_true'] at hc
    obtain ⟨⟨⟨hpre, hign⟩, hfl⟩, hignore⟩ := hc
    obtain ⟨erules, ename⟩ := splitAt_spec hs
    cases a with
    | nil => exact absurd rfl hna
    | cons a0 ta =>
      have ha0 : inSet digitSet a0 := ha a0 List.mem_cons_self
      have hnoB : ∀ {B : CSet}, noneMemR B digitSet = true → B.mem 46 = false →
          ∀ x ∈ (a0 :: ta) ++ 46 :: b, B.mem x = false := by
        intro B h1 h2 x hx
        rcases List.mem_append.mp hx with h | h
        · exact noneMemR_sound h1 (ha x h)
        · rcases List.mem_cons.mp h with h0 | h0
          · subst h0; exact h2
          · exact noneMemR_sound h1 (hb x h0)
      have hnone : ∀ r ∈ pre, matchAt c.word r.re ⟨[], (a0 :: ta) ++ 46 :: b⟩ = none := by
        intro r hr
        have hok := hpre r hr
        unfold ruleOKflt at hok
        simp only [Bool.or_eq_true] at hok
        rcases hok with hf | hid
        · simp only [Bool.and_eq_true] at hf
          exact matchAt_none_of_first hf.1 hf.2 (p := ⟨[], (a0 :: ta) ++ 46 :: b⟩) rfl ha0
        · cases hre : r.re with
          | alt x y =>
            rw [hre] at hid
            simp only [Bool.and_eq_true] at hid
            obtain ⟨⟨hsh, hnb'⟩, hfb⟩ := hid
            cases hsp : idShape (Re.alt x y) with
            | none => rw [hsp] at hsh; cases hsh
            | some ab =>
              obtain ⟨A, B⟩ := ab
              rw [hsp] at hsh
              simp only [Bool.and_eq_true, Bool.not_eq_true'] at hsh
              have ea := idShape_alt hsp rfl
              unfold matchAt
              rw [m_alt]
              have h1 : m c.word x ⟨[], (a0 :: ta) ++ 46 :: b⟩ some = none := by
                rw [ea]
                exact idCore_none c.word A B ⟨[], (a0 :: ta) ++ 46 :: b⟩ (hnoB hsh.1 hsh.2)
              have h2 : m c.word y ⟨[], (a0 :: ta) ++ 46 :: b⟩ some = none :=
                matchAt_none_of_first hnb' hfb (p := ⟨[], (a0 :: ta) ++ 46 :: b⟩) rfl ha0
              rw [h1, h2]; rfl
          | _ => rw [hre] at hid; simp at hid
      cases hsh : fltShape fr.re with
      | none => rw [hsh] at hfl; cases hfl
      | some t3 =>
        obtain ⟨D, P, k⟩ := t3
        rw [hsh] at hfl hnb
        simp only [Bool.and_eq_true, Bool.not_eq_true', Option.map_some, Option.some.injEq] at hfl hnb
        obtain ⟨⟨hD, hD46⟩, hP⟩ := hfl
        have ere := fltShape_spec hsh
        have hDa : ∀ x ∈ a0 :: ta, D.mem x = true := fun x hx => allMemR_sound hD (ha x hx)
        have hDb : ∀ x ∈ b, D.mem x = true := fun x hx => allMemR_sound hD (hb x hx)
        -- the tail behind the point runs to the end
        have htail : m c.word (fltTailRe D k) ⟨46 :: (ta.reverse ++ [a0]), b⟩ some
            = some ⟨b.reverse ++ 46 :: (ta.reverse ++ [a0]), []⟩ := by
          cases k with
          | plus =>
            cases b with
            | nil => exact absurd rfl (hnb rfl)
            | cons b0 tb =>
              have := plus_set_all c.word D (46 :: (ta.reverse ++ [a0])) b0 tb hDb
              unfold matchAt at this
              simpa [Pos.fin, fltTailRe] using this
          | star =>
            have := starA_some c.word D ⟨46 :: (ta.reverse ++ [a0]), b⟩ hDb
            simpa [Pos.fin, fltTailRe] using this
        have hfm0 : matchAt c.word fr.re ⟨[], (a0 :: ta) ++ 46 :: b⟩
            = some ⟨b.reverse ++ 46 :: (ta.reverse ++ [a0]), []⟩ := by
          rw [ere]
          unfold matchAt
          rw [m_seq, m_seq]
          simp only [List.cons_append]
          rw [m_set_cons, if_pos (hDa a0 List.mem_cons_self), m_star]
          have := star_set_stop (isSetStep_m c.word D) 46 hD46 b ta [a0] ((ta ++ 46 :: b).length + 1)
            (fun q => m c.word (.seq (.set P) (fltTailRe D k)) q some)
            ⟨b.reverse ++ 46 :: (ta.reverse ++ [a0]), []⟩
            (fun x hx => hDa x (List.mem_cons_of_mem _ hx)) (by simp; omega)
            (by rw [m_seq, m_set_cons, if_pos hP]; exact htail)
          exact this
        have hfm : firstMatch c.word c.rules ⟨[], (a0 :: ta) ++ 46 :: b⟩
            = some (fr, ⟨b.reverse ++ 46 :: (ta.reverse ++ [a0]), []⟩) := by
          rw [erules, firstMatch_skip pre _ hnone]
          unfold firstMatch
          rw [hfm0]
        have hig : c.ignore.mem a0 = false := by
          cases h : c.ignore.mem a0 with
          | false => rfl
          | true => exact (disjointR_sound hignore (mem_sound h) ha0).elim
        unfold lex
        simp only [List.cons_append, List.length_cons, lexLoop, hig, Bool.false_eq_true, if_false] at hfm ⊢
        simp only [hfm, List.length_nil, Nat.zero_lt_succ, if_true]
        cases hn : (ta ++ 46 :: b).length + 1 with
        | zero => omega
        | succ n =>
          have ht : List.take (ta.length + (b.length + 1)) (ta ++ 46 :: b) = ta ++ 46 :: b := by
            apply List.take_of_length_le; simp
          simp [lexLoop, ename, hign, between, ht]

theorem classOKflt_live : classOKflt LexRe_sqlite.cfg = true ∧ classOKflt LexRe_mysql.cfg = true ∧
    classOKflt LexRe_mindsdb.cfg = true ∧
    fltTailKind LexRe_sqlite.cfg = some .star ∧ fltTailKind LexRe_mysql.cfg = some .star ∧
    fltTailKind LexRe_mindsdb.cfg = some .plus := by decide +kernel

/-- MindsDB: `D+ . D+` -/
theorem C04_float_lexes_mindsdb (a b : List Nat) (hna : a ≠ []) (hnb : b ≠ [])
    (ha : ∀ x ∈ a, inSet digitSet x) (hb : ∀ x ∈ b, inSet digitSet x) :
    lex LexRe_mindsdb.cfg (a ++ 46 :: b) = .ok [.tok "FLOAT" false (a ++ 46 :: b)] :=
  C04_float_lexes _ classOKflt_live.2.2.1 a b hna (fun _ => hnb) ha hb
/-- sqlite / mysql: `D+ . D*` (also `12.`) -/
theorem C04_float_lexes_sqlite (a b : List Nat) (hna : a ≠ [])
    (ha : ∀ x ∈ a, inSet digitSet x) (hb : ∀ x ∈ b, inSet digitSet x) :
    lex LexRe_sqlite.cfg (a ++ 46 :: b) = .ok [.tok "FLOAT" false (a ++ 46 :: b)] :=
  C04_float_lexes _ classOKflt_live.1 a b hna (fun h => by rw [classOKflt_live.2.2.2.1] at h; cases h) ha hb
theorem C04_float_lexes_mysql (a b : List Nat) (hna : a ≠ [])
    (ha : ∀ x ∈ a, inSet digitSet x) (hb : ∀ x ∈ b, inSet digitSet x) :
    lex LexRe_mysql.cfg (a ++ 46 :: b) = .ok [.tok "FLOAT" false (a ++ 46 :: b)] :=
  C04_float_lexes _ classOKflt_live.2.1 a b hna (fun h => by rw [classOKflt_live.2.2.2.2.1] at h; cases h) ha hb

/-! ### variables: `@name` over `[A-Za-z_.$]` is ONE `VARIABLE` token (mysql, mindsdb) -/

def atSet : CSet := [(64, 64)]
/-- `[A-Za-z_.$]` -/
def varSet : CSet := [(36, 36), (46, 46), (65, 90), (95, 95), (97, 122)]

def varShape : Re → Option (CSet × CSet)
  | .alt (.seq (.set a) (.seq (.set v) (.star true (.set v')))) _ => if v == v' then some (a, v) else none
  | _ => none

theorem varShape_spec {r : Re} {a v : CSet} (h : varShape r = some (a, v)) :
    ∃ x, r = .alt (.seq (.set a) (.seq (.set v) (.star true (.set v)))) x := by
  unfold varShape at h
  split at h
  · rename_i a0 v0 v1 x
    by_cases hc : (v0 == v1) = true
    · simp only [hc, if_true, Option.some.injEq, Prod.mk.injEq] at h
      simp only [beq_iff_eq] at hc
      obtain ⟨h1, h2⟩ := h
      subst h1; subst h2; subst hc
      exact ⟨x, rfl⟩
    · simp [hc] at h
  · cases h

def classOKvar (c : Cfg) : Bool :=
  match splitAt "VARIABLE" c.rules with
  | none => false
  | some (pre, vr, _) =>
    pre.all (fun r => nonNull r.re && disjointR (first r.re) atSet) && !vr.ignored &&
    (match varShape vr.re with | some (a, v) => a.mem 64 && allMemR v varSet | none => false) &&
    !c.ignore.mem 64

/-- **`@name` is one `VARIABLE` token** — every rule list with `classOKvar`, every non-empty name over `[A-Za-z_.$]` -/
theorem C04_variable_lexes (c : Cfg) (hc : classOKvar c = true) (name : List Nat) (hne : name ≠ [])
    (hn : ∀ x ∈ name, inSet varSet x) : lex c (64 :: name) = .ok [.tok "VARIABLE" false (64 :: name)] := by
  unfold classOKvar at hc
  cases hs : splitAt "VARIABLE" c.rules with
  | none => rw [hs] at hc; cases hc
  | some x =>
    obtain ⟨pre, vr, post⟩ := x
    rw [hs] at hc
    simp only [Bool.and_eq_true, List.all_eq_true, Bool.not_eq_true'] at hc
    obtain ⟨⟨⟨hpre, hign⟩, hvs⟩, hig⟩ := hc
    obtain ⟨erules, ename⟩ := splitAt_spec hs
    have h64 : inSet atSet 64 := ⟨(64, 64), List.mem_cons_self, Nat.le_refl _, Nat.le_refl _⟩
    have hnone : ∀ r ∈ pre, matchAt c.word r.re ⟨[], 64 :: name⟩ = none := fun r hr =>
      matchAt_none_of_first (hpre r hr).1 (hpre r hr).2 (p := ⟨[], 64 :: name⟩) rfl h64
    cases hsh : varShape vr.re with
    | none => rw [hsh] at hvs; cases hvs
    | some av =>
      obtain ⟨A, V⟩ := av
      rw [hsh] at hvs
      simp only [Bool.and_eq_true] at hvs
      obtain ⟨alt2, ere⟩ := varShape_spec hsh
      cases name with
      | nil => exact absurd rfl hne
      | cons n0 tn =>
        have hV : ∀ x ∈ n0 :: tn, V.mem x = true := fun x hx => allMemR_sound hvs.2 (hn x hx)
        have hvm : matchAt c.word vr.re ⟨[], 64 :: n0 :: tn⟩ = some ⟨(64 :: n0 :: tn).reverse, []⟩ := by
          rw [ere]
          unfold matchAt
          rw [m_alt, m_seq, m_set_cons, if_pos hvs.1]
          have := plus_set_all c.word V [64] n0 tn hV
          unfold matchAt at this
          rw [this]
          simp [Option.orElse, Pos.fin]
        have hfm : firstMatch c.word c.rules ⟨[], 64 :: n0 :: tn⟩ = some (vr, ⟨(64 :: n0 :: tn).reverse, []⟩) := by
          rw [erules, firstMatch_skip pre _ hnone]
          unfold firstMatch
          rw [hvm]
        unfold lex
        simp only [List.length_cons, lexLoop, hig, Bool.false_eq_true, if_false, hfm]
        simp only [List.length_nil, Nat.zero_lt_succ, if_true]
        cases hn' : tn.length + 1 + 1 with
        | zero => omega
        | succ n => simp [lexLoop, ename, hign, between]

theorem classOKvar_live : classOKvar LexRe_mysql.cfg = true ∧ classOKvar LexRe_mindsdb.cfg = true := by decide +kernel

theorem C04_variable_lexes_mindsdb (name : List Nat) (hne : name ≠ []) (hn : ∀ x ∈ name, inSet varSet x) :
    lex LexRe_mindsdb.cfg (64 :: name) = .ok [.tok "VARIABLE" false (64 :: name)] :=
  C04_variable_lexes _ classOKvar_live.2 name hne hn
theorem C04_variable_lexes_mysql (name : List Nat) (hne : name ≠ []) (hn : ∀ x ∈ name, inSet varSet x) :
    lex LexRe_mysql.cfg (64 :: name) = .ok [.tok "VARIABLE" false (64 :: name)] :=
  C04_variable_lexes _ classOKvar_live.1 name hne hn

/-! ### string literals: the printed form of EVERY string value is ONE `QUOTE_STRING` token

The value is given by its quote-free chunks (`u0 ' u1 ' … ' uk`); the printers write `'`, every chunk with its backslashes
doubled, a doubled quote between chunks, `'` (`Constant.get_string`; the codec theorems `C04_codec_*` are about that text and a
hand model of the token boundary).  Here the boundary is proved on the live regex — look-aheads and all. -/

def Re.beq : Re → Re → Bool
  | .eps, .eps => true
  | .set a, .set b => a == b
  | .seq a b, .seq c d => Re.beq a c && Re.beq b d
  | .alt a b, .alt c d => Re.beq a c && Re.beq b d
  | .star g a, .star h b => g == h && Re.beq a b
  | .look n a, .look o b => n == o && Re.beq a b
  | .bound n, .bound o => n == o
  | .fail, .fail => true
  | _, _ => false

theorem Re.beq_eq : ∀ {a b : Re}, Re.beq a b = true → a = b := by
  intro a
  induction a with
  | eps => intro b h; cases b <;> simp_all [Re.beq]
  | set s => intro b h; cases b <;> simp_all [Re.beq]
  | seq x y ihx ihy =>
    intro b h
    cases b with
    | seq c d =>
      simp only [Re.beq, Bool.and_eq_true] at h
      rw [ihx h.1, ihy h.2]
    | _ => simp [Re.beq] at h
  | alt x y ihx ihy =>
    intro b h
    cases b with
    | alt c d =>
      simp only [Re.beq, Bool.and_eq_true] at h
      rw [ihx h.1, ihy h.2]
    | _ => simp [Re.beq] at h
  | star g x ih =>
    intro b h
    cases b with
    | star g' c =>
      simp only [Re.beq, Bool.and_eq_true, beq_iff_eq] at h
      rw [h.1, ih h.2]
    | _ => simp [Re.beq] at h
  | look n x ih =>
    intro b h
    cases b with
    | look n' c =>
      simp only [Re.beq, Bool.and_eq_true, beq_iff_eq] at h
      rw [h.1, ih h.2]
    | _ => simp [Re.beq] at h
  | bound n => intro b h; cases b <;> simp_all [Re.beq]
  | fail => intro b h; cases b <;> simp_all [Re.beq]

def quoteSet : CSet := [(39, 39)]
def notQuoteSet : CSet := [(0, 38), (40, 1114111)]
def bsSet : CSet := [(92, 92)]

/-- the `QUOTE_STRING` rule is the look-ahead literal regex over `'`, `[^']`, `\`, `.` -/
def strShape (r : Re) : Option CSet :=
  match r with
  | .seq _ (.seq (.star true (.alt (.seq _ (.seq (.set any) _)) _)) _) =>
    if Re.beq r (strRe quoteSet notQuoteSet bsSet any) then some any else none
  | _ => none

def classOKstr (c : Cfg) : Bool :=
  match splitAt "QUOTE_STRING" c.rules with
  | none => false
  | some (pre, sr, _) =>
    pre.all (fun r => nonNull r.re && disjointR (first r.re) quoteSet) && !sr.ignored &&
    (match strShape sr.re with | some any => any.mem 92 | none => false) && !c.ignore.mem 39

theorem strOK_live {ANY : CSet} (h : ANY.mem 92 = true) : StrOK quoteSet notQuoteSet bsSet ANY 39 92 := by
  refine ⟨by decide, by decide, by decide, by decide, h, ?_, ?_⟩
  · intro c h1 h2
    unfold notQuoteSet
    by_cases hc : c ≤ 38
    · have : Nat.ble c 38 = true := Nat.ble_eq_true_of_le hc
      simp [CSet.mem, this]
    · have a : Nat.blt c 40 = false := by
        cases ha : Nat.blt c 40 with
        | false => rfl
        | true => rw [Nat.blt_eq] at ha; omega
      have b : Nat.ble c 38 = false := by
        cases hb : Nat.ble c 38 with
        | false => rfl
        | true => exact absurd (Nat.le_of_ble_eq_true hb) hc
      have d : Nat.ble c 1114111 = true := Nat.ble_eq_true_of_le h2
      simp [CSet.mem, a, b, d]
  · intro c hc
    unfold bsSet
    by_cases h1 : c < 92
    · have : Nat.blt c 92 = true := by rw [Nat.blt_eq]; exact h1
      simp [CSet.mem, this]
    · have a : Nat.blt c 92 = false := by
        cases ha : Nat.blt c 92 with
        | false => rfl
        | true => rw [Nat.blt_eq] at ha; omega
      have b : Nat.ble c 92 = false := by
        cases hb : Nat.ble c 92 with
        | false => rfl
        | true => have := Nat.le_of_ble_eq_true hb; omega
      simp [CSet.mem, a, b]

/-- the printed literal of the value `u0 ' u1 ' … ' uk` -/
def litText (u0 : List Nat) (cs : List (List Nat)) : List Nat := 39 :: (encB 92 u0 ++ 39 :: tt 39 92 cs)

/-- **the printed form of every string value is one `QUOTE_STRING` token** — every rule list with `classOKstr`, every value
(given by its quote-free chunks; any code points, any length, any number of quotes and backslashes) -/
theorem C04_string_lexes (c : Cfg) (hc : classOKstr c = true) (u0 : List Nat) (cs : List (List Nat))
    (hu0 : ChunkOK 39 u0) (hcs : ∀ u ∈ cs, ChunkOK 39 u) :
    lex c (litText u0 cs) = .ok [.tok "QUOTE_STRING" false (litText u0 cs)] := by
  unfold classOKstr at hc
  cases hs : splitAt "QUOTE_STRING" c.rules with
  | none => rw [hs] at hc; cases hc
  | some x =>
    obtain ⟨pre, sr, post⟩ := x
    rw [hs] at hc
    simp only [Bool.and_eq_true, List.all_eq_true, Bool.not_eq_true'] at hc
    obtain ⟨⟨⟨hpre, hign⟩, hsh⟩, hig⟩ := hc
    obtain ⟨erules, ename⟩ := splitAt_spec hs
    have h39 : inSet quoteSet 39 := ⟨(39, 39), List.mem_cons_self, Nat.le_refl _, Nat.le_refl _⟩
    have hnone : ∀ r ∈ pre, matchAt c.word r.re ⟨[], litText u0 cs⟩ = none := fun r hr =>
      matchAt_none_of_first (hpre r hr).1 (hpre r hr).2 (p := ⟨[], litText u0 cs⟩) rfl h39
    cases hss : strShape sr.re with
    | none => rw [hss] at hsh; cases hsh
    | some ANY =>
      rw [hss] at hsh
      have ere : sr.re = strRe quoteSet notQuoteSet bsSet ANY := by
        unfold strShape at hss
        split at hss
        · split at hss
          · rename_i hb
            simp only [Option.some.injEq] at hss
            subst hss
            exact Re.beq_eq hb
          · cases hss
        · cases hss
      have hsm : matchAt c.word sr.re ⟨[], litText u0 cs⟩ = some ⟨(litText u0 cs).reverse, []⟩ := by
        rw [ere]
        have := strRe_match c.word (strOK_live hsh) (by decide) u0 cs hu0 hcs []
        simpa [litText, Pos.fin] using this
      have hfm : firstMatch c.word c.rules ⟨[], litText u0 cs⟩ = some (sr, ⟨(litText u0 cs).reverse, []⟩) := by
        rw [erules, firstMatch_skip pre _ hnone]
        unfold firstMatch
        rw [hsm]
      have e : litText u0 cs = 39 :: (encB 92 u0 ++ 39 :: tt 39 92 cs) := rfl
      unfold lex
      rw [e] at hfm ⊢
      simp only [List.length_cons, lexLoop, hig, Bool.false_eq_true, if_false, hfm]
      simp only [List.length_nil, Nat.zero_lt_succ, if_true]
      cases hn : (encB 92 u0 ++ 39 :: tt 39 92 cs).length + 1 with
      | zero => omega
      | succ n =>
        have ht : List.take ((encB 92 u0).length + ((tt 39 92 cs).length + 1)) (encB 92 u0 ++ 39 :: tt 39 92 cs)
            = encB 92 u0 ++ 39 :: tt 39 92 cs := by
          apply List.take_of_length_le; simp
        simp [lexLoop, ename, hign, between, ht]

theorem classOKstr_live : classOKstr LexRe_sqlite.cfg = true ∧ classOKstr LexRe_mysql.cfg = true ∧
    classOKstr LexRe_mindsdb.cfg = true := by decide +kernel

theorem C04_string_lexes_mindsdb (u0 : List Nat) (cs : List (List Nat)) (hu0 : ChunkOK 39 u0) (hcs : ∀ u ∈ cs, ChunkOK 39 u) :
    lex LexRe_mindsdb.cfg (litText u0 cs) = .ok [.tok "QUOTE_STRING" false (litText u0 cs)] :=
  C04_string_lexes _ classOKstr_live.2.2 u0 cs hu0 hcs
theorem C04_string_lexes_mysql (u0 : List Nat) (cs : List (List Nat)) (hu0 : ChunkOK 39 u0) (hcs : ∀ u ∈ cs, ChunkOK 39 u) :
    lex LexRe_mysql.cfg (litText u0 cs) = .ok [.tok "QUOTE_STRING" false (litText u0 cs)] :=
  C04_string_lexes _ classOKstr_live.2.1 u0 cs hu0 hcs
theorem C04_string_lexes_sqlite (u0 : List Nat) (cs : List (List Nat)) (hu0 : ChunkOK 39 u0) (hcs : ∀ u ∈ cs, ChunkOK 39 u) :
    lex LexRe_sqlite.cfg (litText u0 cs) = .ok [.tok "QUOTE_STRING" false (litText u0 cs)] :=
  C04_string_lexes _ classOKstr_live.1 u0 cs hu0 hcs

/-- example: the value `a\'b` (a, backslash, quote, b) prints as `'a\\''b'` and is one token -/
theorem C04_string_example :
    litText [97, 92] [[98]] = [39, 97, 92, 92, 39, 39, 98, 39] ∧
    lex LexRe_mindsdb.cfg [39, 97, 92, 92, 39, 39, 98, 39] = .ok [.tok "QUOTE_STRING" false [39, 97, 92, 92, 39, 39, 98, 39]] := by
  decide +kernel

/-! ### double-quoted literals: quote, plain characters and backslash pairs, quote — ONE `DQUOTE_STRING` token

What `json_to_sql` writes for a string inside a USING / PARAMETERS dictionary (`json.dumps(…, ensure_ascii=False)`): `"`, then the
value with `"` as `\"`, `\` as `\\`, control characters as `\n` / `\t` / `\uXXXX`, everything else as it is, then `"`. -/

def dquoteSet : CSet := [(34, 34)]
def notDquoteSet : CSet := [(0, 33), (35, 1114111)]

def dqShape (r : Re) : Option CSet :=
  match r with
  | .seq _ (.seq (.star true (.alt (.seq _ (.seq (.set any) _)) _)) _) =>
    if Re.beq r (dqRe dquoteSet notDquoteSet bsSet any) then some any else none
  | _ => none

def classOKdq (c : Cfg) : Bool :=
  match splitAt "DQUOTE_STRING" c.rules with
  | none => false
  | some (pre, sr, _) =>
    pre.all (fun r => nonNull r.re && disjointR (first r.re) dquoteSet) && !sr.ignored &&
    (match dqShape sr.re with | some any => any.mem 92 | none => false) && !c.ignore.mem 34

theorem strOK_dq {ANY : CSet} (h : ANY.mem 92 = true) : StrOK dquoteSet notDquoteSet bsSet ANY 34 92 := by
  refine ⟨by decide, by decide, by decide, by decide, h, ?_, (strOK_live h).nb⟩
  intro c h1 h2
  unfold notDquoteSet
  by_cases hc : c ≤ 33
  · have : Nat.ble c 33 = true := Nat.ble_eq_true_of_le hc
    simp [CSet.mem, this]
  · have a : Nat.blt c 35 = false := by
      cases ha : Nat.blt c 35 with
      | false => rfl
      | true => rw [Nat.blt_eq] at ha; omega
    have b : Nat.ble c 33 = false := by
      cases hb : Nat.ble c 33 with
      | false => rfl
      | true => exact absurd (Nat.le_of_ble_eq_true hb) hc
    have d : Nat.ble c 1114111 = true := Nat.ble_eq_true_of_le h2
    simp [CSet.mem, a, b, d]

def dqText (items : List DqItem) : List Nat := 34 :: (dqBody 92 items ++ [34])

/-- the escaped character of a pair is anything `.` accepts (any code point but the newline, by `dotAny`) -/
def DqItemsOK (ANY : CSet) (items : List DqItem) : Prop :=
  (∀ it ∈ items, it.ok ANY 34 92) ∧ ∀ c ∈ dqBody 92 items, c ≤ 1114111

theorem C04_dqstring_lexes (c : Cfg) (hc : classOKdq c = true) (items : List DqItem)
    (hok : ∀ ANY, (∃ pre sr post, splitAt "DQUOTE_STRING" c.rules = some (pre, sr, post) ∧ dqShape sr.re = some ANY) →
      DqItemsOK ANY items) :
    lex c (dqText items) = .ok [.tok "DQUOTE_STRING" false (dqText items)] := by
  unfold classOKdq at hc
  cases hs : splitAt "DQUOTE_STRING" c.rules with
  | none => rw [hs] at hc; cases hc
  | some x =>
    obtain ⟨pre, sr, post⟩ := x
    rw [hs] at hc
    simp only [Bool.and_eq_true, List.all_eq_true, Bool.not_eq_true'] at hc
    obtain ⟨⟨⟨hpre, hign⟩, hsh⟩, hig⟩ := hc
    obtain ⟨erules, ename⟩ := splitAt_spec hs
    have h34 : inSet dquoteSet 34 := ⟨(34, 34), List.mem_cons_self, Nat.le_refl _, Nat.le_refl _⟩
    have hnone : ∀ r ∈ pre, matchAt c.word r.re ⟨[], dqText items⟩ = none := fun r hr =>
      matchAt_none_of_first (hpre r hr).1 (hpre r hr).2 (p := ⟨[], dqText items⟩) rfl h34
    cases hss : dqShape sr.re with
    | none => rw [hss] at hsh; cases hsh
    | some ANY =>
      rw [hss] at hsh
      obtain ⟨hitems, hcp⟩ := hok ANY ⟨pre, sr, post, hs, hss⟩
      have ere : sr.re = dqRe dquoteSet notDquoteSet bsSet ANY := by
        unfold dqShape at hss
        split at hss
        · split at hss
          · rename_i hb
            simp only [Option.some.injEq] at hss
            subst hss
            exact Re.beq_eq hb
          · cases hss
        · cases hss
      have hsm : matchAt c.word sr.re ⟨[], dqText items⟩ = some ⟨(dqText items).reverse, []⟩ := by
        rw [ere]
        have := dqRe_match c.word (strOK_dq hsh) (by decide) (by decide) items hitems hcp []
        simpa [dqText, Pos.fin] using this
      have hfm : firstMatch c.word c.rules ⟨[], dqText items⟩ = some (sr, ⟨(dqText items).reverse, []⟩) := by
        rw [erules, firstMatch_skip pre _ hnone]
        unfold firstMatch
        rw [hsm]
      have e : dqText items = 34 :: (dqBody 92 items ++ [34]) := rfl
      unfold lex
      rw [e] at hfm ⊢
      simp only [List.length_cons, lexLoop, hig, Bool.false_eq_true, if_false, hfm]
      simp only [List.length_nil, Nat.zero_lt_succ, if_true]
      cases hn : (dqBody 92 items ++ [34]).length + 1 with
      | zero => omega
      | succ n =>
        have ht : List.take ((dqBody 92 items).length + 1) (dqBody 92 items ++ [34]) = dqBody 92 items ++ [34] := by
          apply List.take_of_length_le; simp
        simp [lexLoop, ename, hign, between, ht]

theorem classOKdq_live : classOKdq LexRe_sqlite.cfg = true ∧ classOKdq LexRe_mysql.cfg = true ∧
    classOKdq LexRe_mindsdb.cfg = true := by decide +kernel

/-- example: `"a\"b\\"` (value `a"b\`) is one token -/
theorem C04_dqstring_example :
    dqText [.ch 97, .esc 34, .ch 98, .esc 92] = [34, 97, 92, 34, 98, 92, 92, 34] ∧
    lex LexRe_mindsdb.cfg [34, 97, 92, 34, 98, 92, 92, 34] = .ok [.tok "DQUOTE_STRING" false [34, 97, 92, 34, 98, 92, 92, 34]] := by
  decide +kernel

/-- `.` without DOTALL: every code point but the newline -/
def dotAnySet : CSet := [(0, 9), (11, 1114111)]

theorem dotAny_mem {c : Nat} (h1 : c ≠ 10) (h2 : c ≤ 1114111) : dotAnySet.mem c = true := by
  unfold dotAnySet
  by_cases hc : c ≤ 9
  · have : Nat.ble c 9 = true := Nat.ble_eq_true_of_le hc
    simp [CSet.mem, this]
  · have a : Nat.blt c 11 = false := by
      cases ha : Nat.blt c 11 with
      | false => rfl
      | true => rw [Nat.blt_eq] at ha; omega
    have b : Nat.ble c 9 = false := by
      cases hb : Nat.ble c 9 with
      | false => rfl
      | true => exact absurd (Nat.le_of_ble_eq_true hb) hc
    have d : Nat.ble c 1114111 = true := Nat.ble_eq_true_of_le h2
    simp [CSet.mem, a, b, d]

/-- the `.` of the live `DQUOTE_STRING` rule is "everything but the newline" -/
def dqAnyIsDot (c : Cfg) : Bool :=
  match splitAt "DQUOTE_STRING" c.rules with
  | none => false
  | some (_, sr, _) => match dqShape sr.re with | some any => any == dotAnySet | none => false

/-- items as `json.dumps` writes them: plain characters are no quote and no backslash, the character behind a backslash is
no newline -/
def dqPlainOK : DqItem → Prop
  | .ch c => c ≠ 34 ∧ c ≠ 92 ∧ c ≤ 1114111
  | .esc x => x ≠ 10 ∧ x ≤ 1114111

/-- **`"` items `"` is one `DQUOTE_STRING` token** — every rule list with `classOKdq` and `dqAnyIsDot`, every item list -/
theorem C04_dqstring_lexes_dot (c : Cfg) (hc : classOKdq c = true) (hd : dqAnyIsDot c = true) (items : List DqItem)
    (hok : ∀ it ∈ items, dqPlainOK it) :
    lex c (dqText items) = .ok [.tok "DQUOTE_STRING" false (dqText items)] := by
  apply C04_dqstring_lexes c hc items
  intro ANY ⟨pre, sr, post, hs, hss⟩
  unfold dqAnyIsDot at hd
  rw [hs] at hd
  simp only [hss, beq_iff_eq] at hd
  subst hd
  constructor
  · intro it hit
    have := hok it hit
    cases it with
    | ch c => exact this
    | esc x => exact dotAny_mem this.1 this.2
  · intro c hcm
    unfold dqBody at hcm
    obtain ⟨it, hit, hc'⟩ := List.mem_flatMap.mp hcm
    have := hok it hit
    cases it with
    | ch c0 =>
      simp only [DqItem.text, List.mem_cons, List.not_mem_nil, or_false] at hc'
      subst hc'; exact this.2.2
    | esc x =>
      simp only [DqItem.text, List.mem_cons, List.not_mem_nil, or_false] at hc'
      rcases hc' with h0 | h0
      · subst h0; decide
      · subst h0; exact this.2

theorem dqAnyIsDot_live : dqAnyIsDot LexRe_sqlite.cfg = true ∧ dqAnyIsDot LexRe_mysql.cfg = true ∧
    dqAnyIsDot LexRe_mindsdb.cfg = true := by decide +kernel

theorem C04_dqstring_lexes_mindsdb (items : List DqItem) (hok : ∀ it ∈ items, dqPlainOK it) :
    lex LexRe_mindsdb.cfg (dqText items) = .ok [.tok "DQUOTE_STRING" false (dqText items)] :=
  C04_dqstring_lexes_dot _ classOKdq_live.2.2 dqAnyIsDot_live.2.2 items hok

/-! ### every printed identifier path — plain and back-quoted parts mixed — lexes to `ID (DOT ID)*` -/

theorem bqSet_mem_ne {x : Nat} (h : x ≠ 96) : bqSet.mem x = false := by
  unfold bqSet
  by_cases h1 : x < 96
  · have : Nat.blt x 96 = true := by rw [Nat.blt_eq]; exact h1
    simp [CSet.mem, this]
  · have a : Nat.blt x 96 = false := by
      cases ha : Nat.blt x 96 with
      | false => rfl
      | true => rw [Nat.blt_eq] at ha; omega
    have b : Nat.ble x 96 = false := by
      cases hb : Nat.ble x 96 with
      | false => rfl
      | true => have := Nat.le_of_ble_eq_true hb; omega
    simp [CSet.mem, a, b]

/-- a back-quoted name inside a text (or at its end): whatever follows must not start with a back-quote -/
theorem C04_quoted_is_ID_at (c : Cfg) (hc : classOKbq c = true) (pre body rest : List Nat) (hne : body ≠ [])
    (hcp : ∀ x ∈ body, x ≤ 1114111) (hrest : ∀ x t, rest = x :: t → x ≠ 96) :
    ∃ idr, idr.name = "ID" ∧ idr.ignored = false ∧
      firstMatch c.word c.rules ⟨pre, 96 :: (bqBody 96 body ++ 96 :: rest)⟩
        = some (idr, ⟨96 :: ((bqBody 96 body).reverse ++ 96 :: pre), rest⟩) := by
  unfold classOKbq at hc
  cases hs : splitAtID c.rules with
  | none => rw [hs] at hc; cases hc
  | some x =>
    obtain ⟨prer, idr, post⟩ := x
    rw [hs] at hc
    simp only [Bool.and_eq_true, List.all_eq_true, Bool.not_eq_true'] at hc
    obtain ⟨⟨⟨hpre, hign⟩, hid⟩, _⟩ := hc
    obtain ⟨erules, ename⟩ := splitAtID_spec hs
    have hq96 : inSet bqSet 96 := ⟨(96, 96), List.mem_cons_self, Nat.le_refl _, Nat.le_refl _⟩
    have hnone : ∀ r ∈ prer, matchAt c.word r.re ⟨pre, 96 :: (bqBody 96 body ++ 96 :: rest)⟩ = none := by
      intro r hr
      have := hpre r hr
      exact matchAt_none_of_first this.1 this.2 (p := ⟨pre, 96 :: (bqBody 96 body ++ 96 :: rest)⟩) rfl hq96
    cases hsh : idShape2 idr.re with
    | none => rw [hsh] at hid; cases hid
    | some t4 =>
      obtain ⟨A, B, Q, N⟩ := t4
      rw [hsh] at hid
      simp only [Bool.and_eq_true, Bool.not_eq_true', beq_iff_eq] at hid
      obtain ⟨⟨⟨hA, hB⟩, hQ⟩, hN⟩ := hid
      subst hQ; subst hN
      have ere := idShape2_spec hsh
      have hok : BqOK bqSet notBqSet 96 body :=
        ⟨by decide, by decide, fun x hx hne => notBq_mem hne (hcp x hx)⟩
      refine ⟨idr, ename, hign, ?_⟩
      rw [erules, firstMatch_skip prer _ hnone]
      unfold firstMatch
      have hidm : matchAt c.word idr.re ⟨pre, 96 :: (bqBody 96 body ++ 96 :: rest)⟩
          = some ⟨96 :: ((bqBody 96 body).reverse ++ 96 :: pre), rest⟩ := by
        rw [ere]
        unfold matchAt
        rw [m_alt]
        have h1 := idCore_none_head c.word A B pre 96 (bqBody 96 body ++ 96 :: rest) hA hB
        have h2 := bqRe_match_rest c.word bqSet notBqSet 96 rest (fun x t e => bqSet_mem_ne (hrest x t e)) body hne hok pre
        unfold matchAt at h1 h2
        rw [h1, h2]
        rfl
      rw [hidm]

inductive Part where
  | plain (w : List Nat)
  | quoted (body : List Nat)
  deriving Repr

def Part.text : Part → List Nat
  | .plain w => w
  | .quoted b => 96 :: (bqBody 96 b ++ [96])

/-- what `parts_to_str` prints: a plain part that is no keyword word as it is, anything else (non-empty) back-quoted -/
def PartOK (c : Cfg) : Part → Prop
  | .plain w => PlainWord w ∧ isKw c w = false
  | .quoted b => b ≠ [] ∧ ∀ x ∈ b, x ≤ 1114111

def mpathText : List Part → List Nat
  | [] => []
  | [p] => p.text
  | p :: r => p.text ++ 46 :: mpathText r

def mpathSegs : List Part → List Seg
  | [] => []
  | [p] => [.tok "ID" false p.text]
  | p :: r => .tok "ID" false p.text :: .tok "DOT" false [46] :: mpathSegs r

theorem part_firstMatch (c : Cfg) (hc : classOK c = true) (hbq : classOKbq c = true) (hst : stopOK c 46 = true)
    (p : Part) (hp : PartOK c p) (pre : List Nat) (rest : List Nat) (hr : rest = [] ∨ ∃ t, rest = 46 :: t) :
    ∃ idr, idr.name = "ID" ∧ idr.ignored = false ∧
      firstMatch c.word c.rules ⟨pre, p.text ++ rest⟩ = some (idr, ⟨p.text.reverse ++ pre, rest⟩) := by
  cases p with
  | plain w =>
    obtain ⟨hw, hk⟩ := hp
    rcases hr with h0 | ⟨t, h0⟩
    · subst h0
      obtain ⟨idr, a, b, h⟩ := C04_word_is_ID_end c hc pre w hw hk
      exact ⟨idr, a, b, by simpa [Part.text] using h⟩
    · subst h0
      obtain ⟨idr, a, b, h⟩ := C04_word_is_ID_at c hc 46 hst pre w t hw hk
      exact ⟨idr, a, b, by simpa [Part.text] using h⟩
  | quoted body =>
    obtain ⟨hne, hcp⟩ := hp
    have hrest : ∀ x t, rest = x :: t → x ≠ 96 := by
      intro x t e
      rcases hr with h0 | ⟨t', h0⟩
      · rw [h0] at e; cases e
      · rw [h0] at e; cases e; decide
    obtain ⟨idr, a, b, h⟩ := C04_quoted_is_ID_at c hbq pre body rest hne hcp hrest
    refine ⟨idr, a, b, ?_⟩
    simpa [Part.text] using h

theorem part_head (c : Cfg) (hc : classOK c = true) (hbq : classOKbq c = true) (p : Part) (hp : PartOK c p) :
    ∃ c0 t0, p.text = c0 :: t0 ∧ c.ignore.mem c0 = false := by
  cases p with
  | plain w =>
    obtain ⟨⟨_, c0, t0, ew, hlet⟩, _⟩ := hp
    refine ⟨c0, t0, ew, ?_⟩
    have hignL : disjointR c.ignore letterSet = true := by
      unfold classOK at hc
      cases hs : splitAtID c.rules with
      | none => rw [hs] at hc; cases hc
      | some x => rw [hs] at hc; simp only [Bool.and_eq_true] at hc; exact hc.2
    cases h : c.ignore.mem c0 with
    | false => rfl
    | true => exact (disjointR_sound hignL (mem_sound h) hlet).elim
  | quoted body =>
    refine ⟨96, bqBody 96 body ++ [96], rfl, ?_⟩
    have hig : disjointR c.ignore bqSet = true := by
      unfold classOKbq at hbq
      cases hs : splitAtID c.rules with
      | none => rw [hs] at hbq; cases hbq
      | some x => rw [hs] at hbq; simp only [Bool.and_eq_true] at hbq; exact hbq.2
    cases h : c.ignore.mem 96 with
    | false => rfl
    | true =>
      exact (disjointR_sound hig (mem_sound h) ⟨(96, 96), List.mem_cons_self, Nat.le_refl _, Nat.le_refl _⟩).elim

open MindsVerif.Props.C02Lex in
theorem mpath_steps (c : Cfg) (hc : classOK c = true) (hbq : classOKbq c = true) (hdot : classOKdot c = true)
    (hst : stopOK c 46 = true) :
    ∀ (ps : List Part), ps ≠ [] → (∀ p ∈ ps, PartOK c p) →
    ∀ (pre : List Nat), ∃ e, e.suf = [] ∧ Steps c ⟨pre, mpathText ps⟩ (mpathSegs ps) e := by
  have hign46 : c.ignore.mem 46 = false := by
    unfold classOKdot at hdot
    cases hs : splitAt "DOT" c.rules with
    | none => rw [hs] at hdot; cases hdot
    | some x => rw [hs] at hdot; simp only [Bool.and_eq_true, Bool.not_eq_true'] at hdot; exact hdot.2
  intro ps
  induction ps with
  | nil => intro h; exact absurd rfl h
  | cons p r ih =>
    intro _ hall pre
    have hp := hall p List.mem_cons_self
    obtain ⟨c0, t0, ew, hig0⟩ := part_head c hc hbq p hp
    cases r with
    | nil =>
      obtain ⟨idr, hn, hi, hfm⟩ := part_firstMatch c hc hbq hst p hp pre [] (Or.inl rfl)
      simp only [List.append_nil] at hfm
      refine ⟨⟨p.text.reverse ++ pre, []⟩, rfl, ?_⟩
      have hs : Step c ⟨pre, p.text⟩ (.tok idr.name idr.ignored (between ⟨pre, p.text⟩ ⟨p.text.reverse ++ pre, []⟩))
          ⟨p.text.reverse ++ pre, []⟩ :=
        Step.tok ⟨pre, p.text⟩ c0 t0 idr _ ew hig0 hfm (by rw [ew]; simp)
      have hb : between ⟨pre, p.text⟩ ⟨p.text.reverse ++ pre, []⟩ = p.text := by
        have := between_adv pre p.text []; simpa using this
      rw [hn, hi, hb] at hs
      exact Steps.cons hs (Steps.nil _)
    | cons p2 r2 =>
      obtain ⟨idr, hn, hi, hfm⟩ := part_firstMatch c hc hbq hst p hp pre (46 :: mpathText (p2 :: r2)) (Or.inr ⟨_, rfl⟩)
      obtain ⟨dr, hdn, hdi, hdfm⟩ := dot_firstMatch c hdot (p.text.reverse ++ pre) (mpathText (p2 :: r2))
      obtain ⟨e, he, hrest⟩ := ih (by simp) (fun x hx => hall x (List.mem_cons_of_mem _ hx)) (46 :: (p.text.reverse ++ pre))
      refine ⟨e, he, ?_⟩
      have hs1 : Step c ⟨pre, p.text ++ 46 :: mpathText (p2 :: r2)⟩
          (.tok idr.name idr.ignored (between ⟨pre, p.text ++ 46 :: mpathText (p2 :: r2)⟩ ⟨p.text.reverse ++ pre, 46 :: mpathText (p2 :: r2)⟩))
          ⟨p.text.reverse ++ pre, 46 :: mpathText (p2 :: r2)⟩ :=
        Step.tok _ c0 (t0 ++ 46 :: mpathText (p2 :: r2)) idr _ (by rw [ew]; rfl) hig0 hfm (by rw [ew]; simp <;> omega)
      rw [hn, hi, between_adv pre p.text (46 :: mpathText (p2 :: r2))] at hs1
      have hs2 : Step c ⟨p.text.reverse ++ pre, 46 :: mpathText (p2 :: r2)⟩
          (.tok dr.name dr.ignored (between ⟨p.text.reverse ++ pre, 46 :: mpathText (p2 :: r2)⟩ ⟨46 :: (p.text.reverse ++ pre), mpathText (p2 :: r2)⟩))
          ⟨46 :: (p.text.reverse ++ pre), mpathText (p2 :: r2)⟩ :=
        Step.tok _ 46 (mpathText (p2 :: r2)) dr _ rfl hign46 hdfm (by simp)
      have hb2 : between ⟨p.text.reverse ++ pre, 46 :: mpathText (p2 :: r2)⟩ ⟨46 :: (p.text.reverse ++ pre), mpathText (p2 :: r2)⟩ = [46] := by
        have := between_adv (p.text.reverse ++ pre) [46] (mpathText (p2 :: r2)); simpa using this
      rw [hdn, hdi, hb2] at hs2
      exact Steps.cons hs1 (Steps.cons hs2 hrest)

/-- **every printed identifier path lexes to `ID (DOT ID)*`**: any number of parts, each either a plain non-keyword word
printed as it is or ANY non-empty name printed back-quoted (back-quotes doubled) — the lexer side of the identifier round trip
of `Identifier.parts_to_str`, on the regexes the library compiles -/
theorem C04_identifier_lexes (c : Cfg) (hc : classOK c = true) (hbq : classOKbq c = true) (hdot : classOKdot c = true)
    (hst : stopOK c 46 = true) (ps : List Part) (hne : ps ≠ []) (hall : ∀ p ∈ ps, PartOK c p) :
    lex c (mpathText ps) = .ok (mpathSegs ps) := by
  obtain ⟨e, he, hs⟩ := mpath_steps c hc hbq hdot hst ps hne hall []
  exact steps_lex c _ _ e hs he

theorem C04_identifier_lexes_mindsdb (ps : List Part) (hne : ps ≠ []) (hall : ∀ p ∈ ps, PartOK LexRe_mindsdb.cfg p) :
    lex LexRe_mindsdb.cfg (mpathText ps) = .ok (mpathSegs ps) :=
  C04_identifier_lexes _ classOK_mindsdb classOKbq_mindsdb classOKdot_live.2.2
    ((List.all_eq_true.mp stopOK_live.2.2) 46 (by decide)) ps hne hall
theorem C04_identifier_lexes_mysql (ps : List Part) (hne : ps ≠ []) (hall : ∀ p ∈ ps, PartOK LexRe_mysql.cfg p) :
    lex LexRe_mysql.cfg (mpathText ps) = .ok (mpathSegs ps) :=
  C04_identifier_lexes _ classOK_mysql classOKbq_mysql classOKdot_live.2.1
    ((List.all_eq_true.mp stopOK_live.2.1) 46 (by decide)) ps hne hall
theorem C04_identifier_lexes_sqlite (ps : List Part) (hne : ps ≠ []) (hall : ∀ p ∈ ps, PartOK LexRe_sqlite.cfg p) :
    lex LexRe_sqlite.cfg (mpathText ps) = .ok (mpathSegs ps) :=
  C04_identifier_lexes _ classOK_sqlite classOKbq_sqlite classOKdot_live.1
    ((List.all_eq_true.mp stopOK_live.1) 46 (by decide)) ps hne hall

/-- example: `` tab1.`my col`.c `` -/
theorem C04_identifier_example :
    mpathText [.plain [116, 97, 98, 49], .quoted [109, 121, 32, 99, 111, 108], .plain [99]]
      = [116, 97, 98, 49, 46, 96, 109, 121, 32, 99, 111, 108, 96, 46, 99] ∧
    lex LexRe_mindsdb.cfg [116, 97, 98, 49, 46, 96, 109, 121, 32, 99, 111, 108, 96, 46, 99]
      = .ok [.tok "ID" false [116, 97, 98, 49], .tok "DOT" false [46], .tok "ID" false [96, 109, 121, 32, 99, 111, 108, 96],
             .tok "DOT" false [46], .tok "ID" false [99]] := by
  decide +kernel

/-! ### lists of string literals: `'v1','v2',…,'vn'` lexes to `QUOTE_STRING (COMMA QUOTE_STRING)*` -/

/-- a one-character punctuation rule (`COMMA`, `DOT`, `LPAREN`, …) and the rules in front of it -/
def classOKsingle (c : Cfg) (name : String) (ch : Nat) : Bool :=
  match splitAt name c.rules with
  | none => false
  | some (pre, dr, _) =>
    pre.all (fun r => nonNull r.re && disjointR (first r.re) [(ch, ch)]) && !dr.ignored &&
    (match dr.re with | .set D => D.mem ch | _ => false) && !c.ignore.mem ch

theorem single_firstMatch (c : Cfg) (name : String) (ch : Nat) (hc : classOKsingle c name ch = true) (pre rest : List Nat) :
    ∃ dr, dr.name = name ∧ dr.ignored = false ∧ c.ignore.mem ch = false ∧
      firstMatch c.word c.rules ⟨pre, ch :: rest⟩ = some (dr, ⟨ch :: pre, rest⟩) := by
  unfold classOKsingle at hc
  cases hs : splitAt name c.rules with
  | none => rw [hs] at hc; cases hc
  | some x =>
    obtain ⟨prer, dr, post⟩ := x
    rw [hs] at hc
    simp only [Bool.and_eq_true, List.all_eq_true, Bool.not_eq_true'] at hc
    obtain ⟨⟨⟨hpre, hign⟩, hre⟩, hig⟩ := hc
    obtain ⟨erules, ename⟩ := splitAt_spec hs
    have hin : inSet [(ch, ch)] ch := ⟨(ch, ch), List.mem_cons_self, Nat.le_refl _, Nat.le_refl _⟩
    have hnone : ∀ r ∈ prer, matchAt c.word r.re ⟨pre, ch :: rest⟩ = none := fun r hr =>
      matchAt_none_of_first (hpre r hr).1 (hpre r hr).2 (p := ⟨pre, ch :: rest⟩) rfl hin
    cases hd : dr.re with
    | set D =>
      rw [hd] at hre
      simp only at hre
      refine ⟨dr, ename, hign, hig, ?_⟩
      rw [erules, firstMatch_skip prer _ hnone]
      simp [firstMatch, matchAt, hd, m, hre]
    | _ => rw [hd] at hre; simp at hre

/-- the literal of the value `u0 ' u1 ' … ' uk` followed by `rest` -/
def litTextR (u0 : List Nat) (cs : List (List Nat)) (rest : List Nat) : List Nat :=
  39 :: (encB 92 u0 ++ 39 :: ttR 39 92 rest cs)

theorem quoteSet_mem_ne {x : Nat} (h : x ≠ 39) : quoteSet.mem x = false := by
  unfold quoteSet
  by_cases h1 : x < 39
  · have : Nat.blt x 39 = true := by rw [Nat.blt_eq]; exact h1
    simp [CSet.mem, this]
  · have a : Nat.blt x 39 = false := by
      cases ha : Nat.blt x 39 with
      | false => rfl
      | true => rw [Nat.blt_eq] at ha; omega
    have b : Nat.ble x 39 = false := by
      cases hb : Nat.ble x 39 with
      | false => rfl
      | true => have := Nat.le_of_ble_eq_true hb; omega
    simp [CSet.mem, a, b]

/-- **a printed string literal inside a text is the next token**, whatever stands in front, provided what follows does not
start with a quote: the token ends exactly in front of `rest` -/
theorem C04_string_is_token_at (c : Cfg) (hc : classOKstr c = true) (u0 : List Nat) (cs : List (List Nat))
    (hu0 : ChunkOK 39 u0) (hcs : ∀ u ∈ cs, ChunkOK 39 u) (pre rest : List Nat) (hrest : ∀ x t, rest = x :: t → x ≠ 39) :
    ∃ sr e, sr.name = "QUOTE_STRING" ∧ sr.ignored = false ∧ c.ignore.mem 39 = false ∧ e.suf = rest ∧
      (Pos.mk pre (litTextR u0 cs rest)).le e ∧
      firstMatch c.word c.rules ⟨pre, litTextR u0 cs rest⟩ = some (sr, e) := by
  unfold classOKstr at hc
  cases hs : splitAt "QUOTE_STRING" c.rules with
  | none => rw [hs] at hc; cases hc
  | some x =>
    obtain ⟨prer, sr, post⟩ := x
    rw [hs] at hc
    simp only [Bool.and_eq_true, List.all_eq_true, Bool.not_eq_true'] at hc
    obtain ⟨⟨⟨hpre, hign⟩, hsh⟩, hig⟩ := hc
    obtain ⟨erules, ename⟩ := splitAt_spec hs
    have h39 : inSet quoteSet 39 := ⟨(39, 39), List.mem_cons_self, Nat.le_refl _, Nat.le_refl _⟩
    have hnone : ∀ r ∈ prer, matchAt c.word r.re ⟨pre, litTextR u0 cs rest⟩ = none := fun r hr =>
      matchAt_none_of_first (hpre r hr).1 (hpre r hr).2 (p := ⟨pre, litTextR u0 cs rest⟩) rfl h39
    cases hss : strShape sr.re with
    | none => rw [hss] at hsh; cases hsh
    | some ANY =>
      rw [hss] at hsh
      have ere : sr.re = strRe quoteSet notQuoteSet bsSet ANY := by
        unfold strShape at hss
        split at hss
        · split at hss
          · rename_i hb
            simp only [Option.some.injEq] at hss
            subst hss
            exact Re.beq_eq hb
          · cases hss
        · cases hss
      obtain ⟨e, he, hle, hm⟩ := strRe_match_rest c.word (strOK_live hsh) (by decide) rest
        (fun x t ex => quoteSet_mem_ne (hrest x t ex)) u0 cs hu0 hcs pre
      refine ⟨sr, e, ename, hign, hig, he, hle, ?_⟩
      rw [erules, firstMatch_skip prer _ hnone]
      unfold firstMatch
      rw [ere]
      unfold litTextR
      rw [hm]

/-- the text of a comma-separated list of literals (each given by its chunks) -/
def litsText : List (List Nat × List (List Nat)) → List Nat
  | [] => []
  | [v] => litTextR v.1 v.2 []
  | v :: r => litTextR v.1 v.2 (44 :: litsText r)

def litsSegs : List (List Nat × List (List Nat)) → List Seg
  | [] => []
  | [v] => [.tok "QUOTE_STRING" false (litTextR v.1 v.2 [])]
  | v :: r => .tok "QUOTE_STRING" false (litTextR v.1 v.2 []) :: .tok "COMMA" false [44] :: litsSegs r

theorem litTextR_append (u0 : List Nat) (cs : List (List Nat)) (rest : List Nat) :
    litTextR u0 cs rest = litTextR u0 cs [] ++ rest := by
  unfold litTextR
  have : ∀ cs : List (List Nat), ttR 39 92 rest cs = ttR 39 92 [] cs ++ rest := by
    intro cs
    induction cs with
    | nil => simp [ttR]
    | cons u cs ih => simp [ttR, ih]
  rw [this]
  simp

open MindsVerif.Props.C02Lex in
theorem lits_steps (c : Cfg) (hc : classOKstr c = true) (hcomma : classOKsingle c "COMMA" 44 = true) :
    ∀ (vs : List (List Nat × List (List Nat))), vs ≠ [] → (∀ v ∈ vs, ChunkOK 39 v.1 ∧ ∀ u ∈ v.2, ChunkOK 39 u) →
    ∀ (pre : List Nat), ∃ e, e.suf = [] ∧ Steps c ⟨pre, litsText vs⟩ (litsSegs vs) e := by
  intro vs
  induction vs with
  | nil => intro h; exact absurd rfl h
  | cons v r ih =>
    intro _ hall pre
    obtain ⟨hv1, hv2⟩ := hall v List.mem_cons_self
    cases r with
    | nil =>
      obtain ⟨sr, e, hn, hi, hig, he, hle, hfm⟩ := C04_string_is_token_at c hc v.1 v.2 hv1 hv2 pre [] (fun x t h => by cases h)
      refine ⟨e, he, ?_⟩
      obtain ⟨l, hl1, hl2⟩ := hle
      simp only at hl2
      rw [he, List.append_nil] at hl2
      have hs : Step c ⟨pre, litTextR v.1 v.2 []⟩ (.tok sr.name sr.ignored (between ⟨pre, litTextR v.1 v.2 []⟩ e)) e :=
        Step.tok ⟨pre, litTextR v.1 v.2 []⟩ 39 _ sr e rfl hig hfm (by rw [he]; simp [litTextR])
      have hb : between ⟨pre, litTextR v.1 v.2 []⟩ e = litTextR v.1 v.2 [] := by
        simp [between, he]
      rw [hn, hi, hb] at hs
      exact Steps.cons hs (Steps.nil _)
    | cons v2 r2 =>
      have hrest : ∀ x t, (44 :: litsText (v2 :: r2)) = x :: t → x ≠ 39 := by
        intro x t h; cases h; decide
      obtain ⟨sr, e, hn, hi, hig, he, hle, hfm⟩ :=
        C04_string_is_token_at c hc v.1 v.2 hv1 hv2 pre (44 :: litsText (v2 :: r2)) hrest
      obtain ⟨dr, hdn, hdi, hdig, hdfm⟩ := single_firstMatch c "COMMA" 44 hcomma e.pre (litsText (v2 :: r2))
      obtain ⟨e2, he2, hrestSteps⟩ := ih (by simp) (fun x hx => hall x (List.mem_cons_of_mem _ hx)) (44 :: e.pre)
      refine ⟨e2, he2, ?_⟩
      have heq : e = ⟨e.pre, 44 :: litsText (v2 :: r2)⟩ := by
        obtain ⟨ep, es⟩ := e; simp only at he; subst he; rfl
      have hs1 : Step c ⟨pre, litTextR v.1 v.2 (44 :: litsText (v2 :: r2))⟩
          (.tok sr.name sr.ignored (between ⟨pre, litTextR v.1 v.2 (44 :: litsText (v2 :: r2))⟩ e)) e :=
        Step.tok _ 39 _ sr e rfl hig hfm (by
          rw [he, litTextR_append]
          have : 0 < (litTextR v.1 v.2 []).length := by simp [litTextR]
          simp only [List.length_append]
          omega)
      have hb : between ⟨pre, litTextR v.1 v.2 (44 :: litsText (v2 :: r2))⟩ e = litTextR v.1 v.2 [] := by
        rw [litTextR_append]
        simp [between, he]
      rw [hn, hi, hb] at hs1
      have hs2 : Step c ⟨e.pre, 44 :: litsText (v2 :: r2)⟩
          (.tok dr.name dr.ignored (between ⟨e.pre, 44 :: litsText (v2 :: r2)⟩ ⟨44 :: e.pre, litsText (v2 :: r2)⟩))
          ⟨44 :: e.pre, litsText (v2 :: r2)⟩ :=
        Step.tok _ 44 (litsText (v2 :: r2)) dr _ rfl hdig hdfm (by simp)
      have hb2 : between ⟨e.pre, 44 :: litsText (v2 :: r2)⟩ ⟨44 :: e.pre, litsText (v2 :: r2)⟩ = [44] := by
        have := between_adv e.pre [44] (litsText (v2 :: r2)); simpa using this
      rw [hdn, hdi, hb2] at hs2
      rw [heq] at hs1
      exact Steps.cons hs1 (Steps.cons hs2 hrestSteps)

/-- **every comma-separated list of printed string literals lexes to `QUOTE_STRING (COMMA QUOTE_STRING)*`** — any number of
values, any values -/
theorem C04_string_list_lexes (c : Cfg) (hc : classOKstr c = true) (hcomma : classOKsingle c "COMMA" 44 = true)
    (vs : List (List Nat × List (List Nat))) (hne : vs ≠ []) (hall : ∀ v ∈ vs, ChunkOK 39 v.1 ∧ ∀ u ∈ v.2, ChunkOK 39 u) :
    lex c (litsText vs) = .ok (litsSegs vs) := by
  obtain ⟨e, he, hs⟩ := lits_steps c hc hcomma vs hne hall []
  exact steps_lex c _ _ e hs he

theorem classOKcomma_live : classOKsingle LexRe_sqlite.cfg "COMMA" 44 = true ∧ classOKsingle LexRe_mysql.cfg "COMMA" 44 = true ∧
    classOKsingle LexRe_mindsdb.cfg "COMMA" 44 = true := by decide +kernel

theorem C04_string_list_lexes_mindsdb (vs : List (List Nat × List (List Nat))) (hne : vs ≠ [])
    (hall : ∀ v ∈ vs, ChunkOK 39 v.1 ∧ ∀ u ∈ v.2, ChunkOK 39 u) :
    lex LexRe_mindsdb.cfg (litsText vs) = .ok (litsSegs vs) :=
  C04_string_list_lexes _ classOKstr_live.2.2 classOKcomma_live.2.2 vs hne hall

/-! ### lists of integers: `n1,n2,…,nk` lexes to `INTEGER (COMMA INTEGER)*` -/

/-- per stop character `d` behind a digit string -/
def stopOKnum (c : Cfg) (d : Nat) : Bool :=
  match splitAt "INTEGER" c.rules with
  | none => false
  | some (pre, ir, _) =>
    pre.all (fun r =>
      (nonNull r.re && disjointR (first r.re) digitSet) ||
      (needsOut digitSet r.re && noChar d r.re) ||
      (match r.re with
       | .alt _ b => (match idShape r.re with
                      | some (aset, bset) => noneMemR bset digitSet && !aset.mem d && !bset.mem d
                      | none => false) && nonNull b && disjointR (first b) digitSet
       | _ => false)) &&
    (match intShape ir.re with | some dd => !dd.mem d | none => false)

/-- a digit string is the next token, `INTEGER`, at the end of the text or in front of a stop character -/
theorem digits_firstMatch (c : Cfg) (hc : classOKnum c = true) (d : Nat) (hd : stopOKnum c d = true)
    (pre a rest : List Nat) (hne : a ≠ []) (ha : ∀ x ∈ a, inSet digitSet x) (hr : rest = [] ∨ ∃ t, rest = d :: t) :
    ∃ ir, ir.name = "INTEGER" ∧ ir.ignored = false ∧
      firstMatch c.word c.rules ⟨pre, a ++ rest⟩ = some (ir, ⟨a.reverse ++ pre, rest⟩) := by
  unfold classOKnum at hc
  unfold stopOKnum at hd
  cases hs : splitAt "INTEGER" c.rules with
  | none => rw [hs] at hc; cases hc
  | some x =>
    obtain ⟨prer, ir, post⟩ := x
    rw [hs] at hc hd
    simp only [Bool.and_eq_true, List.all_eq_true, Bool.not_eq_true'] at hc hd
    obtain ⟨⟨⟨hpre, hign⟩, hint⟩, _⟩ := hc
    obtain ⟨hpred, hintd⟩ := hd
    obtain ⟨erules, ename⟩ := splitAt_spec hs
    cases a with
    | nil => exact absurd rfl hne
    | cons a0 ta =>
      have ha0 : inSet digitSet a0 := ha a0 List.mem_cons_self
      cases hsh : intShape ir.re with
      | none => rw [hsh] at hint; cases hint
      | some D =>
        rw [hsh] at hint hintd
        simp only [Bool.not_eq_true'] at hintd
        have ere : ir.re = .seq (.set D) (.star true (.set D)) := intShape_spec hsh
        have hD : ∀ x ∈ a0 :: ta, D.mem x = true := fun x hx => allMemR_sound hint (ha x hx)
        rcases hr with h0 | ⟨t, h0⟩
        · -- end of the text
          subst h0
          simp only [List.append_nil]
          have hnone : ∀ r ∈ prer, matchAt c.word r.re ⟨pre, a0 :: ta⟩ = none := by
            intro r hr
            have hok := hpre r hr
            unfold ruleOKnum at hok
            simp only [Bool.or_eq_true] at hok
            rcases hok with (ho | hf) | hid
            · exact matchAt_none_of_needsOut ho (fun x hx => ha x hx)
            · simp only [Bool.and_eq_true] at hf
              exact matchAt_none_of_first hf.1 hf.2 (p := ⟨pre, a0 :: ta⟩) rfl ha0
            · cases hre : r.re with
              | alt x y =>
                rw [hre] at hid
                simp only [Bool.and_eq_true] at hid
                obtain ⟨⟨hshp, hnb⟩, hfb⟩ := hid
                cases hsp : idShape (Re.alt x y) with
                | none => rw [hsp] at hshp; cases hshp
                | some ab =>
                  obtain ⟨A, B⟩ := ab
                  rw [hsp] at hshp
                  have ea := idShape_alt hsp rfl
                  unfold matchAt
                  rw [m_alt]
                  have h1 : m c.word x ⟨pre, a0 :: ta⟩ some = none := by
                    rw [ea]
                    exact idCore_none c.word A B ⟨pre, a0 :: ta⟩ (fun z hz => noneMemR_sound hshp (ha z hz))
                  have h2 : m c.word y ⟨pre, a0 :: ta⟩ some = none :=
                    matchAt_none_of_first hnb hfb (p := ⟨pre, a0 :: ta⟩) rfl ha0
                  rw [h1, h2]; rfl
              | _ => rw [hre] at hid; simp at hid
          refine ⟨ir, ename, hign, ?_⟩
          rw [erules, firstMatch_skip prer _ hnone]
          unfold firstMatch
          rw [ere, plus_set_all c.word D pre a0 ta hD]
          simp [Pos.fin]
        · -- in front of the stop character
          subst h0
          have hnone : ∀ r ∈ prer, matchAt c.word r.re ⟨pre, (a0 :: ta) ++ d :: t⟩ = none := by
            intro r hr
            have hok := hpred r hr
            simp only [Bool.or_eq_true, Bool.and_eq_true] at hok
            rcases hok with (hf | ho) | hid
            · exact matchAt_none_of_first hf.1 hf.2 (p := ⟨pre, (a0 :: ta) ++ d :: t⟩) rfl ha0
            · exact matchAt_none_of_needsOut_at ho.1 ho.2 (fun x hx => ha x hx)
            · cases hre : r.re with
              | alt x y =>
                rw [hre] at hid
                simp only [Bool.and_eq_true] at hid
                obtain ⟨⟨hshp, hnb⟩, hfb⟩ := hid
                cases hsp : idShape (Re.alt x y) with
                | none => rw [hsp] at hshp; cases hshp
                | some ab =>
                  obtain ⟨A, B⟩ := ab
                  rw [hsp] at hshp
                  simp only [Bool.and_eq_true, Bool.not_eq_true'] at hshp
                  have ea := idShape_alt hsp rfl
                  unfold matchAt
                  rw [m_alt]
                  have h1 : m c.word x ⟨pre, (a0 :: ta) ++ d :: t⟩ some = none := by
                    rw [ea]
                    exact idCore_none_stop c.word A B d hshp.1.2 hshp.2 t (a0 :: ta) pre
                      (fun z hz => noneMemR_sound hshp.1.1 (ha z hz))
                  have h2 : m c.word y ⟨pre, (a0 :: ta) ++ d :: t⟩ some = none :=
                    matchAt_none_of_first hnb hfb (p := ⟨pre, (a0 :: ta) ++ d :: t⟩) rfl ha0
                  rw [h1, h2]; rfl
              | _ => rw [hre] at hid; simp at hid
          refine ⟨ir, ename, hign, ?_⟩
          rw [erules, firstMatch_skip prer _ hnone]
          unfold firstMatch
          rw [ere]
          have := plus_set_stop c.word D d hintd pre a0 ta t hD
          simp only [List.cons_append] at this ⊢
          rw [this]

def intsText : List (List Nat) → List Nat
  | [] => []
  | [a] => a
  | a :: r => a ++ 44 :: intsText r

def intsSegs : List (List Nat) → List Seg
  | [] => []
  | [a] => [.tok "INTEGER" false a]
  | a :: r => .tok "INTEGER" false a :: .tok "COMMA" false [44] :: intsSegs r

open MindsVerif.Props.C02Lex in
theorem ints_steps (c : Cfg) (hc : classOKnum c = true) (hd : stopOKnum c 44 = true)
    (hcomma : classOKsingle c "COMMA" 44 = true) :
    ∀ (as : List (List Nat)), as ≠ [] → (∀ a ∈ as, a ≠ [] ∧ ∀ x ∈ a, inSet digitSet x) →
    ∀ (pre : List Nat), ∃ e, e.suf = [] ∧ Steps c ⟨pre, intsText as⟩ (intsSegs as) e := by
  have hignD : disjointR c.ignore digitSet = true := by
    unfold classOKnum at hc
    cases hs : splitAt "INTEGER" c.rules with
    | none => rw [hs] at hc; cases hc
    | some x => rw [hs] at hc; simp only [Bool.and_eq_true] at hc; exact hc.2
  intro as
  induction as with
  | nil => intro h; exact absurd rfl h
  | cons a r ih =>
    intro _ hall pre
    obtain ⟨hne, ha⟩ := hall a List.mem_cons_self
    obtain ⟨a0, ta, ea⟩ : ∃ a0 ta, a = a0 :: ta := by
      cases a with
      | nil => exact absurd rfl hne
      | cons a0 ta => exact ⟨a0, ta, rfl⟩
    have hig0 : c.ignore.mem a0 = false := by
      cases h : c.ignore.mem a0 with
      | false => rfl
      | true => exact (disjointR_sound hignD (mem_sound h) (ha a0 (by rw [ea]; exact List.mem_cons_self))).elim
    cases r with
    | nil =>
      obtain ⟨ir, hn, hi, hfm⟩ := digits_firstMatch c hc 44 hd pre a [] hne ha (Or.inl rfl)
      simp only [List.append_nil] at hfm
      refine ⟨⟨a.reverse ++ pre, []⟩, rfl, ?_⟩
      have hs : Step c ⟨pre, a⟩ (.tok ir.name ir.ignored (between ⟨pre, a⟩ ⟨a.reverse ++ pre, []⟩)) ⟨a.reverse ++ pre, []⟩ :=
        Step.tok ⟨pre, a⟩ a0 ta ir _ ea hig0 hfm (by rw [ea]; simp)
      have hb : between ⟨pre, a⟩ ⟨a.reverse ++ pre, []⟩ = a := by
        have := between_adv pre a []; simpa using this
      rw [hn, hi, hb] at hs
      exact Steps.cons hs (Steps.nil _)
    | cons a2 r2 =>
      obtain ⟨ir, hn, hi, hfm⟩ := digits_firstMatch c hc 44 hd pre a (44 :: intsText (a2 :: r2)) hne ha (Or.inr ⟨_, rfl⟩)
      obtain ⟨dr, hdn, hdi, hdig, hdfm⟩ := single_firstMatch c "COMMA" 44 hcomma (a.reverse ++ pre) (intsText (a2 :: r2))
      obtain ⟨e, he, hrest⟩ := ih (by simp) (fun x hx => hall x (List.mem_cons_of_mem _ hx)) (44 :: (a.reverse ++ pre))
      refine ⟨e, he, ?_⟩
      have hs1 : Step c ⟨pre, a ++ 44 :: intsText (a2 :: r2)⟩
          (.tok ir.name ir.ignored (between ⟨pre, a ++ 44 :: intsText (a2 :: r2)⟩ ⟨a.reverse ++ pre, 44 :: intsText (a2 :: r2)⟩))
          ⟨a.reverse ++ pre, 44 :: intsText (a2 :: r2)⟩ :=
        Step.tok _ a0 (ta ++ 44 :: intsText (a2 :: r2)) ir _ (by rw [ea]; rfl) hig0 hfm (by rw [ea]; simp <;> omega)
      rw [hn, hi, between_adv pre a (44 :: intsText (a2 :: r2))] at hs1
      have hs2 : Step c ⟨a.reverse ++ pre, 44 :: intsText (a2 :: r2)⟩
          (.tok dr.name dr.ignored (between ⟨a.reverse ++ pre, 44 :: intsText (a2 :: r2)⟩ ⟨44 :: (a.reverse ++ pre), intsText (a2 :: r2)⟩))
          ⟨44 :: (a.reverse ++ pre), intsText (a2 :: r2)⟩ :=
        Step.tok _ 44 (intsText (a2 :: r2)) dr _ rfl hdig hdfm (by simp)
      have hb2 : between ⟨a.reverse ++ pre, 44 :: intsText (a2 :: r2)⟩ ⟨44 :: (a.reverse ++ pre), intsText (a2 :: r2)⟩ = [44] := by
        have := between_adv (a.reverse ++ pre) [44] (intsText (a2 :: r2)); simpa using this
      rw [hdn, hdi, hb2] at hs2
      exact Steps.cons hs1 (Steps.cons hs2 hrest)

/-- **every comma-separated list of digit strings lexes to `INTEGER (COMMA INTEGER)*`** -/
theorem C04_int_list_lexes (c : Cfg) (hc : classOKnum c = true) (hd : stopOKnum c 44 = true)
    (hcomma : classOKsingle c "COMMA" 44 = true) (as : List (List Nat)) (hne : as ≠ [])
    (hall : ∀ a ∈ as, a ≠ [] ∧ ∀ x ∈ a, inSet digitSet x) : lex c (intsText as) = .ok (intsSegs as) := by
  obtain ⟨e, he, hs⟩ := ints_steps c hc hd hcomma as hne hall []
  exact steps_lex c _ _ e hs he

theorem stopOKnum_live : stopOKnum LexRe_sqlite.cfg 44 = true ∧ stopOKnum LexRe_mysql.cfg 44 = true ∧
    stopOKnum LexRe_mindsdb.cfg 44 = true ∧ stopOKnum LexRe_mindsdb.cfg 41 = true := by decide +kernel

theorem C04_int_list_lexes_mindsdb (as : List (List Nat)) (hne : as ≠ [])
    (hall : ∀ a ∈ as, a ≠ [] ∧ ∀ x ∈ a, inSet digitSet x) : lex LexRe_mindsdb.cfg (intsText as) = .ok (intsSegs as) :=
  C04_int_list_lexes _ classOKnum_mindsdb stopOKnum_live.2.2.1 classOKcomma_live.2.2 as hne hall

/-! ### a word in front of a blank (or any other character): decided per word

Blanks are not stop characters for every word: `knowledge base`, `not in`, `is not`, `group by` … are single keyword tokens.  For a
given word `w` and character `d` the condition `stopOKw cfg d w` (decidable; kernel-evaluable for a concrete word) says that every rule
in front of `ID` is harmless at `w d`: as in `stopOK`, or its leading classes disagree with `w d`, or they end inside `w` and what
follows cannot start with the next character of `w` (`blockedLead`). -/

def stopOKw (c : Cfg) (d : Nat) (w : List Nat) : Bool :=
  match splitAtID c.rules with
  | none => false
  | some (pre, idr, _) =>
    !c.word.mem d &&
    pre.all (fun r =>
      (needsOut c.word r.re && noChar d r.re) ||
      (match kwSets r.re with | some sets => !sets.isEmpty && noChar d r.re | none => false) ||
      (nonNull r.re && disjointR (first r.re) letterSet) ||
      blockedLead r.re w d) &&
    (match idShape idr.re with | some (a, b) => !a.mem d && !b.mem d | none => false)

theorem C04_word_is_ID_at_w (c : Cfg) (hc : classOK c = true) (d : Nat) (pre w rest : List Nat)
    (hd : stopOKw c d w = true) (hw : PlainWord w) (hk : isKw c w = false) :
    ∃ idr, idr.name = "ID" ∧ idr.ignored = false ∧
      firstMatch c.word c.rules ⟨pre, w ++ d :: rest⟩ = some (idr, ⟨w.reverse ++ pre, d :: rest⟩) := by
  unfold classOK at hc
  unfold stopOKw at hd
  unfold isKw at hk
  cases hs : splitAtID c.rules with
  | none => rw [hs] at hc; cases hc
  | some x =>
    obtain ⟨prer, idr, post⟩ := x
    rw [hs] at hc hk hd
    simp only [Bool.and_eq_true, List.all_eq_true, Bool.not_eq_true'] at hc hd
    obtain ⟨⟨⟨⟨_, hign⟩, hid⟩, hword⟩, _⟩ := hc
    obtain ⟨⟨hWd, hpre⟩, hidd⟩ := hd
    obtain ⟨erules, ename⟩ := splitAtID_spec hs
    obtain ⟨hall, c0, t0, ew, hlet⟩ := hw
    have hW : ∀ x ∈ w, c.word.mem x = true := fun x hx => allMemR_sound hword (hall x hx)
    cases hsh : idShape idr.re with
    | none => rw [hsh] at hid; cases hid
    | some ab =>
      obtain ⟨A, B⟩ := ab
      rw [hsh] at hid hidd
      simp only [Bool.and_eq_true, Bool.not_eq_true'] at hid hidd
      obtain ⟨hA, hB⟩ := hid
      obtain ⟨alt2, ere⟩ := idShape_spec hsh
      have hAw : ∀ x ∈ w, A.mem x = true := fun x hx => allMemR_sound hA (hall x hx)
      have hBw : ∃ x ∈ w, B.mem x = true := ⟨c0, by rw [ew]; exact List.mem_cons_self, allMemR_sound hB hlet⟩
      have hnone : ∀ r ∈ prer, matchAt c.word r.re ⟨pre, w ++ d :: rest⟩ = none := by
        intro r hr
        have hok := hpre r hr
        simp only [Bool.or_eq_true, Bool.and_eq_true] at hok
        rcases hok with ((ho | hkw) | hf) | hbl
        · exact matchAt_none_of_needsOut_at ho.1 ho.2 (fun x hx => mem_sound (hW x hx))
        · cases hks : kwSets r.re with
          | none => rw [hks] at hkw; cases hkw
          | some sets =>
            rw [hks] at hkw
            simp only [Bool.and_eq_true, Bool.not_eq_true'] at hkw
            cases hm : matchAt c.word r.re ⟨pre, w ++ d :: rest⟩ with
            | none => rfl
            | some q =>
              have hne : sets ≠ [] := by
                intro h0; subst h0; simp at hkw
              have := kw_match_at hks hne hWd hkw.2 hW hm
              have hk' := (List.any_eq_false.mp hk) r hr
              rw [hks] at hk'
              simp only at this hk'
              rw [this] at hk'
              exact absurd rfl hk'
        · have e : w ++ d :: rest = c0 :: (t0 ++ d :: rest) := by rw [ew]; rfl
          exact matchAt_none_of_first hf.1 hf.2 (p := ⟨pre, w ++ d :: rest⟩) e hlet
        · exact matchAt_none_of_blocked hbl pre rest
      have hidm : matchAt c.word idr.re ⟨pre, w ++ d :: rest⟩ = some ⟨w.reverse ++ pre, d :: rest⟩ := by
        rw [ere]
        unfold matchAt
        rw [m_alt]
        have := idCore_match_stop c.word A B d hidd.1 hidd.2 rest w pre hAw hBw
        unfold matchAt at this
        rw [this]
        rfl
      refine ⟨idr, ename, hign, ?_⟩
      rw [erules, firstMatch_skip prer _ hnone]
      simp [firstMatch, hidm]

/-- examples on the live MindsDB rules, in front of a blank: `tab1`, `selected`, `nothing`, `groups`, `knowledge_x` are fine;
`knowledge`, `not`, `group` are not (they can continue into a multi-word keyword) -/
theorem C04_blank_examples :
    stopOKw LexRe_mindsdb.cfg 32 [116, 97, 98, 49] = true ∧
    stopOKw LexRe_mindsdb.cfg 32 [115, 101, 108, 101, 99, 116, 101, 100] = true ∧
    stopOKw LexRe_mindsdb.cfg 32 [110, 111, 116, 104, 105, 110, 103] = true ∧
    stopOKw LexRe_mindsdb.cfg 32 [103, 114, 111, 117, 112, 115] = true ∧
    stopOKw LexRe_mindsdb.cfg 32 [107, 110, 111, 119, 108, 101, 100, 103, 101, 95, 120] = true ∧
    stopOKw LexRe_mindsdb.cfg 32 [107, 110, 111, 119, 108, 101, 100, 103, 101] = false ∧
    stopOKw LexRe_mindsdb.cfg 32 [110, 111, 116] = false ∧
    stopOKw LexRe_mindsdb.cfg 32 [103, 114, 111, 117, 112] = false ∧
    stopOKw LexRe_mindsdb.cfg 10 [116, 97, 98, 49] = true := by
  decide +kernel

/-! ### a keyword in front of a blank (or any other non-word character), and blank-separated word sequences -/

def stopOKkw (c : Cfg) (d : Nat) (w : List Nat) : Bool :=
  match splitAtID c.rules with
  | none => false
  | some (pre, _, _) =>
    match firstKwSplit pre w with
    | none => false
    | some (a, _, _) =>
      !c.word.mem d &&
      a.all (fun r =>
        (needsOut c.word r.re && noChar d r.re) ||
        (match kwSets r.re with | some sets => !sets.isEmpty && noChar d r.re | none => false) ||
        (nonNull r.re && disjointR (first r.re) letterSet) ||
        blockedLead r.re w d)

/-- **a keyword word inside a text is the token of its keyword rule** when what stands in front is no word character and the
character behind it passes the decidable per-word condition `stopOKkw` -/
theorem C04_kw_is_token_at_w (c : Cfg) (hc : classOK c = true) (d : Nat) (pre w rest : List Nat)
    (hprev : isWordAt c.word pre.head? = false) (hd : stopOKkw c d w = true) (hw : PlainWord w) (r : Rule)
    (hr : kwRuleOf c w = some r) :
    firstMatch c.word c.rules ⟨pre, w ++ d :: rest⟩ = some (r, ⟨w.reverse ++ pre, d :: rest⟩) := by
  unfold classOK at hc
  unfold kwRuleOf at hr
  unfold stopOKkw at hd
  cases hs : splitAtID c.rules with
  | none => rw [hs] at hc; cases hc
  | some x =>
    obtain ⟨prer, idr, post⟩ := x
    rw [hs] at hc hr hd
    dsimp only at hr hd
    simp only [Bool.and_eq_true, List.all_eq_true, Bool.not_eq_true'] at hc
    obtain ⟨⟨⟨⟨_, _⟩, _⟩, hword⟩, _⟩ := hc
    obtain ⟨erules, _⟩ := splitAtID_spec hs
    obtain ⟨hall, c0, t0, ew, hlet⟩ := hw
    have hW : ∀ x ∈ w, c.word.mem x = true := fun x hx => allMemR_sound hword (hall x hx)
    cases hfs : firstKwSplit prer w with
    | none => rw [hfs] at hr; cases hr
    | some y =>
      obtain ⟨a, x, b⟩ := y
      rw [hfs] at hr hd
      simp only [Option.map_some, Option.some.injEq] at hr
      subst hr
      simp only [Bool.and_eq_true, List.all_eq_true, Bool.not_eq_true'] at hd
      obtain ⟨hWd, hpre⟩ := hd
      obtain ⟨epre, hhit, hmiss⟩ := firstKwSplit_spec hfs
      have hnone : ∀ y ∈ a, matchAt c.word y.re ⟨pre, w ++ d :: rest⟩ = none := by
        intro y hy
        have hok := hpre y hy
        simp only [Bool.or_eq_true, Bool.and_eq_true] at hok
        rcases hok with ((ho | hkw) | hf) | hbl
        · exact matchAt_none_of_needsOut_at ho.1 ho.2 (fun z hz => mem_sound (hW z hz))
        · cases hks : kwSets y.re with
          | none => rw [hks] at hkw; cases hkw
          | some sets =>
            rw [hks] at hkw
            simp only [Bool.and_eq_true, Bool.not_eq_true'] at hkw
            cases hm : matchAt c.word y.re ⟨pre, w ++ d :: rest⟩ with
            | none => rfl
            | some q =>
              have hne : sets ≠ [] := by
                intro h0; subst h0; simp at hkw
              have := kw_match_at hks hne hWd hkw.2 hW hm
              have hmy := hmiss y hy
              unfold kwHit at hmy
              rw [hks] at hmy
              simp only at this hmy
              rw [this] at hmy
              cases hmy
        · have e : w ++ d :: rest = c0 :: (t0 ++ d :: rest) := by rw [ew]; rfl
          exact matchAt_none_of_first hf.1 hf.2 (p := ⟨pre, w ++ d :: rest⟩) e hlet
        · exact matchAt_none_of_blocked hbl pre rest
      unfold kwHit at hhit
      cases hks : kwSets x.re with
      | none => rw [hks] at hhit; cases hhit
      | some sets =>
        rw [hks] at hhit
        simp only at hhit
        have hne : sets ≠ [] := by
          intro h0; subst h0; rw [ew] at hhit; simp [kwMatch] at hhit
        have hxm := kw_matches_at hks hne hWd (pre := pre) (u := w) (rest := rest) hprev hhit hW
        rw [erules, epre]
        simp only [List.append_assoc, List.cons_append]
        rw [firstMatch_skip a _ hnone]
        simp [firstMatch, hxm]

/-- examples on the live MindsDB rules, in front of a blank: `select`, `from`, `where`, `limit`, `and` are fine; `group`, `order`, `not`, `is`
can continue into a multi-word keyword -/
theorem C04_kw_blank_examples :
    stopOKkw LexRe_mindsdb.cfg 32 [115, 101, 108, 101, 99, 116] = true ∧
    stopOKkw LexRe_mindsdb.cfg 32 [70, 82, 79, 77] = true ∧
    stopOKkw LexRe_mindsdb.cfg 32 [119, 104, 101, 114, 101] = true ∧
    stopOKkw LexRe_mindsdb.cfg 32 [108, 105, 109, 105, 116] = true ∧
    stopOKkw LexRe_mindsdb.cfg 32 [97, 110, 100] = true ∧
    stopOKkw LexRe_mindsdb.cfg 32 [103, 114, 111, 117, 112] = false ∧
    stopOKkw LexRe_mindsdb.cfg 32 [110, 111, 116] = false := by
  decide +kernel

open MindsVerif.Props.C02Lex in
theorem Steps_append {c : Cfg} : ∀ {p q e : Pos} {s1 s2 : List Seg}, Steps c p s1 q → Steps c q s2 e → Steps c p (s1 ++ s2) e := by
  intro p q e s1 s2 h1 h2
  induction h1 with
  | nil p => simpa using h2
  | cons hs _ ih => exact Steps.cons hs (ih h2)

theorem ignore_letter {c : Cfg} (hc : classOK c = true) {c0 : Nat} (hlet : inSet letterSet c0) : c.ignore.mem c0 = false := by
  unfold classOK at hc
  cases hs : splitAtID c.rules with
  | none => rw [hs] at hc; cases hc
  | some x =>
    obtain ⟨prer, idr, post⟩ := x
    rw [hs] at hc
    simp only [Bool.and_eq_true] at hc
    cases h : c.ignore.mem c0 with
    | false => rfl
    | true => exact (disjointR_sound hc.2 (mem_sound h) hlet).elim

/-- the token a blank-terminated word becomes: its keyword rule's, or `ID` -/
def wordSeg (c : Cfg) (w : List Nat) : Seg :=
  match kwRuleOf c w with
  | some r => .tok r.name r.ignored w
  | none => .tok "ID" false w

/-- the decidable per-word condition in front of a blank -/
def wordOK (c : Cfg) (w : List Nat) : Bool :=
  match kwRuleOf c w with
  | some _ => stopOKkw c 32 w
  | none => stopOKw c 32 w && !isKw c w

def wordsText (ws : List (List Nat)) (rest : List Nat) : List Nat := ws.foldr (fun w acc => w ++ 32 :: acc) rest
def wordsSegs (c : Cfg) (ws : List (List Nat)) : List Seg := ws.flatMap fun w => [wordSeg c w, .skip 32]

open MindsVerif.Props.C02Lex in
/-- a sequence of blank-terminated words, keywords and names mixed, in front of any remaining text -/
theorem words_steps (c : Cfg) (hc : classOK c = true) (hign : c.ignore.mem 32 = true) (hW32 : c.word.mem 32 = false) :
    ∀ (ws : List (List Nat)), (∀ w ∈ ws, PlainWord w ∧ wordOK c w = true) →
    ∀ (pre : List Nat), isWordAt c.word pre.head? = false → ∀ rest : List Nat,
      Steps c ⟨pre, wordsText ws rest⟩ (wordsSegs c ws) ⟨(wordsText ws []).reverse ++ pre, rest⟩ := by
  intro ws
  induction ws with
  | nil => intro _ pre _ rest; simpa [wordsText, wordsSegs] using Steps.nil (c := c) ⟨pre, rest⟩
  | cons w ws ih =>
    intro hall pre hprev rest
    obtain ⟨hw, hok⟩ := hall w List.mem_cons_self
    obtain ⟨hpl, c0, t0, ew, hlet⟩ := hw
    have hig0 : c.ignore.mem c0 = false := ignore_letter hc hlet
    have hprev' : isWordAt c.word (32 :: (w.reverse ++ pre)).head? = false := by simp [isWordAt, hW32]
    have hrest := ih (fun x hx => hall x (List.mem_cons_of_mem _ hx)) (32 :: (w.reverse ++ pre)) hprev' rest
    have hskip : Step c ⟨w.reverse ++ pre, 32 :: wordsText ws rest⟩ (.skip 32) ⟨32 :: (w.reverse ++ pre), wordsText ws rest⟩ :=
      Step.skip _ 32 _ hign
    have hend : (wordsText (w :: ws) []).reverse ++ pre = (wordsText ws []).reverse ++ 32 :: (w.reverse ++ pre) := by
      simp [wordsText]
    have hstep : Step c ⟨pre, w ++ 32 :: wordsText ws rest⟩ (wordSeg c w) ⟨w.reverse ++ pre, 32 :: wordsText ws rest⟩ := by
      unfold wordOK at hok
      unfold wordSeg
      cases hk : kwRuleOf c w with
      | some r =>
        rw [hk] at hok
        have hfm := C04_kw_is_token_at_w c hc 32 pre w (wordsText ws rest) hprev hok ⟨hpl, c0, t0, ew, hlet⟩ r hk
        have := Step.tok ⟨pre, w ++ 32 :: wordsText ws rest⟩ c0 (t0 ++ 32 :: wordsText ws rest) r _ (by rw [ew]; rfl) hig0 hfm
          (by rw [ew]; simp <;> omega)
        rw [between_adv] at this
        exact this
      | none =>
        rw [hk] at hok
        simp only [Bool.and_eq_true, Bool.not_eq_true'] at hok
        obtain ⟨idr, hn, hi, hfm⟩ := C04_word_is_ID_at_w c hc 32 pre w (wordsText ws rest) hok.1 ⟨hpl, c0, t0, ew, hlet⟩ hok.2
        have := Step.tok ⟨pre, w ++ 32 :: wordsText ws rest⟩ c0 (t0 ++ 32 :: wordsText ws rest) idr _ (by rw [ew]; rfl) hig0 hfm
          (by rw [ew]; simp <;> omega)
        rw [between_adv, hn, hi] at this
        exact this
    rw [hend]
    show Steps c ⟨pre, w ++ 32 :: wordsText ws rest⟩ (wordSeg c w :: .skip 32 :: wordsSegs c ws) _
    exact Steps.cons hstep (Steps.cons hskip hrest)

open MindsVerif.Props.C02Lex in
/-- **blank-separated keywords and names ending in a name lex to the expected token list** — every rule list with `classOK`
whose `ignore` holds the blank, every word sequence that passes the per-word condition -/
theorem C04_words_lex (c : Cfg) (hc : classOK c = true) (hign : c.ignore.mem 32 = true) (hW32 : c.word.mem 32 = false)
    (ws : List (List Nat)) (hall : ∀ w ∈ ws, PlainWord w ∧ wordOK c w = true) (t : List Nat) (ht : PlainWord t)
    (hk : isKw c t = false) : lex c (wordsText ws t) = .ok (wordsSegs c ws ++ [.tok "ID" false t]) := by
  have h1 := words_steps c hc hign hW32 ws hall [] (by simp [isWordAt]) t
  obtain ⟨idr, hn, hi, hfm⟩ := C04_word_is_ID_end c hc ((wordsText ws []).reverse ++ []) t ht hk
  obtain ⟨_, c0, t0, ew, hlet⟩ := ht
  have h2 : Step c ⟨(wordsText ws []).reverse ++ [], t⟩ (.tok "ID" false t) ⟨t.reverse ++ ((wordsText ws []).reverse ++ []), []⟩ := by
    have := Step.tok ⟨(wordsText ws []).reverse ++ [], t⟩ c0 t0 idr _ ew (ignore_letter hc hlet) hfm (by rw [ew]; simp)
    have hb := between_adv ((wordsText ws []).reverse ++ []) t []
    simp only [List.append_nil] at hb this
    rw [hb, hn, hi] at this
    simpa using this
  exact steps_lex c _ _ _ (Steps_append h1 (Steps.cons h2 (Steps.nil _))) rfl

/-- a concrete word is plain when the executable membership test says so -/
theorem plainWord_of_mem (w : List Nat) (c0 : Nat) (t0 : List Nat) (ew : w = c0 :: t0)
    (h : (w.all fun c => plainSet.mem c) = true) (hl : letterSet.mem c0 = true) : PlainWord w :=
  ⟨fun c hc => mem_sound (List.all_eq_true.mp h c hc), c0, t0, ew, mem_sound hl⟩

/-- **`select <a> from <t>`**, any case of the keywords aside: for all names `a`, `t` that are no keywords (and `a` blank-safe), the live
MindsDB lexer yields SELECT, ID, FROM, ID -/
theorem C04_select_from_mindsdb (a t : List Nat) (ha : PlainWord a) (hab : stopOKw LexRe_mindsdb.cfg 32 a = true)
    (hak : isKw LexRe_mindsdb.cfg a = false) (hanone : kwRuleOf LexRe_mindsdb.cfg a = none)
    (ht : PlainWord t) (htk : isKw LexRe_mindsdb.cfg t = false) :
    lex LexRe_mindsdb.cfg ([115, 101, 108, 101, 99, 116, 32] ++ a ++ [32, 102, 114, 111, 109, 32] ++ t) =
      .ok [.tok "SELECT" false [115, 101, 108, 101, 99, 116], .skip 32, .tok "ID" false a, .skip 32,
           .tok "FROM" false [102, 114, 111, 109], .skip 32, .tok "ID" false t] := by
  have hsel : PlainWord [115, 101, 108, 101, 99, 116] ∧ wordOK LexRe_mindsdb.cfg [115, 101, 108, 101, 99, 116] = true :=
    ⟨plainWord_of_mem _ 115 _ rfl (by decide) (by decide), by decide +kernel⟩
  have hfrom : PlainWord [102, 114, 111, 109] ∧ wordOK LexRe_mindsdb.cfg [102, 114, 111, 109] = true :=
    ⟨plainWord_of_mem _ 102 _ rfl (by decide) (by decide), by decide +kernel⟩
  have hao : wordOK LexRe_mindsdb.cfg a = true := by unfold wordOK; rw [hanone]; simp [hab, hak]
  have := C04_words_lex LexRe_mindsdb.cfg classOK_mindsdb (by decide +kernel) (by decide +kernel)
    [[115, 101, 108, 101, 99, 116], a, [102, 114, 111, 109]]
    (by intro w hw; simp only [List.mem_cons, List.not_mem_nil, or_false] at hw
        rcases hw with rfl | rfl | rfl
        · exact hsel
        · exact ⟨ha, hao⟩
        · exact hfrom) t ht htk
  have e1 : wordSeg LexRe_mindsdb.cfg [115, 101, 108, 101, 99, 116] = .tok "SELECT" false [115, 101, 108, 101, 99, 116] := by decide +kernel
  have e2 : wordSeg LexRe_mindsdb.cfg [102, 114, 111, 109] = .tok "FROM" false [102, 114, 111, 109] := by decide +kernel
  have e3 : wordSeg LexRe_mindsdb.cfg a = .tok "ID" false a := by unfold wordSeg; rw [hanone]
  simpa [wordsText, wordsSegs, e1, e2, e3] using this

/-- non-vacuity: `col1` and `tab1` meet every hypothesis of `C04_select_from_mindsdb` -/
theorem C04_select_from_example :
    lex LexRe_mindsdb.cfg ([115, 101, 108, 101, 99, 116, 32] ++ [99, 111, 108, 49] ++ [32, 102, 114, 111, 109, 32] ++ [116, 97, 98, 49]) =
      .ok [.tok "SELECT" false [115, 101, 108, 101, 99, 116], .skip 32, .tok "ID" false [99, 111, 108, 49], .skip 32,
           .tok "FROM" false [102, 114, 111, 109], .skip 32, .tok "ID" false [116, 97, 98, 49]] :=
  C04_select_from_mindsdb _ _ (plainWord_of_mem _ 99 _ rfl (by decide) (by decide)) (by decide +kernel) (by decide +kernel)
    (by decide +kernel) (plainWord_of_mem _ 116 _ rfl (by decide) (by decide)) (by decide +kernel)

open MindsVerif.Props.C02Lex in
/-- **blank-separated keywords and names ending in a digit string** lex to the expected tokens followed by `INTEGER` -/
theorem C04_words_int_lex (c : Cfg) (hc : classOK c = true) (hcn : classOKnum c = true) (hd : stopOKnum c 44 = true)
    (hign : c.ignore.mem 32 = true) (hW32 : c.word.mem 32 = false)
    (ws : List (List Nat)) (hall : ∀ w ∈ ws, PlainWord w ∧ wordOK c w = true) (n : List Nat) (hne : n ≠ [])
    (hn : ∀ x ∈ n, inSet digitSet x) : lex c (wordsText ws n) = .ok (wordsSegs c ws ++ [.tok "INTEGER" false n]) := by
  have hignD : disjointR c.ignore digitSet = true := by
    unfold classOKnum at hcn
    cases hs : splitAt "INTEGER" c.rules with
    | none => rw [hs] at hcn; cases hcn
    | some x => rw [hs] at hcn; simp only [Bool.and_eq_true] at hcn; exact hcn.2
  have h1 := words_steps c hc hign hW32 ws hall [] (by simp [isWordAt]) n
  obtain ⟨ir, hnm, hi, hfm⟩ := digits_firstMatch c hcn 44 hd ((wordsText ws []).reverse ++ []) n [] hne hn (Or.inl rfl)
  obtain ⟨n0, tn, en⟩ : ∃ n0 tn, n = n0 :: tn := by
    cases n with
    | nil => exact absurd rfl hne
    | cons n0 tn => exact ⟨n0, tn, rfl⟩
  have hig0 : c.ignore.mem n0 = false := by
    cases h : c.ignore.mem n0 with
    | false => rfl
    | true => exact (disjointR_sound hignD (mem_sound h) (hn n0 (by rw [en]; exact List.mem_cons_self))).elim
  simp only [List.append_nil] at hfm
  have h2 : Step c ⟨(wordsText ws []).reverse ++ [], n⟩ (.tok "INTEGER" false n) ⟨n.reverse ++ ((wordsText ws []).reverse ++ []), []⟩ := by
    have := Step.tok ⟨(wordsText ws []).reverse ++ [], n⟩ n0 tn ir _ en hig0 (by simpa using hfm) (by rw [en]; simp)
    have hb := between_adv ((wordsText ws []).reverse ++ []) n []
    simp only [List.append_nil] at hb this
    rw [hb, hnm, hi] at this
    simpa using this
  exact steps_lex c _ _ _ (Steps_append h1 (Steps.cons h2 (Steps.nil _))) rfl

/-- **`select <a> from <t> limit <n>`** on the live MindsDB rules: for all blank-safe non-keyword names `a`, `t` and all digit strings `n` -/
theorem C04_select_from_limit_mindsdb (a t n : List Nat)
    (ha : PlainWord a) (hab : stopOKw LexRe_mindsdb.cfg 32 a = true) (hak : isKw LexRe_mindsdb.cfg a = false)
    (hanone : kwRuleOf LexRe_mindsdb.cfg a = none)
    (ht : PlainWord t) (htb : stopOKw LexRe_mindsdb.cfg 32 t = true) (htk : isKw LexRe_mindsdb.cfg t = false)
    (htnone : kwRuleOf LexRe_mindsdb.cfg t = none)
    (hne : n ≠ []) (hn : ∀ x ∈ n, inSet digitSet x) :
    lex LexRe_mindsdb.cfg ([115, 101, 108, 101, 99, 116, 32] ++ a ++ [32, 102, 114, 111, 109, 32] ++ t ++ [32, 108, 105, 109, 105, 116, 32] ++ n) =
      .ok [.tok "SELECT" false [115, 101, 108, 101, 99, 116], .skip 32, .tok "ID" false a, .skip 32,
           .tok "FROM" false [102, 114, 111, 109], .skip 32, .tok "ID" false t, .skip 32,
           .tok "LIMIT" false [108, 105, 109, 105, 116], .skip 32, .tok "INTEGER" false n] := by
  have hsel : PlainWord [115, 101, 108, 101, 99, 116] ∧ wordOK LexRe_mindsdb.cfg [115, 101, 108, 101, 99, 116] = true :=
    ⟨plainWord_of_mem _ 115 _ rfl (by decide) (by decide), by decide +kernel⟩
  have hfrom : PlainWord [102, 114, 111, 109] ∧ wordOK LexRe_mindsdb.cfg [102, 114, 111, 109] = true :=
    ⟨plainWord_of_mem _ 102 _ rfl (by decide) (by decide), by decide +kernel⟩
  have hlim : PlainWord [108, 105, 109, 105, 116] ∧ wordOK LexRe_mindsdb.cfg [108, 105, 109, 105, 116] = true :=
    ⟨plainWord_of_mem _ 108 _ rfl (by decide) (by decide), by decide +kernel⟩
  have hao : wordOK LexRe_mindsdb.cfg a = true := by unfold wordOK; rw [hanone]; simp [hab, hak]
  have hto : wordOK LexRe_mindsdb.cfg t = true := by unfold wordOK; rw [htnone]; simp [htb, htk]
  have := C04_words_int_lex LexRe_mindsdb.cfg classOK_mindsdb classOKnum_mindsdb stopOKnum_live.2.2.1 (by decide +kernel) (by decide +kernel)
    [[115, 101, 108, 101, 99, 116], a, [102, 114, 111, 109], t, [108, 105, 109, 105, 116]]
    (by intro w hw; simp only [List.mem_cons, List.not_mem_nil, or_false] at hw
        rcases hw with rfl | rfl | rfl | rfl | rfl
        · exact hsel
        · exact ⟨ha, hao⟩
        · exact hfrom
        · exact ⟨ht, hto⟩
        · exact hlim) n hne hn
  have e1 : wordSeg LexRe_mindsdb.cfg [115, 101, 108, 101, 99, 116] = .tok "SELECT" false [115, 101, 108, 101, 99, 116] := by decide +kernel
  have e2 : wordSeg LexRe_mindsdb.cfg [102, 114, 111, 109] = .tok "FROM" false [102, 114, 111, 109] := by decide +kernel
  have e4 : wordSeg LexRe_mindsdb.cfg [108, 105, 109, 105, 116] = .tok "LIMIT" false [108, 105, 109, 105, 116] := by decide +kernel
  have e3 : wordSeg LexRe_mindsdb.cfg a = .tok "ID" false a := by unfold wordSeg; rw [hanone]
  have e5 : wordSeg LexRe_mindsdb.cfg t = .tok "ID" false t := by unfold wordSeg; rw [htnone]
  simpa [wordsText, wordsSegs, e1, e2, e3, e4, e5] using this

end MindsVerif.Props.C04Lex
