import MindsVerif.Lemmas.LRSound
import MindsVerif.Gen.Valid_sqlite
import MindsVerif.Gen.Valid_mysql
import MindsVerif.Gen.Valid_mindsdb
/-!
# C05 — a statement is accepted only if its whole token stream is one grammar sentence

Property theorems only.  The model is `MindsVerif.LR.parse` (a transcription of
`sly/yacc.py: Parser.parse` with both `error()` callbacks) over the tables regenerated from the
live parser classes; the grammar is the production list of those tables.
-/
namespace MindsVerif.Props.C05
open MindsVerif.LR MindsVerif.Gen

/-- `toks` is a sentence: some derivation tree of the grammar, rooted at the start symbol,
has exactly `toks` as its frontier. -/
def Sentence (T : Tables) (toks : List Nat) : Prop :=
  ∃ t : PT, t.WF T ∧ t.root = 2 * T.start + 1 ∧ t.yield = toks

/-- Full statement: whenever the driver accepts — in whichever error mode, whether or not the
token generator would have raised later, for every fuel — the value it returns is a derivation
tree of the *whole* token list (nothing skipped, nothing left over, no recovery), and the
semantic actions were called in that tree's post-order. -/
def C05_full (T : Tables) : Prop :=
  ∀ (mode : Mode) (bad : Bool) (toks : List Nat) (fuel : Nat) (t : PT) (log : List Nat),
    (∀ x ∈ toks, x ≠ 0) →
    parse T mode bad toks fuel = .accept t log →
      bad = false ∧ t.WF T ∧ t.root = 2 * T.start + 1 ∧ t.yield = toks ∧ t.postorder = log.reverse

theorem C05_generic (T : Tables) (hv : T.valid = true) : C05_full T := by
  intro mode bad toks fuel t log h0 hacc
  have := parse_good hv mode bad toks h0 fuel
  rw [hacc] at this
  obtain ⟨h1, h2, h3, h4, h5⟩ := this
  exact ⟨h4, h1, h2, h3, h5⟩

theorem C05_sqlite : C05_full Tables_sqlite.tables := C05_generic _ Tables_sqlite.valid
theorem C05_mysql : C05_full Tables_mysql.tables := C05_generic _ Tables_mysql.valid
theorem C05_mindsdb : C05_full Tables_mindsdb.tables := C05_generic _ Tables_mindsdb.valid

/-- corollary in the words of the property: accepted ⇒ the token list is one sentence -/
theorem C05_sentence (T : Tables) (hv : T.valid = true) (mode : Mode) (bad : Bool)
    (toks : List Nat) (fuel : Nat) (t : PT) (log : List Nat) (h0 : ∀ x ∈ toks, x ≠ 0)
    (h : parse T mode bad toks fuel = .accept t log) : Sentence T toks := by
  obtain ⟨_, h1, h2, h3, _⟩ := C05_generic T hv mode bad toks fuel t log h0 h
  exact ⟨t, h1, h2, h3⟩

/-- Once the (mindsdb) error callback has run, no continuation of the run accepts:
error recovery can never resynchronise onto a later statement. -/
theorem C05_no_accept_after_error (T : Tables) (hv : T.valid = true) (c : Cfg) (hc : PostErr T c)
    (fuel : Nat) : ∀ t log, run T .drain false fuel c ≠ .accept t log := by
  intro t log h
  have := run_post (valid_of_eq hv) fuel c hc
  rw [h] at this
  exact this

/-! non-vacuity: the hypotheses are met and acceptance does happen on a real sentence -/
def accepts (T : Tables) (mode : Mode) (toks : List Nat) : Bool :=
  match parse T mode false toks 10000 with
  | .accept _ _ => true
  | _ => false

example : accepts Tables_sqlite.tables .raise Tables_sqlite.sample = true := by decide +kernel
example : accepts Tables_mysql.tables .raise Tables_mysql.sample = true := by decide +kernel
example : accepts Tables_mindsdb.tables .drain Tables_mindsdb.sample = true := by decide +kernel
example : ∀ x ∈ Tables_mindsdb.sample, x ≠ 0 := by decide
/-- and a non-sentence (the sample with its first token doubled) is not accepted -/
example : accepts Tables_mindsdb.tables .drain
    (Tables_mindsdb.sample.head! :: Tables_mindsdb.sample) = false := by decide +kernel

/-! ### [review] additions (reviewer rev-lr-opm) -/

/-- [review] the property's "equivalently": a token list outside the grammar's language is never accepted
(contrapositive of `C05_sentence`; any mode, any fuel, whether or not the lexer would fail later) -/
theorem C05_review_reject_nonsentence (T : Tables) (hv : T.valid = true) (mode : Mode) (bad : Bool)
    (toks : List Nat) (fuel : Nat) (h0 : ∀ x ∈ toks, x ≠ 0) (hns : ¬ Sentence T toks) :
    ∀ t log, parse T mode bad toks fuel ≠ .accept t log :=
  fun t log h => hns (C05_sentence T hv mode bad toks fuel t log h0 h)

/-- [review] non-vacuity of `C05_no_accept_after_error`: its hypothesis `PostErr` is satisfiable for every table
(the configuration right after the draining callback ran on an empty stack: nothing left to read, errorcount 3) -/
example (T : Tables) : PostErr T
    { st := [], input := [], la := none, las := [], errcount := 3, errok := false, consumed := 1,
      err := some ⟨some 0, 0⟩, log := [] } :=
  { path := Path.nil, noErrLeaf := by simp, input := rfl, cnt := by decide, ok := rfl,
    la := Or.inr ⟨rfl, rfl, rfl⟩, err := by simp }

-- [review] two statements back to back (the resynchronisation scenario of the property) are not accepted,
-- in all three dialects; the mindsdb run ends with `None` + error info, i.e. it went through the error callback
example : accepts Tables_sqlite.tables .raise (Tables_sqlite.sample ++ Tables_sqlite.sample) = false := by
  decide +kernel
example : accepts Tables_mysql.tables .raise (Tables_mysql.sample ++ Tables_mysql.sample) = false := by
  decide +kernel
example : (match parse Tables_mindsdb.tables .drain false (Tables_mindsdb.sample ++ Tables_mindsdb.sample) 10000 with
    | .none_ (some e) _ => e.bad == some Tables_mindsdb.sample.length | _ => false) = true := by decide +kernel
-- [review] out of fuel is a distinct outcome, never an acceptance
example : (match parse Tables_mindsdb.tables .drain false Tables_mindsdb.sample 20 with
    | .fuel => true | _ => false) = true := by decide +kernel

end MindsVerif.Props.C05
