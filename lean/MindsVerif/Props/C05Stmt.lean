import MindsVerif.Props.C04Lex
import MindsVerif.Props.C05Text
/-!
# `C05Stmt` — a statement family from the characters to ACCEPT

`select <a> from <t>`: for ALL names `a`, `t` (plain non-keyword words, `a` safe in front of a blank) the composed model of
`parse_sql(text, 'mindsdb')` — strip, lex over the live master regex, LR run over the live tables — accepts.  The lexer half is
`C04Lex.C04_select_from_mindsdb` (a theorem over all such names); the parser half runs on the four terminal ids, which do not
depend on `a` and `t`, so the kernel evaluates it once.  Unboundedly many texts, no sampling.
-/
namespace MindsVerif.Props.C05Stmt
open MindsVerif.Re MindsVerif.SlyLex MindsVerif.LR MindsVerif.TextParse MindsVerif.Gen MindsVerif.Props.C04Lex MindsVerif.Props.C05Text

/-- nothing is stripped from a text whose last character is outside the strip class -/
theorem rstrip_id (st : CSet) (s : List Nat) (h : ∀ x, s.getLast? = some x → st.mem x = false) : rstrip st s = s := by
  unfold rstrip
  cases hr : s.reverse with
  | nil => have : s = [] := by simpa using hr
           subst this; rfl
  | cons x r =>
    have hl : s.getLast? = some x := by rw [List.getLast?_eq_head?_reverse, hr]; rfl
    have hx := h x hl
    have : (x :: r).dropWhile (fun c => st.mem c) = x :: r := by simp [List.dropWhile, hx]
    rw [this, ← hr, List.reverse_reverse]

def Outcome.accepted : Outcome → Bool
  | .accept _ _ => true
  | _ => false

/-- plain characters are never stripped (kernel, on the tabulated strip class of the live `parse_sql`) -/
theorem strip_plain : MindsVerif.Re.disjointR LexRe_mindsdb.stripSet plainSet = true := by decide +kernel

/-- the four terminal ids of `SELECT ID FROM ID` are accepted by the live MindsDB tables -/
theorem select_from_ids_accepted :
    Outcome.accepted (parse Tables_mindsdb.tables .drain false
      [tid LexRe_mindsdb.termNames "SELECT", tid LexRe_mindsdb.termNames "ID", tid LexRe_mindsdb.termNames "FROM",
       tid LexRe_mindsdb.termNames "ID"] 200) = true := by decide +kernel

/-- **`parse_sql('select <a> from <t>', 'mindsdb')` is accepted for all names `a`, `t`** (model of strip + lexer + LR driver) -/
theorem C05_select_from_accepted (a t : List Nat) (ha : PlainWord a) (hab : stopOKw LexRe_mindsdb.cfg 32 a = true)
    (hak : isKw LexRe_mindsdb.cfg a = false) (hanone : kwRuleOf LexRe_mindsdb.cfg a = none)
    (ht : PlainWord t) (htk : isKw LexRe_mindsdb.cfg t = false) :
    ∃ segs o, parseSql langMindsdb ([115, 101, 108, 101, 99, 116, 32] ++ a ++ [32, 102, 114, 111, 109, 32] ++ t) 200 = (.ok segs, some o) ∧
      Outcome.accepted o = true ∧
      (tokensFrom 0 segs).map (·.1) = ["SELECT", "ID", "FROM", "ID"] := by
  have hlex := C04_select_from_mindsdb a t ha hab hak hanone ht htk
  have hstrip : rstrip langMindsdb.strip ([115, 101, 108, 101, 99, 116, 32] ++ a ++ [32, 102, 114, 111, 109, 32] ++ t) =
      [115, 101, 108, 101, 99, 116, 32] ++ a ++ [32, 102, 114, 111, 109, 32] ++ t := by
    apply rstrip_id
    intro x hx
    obtain ⟨hall, c0, t0, ew, _⟩ := ht
    have hxt : x ∈ t := by
      rw [List.getLast?_append] at hx
      cases hl : t.getLast? with
      | none => rw [List.getLast?_eq_none_iff] at hl; rw [hl] at ew; cases ew
      | some y =>
        rw [hl] at hx
        simp at hx
        subst hx
        exact List.mem_of_getLast? hl
    cases hm : CSet.mem langMindsdb.strip x with
    | false => rfl
    | true => exact (disjointR_sound strip_plain (mem_sound hm) (hall x hxt)).elim
  have hlex' : lex langMindsdb.cfg (rstrip langMindsdb.strip ([115, 101, 108, 101, 99, 116, 32] ++ a ++ [32, 102, 114, 111, 109, 32] ++ t)) =
      .ok [.tok "SELECT" false [115, 101, 108, 101, 99, 116], .skip 32, .tok "ID" false a, .skip 32,
           .tok "FROM" false [102, 114, 111, 109], .skip 32, .tok "ID" false t] := by rw [hstrip]; exact hlex
  have hids : ids langMindsdb.names [.tok "SELECT" false [115, 101, 108, 101, 99, 116], .skip 32, .tok "ID" false a, .skip 32,
           .tok "FROM" false [102, 114, 111, 109], .skip 32, .tok "ID" false t] =
      [tid LexRe_mindsdb.termNames "SELECT", tid LexRe_mindsdb.termNames "ID", tid LexRe_mindsdb.termNames "FROM",
       tid LexRe_mindsdb.termNames "ID"] := by
    simp [ids, tokensFrom, langMindsdb]
  refine ⟨[.tok "SELECT" false [115, 101, 108, 101, 99, 116], .skip 32, .tok "ID" false a, .skip 32,
           .tok "FROM" false [102, 114, 111, 109], .skip 32, .tok "ID" false t], parse Tables_mindsdb.tables .drain false
      [tid LexRe_mindsdb.termNames "SELECT", tid LexRe_mindsdb.termNames "ID", tid LexRe_mindsdb.termNames "FROM",
       tid LexRe_mindsdb.termNames "ID"] 200, ?_, select_from_ids_accepted, ?_⟩
  · unfold parseSql
    simp only [hlex', hids]
    rfl
  · simp [tokensFrom]

/-- non-vacuity: `col1`, `tab1` -/
theorem C05_select_from_example :
    ∃ segs o, parseSql langMindsdb ([115, 101, 108, 101, 99, 116, 32] ++ [99, 111, 108, 49] ++ [32, 102, 114, 111, 109, 32] ++ [116, 97, 98, 49]) 200
      = (.ok segs, some o) ∧ Outcome.accepted o = true ∧ (tokensFrom 0 segs).map (·.1) = ["SELECT", "ID", "FROM", "ID"] :=
  C05_select_from_accepted _ _ (plainWord_of_mem _ 99 _ rfl (by decide) (by decide)) (by decide +kernel) (by decide +kernel)
    (by decide +kernel) (plainWord_of_mem _ 116 _ rfl (by decide) (by decide)) (by decide +kernel)

/-- generic composition: a text whose last character is not stripped and which the lexer model tokenises is handed to the LR driver
with exactly the ids of those tokens -/
theorem parseSql_of_lex (L : Lang) (s : List Nat) (segs : List Seg) (fuel : Nat)
    (hlast : ∀ x, s.getLast? = some x → L.strip.mem x = false) (hl : lex L.cfg s = .ok segs) :
    parseSql L s fuel = (.ok segs, some (parse L.tables L.mode false (ids L.names segs) fuel)) := by
  unfold parseSql
  rw [rstrip_id L.strip s hlast]
  simp only [hl]

theorem last_digit_not_stripped : MindsVerif.Re.disjointR LexRe_mindsdb.stripSet digitSet = true := by decide +kernel

theorem select_from_limit_ids_accepted :
    Outcome.accepted (parse Tables_mindsdb.tables .drain false
      [tid LexRe_mindsdb.termNames "SELECT", tid LexRe_mindsdb.termNames "ID", tid LexRe_mindsdb.termNames "FROM",
       tid LexRe_mindsdb.termNames "ID", tid LexRe_mindsdb.termNames "LIMIT", tid LexRe_mindsdb.termNames "INTEGER"] 300) = true := by
  decide +kernel

/-- **`parse_sql('select <a> from <t> limit <n>', 'mindsdb')` is accepted for all names `a`, `t` and all digit strings `n`** -/
theorem C05_select_from_limit_accepted (a t n : List Nat)
    (ha : PlainWord a) (hab : stopOKw LexRe_mindsdb.cfg 32 a = true) (hak : isKw LexRe_mindsdb.cfg a = false)
    (hanone : kwRuleOf LexRe_mindsdb.cfg a = none)
    (ht : PlainWord t) (htb : stopOKw LexRe_mindsdb.cfg 32 t = true) (htk : isKw LexRe_mindsdb.cfg t = false)
    (htnone : kwRuleOf LexRe_mindsdb.cfg t = none)
    (hne : n ≠ []) (hn : ∀ x ∈ n, inSet digitSet x) :
    ∃ segs o, parseSql langMindsdb
        ([115, 101, 108, 101, 99, 116, 32] ++ a ++ [32, 102, 114, 111, 109, 32] ++ t ++ [32, 108, 105, 109, 105, 116, 32] ++ n) 300
          = (.ok segs, some o) ∧ Outcome.accepted o = true ∧
      (tokensFrom 0 segs).map (·.1) = ["SELECT", "ID", "FROM", "ID", "LIMIT", "INTEGER"] := by
  have hlex := C04_select_from_limit_mindsdb a t n ha hab hak hanone ht htb htk htnone hne hn
  have hlast : ∀ x, ([115, 101, 108, 101, 99, 116, 32] ++ a ++ [32, 102, 114, 111, 109, 32] ++ t ++ [32, 108, 105, 109, 105, 116, 32] ++ n).getLast?
      = some x → langMindsdb.strip.mem x = false := by
    intro x hx
    have hxn : x ∈ n := by
      rw [List.getLast?_append] at hx
      cases hl : n.getLast? with
      | none => rw [List.getLast?_eq_none_iff] at hl; exact absurd hl hne
      | some y =>
        rw [hl] at hx
        simp at hx
        subst hx
        exact List.mem_of_getLast? hl
    cases hm : CSet.mem langMindsdb.strip x with
    | false => rfl
    | true => exact (disjointR_sound last_digit_not_stripped (mem_sound hm) (hn x hxn)).elim
  have h := parseSql_of_lex langMindsdb _ _ 300 hlast hlex
  have hids : ids langMindsdb.names [.tok "SELECT" false [115, 101, 108, 101, 99, 116], .skip 32, .tok "ID" false a, .skip 32,
           .tok "FROM" false [102, 114, 111, 109], .skip 32, .tok "ID" false t, .skip 32,
           .tok "LIMIT" false [108, 105, 109, 105, 116], .skip 32, .tok "INTEGER" false n] =
      [tid LexRe_mindsdb.termNames "SELECT", tid LexRe_mindsdb.termNames "ID", tid LexRe_mindsdb.termNames "FROM",
       tid LexRe_mindsdb.termNames "ID", tid LexRe_mindsdb.termNames "LIMIT", tid LexRe_mindsdb.termNames "INTEGER"] := by
    simp [ids, tokensFrom, langMindsdb]
  rw [hids] at h
  exact ⟨_, _, h, select_from_limit_ids_accepted, by simp [tokensFrom]⟩

/-- non-vacuity: `col1`, `tab1`, `10` -/
theorem C05_select_from_limit_example :
    ∃ segs o, parseSql langMindsdb
        ([115, 101, 108, 101, 99, 116, 32] ++ [99, 111, 108, 49] ++ [32, 102, 114, 111, 109, 32] ++ [116, 97, 98, 49] ++ [32, 108, 105, 109, 105, 116, 32] ++ [49, 48]) 300
          = (.ok segs, some o) ∧ Outcome.accepted o = true ∧
      (tokensFrom 0 segs).map (·.1) = ["SELECT", "ID", "FROM", "ID", "LIMIT", "INTEGER"] :=
  C05_select_from_limit_accepted _ _ _ (plainWord_of_mem _ 99 _ rfl (by decide) (by decide)) (by decide +kernel) (by decide +kernel)
    (by decide +kernel) (plainWord_of_mem _ 116 _ rfl (by decide) (by decide)) (by decide +kernel) (by decide +kernel) (by decide +kernel)
    (by simp) (by intro x hx; apply mem_sound; simp only [List.mem_cons, List.not_mem_nil, or_false] at hx; rcases hx with rfl | rfl <;> decide)

end MindsVerif.Props.C05Stmt
