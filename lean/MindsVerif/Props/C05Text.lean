import MindsVerif.Model.TextParse
import MindsVerif.Lemmas.SlyLexSound
import MindsVerif.Props.C05
import MindsVerif.Props.C02Lex
import MindsVerif.Gen.LexRe_sqlite
import MindsVerif.Gen.LexRe_mysql
import MindsVerif.Gen.LexRe_mindsdb
/-!
# C05 from the text down

`C05_generic` speaks about token lists.  Composed with the regex-level lexer model it speaks about TEXTS:
whenever the model of `parse_sql` (strip the trailing `[\s;]` run, tokenize with the live master regex, run the
table-driven parser) accepts a text,

* the lexer did not raise (`LexError` never leads to acceptance),
* the pieces of the lexer run tile the stripped text: nothing of it was dropped, duplicated or reordered,
* every token piece is a non-empty match of a rule of the live lexer, in text order,
* the terminal ids of ALL yielded tokens — the complete token sequence of the input — are the yield of one
  derivation tree of the grammar's start symbol,
* what was stripped is a run of `stripSet` characters at the very end and the stripped text does not end with one.

For every text (list of code points), every fuel, both error modes; the rule lists, the strip class, the terminal
names and the tables are regenerated from the live code on every run, `Tables.valid` and the side conditions
below are decided by the kernel.
-/
namespace MindsVerif.Props.C05Text
open MindsVerif.Re MindsVerif.SlyLex MindsVerif.LR MindsVerif.TextParse MindsVerif.Gen

/-- full statement (model level) for one language -/
def C05_text_full (L : Lang) : Prop :=
  ∀ (s : List Nat) (fuel : Nat) (o : Out) (t : PT) (log : List Nat),
    parseSql L s fuel = (o, some (.accept t log)) →
      ∃ segs, o = .ok segs ∧
        flat segs = rstrip L.strip s ∧ AllOK L.cfg segs ∧
        Chain (rstrip L.strip s).length 0 (tokensFrom 0 segs) ∧
        t.WF L.tables ∧ t.root = 2 * L.tables.start + 1 ∧ t.yield = ids L.names segs ∧
        (∃ tail, s = rstrip L.strip s ++ tail ∧ ∀ c ∈ tail, L.strip.mem c = true) ∧
        (∀ c, (rstrip L.strip s).getLast? = some c → L.strip.mem c = false)

/-! ### `rstrip` -/

theorem mem_takeWhile' {p : Nat → Bool} : ∀ {l : List Nat} {c : Nat}, c ∈ l.takeWhile p → p c = true
  | [], _, h => by simp at h
  | x :: r, c, h => by
    by_cases hx : p x = true
    · simp only [List.takeWhile_cons, hx, if_true, List.mem_cons] at h
      rcases h with h | h
      · subst h; exact hx
      · exact mem_takeWhile' h
    · simp [List.takeWhile_cons, hx] at h

theorem head_dropWhile' {p : Nat → Bool} : ∀ {l : List Nat} {x : Nat} {r : List Nat}, l.dropWhile p = x :: r → p x = false
  | [], _, _, h => by simp at h
  | y :: t, x, r, h => by
    by_cases hy : p y = true
    · simp only [List.dropWhile_cons, hy, if_true] at h
      exact head_dropWhile' h
    · simp only [List.dropWhile_cons, hy, Bool.false_eq_true, if_false, List.cons.injEq] at h
      obtain ⟨h1, _⟩ := h
      subst h1
      simpa using hy

theorem rstrip_spec (st : CSet) (s : List Nat) :
    (∃ tail, s = rstrip st s ++ tail ∧ ∀ c ∈ tail, st.mem c = true) ∧
    (∀ c, (rstrip st s).getLast? = some c → st.mem c = false) := by
  unfold rstrip
  constructor
  · refine ⟨(s.reverse.takeWhile fun c => st.mem c).reverse, ?_, ?_⟩
    · have h := List.takeWhile_append_dropWhile (p := fun c => st.mem c) (l := s.reverse)
      have h2 := congrArg List.reverse h
      simp only [List.reverse_append, List.reverse_reverse] at h2
      exact h2.symm
    · intro c hc
      have hc' := List.mem_reverse.mp hc
      exact mem_takeWhile' hc'
  · intro c hc
    rw [List.getLast?_reverse] at hc
    cases hd : s.reverse.dropWhile (fun c => st.mem c) with
    | nil => rw [hd] at hc; cases hc
    | cons x r =>
      rw [hd] at hc
      simp only [List.head?_cons, Option.some.injEq] at hc
      subst hc
      exact head_dropWhile' hd

/-! ### terminal ids of lexer tokens are never `$end` -/

/-- side condition: `$end` is terminal 0 and no lexer rule is called `$end` -/
def namesOK (L : Lang) : Bool :=
  L.names.head? == some "$end" && L.cfg.rules.all fun r => r.name != "$end"

theorem tid_ne_zero {names : List String} {n : String} (h0 : names.head? = some "$end") (hn : n ≠ "$end") :
    tid names n ≠ 0 := by
  cases names with
  | nil => cases h0
  | cons x r =>
    simp only [List.head?_cons, Option.some.injEq] at h0
    subst h0
    unfold tid
    rw [List.idxOf_cons]
    have : ("$end" == n) = false := by
      simp only [beq_eq_false_iff_ne, ne_eq]
      exact fun h => hn h.symm
    simp [this]

theorem tokensFrom_names {c : SlyLex.Cfg} : ∀ (segs : List Seg) (i : Nat), AllOK c segs →
    ∀ x ∈ tokensFrom i segs, ∃ r ∈ c.rules, r.name = x.1 := by
  intro segs
  induction segs with
  | nil => intro i _ x hx; simp [tokensFrom] at hx
  | cons s r ih =>
    intro i hok x hx
    have hr : AllOK c r := fun y hy => hok y (List.mem_cons_of_mem _ hy)
    cases s with
    | skip ch => exact ih (i + 1) hr x (by simpa [tokensFrom] using hx)
    | tok n ig t =>
      simp only [tokensFrom] at hx
      cases ig with
      | true => exact ih _ hr x (by simpa using hx)
      | false =>
        simp only [Bool.false_eq_true, if_false] at hx
        rcases List.mem_cons.mp hx with h | h
        · subst h
          obtain ⟨_, r0, hr0, hn, _⟩ := hok _ List.mem_cons_self
          exact ⟨r0, hr0, hn⟩
        · exact ih _ hr x h

theorem ids_ne_zero (L : Lang) (hn : namesOK L = true) (segs : List Seg) (hok : AllOK L.cfg segs) :
    ∀ x ∈ ids L.names segs, x ≠ 0 := by
  unfold namesOK at hn
  simp only [Bool.and_eq_true, beq_iff_eq, List.all_eq_true, bne_iff_ne, ne_eq] at hn
  obtain ⟨h0, hall⟩ := hn
  intro x hx
  unfold ids at hx
  obtain ⟨y, hy, rfl⟩ := List.mem_map.mp hx
  obtain ⟨r, hr, hrn⟩ := tokensFrom_names segs 0 hok y hy
  exact tid_ne_zero h0 (by rw [← hrn]; exact hall r hr)

/-! ### the generic theorem -/

theorem C05_text_generic (L : Lang) (hv : L.tables.valid = true) (hn : namesOK L = true) : C05_text_full L := by
  intro s fuel o t log h
  unfold parseSql at h
  cases hl : lex L.cfg (rstrip L.strip s) with
  | ok segs =>
    rw [hl] at h
    simp only [Prod.mk.injEq, Option.some.injEq] at h
    obtain ⟨ho, hp⟩ := h
    have hok := lex_ok_allOK _ _ _ hl
    have htile := lex_ok_tiles _ _ _ hl
    have hchain := tokensFrom_chain segs 0 hok.tokNonempty
    rw [htile] at hchain
    obtain ⟨_, h1, h2, h3, _⟩ := MindsVerif.Props.C05.C05_generic L.tables hv L.mode false _ fuel t log
      (ids_ne_zero L hn segs hok) hp
    exact ⟨segs, ho.symm, htile, hok, by simpa using hchain, h1, h2, h3, (rstrip_spec L.strip s).1,
      (rstrip_spec L.strip s).2⟩
  | err i segs =>
    rw [hl] at h
    simp only [Prod.mk.injEq, Option.some.injEq] at h
    obtain ⟨_, hp⟩ := h
    -- a run whose token source raises is never accepted: `C05_generic` gives `bad = false`
    have hok := lex_err_allOK _ _ _ _ hl
    have := MindsVerif.Props.C05.C05_generic L.tables hv L.mode true _ fuel t log (ids_ne_zero L hn segs hok) hp
    exact absurd this.1 (by simp)
  | hang i r => rw [hl] at h; simp at h
  | stuck => rw [hl] at h; simp at h

/-! ### the three live languages -/

def langSqlite : Lang := ⟨LexRe_sqlite.cfg, LexRe_sqlite.stripSet, LexRe_sqlite.termNames, Tables_sqlite.tables, .raise⟩
def langMysql : Lang := ⟨LexRe_mysql.cfg, LexRe_mysql.stripSet, LexRe_mysql.termNames, Tables_mysql.tables, .raise⟩
def langMindsdb : Lang := ⟨LexRe_mindsdb.cfg, LexRe_mindsdb.stripSet, LexRe_mindsdb.termNames, Tables_mindsdb.tables, .drain⟩

theorem namesOK_sqlite : namesOK langSqlite = true := by decide +kernel
theorem namesOK_mysql : namesOK langMysql = true := by decide +kernel
theorem namesOK_mindsdb : namesOK langMindsdb = true := by decide +kernel

/-- the exported terminal names are numbered like the tables; every yielded lexer token is a terminal of the grammar -/
theorem names_match_tables :
    LexRe_sqlite.termNames.length = Tables_sqlite.nTerms ∧ LexRe_mysql.termNames.length = Tables_mysql.nTerms ∧
    LexRe_mindsdb.termNames.length = Tables_mindsdb.nTerms ∧
    (LexRe_sqlite.cfg.rules.all fun r => r.ignored || LexRe_sqlite.termNames.contains r.name) = true ∧
    (LexRe_mysql.cfg.rules.all fun r => r.ignored || LexRe_mysql.termNames.contains r.name) = true ∧
    (LexRe_mindsdb.cfg.rules.all fun r => r.ignored || LexRe_mindsdb.termNames.contains r.name) = true := by
  decide +kernel

/-- what `parse_sql` does to the text before lexing is exactly one `re.sub('[class]+$', '', sql)` (pinned on the
statements of its body that assign `sql`, regenerated each run; the class itself is data: `stripSet`) -/
theorem strip_pin :
    LexRe_mindsdb.sqlAssigns = ["sql = re.sub('[\\\\s;]+$', '', sql)"] ∧ LexRe_mindsdb.stripShape = "class+$" ∧
    LexRe_sqlite.stripSet = LexRe_mindsdb.stripSet ∧ LexRe_mysql.stripSet = LexRe_mindsdb.stripSet ∧
    LexRe_mindsdb.stripSet.mem 59 = true ∧ LexRe_mindsdb.stripSet.mem 10 = true ∧ LexRe_mindsdb.stripSet.mem 97 = false := by
  decide

theorem C05_text_sqlite : C05_text_full langSqlite := C05_text_generic _ Tables_sqlite.valid namesOK_sqlite
theorem C05_text_mysql : C05_text_full langMysql := C05_text_generic _ Tables_mysql.valid namesOK_mysql
theorem C05_text_mindsdb : C05_text_full langMindsdb := C05_text_generic _ Tables_mindsdb.valid namesOK_mindsdb

/-- non-vacuity: `select 1;` is accepted by the model of the live sqlite language (so the hypothesis of
`C05_text_full` is met by a real text), and the trailing `;` is what was stripped -/
theorem C05_text_example :
    (match parseSql langSqlite [115, 101, 108, 101, 99, 116, 32, 49, 59] 1000 with
     | (.ok segs, some (.accept _ _)) => ids langSqlite.names segs == [tid langSqlite.names "SELECT", tid langSqlite.names "INTEGER"]
     | _ => false) = true := by
  decide +kernel

/-! ### [review] terminal ids are faithful: no token falls on the `idxOf` default, different names get different ids

`tid names n = names.idxOf n` is total: a name that is not a terminal gets `names.length` (no terminal at all).
`C05_text_full` alone would be satisfied by a `names` list that maps every token there.  `names_match_tables` has the data
fact; these theorems connect it to the run. -/

-- [review]
theorem idxOf_inj' : ∀ (names : List String) (a b : String), a ∈ names → names.idxOf a = names.idxOf b → a = b
  | [], _, _, h, _ => by cases h
  | x :: r, a, b, ha, h => by
    rw [List.idxOf_cons, List.idxOf_cons] at h
    by_cases hxa : x = a
    · by_cases hxb : x = b
      · rw [← hxa, ← hxb]
      · have e1 : (x == a) = true := by simpa using hxa
        have e2 : (x == b) = false := by simpa using hxb
        simp [e1, e2] at h
    · by_cases hxb : x = b
      · have e1 : (x == a) = false := by simpa using hxa
        have e2 : (x == b) = true := by simpa using hxb
        simp [e1, e2] at h
      · have e1 : (x == a) = false := by simpa using hxa
        have e2 : (x == b) = false := by simpa using hxb
        simp only [e1, e2, cond_false, Nat.add_right_cancel_iff] at h
        rcases List.mem_cons.mp ha with h0 | h0
        · exact absurd h0.symm hxa
        · exact idxOf_inj' r a b h0 h

-- [review] a yielded token comes from a rule that is not ignored
theorem tokensFrom_rule {c : SlyLex.Cfg} : ∀ (segs : List Seg) (i : Nat), AllOK c segs →
    ∀ x ∈ tokensFrom i segs, ∃ r ∈ c.rules, r.name = x.1 ∧ r.ignored = false := by
  intro segs
  induction segs with
  | nil => intro i _ x hx; simp [tokensFrom] at hx
  | cons s r ih =>
    intro i hok x hx
    have hr : AllOK c r := fun y hy => hok y (List.mem_cons_of_mem _ hy)
    cases s with
    | skip ch => exact ih (i + 1) hr x (by simpa [tokensFrom] using hx)
    | tok n ig t =>
      simp only [tokensFrom] at hx
      cases ig with
      | true => exact ih _ hr x (by simpa using hx)
      | false =>
        simp only [Bool.false_eq_true, if_false] at hx
        rcases List.mem_cons.mp hx with h | h
        · subst h
          obtain ⟨_, r0, hr0, hn, hig⟩ := hok _ List.mem_cons_self
          exact ⟨r0, hr0, hn, hig⟩
        · exact ih _ hr x h

/-- side condition (decided for the live data in `names_match_tables`): every rule that yields is a terminal name -/
def namesCover (L : Lang) : Bool := L.cfg.rules.all fun r => r.ignored || L.names.contains r.name

/-- [review] **terminal ids are faithful**: on an accepted text every yielded token's name is a terminal name, its id is a
real index of `names` (not the `idxOf` default), and two tokens with the same id have the same name -/
theorem C05_text_ids_faithful (L : Lang) (hc : namesCover L = true) (s : List Nat) (segs : List Seg)
    (h : lex L.cfg s = .ok segs) :
    (∀ x ∈ tokensFrom 0 segs, x.1 ∈ L.names ∧ tid L.names x.1 < L.names.length ∧ L.names[tid L.names x.1]? = some x.1) ∧
    (∀ x ∈ tokensFrom 0 segs, ∀ y ∈ tokensFrom 0 segs, tid L.names x.1 = tid L.names y.1 → x.1 = y.1) := by
  have hok := lex_ok_allOK _ _ _ h
  have hmem : ∀ x ∈ tokensFrom 0 segs, x.1 ∈ L.names := by
    intro x hx
    obtain ⟨r, hr, hn, hig⟩ := tokensFrom_rule segs 0 hok x hx
    unfold namesCover at hc
    have := (List.all_eq_true.mp hc) r hr
    rw [hig] at this
    simp only [Bool.false_or, List.contains_iff_mem] at this
    rw [← hn]; exact this
  constructor
  · intro x hx
    have hm := hmem x hx
    have hlt : List.idxOf x.1 L.names < L.names.length := List.idxOf_lt_length_of_mem hm
    refine ⟨hm, hlt, ?_⟩
    unfold tid
    rw [List.getElem?_eq_getElem hlt]
    simp
  · intro x hx y _ hxy
    exact idxOf_inj' L.names x.1 y.1 (hmem x hx) hxy

-- [review]
theorem namesCover_live : namesCover langSqlite = true ∧ namesCover langMysql = true ∧ namesCover langMindsdb = true := by
  decide +kernel

/-! ### [review] non-vacuity on a realistic text -/

-- [review] ``select 'a;' /* c */ from t -- x⏎;`` under the live MindsDB language (`.drain` mode): accepted; the `;` inside
-- the string literal survives, the final `;` and the newline are what is stripped, the comments yield nothing, and the
-- ids handed to the parser are exactly SELECT QUOTE_STRING FROM ID
theorem review_text_example :
    (match parseSql langMindsdb [115, 101, 108, 101, 99, 116, 32, 39, 97, 59, 39, 32, 47, 42, 32, 99, 32, 42, 47, 32, 102, 114,
        111, 109, 32, 116, 32, 45, 45, 32, 120, 10, 59] 2000 with
     | (.ok segs, some (.accept _ _)) =>
         ids langMindsdb.names segs == ["SELECT", "QUOTE_STRING", "FROM", "ID"].map (tid langMindsdb.names) &&
         flat segs == [115, 101, 108, 101, 99, 116, 32, 39, 97, 59, 39, 32, 47, 42, 32, 99, 32, 42, 47, 32, 102, 114,
           111, 109, 32, 116, 32, 45, 45, 32, 120]
     | _ => false) = true := by
  decide +kernel

-- [review] a lexer error inside an otherwise fine statement is not accepted and is reported as the lexer outcome
theorem review_text_lexerr :
    (match parseSql langSqlite [115, 101, 108, 101, 99, 116, 32, 49, 32, 35] 1000 with
     | (.err 9 _, some (.accept _ _)) => false
     | (.err 9 _, some _) => true
     | _ => false) = true := by
  decide +kernel

/-- [review] the lexer outcome reported by `parseSql` is the run on the stripped text -/
theorem parseSql_fst (L : Lang) (s : List Nat) (fuel : Nat) : (parseSql L s fuel).1 = lex L.cfg (rstrip L.strip s) := by
  unfold parseSql
  cases lex L.cfg (rstrip L.strip s) <;> rfl

/-- [review] **what the doc comment promises and `AllOK` does not give**: on an accepted text every piece of the run is what
the tokenize loop takes at its position of the (stripped) full text — a skipped `ignore` character or the match of the first
rule, in rule order, that matches there (`C02Lex.Steps`); `AllOK` only says that the piece carries the NAME of some rule -/
theorem C05_text_run (L : Lang) (hv : L.tables.valid = true) (hn : namesOK L = true)
    (s : List Nat) (fuel : Nat) (o : Out) (t : PT) (log : List Nat)
    (h : parseSql L s fuel = (o, some (.accept t log))) :
    ∃ segs, o = .ok segs ∧
      MindsVerif.Props.C02Lex.Steps L.cfg ⟨[], rstrip L.strip s⟩ segs ⟨(rstrip L.strip s).reverse, []⟩ := by
  obtain ⟨segs, ho, _⟩ := C05_text_generic L hv hn s fuel o t log h
  have h1 := parseSql_fst L s fuel
  rw [h] at h1
  simp only at h1
  rw [ho] at h1
  exact ⟨segs, ho, MindsVerif.Props.C02Lex.C02_lexer_run_spec _ _ _ h1.symm⟩

-- [review]
def C05_text_run_mindsdb := C05_text_run langMindsdb Tables_mindsdb.valid namesOK_mindsdb

/-- the whole way from the argument of `parse_sql` to the parser, statement by statement: strip, get the lexer / parser of the
dialect, tokenize THE STRIPPED TEXT (not a function of it), hand the token generator to the parser.  [review: `strip_pin`
alone would let `lexer.tokenize(f(sql))` pass] -/
theorem prelude_pin :
    LexRe_mindsdb.prelude = ["sql = re.sub('[\\\\s;]+$', '', sql)", "lexer, parser = get_lexer_parser(dialect)",
      "tokens = lexer.tokenize(sql)", "ast = parser.parse(tokens)"] ∧
    LexRe_sqlite.prelude = LexRe_mindsdb.prelude ∧ LexRe_mysql.prelude = LexRe_mindsdb.prelude := by
  decide

end MindsVerif.Props.C05Text
