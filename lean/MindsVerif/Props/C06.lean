import MindsVerif.Lemmas.RenderFull
import MindsVerif.Lemmas.SaParen
import MindsVerif.Model.EngineSqlite
import MindsVerif.Gen.SaPrec
import MindsVerif.Lemmas.RenderSetOps
import MindsVerif.Lemmas.RenderScope
import MindsVerif.Lemmas.RenderHistory
/-!
# C06 — SQL rendered through SQLAlchemy means the same as the parsed statement

`Render.saNorm` / `saRender` / `saStmt` (hand model of `SqlalchemyRender.get_string`, tied by the
correspondence streams of `tools/props/c06.py` and by the pins `phi6_*`) is what the rendered text
denotes; `evalQuery` / `evalNested` / `exec` is a small SQL semantics (NULLs, 3-valued logic, all
join kinds with ON, DISTINCT, ORDER BY direction / NULLS, LIMIT/OFFSET, set operations; CASE, CAST to
integer types, IN lists; GROUP BY with count/sum/min/max, count(*), HAVING; uncorrelated
sub-queries in FROM / IN / EXISTS / as a value) which is itself compared with sqlite3 on every run
(streams `semantics-eval`, `semantics-query`).  `SaParen.saParens` is SQLAlchemy's
parenthesisation policy over the generated `_PRECEDENCE` table plus the renderer's own groupings,
`EngineSqlite.table` the target engine's precedence (trusted, validated by execution).

Meaning (T6.1 / T6.3), all **unconditional** — every environment, table content and statement of the
typed fragment:
* `C06`                 : `C06_full` — what `get_string` returns (rendered text, or the original when
                           the renderer raises for a `join_type` it does not support) has the rows of
                           the statement.
* `C06_norm`            : the same for the rendered text itself when no join raises.
* `C06_nested`          : `C06_nested_full` — statements with sub-queries.
* `C06_dml`             : INSERT … VALUES / UPDATE / DELETE leave the same table contents.
* `C06_ddl_column`, `C06_ddl_contents` : CREATE TABLE column declarations.
* `C06_join_spelling`, `C06_not_rewrite_all`, `C06_order_key`, `C06_window_key`, `C06_alias` : the parts.
* `C06_partial`, `C06_partial_norm`, `C06_nested_partial`, `C06_dml_partial`, `C06_join_kind`,
  `C06_not_rewrite` : the earlier statements under `ok…`; kept as corollaries.  `ok…` no longer
  restricts the meaning theorems: it only delimits where the model's *printed text* is compared with
  SQLAlchemy's (`mod` flag of the driver: no `NOT` directly over a unary minus of a Boolean-typed operand).

Grouping (T6.2):
* `C06_grouping`        : for every operator tree over the method table's scalar operators — any size —
                           accepted by `saOk` (no right operand built with the parent's own
                           natural-self-precedent operator), sqlite's precedence regroups the printed text
                           to exactly the printed tree, which equals the input up to parentheses;
                           `C06_witness_8` + `C06_regroup_harmless` cover what `saOk` excludes (another
                           tree with the same value).
* `phi6_*`              : kernel-evaluated obligations on the generated data (`_PRECEDENCE`, the flip
                           table of `__invert__` read through the renderer, the join spellings of the
                           grammars, the join keywords probed on the real renderer).
* `C06_regress_*`       : regression examples for repaired defects (all known findings of this
                           property are repaired; none is open).

Round 5 (text structure of set operations; FROM lists of nested sub-queries):
* `C06_setops`          : `C06_setops_full` — for every dialect, every set-operation tree (any shape / depth,
                           UNION / INTERSECT / EXCEPT, DISTINCT and ALL) and all operand contents, the text
                           `prepare_union` prints, read the way the target reads a compound (sqlite: one level,
                           left to right; MySQL / PostgreSQL: INTERSECT first), has the rows of the tree.
                           `C06_setops_unsupported`, `C06_setops_query` (on top of `C06_norm`),
                           `C06_setops_left_chain` (continuing the chain on the LEFT is equally right for sqlite),
                           `C06_setops_accepted` (soundness of the checker the stream `render-setops` applies to
                           the real renderer's text), `C06_setops_accepts`, `C06_witness_rejected`,
                           `C06_witness_except_assoc`, `C06_witness_10`, `C06_witness_flat_prec`.
* `C06_history`         : (round 6) the renderer as an *object* answering statement after statement: an object
                           that every call — success, fail-back or exception — leaves as `__init__` made it answers
                           each statement like a new object, after any history (`C06_history_restoring`); the
                           transcribed `SqlalchemyRender` assigns no attribute, so its answer is `saRender q`
                           whatever it answered before.  `C06_history_guarded`: a depth counter kept with
                           `try/finally` is restoring; `C06_witness_12`: without it, a failure inside a derived
                           table leaves the counter at 1 and the next ordered statement is printed without its
                           ORDER BY, which changes the rows' order.
* `C06_from_fresh`      : with a new `FromClause` object per table reference, SQLAlchemy's auto-correlation
                           leaves every FROM list of every nesting level complete; `C06_witness_9*`: with
                           objects shared through a cache it does not.
-/
namespace MindsVerif.Props.C06
open MindsVerif MindsVerif.Render MindsVerif.OPM MindsVerif.SaParen MindsVerif.Gen

/-! ## T6.1 / T6.3 — meaning of the normal form -/

/-- full statement (typed fragment): what `get_string` returns never changes the rows -/
def C06_full : Prop :=
  ∀ (env : Env) (db : Db) (q : Query), evalQuery env db (saRender q) = evalQuery env db q

/-- **C06 (meaning), full strength**: all environments, all table contents, all queries of the typed
fragment, every `join_type` string (supported kinds are rendered with their SQL meaning; for the
others the renderer raises and the fallback prints the original) -/
theorem C06 : C06_full := fun env db q => evalQuery_saRender' env db q

/-- without the fallback: the rendered text of a query on which the renderer does not raise -/
theorem C06_norm (env : Env) (db : Db) (q : Query) (hr : raisesQ q = false) :
    evalQuery env db (saNorm q) = evalQuery env db q :=
  evalQuery_saNorm' env db q hr

/-- earlier statement (hypothesis `okQ` not needed, see `C06`) -/
theorem C06_partial (env : Env) (db : Db) (q : Query) (h : okQ q = true) :
    evalQuery env db (saRender q) = evalQuery env db q :=
  evalQuery_saRender env db q h

/-- without the fallback: the rendered text of a query on which the renderer does not raise -/
theorem C06_partial_norm (env : Env) (db : Db) (q : Query) (h : okQ q = true)
    (hr : raisesQ q = false) : evalQuery env db (saNorm q) = evalQuery env db q :=
  evalQuery_saNorm env db q h hr

/-- full statement for statements with sub-queries (slots: uncorrelated sub-queries in FROM, IN,
EXISTS, as a value; nested to any depth) -/
def C06_nested_full : Prop :=
  ∀ (env : Env) (db : Db) (n : Nested), evalNested env db (saRenderN n) = evalNested env db n

/-- **full strength** for statements with uncorrelated sub-queries.  Correlated sub-queries (a reference
to a column of an enclosing query) are not expressible in `Nested` and remain with the execution probe. -/
theorem C06_nested : C06_nested_full := fun env db n => evalNested_saRenderN' env db n

/-- earlier statement (hypothesis `okN` not needed, see `C06_nested`) -/
theorem C06_nested_partial (env : Env) (db : Db) (n : Nested) (h : okN n = true) :
    evalNested env db (saRenderN n) = evalNested env db n :=
  evalNested_saRenderN env db n h

/-- CREATE TABLE (T6.3): the rendered column declarations reject the same NULLs and form the same
key as the original ones, for every column definition (`NULL` / `NOT NULL` / unspecified, key or
not, `serial`) … -/
theorem C06_ddl_column (c : ColDef) :
    (saSpec c).rejectsNull = (srcSpec c).rejectsNull ∧ (saSpec c).pk = (srcSpec c).pk := by
  rcases c with ⟨pk, _ | _ | _, serial⟩ <;> cases pk <;> cases serial <;> decide

/-- … hence any sequence of inserts leaves the same contents in the table created by the rendered
text as in the one created by the original text (all column lists, all rows) -/
theorem C06_ddl_contents (cols : List ColDef) (rows new : Render.Table) :
    insertAll (cols.map saSpec) rows new = insertAll (cols.map srcSpec) rows new := by
  have hspec : ∀ c : ColDef, (saSpec c).rejectsNull = (srcSpec c).rejectsNull ∧
      (saSpec c).pk = (srcSpec c).pk := C06_ddl_column
  have hadm : ∀ rs r, admits (cols.map saSpec) rs r = admits (cols.map srcSpec) rs r := by
    intro rs r
    have h1 : ∀ (cs : List ColDef) (r : Row),
        ((cs.map saSpec).zip r).all (fun sr => !(sr.1.rejectsNull && sr.2.isNone)) =
        ((cs.map srcSpec).zip r).all (fun sr => !(sr.1.rejectsNull && sr.2.isNone)) := by
      intro cs
      induction cs with
      | nil => intro r; rfl
      | cons c cs ih =>
        intro r
        cases r with
        | nil => rfl
        | cons v vs => simp only [List.map_cons, List.zip_cons_cons, List.all_cons, (hspec c).1, ih vs]
    have h2 : (cols.map saSpec).any (·.pk) = (cols.map srcSpec).any (·.pk) := by
      induction cols with
      | nil => rfl
      | cons c cs ih => simp only [List.map_cons, List.any_cons, (hspec c).2, ih]
    have h3 : ∀ (cs : List ColDef) (z : List (Val × Val)),
        ((cs.map saSpec).zip z).all (fun x => !x.1.pk || x.2.1 == x.2.2) =
        ((cs.map srcSpec).zip z).all (fun x => !x.1.pk || x.2.1 == x.2.2) := by
      intro cs
      induction cs with
      | nil => intro z; rfl
      | cons c cs ih =>
        intro z
        cases z with
        | nil => rfl
        | cons v vs => simp only [List.map_cons, List.zip_cons_cons, List.all_cons, (hspec c).2, ih vs]
    simp only [admits, h1 cols r, h2, h3 cols]
  induction new generalizing rows with
  | nil => rfl
  | cons r rs ih => simp only [insertAll, hadm, ih]

/-- **T6.3, full strength**: INSERT … VALUES / UPDATE / DELETE leave the same table contents -/
theorem C06_dml (env : Env) (db : Db) (s : Stmt) : exec env db (saStmt s) = exec env db s :=
  exec_saStmt' env db s

/-- the NOT rewrite (and CASE / CAST / IN lists / sub-query predicates) keeps every value -/
theorem C06_not_rewrite_all (env : Env) (ρ : Nat → Val) (e : Render.Expr) :
    eval env ρ (saNormE e) = eval env ρ e :=
  eval_saNormE' env ρ e

theorem C06_dml_partial (env : Env) (db : Db) (s : Stmt) (h : okStmt s = true) :
    exec env db (saStmt s) = exec env db s :=
  exec_saStmt env db s h

/-- join kinds: preserved for every table content whenever the renderer does not raise … -/
theorem C06_join_kind (env : Env) (db : Db) (f : From) (h : okFrom f = true)
    (hr : raisesFrom f = false) : evalFrom env db (saFrom f) = evalFrom env db f :=
  evalFrom_saFrom env db f h hr

/-- … because every spelling it accepts is given its SQL meaning (for all strings) -/
theorem C06_join_spelling (jt : String) (k : JoinKind) (h : saKind jt = some k) :
    sqlKind jt = some k :=
  saKind_sound jt k h

/-- … the NOT rewrite is valid in three-valued logic for all values … -/
theorem C06_not_rewrite (env : Env) (ρ : Nat → Val) (e : Render.Expr) (h : okE e = true) :
    eval env ρ (saNormE e) = eval env ρ e :=
  eval_saNormE env ρ e h

/-- … and sort direction / NULLS position of every ORDER BY key are kept -/
theorem C06_order_key (env : Env) (k : OrderKey) : keyLe env (saKey k) = keyLe env k :=
  keyLe_saKey env k

/-- explicit aliases are kept -/
theorem C06_alias (t : Target) (a : String) (h : t.alias = some a) : (saTarget t).alias = some a := by
  cases t with
  | mk e al =>
    simp only at h
    subst h
    cases e <;> simp [saTarget]

/-! ### regression examples for the repaired defects, and the class that is still open -/

private def env0 : Env := ⟨fun _ _ => none, true, fun _ => []⟩
/-- table 0 = `t(a)`, table 1 = `u(a)` -/
private def dbL : Db := ⟨fun _ => 1, fun t => if t = 0 then [[some 1]] else []⟩
private def dbR : Db := ⟨fun _ => 1, fun t => if t = 0 then [] else [[some 1]]⟩
private def onEq : Render.Expr := .cmp .eq (.col 0) (.col 1)
private def jn (jt : String) : From := .join (.table 0) jt false 1 (some onEq)

/-- (was KF-C06-1, fixed 1eac524) `t LEFT OUTER JOIN u ON …` keeps the unmatched left row -/
theorem C06_regress_1 :
    evalFrom env0 dbL (saFrom (jn "LEFT OUTER JOIN")) = [[some 1, none]] ∧
    evalFrom env0 dbL (jn "LEFT OUTER JOIN") = [[some 1, none]] := by decide

/-- (was KF-C06-2/3) `RIGHT [OUTER] JOIN` and the bare `OUTER JOIN` raise, so `get_string` returns the
original statement -/
theorem C06_regress_2 :
    raisesFrom (jn "RIGHT JOIN") = true ∧ raisesFrom (jn "RIGHT OUTER JOIN") = true ∧
    raisesFrom (jn "OUTER JOIN") = true ∧
    evalQuery env0 dbR (saRender (.select ⟨false, [⟨.col 1, none⟩], jn "RIGHT JOIN", none, [], none, none⟩))
      = [[some 1]] := by decide +kernel

/-- (was KF-C06-4) `FULL OUTER JOIN` -/
theorem C06_regress_3 :
    evalFrom env0 dbL (saFrom (jn "FULL OUTER JOIN")) = [[some 1, none]] := by decide

/-- (was KF-C06-6, fixed 834b7e0) `NOT (a IS NULL)` is rendered `a IS NOT NULL` -/
theorem C06_regress_4 :
    saNormE (.not (.cmp .is (.col 0) .null)) = .cmp .isNot (.col 0) .null ∧
    eval env0 (fun _ => none) (saNormE (.not (.cmp .is (.col 0) .null))) = some 0 := by decide

/-- (was KF-C06-12, fixed c20d32e) window functions keep `NULLS FIRST/LAST` of their ORDER BY -/
theorem C06_regress_5 :
    keyLe env0 ⟨.col 0, "ASC", "NULLS LAST"⟩ none (some 0) = false ∧
    keyLe env0 (saWinKey ⟨.col 0, "ASC", "NULLS LAST"⟩) none (some 0) = false := by decide

/-- (was KF-C06-8, fixed d11bd89) the alias of a BETWEEN target is kept -/
theorem C06_regress_6 :
    (saTarget ⟨.btw false (.col 0) (.int 0) (.int 1), some "k"⟩).alias = some "k" := by decide

/-- window ORDER BY keys keep direction and NULLS position (no hypothesis since c20d32e) -/
theorem C06_window_key (env : Env) (k : OrderKey) : keyLe env (saWinKey k) = keyLe env k :=
  keyLe_saKey env k

/-! ### non-vacuity of the hypotheses -/

/-- `SELECT DISTINCT t.a, 1 FROM t LEFT JOIN u ON NOT (t.a = u.a) CROSS JOIN u, t
     WHERE NOT (t.a < 0) ORDER BY t.a DESC NULLS FIRST LIMIT 5` -/
private def q1 : Query := .select
  { distinct := true
    targets := [⟨.col 0, none⟩, ⟨.int 1, none⟩]
    from_ := .join (.join (.join (.table 0) "LEFT OUTER JOIN" false 1 (some (.not (.cmp .is (.col 0) (.col 1)))))
        "CROSS JOIN" false 0 none)
      "INNER JOIN" true 0 none
    where_ := some (.not (.cmp .lt (.col 0) (.int 0)))
    order := [⟨.col 0, "DESC", "NULLS FIRST"⟩]
    limit := some 5
    offset := none }

example : okQ q1 = true := by decide +kernel
example : okQ (.setop .union true q1 q1) = true := by decide +kernel
example : raisesQ q1 = false ∧ evalQuery env0 dbL (saRender q1) = [[some 1, some 1]] := by decide +kernel
/-- `SELECT a, count(*), sum(CASE WHEN NOT (a IN (1, 2)) THEN 0 ELSE CAST(a AS INT) END) FROM t
     WHERE NOT (a IS NULL) GROUP BY a HAVING count(*) >= 1 ORDER BY a DESC NULLS LAST LIMIT 3` -/
private def q2 : Query := .gselect
  { targets := [.plain (.col 0), .countStar,
      .agg .sum (.ite (.not (.inl false (.col 0) (.tcons (.int 1) (.tcons (.int 2) .tnil)))) (.int 0) (.cast (.col 0)))]
    from_ := .table 0
    where_ := some (.not (.cmp .is (.col 0) .null))
    groupBy := [.col 0]
    having := some (.countStar, .ge, 1)
    order := [⟨.col 0, "DESC", "NULLS LAST"⟩]
    limit := some 3
    offset := none }

example : okQ q2 = true ∧ raisesQ q2 = false := by decide +kernel
/-- `NOT (a IN (1))` is rendered `a NOT IN (1)` -/
example : saNormE (.not (.inl false (.col 0) (.tcons (.int 1) .tnil))) =
    .inl true (.col 0) (.tcons (.int 1) .tnil) := by decide
example : evalQuery env0 dbL (saRender q2) = [[some 1, some 1, some 1]] := by decide +kernel

/-- `SELECT s.a, (SELECT max(a) FROM t) FROM (SELECT a FROM t WHERE NOT (a IS NULL)) AS s
     WHERE NOT (s.a IN (SELECT a FROM u)) AND EXISTS (SELECT a FROM t)`:
slot 0 = `SELECT a FROM t WHERE NOT (a IS NULL)`, slot 1 = `SELECT a FROM u`,
slot 2 = `SELECT max(a) FROM t` (refers to no slot), slot 3 = `SELECT a FROM (slot 0) AS s` -/
private def n1 : Nested :=
  { subs :=
      [.select ⟨false, [⟨.col 0, none⟩], .table 0, some (.not (.cmp .is (.col 0) .null)), [], none, none⟩,
       .select ⟨false, [⟨.col 0, none⟩], .table 1, none, [], none, none⟩,
       .gselect ⟨[.agg .max (.col 0)], .table 0, none, [], none, [], none, none⟩,
       .select ⟨false, [⟨.col 0, none⟩], .sub 0 1, none, [], none, none⟩]
    main := .select ⟨false, [⟨.col 0, none⟩, ⟨.scalar 2, none⟩], .sub 3 1,
      some (.and (.not (.inq false (.col 0) 1)) (.exists_ 0)), [], none, none⟩ }

example : okN n1 = true ∧ raisesN n1 = false := by decide +kernel
example : evalNested env0 dbL (saRenderN n1) = [[some 1, some 1]] := by decide +kernel

example : okStmt (.update 0 [(0, .ar .add (.col 0) (.int 1))] (some (.not onEq))) = true := by
  decide +kernel

/-! ### [review] the specification semantics `eval` on the textbook three-valued facts

`Render.eval` / `evalQuery` is the semantics BOTH sides of `C06_partial` are read in; no correspondence stream compares it with
the reference engine (the driver prints rendered text only).  These pins at least fix its reading of the classic NULL cases
(values as sqlite3 gives them: `NOT NULL`, `NULL AND 0`, `NULL OR 1`, `NULL = NULL`, `NULL IS NULL`, `3 IN (1, NULL)`,
`3 NOT IN (1, NULL)`, `3 NOT BETWEEN 1 AND NULL`, `7 / 0`, `-7 / 2`). -/

-- [review]
example :
    let ev := eval env0 (fun _ => none)
    ev (.not (.col 0)) = none ∧ ev (.and (.col 0) (.int 0)) = some 0 ∧ ev (.or (.col 0) (.int 1)) = some 1
    ∧ ev (.cmp .eq .null .null) = none ∧ ev (.cmp .is .null .null) = some 1
    ∧ ev (.inl false (.int 3) (.tcons (.int 1) (.tcons .null .tnil))) = none
    ∧ ev (.inl true (.int 3) (.tcons (.int 1) (.tcons .null .tnil))) = none
    ∧ ev (.btw true (.int 3) (.int 1) .null) = none
    ∧ ev (.ar .div (.int 7) (.int 0)) = none ∧ ev (.ar .div (.int (-7)) (.int 2)) = some (-3) := by decide

/-! ## T6.2 — operand grouping -/

/-- operators of the method table that are outside the grouping theorem: `in` / `not in` (list
operand).  `/` is inside since 0c1e34d (printed as written), `||` since d751fe6. -/
def outside : List String := ["in", "not in"]

def binsOf (skip : List String) : List (Nat × String) :=
  (SaPrec.bins.filter fun r => !skip.contains r.2.1).map fun r => (r.1, r.2.2.1)

def presOf : List (Nat × String) := SaPrec.pres.map fun r => (r.1, r.2.2.1)

def andId : Nat := ((SaPrec.bins.find? fun r => r.2.1 == "and").map (·.1)).getD 0

/-- SQLAlchemy's policy, from the generated tables -/
def saPolicy : Policy where
  rkBin o := ((SaPrec.bins.find? fun r => r.1 == o).map (·.2.2.2.1)).getD 0
  rkPre o := ((SaPrec.pres.find? fun r => r.1 == o).map (·.2.2.2.1)).getD 0
  rkBtw := SaPrec.rkBtw
  natural o := ((SaPrec.bins.find? fun r => r.1 == o).map (·.2.2.2.2.1)).getD false
  preAll o := ((SaPrec.pres.find? fun r => r.1 == o).map (·.2.2.2.2)).getD false
  extra o := match ((SaPrec.bins.find? fun r => r.1 == o).map (·.2.2.2.2.2.2)).getD (0, 0) with
    | (0, _) => none
    | (k, 0) => some (k, none)
    | (k, x) => some (k, some x)

/-- sqlite's precedence over the same operator numbering -/
def sqliteP (skip : List String) : OPM.Table :=
  EngineSqlite.table (binsOf skip) presOf SaPrec.btwId andId

def frag (skip : List String) : Fragment := ⟨(binsOf skip).map (·.1), presOf.map (·.1)⟩

/-- **Φ6** `Compatible`: wherever SQLAlchemy's `_PRECEDENCE` leaves an operand bare, sqlite keeps it
grouped — evaluated by the kernel on the generated table -/
theorem phi6_compatible : compatible saPolicy (sqliteP outside) (frag outside) = true := by
  decide +kernel

/-- full grouping statement for a fragment -/
def C06_grouping_full (skip : List String) : Prop :=
  ∀ e : OPM.Expr, inFragment (frag skip) e = true →
    parse (sqliteP skip) (print (sqliteP skip) (saParens saPolicy e)) [] none =
      some (saParens saPolicy e) ∧ strip (saParens saPolicy e) = strip e

/-- **T6.2** (unbounded): every tree over the fragment's operators — any size, any user
parentheses — accepted by `saOk` -/
theorem C06_grouping (e : OPM.Expr) (he : inFragment (frag outside) e = true)
    (hok : saOk saPolicy e = true) :
    parse (sqliteP outside) (print (sqliteP outside) (saParens saPolicy e)) [] none =
      some (saParens saPolicy e) ∧ strip (saParens saPolicy e) = strip e :=
  sa_roundtrip saPolicy (sqliteP outside) (frag outside) phi6_compatible e he hok

/-- what `saOk` excludes (1): `a + (b + c)` is printed `a + b + c`, which regroups to another tree … -/
theorem C06_witness_8 :
    let e : OPM.Expr := .bin 4 (.atom 0) (.bin 4 (.atom 1) (.atom 2))
    saOk saPolicy e = false ∧
    parse (sqliteP outside) (print (sqliteP outside) (saParens saPolicy e)) [] none =
      some (.bin 4 (.bin 4 (.atom 0) (.atom 1)) (.atom 2)) := by decide

/-- … with the same value: the natural self precedents of the fragment are associative on values
with NULL (`+`, `*`, `AND`, `OR`) -/
theorem C06_regroup_harmless (a b c : Val) :
    evalAr .add a (evalAr .add b c) = evalAr .add (evalAr .add a b) c ∧
    evalAr .mul a (evalAr .mul b c) = evalAr .mul (evalAr .mul a b) c ∧
    and3 a (and3 b c) = and3 (and3 a b) c ∧ or3 a (or3 b c) = or3 (or3 a b) c := by
  have ht : ∀ t : Option Bool, truth (ofTruth t) = t := by
    intro t; rcases t with _ | _ | _ <;> rfl
  refine ⟨?_, ?_, ?_, ?_⟩
  · cases a <;> cases b <;> cases c <;> simp [evalAr, liftI, Int.add_assoc]
  · cases a <;> cases b <;> cases c <;> simp [evalAr, liftI, Int.mul_assoc]
  · simp only [and3, ht]
    generalize truth a = ta
    generalize truth b = tb
    generalize truth c = tc
    rcases ta with _ | _ | _ <;> rcases tb with _ | _ | _ <;> rcases tc with _ | _ | _ <;> rfl
  · simp only [or3, ht]
    generalize truth a = ta
    generalize truth b = tb
    generalize truth c = tc
    rcases ta with _ | _ | _ <;> rcases tb with _ | _ | _ <;> rcases tc with _ | _ | _ <;> rfl

/-- (was KF-C06-10, fixed ec71c9a) bounds of BETWEEN are grouped:
`c0 BETWEEN (c1 OR c2) AND (c3 = c4)` keeps its parentheses and regroups to itself -/
theorem C06_regress_9 :
    let e : OPM.Expr := .btw (.atom 0) (.bin 21 (.atom 1) (.atom 2)) (.bin 10 (.atom 3) (.atom 4))
    saOk saPolicy e = true ∧
    saParens saPolicy e =
      .btw (.atom 0) (.paren (.bin 21 (.atom 1) (.atom 2))) (.paren (.bin 10 (.atom 3) (.atom 4))) ∧
    parse (sqliteP outside) (print (sqliteP outside) (saParens saPolicy e)) [] none =
      some (saParens saPolicy e) := by decide

/-- (was KF-C06-5, fixed 0c1e34d) `/` is printed as written and groups like `*`:
`c0 / (c1 * c2)` and `(c0 / c1) / c2` -/
theorem C06_regress_5b :
    saParens saPolicy (.bin 6 (.atom 0) (.bin 3 (.atom 1) (.atom 2))) =
      .bin 6 (.atom 0) (.paren (.bin 3 (.atom 1) (.atom 2))) ∧
    saParens saPolicy (.bin 6 (.bin 6 (.atom 0) (.atom 1)) (.atom 2)) =
      .bin 6 (.paren (.bin 6 (.atom 0) (.atom 1))) (.atom 2) := by decide

/-- (was KF-C06-11, fixed 75aca2f + d751fe6) the renderer groups the operands of `||` against
`neg` (rank 8, no exemption): `c0 || (c1 + c2)` and `c0 || (c1 * c2)` keep their parentheses and
regroup to themselves; `||` is inside the fragment of `phi6_compatible` -/
theorem C06_regress_7 :
    saParens saPolicy (.bin 19 (.atom 0) (.bin 4 (.atom 1) (.atom 2))) =
      .bin 19 (.atom 0) (.paren (.bin 4 (.atom 1) (.atom 2))) ∧
    (let e : OPM.Expr := .bin 19 (.atom 0) (.bin 3 (.atom 1) (.atom 2))
     saOk saPolicy e = true ∧
     saParens saPolicy e = .bin 19 (.atom 0) (.paren (.bin 3 (.atom 1) (.atom 2))) ∧
     parse (sqliteP outside) (print (sqliteP outside) (saParens saPolicy e)) [] none =
       some (saParens saPolicy e)) := by decide +kernel

/-- non-vacuity: `NOT (c0 + c1 * c2 = c3 AND c4 BETWEEN c5 + c6 AND - c7) OR c8 <> c9`-like tree -/
private def g1 : OPM.Expr :=
  .bin 21 (.pre 201 (.bin 20 (.bin 10 (.bin 4 (.atom 0) (.bin 3 (.atom 1) (.atom 2))) (.atom 3))
    (.btw (.atom 4) (.bin 4 (.atom 5) (.atom 6)) (.pre 202 (.atom 7))))) (.bin 1 (.atom 8) (.atom 9))

example : inFragment (frag outside) g1 = true ∧ saOk saPolicy g1 = true := by decide
example : saParens saPolicy g1 ≠ g1 := by decide

/-! ## pins: what the hand models assume about the generated data -/

/-- the ids the witnesses use -/
theorem phi6_ids :
    (SaPrec.bins.map fun r => (r.1, r.2.1)) =
      [(1, "!="), (2, "%"), (3, "*"), (4, "+"), (5, "-"), (6, "/"), (7, "<"), (8, "<="), (9, "<>"),
       (10, "="), (11, ">"), (12, ">="), (13, "in"), (14, "is"), (15, "is not"), (16, "like"),
       (17, "not in"), (18, "not like"), (19, "||"), (20, "and"), (21, "or")] ∧
    (SaPrec.pres.map fun r => (r.1, r.2.1)) = [(201, "NOT"), (202, "-")] := by decide

def cmpOfKey (k : String) : Option Cmp :=
  if k = "=" then some .eq else if k = "!=" ∨ k = "<>" then some .ne
  else if k = "<" then some .lt else if k = "<=" then some .le
  else if k = ">" then some .gt else if k = ">=" then some .ge
  else if k = "is" then some .is else if k = "is not" then some .isNot
  else if k = "like" then some .like else if k = "not like" then some .notLike
  else none

def keyOfId (i : Nat) : String := ((SaPrec.bins.find? fun r => r.1 == i).map (·.2.1)).getD ""

/-- `Cmp.saNeg` is the flip table of the live renderer + SQLAlchemy (`~to_expression(a <op> b)`),
including `is ↔ is not`; `~between` is `not_between_op` -/
theorem phi6_flip :
    (SaPrec.bins.all fun r =>
      match cmpOfKey r.2.1 with
      | none => true
      | some c => cmpOfKey (keyOfId r.2.2.2.2.2.1) == some c.saNeg) = true ∧
    SaPrec.notBtwFn = "not_between_op" := by decide

/-- the `join_type` strings the grammars can produce are all classified: given their SQL kind, or one
of the two the renderer refuses (`RIGHT JOIN`, bare `OUTER JOIN`) -/
theorem phi6_join_spellings :
    (SaPrec.joinSpellings.all fun s =>
      match saKind s with
      | some k => sqlKind s == some k
      | none => ["OUTER JOIN", "RIGHT JOIN"].contains s) = true := by
  decide

/-- `saKind` / `1=1` agree with the join keyword and ON text the *real* renderer printed (or the
exception it raised) for every spelling during extraction (probing tie) -/
theorem phi6_join_probe :
    (SaPrec.joinProbe.all fun r =>
      match saKind r.1 with
      | some k => r.2.2.1 == kindText k && (r.2.1 || r.2.2.2 == "1=1")
      | none => r.2.2.1 == "!NotImplementedError") = true := by decide

/-! ## round 5 — set operations: the printed text keeps the operand grouping -/
section SetOps
open MindsVerif.RenderSetOps

/-- full statement for set-operation trees: the rendered text, read by the target dialect, denotes the
rows of the tree — all dialects, all trees, all operand contents (`supported`: the target has the
operators at all; for sqlite that excludes INTERSECT ALL / EXCEPT ALL, always true for the others) -/
def C06_setops_full : Prop :=
  ∀ (d : Dialect) (tabs : Nat → Render.Table) (t : STree), supported d t = true →
    denote d tabs (render d t) = some (evalTree tabs t)

theorem C06_setops : C06_setops_full := denote_render

/-- …and when the target lacks an operator of the tree, it rejects the rendered text (no other meaning) -/
theorem C06_setops_unsupported (d : Dialect) (tabs : Nat → Render.Table) (t : STree) (h : supported d t = false) :
    denote d tabs (render d t) = none := by
  simp only [denote, (items_render_unsupported d tabs t h).1]
  rfl

/-- on top of `C06_norm`: operands are arbitrary queries of the typed fragment, each printed in its
normal form; the whole text has the rows of the parsed statement -/
theorem C06_setops_query (env : Env) (db : Db) (leaves : Nat → Query) (d : Dialect) (t : STree)
    (hr : ∀ i, raisesQ (leaves i) = false) (h : supported d t = true) :
    denote d (fun i => evalQuery env db (saNorm (leaves i))) (render d t) =
      some (evalQuery env db (toQuery leaves t)) := by
  rw [denote_render d _ t h, ← evalQuery_toQuery, ← saNorm_toQuery,
    C06_norm env db _ (raisesQ_toQuery leaves hr t)]

/-- what a renderer may do for sqlite besides `render`: continue the chain on the left (for every
operator — that is sqlite's own grouping) and delimit compound operands on the right only -/
theorem C06_setops_left_chain (tabs : Nat → Render.Table) (t : STree) (h : supported .sqlite t = true) :
    denote .sqlite tabs (renderLeftChain .sqlite t) = some (evalTree tabs t) := by
  obtain ⟨⟨c, hc, hv⟩, _⟩ := items_operand_leftChain tabs t h
  simp only [denote, hc, Option.map_some, readChain, hv]

/-- **the tie's checker is sound**: every text `accepted d t` — compound right operands delimited the
dialect's way, compound left operands delimited or (sqlite) continuing the chain, in any mixture — is read
by the target as the tree.  The stream `render-setops` asks `accepted` of the text the real renderer
printed, so a renderer may choose among these renderings without the tie breaking; `C06_setops` and
`C06_setops_left_chain` are the two extreme choices (`C06_setops_accepts`). -/
theorem C06_setops_accepted (d : Dialect) (tabs : Nat → Render.Table) (t : STree) (x : RText)
    (hs : supported d t = true) (h : accepted d t x = true) : denote d tabs x = some (evalTree tabs t) :=
  accepted_sound d tabs t x hs h

theorem C06_setops_accepts (d : Dialect) (t : STree) :
    accepted d t (render d t) = true ∧ accepted .sqlite t (renderLeftChain .sqlite t) = true :=
  ⟨(accepted_render d t).1, (accepted_leftChain t).1⟩

private def one : Nat → Render.Table := fun _ => [[some 1]]
private def aEbEc : STree := .node .except true (.leaf 0) (.node .except true (.leaf 1) (.leaf 2))

/-- EXCEPT is not associative: `A EXCEPT (B EXCEPT C)` and `(A EXCEPT B) EXCEPT C` differ as soon as one
row is in all three operands (DISTINCT and ALL) -/
theorem C06_witness_except_assoc :
    evalTree one aEbEc = [[some 1]] ∧
    evalTree one (.node .except true (.node .except true (.leaf 0) (.leaf 1)) (.leaf 2)) = [] ∧
    evalTree one (.node .except false (.leaf 0) (.node .except false (.leaf 1) (.leaf 2))) ≠
      evalTree one (.node .except false (.node .except false (.leaf 0) (.leaf 1)) (.leaf 2)) := by decide

/-- seeded change C06_10 in the model: splicing a same-operation compound operand into the chain prints
`S0 EXCEPT S1 EXCEPT S2` for `A EXCEPT (B EXCEPT C)`, which sqlite reads as `(A EXCEPT B) EXCEPT C`;
`render` prints the derived table -/
theorem C06_witness_10 :
    (renderSpliceSame .sqlite aEbEc).show = "S0 EXCEPT S1 EXCEPT S2" ∧
    denote .sqlite one (renderSpliceSame .sqlite aEbEc) = some [] ∧
    (render .sqlite aEbEc).show = "S0 EXCEPT D[ S1 EXCEPT S2 ]" ∧
    (render .mysql aEbEc).show = "S0 EXCEPT ( S1 EXCEPT S2 )" ∧
    denote .sqlite one (render .sqlite aEbEc) = some [[some 1]] ∧
    denote .sqlite one (render .mysql aEbEc) = none := by decide

private def tabs3 : Nat → Render.Table := fun i => if i = 0 then [[some 1]] else if i = 1 then [[some 2]] else [[some 3]]

/-- left nesting is not harmless for every target either: `(A UNION B) INTERSECT C` printed bare is
`A UNION (B INTERSECT C)` to MySQL / PostgreSQL (sqlite reads it as written) -/
theorem C06_witness_flat_prec :
    let t : STree := .node .intersect true (.node .union true (.leaf 0) (.leaf 1)) (.leaf 2)
    evalTree tabs3 t = [] ∧ denote .postgres tabs3 (renderFlat t) = some [[some 1]] ∧
    denote .sqlite tabs3 (renderFlat t) = some [] ∧ denote .postgres tabs3 (render .postgres t) = some [] := by
  decide

/-- the checker rejects the texts of the witnesses: the spliced same-operation operand (seed C06_10), a bare
chain for a dialect with operator precedence (the same bare chain is fine for sqlite), parentheses for
sqlite; a derived table, on the other hand, is a right delimiter for every dialect -/
theorem C06_witness_rejected :
    accepted .sqlite aEbEc (renderSpliceSame .sqlite aEbEc) = false ∧
    accepted .postgres (.node .intersect true (.node .union true (.leaf 0) (.leaf 1)) (.leaf 2))
      (renderFlat (.node .intersect true (.node .union true (.leaf 0) (.leaf 1)) (.leaf 2))) = false ∧
    accepted .sqlite (.node .intersect true (.node .union true (.leaf 0) (.leaf 1)) (.leaf 2))
      (renderFlat (.node .intersect true (.node .union true (.leaf 0) (.leaf 1)) (.leaf 2))) = true ∧
    accepted .sqlite aEbEc (render .mysql aEbEc) = false ∧
    accepted .mysql aEbEc (render .sqlite aEbEc) = true := by decide

/-- non-vacuity: a depth-3 tree nested on both sides with all three operations, supported by every dialect -/
example : [Dialect.sqlite, .mysql, .postgres].all (fun d =>
    supported d (.node .except true (.node .union false (.leaf 0) (.node .intersect true (.leaf 1) (.leaf 2)))
      (.node .except true (.leaf 3) (.node .union true (.leaf 0) (.leaf 2))))) = true := by decide
example : supported .sqlite (.node .except false (.leaf 0) (.leaf 1)) = false ∧
    supported .mysql (.node .except false (.leaf 0) (.leaf 1)) = true := by decide

end SetOps

/-! ## round 6 — the renderer object: the answer depends on the current statement only -/
section History
open MindsVerif.RenderHistory

/-- whatever a renderer object is (state, statements, outcomes): if every call leaves it as it was
created — on the exception / fail-back paths too —, its answer to a statement after ANY history of
statements is the answer of a new object.  The hypothesis is what the stream `render-history` observes on
the real object after every call (instance attributes before = after), the conclusion what it observes on
every statement of its sessions (same outcome as a new renderer). -/
theorem C06_history_restoring {σ Stmt Out : Type} (R : Renderer σ Stmt Out) (s0 : σ) (h : Restoring R s0)
    (hist : List Stmt) (q : Stmt) : after R s0 hist q = (R.call s0 q).1 :=
  after_restoring R s0 h hist q

/-- `SqlalchemyRender` as transcribed (no attribute assigned after `__init__`): after any history it
returns `saRender q` — so `C06` speaks about every call of a long-lived renderer, not only the first -/
theorem C06_history (hist : List Query) (q : Query) (env : Env) (db : Db) :
    after actual () hist q = saRender q ∧ evalQuery env db (after actual () hist q) = evalQuery env db q := by
  have h := after_restoring actual () actual_restoring hist q
  exact ⟨h, by rw [h]; exact C06 env db q⟩

/-- a renderer may keep a nesting counter: with `try/finally` it is restoring, hence history-free -/
theorem C06_history_guarded (hist : List CStmt) (q : CStmt) :
    after (counterRenderer true) 0 hist q = ((counterRenderer true).call 0 q).1 ∧
    (after (counterRenderer true) 0 hist q).orderPrinted = q.ordered := by
  have h := after_restoring (counterRenderer true) 0 counter_guarded_restoring hist q
  refine ⟨h, ?_⟩
  rw [h]
  simp [counterRenderer]

private def poison : CStmt := ⟨.derived (.plain true) false, false, false⟩
private def orderedQ : CStmt := ⟨.plain false, true, false⟩
private def twoRows : Db := ⟨fun _ => 1, fun t => if t = 0 then [[some 1], [some 2]] else []⟩
private def byDesc (o : List OrderKey) : Select := ⟨false, [⟨.col 0, none⟩], .table 0, none, o, none, none⟩

/-- seeded change C06_12 in the model: without `try/finally` a statement that fails inside a derived
table leaves the counter at 1 (the caller only sees the fail-back / the exception); the next ordered
statement without LIMIT is then printed without ORDER BY — a new object prints it; one level deeper, a
failure after the derived table, an ordered statement with LIMIT, and a failure outside a derived table
behave as stated; and a missing ORDER BY is a different list of rows -/
theorem C06_witness_12 :
    runAll (counterRenderer false) 0 [poison] = 1 ∧
    (after (counterRenderer false) 0 [poison] orderedQ).orderPrinted = false ∧
    (after (counterRenderer false) 0 [] orderedQ).orderPrinted = true ∧
    runAll (counterRenderer false) 0 [⟨.derived (.derived (.plain true) false) false, false, false⟩] = 2 ∧
    runAll (counterRenderer false) 0 [⟨.derived (.plain false) true, false, false⟩] = 0 ∧
    (after (counterRenderer false) 0 [poison] ⟨.plain false, true, true⟩).orderPrinted = true ∧
    runAll (counterRenderer false) 0 [⟨.plain true, false, false⟩] = 0 ∧
    ¬ Restoring (counterRenderer false) 0 ∧
    evalSelect env0 twoRows (byDesc [⟨.col 0, "DESC", ""⟩]) = [[some 2], [some 1]] ∧
    evalSelect env0 twoRows (byDesc []) = [[some 1], [some 2]] := by
  refine ⟨by decide, by decide, by decide, by decide, by decide, by decide, by decide, ?_, by decide, by decide⟩
  intro h
  have := h poison
  revert this
  decide

end History

/-! ## round 5 — FROM lists of nested expression sub-queries (auto-correlation by object identity) -/
section Scope
open MindsVerif.RenderScope

/-- `to_table` builds a new `FromClause` object at every reference (`allocFresh`; pinned on the real
renderer by the stream `render-from-scope`): then, for every chain of nested EXISTS / IN / scalar
sub-queries and whatever tables, aliases, comma lists and explicit joins their FROM lists hold —
repeated names and aliases included —, the FROM list of every level is printed in full -/
theorem C06_from_fresh (n : Nat) (levels : List (List FRef)) :
    printed (displayAll [] (allocFresh n levels)) = levels := by
  rw [displayAll_allocFresh n [] levels (fun x hx => by simp at hx), printed_allocFresh]

private def tx : TRef := ⟨1, some 7⟩
private def ty : TRef := ⟨2, some 8⟩

/-- seeded change C06_9 in the model: aliased table clauses shared through a cache — the inner `t1 AS x`
of `… FROM t1 AS x WHERE EXISTS (SELECT … FROM t1 AS x, t2 AS y …)` is dropped; a single-entry inner FROM
list and a different alias are not affected -/
theorem C06_witness_9 :
    printed (displayAll [] (allocCached false 0 [[.table tx], [.table tx, .table ty]])) = [[.table tx], [.table ty]] ∧
    printed (displayAll [] (allocCached false 0 [[.table tx], [.table tx]])) = [[.table tx], [.table tx]] ∧
    printed (displayAll [] (allocCached false 0 [[.table tx], [.table ⟨1, some 9⟩, .table ty]])) =
      [[.table tx], [.table ⟨1, some 9⟩, .table ty]] := by decide

/-- the same through an explicit join of the enclosing select (its members are from-objects too), one
level further down, and for un-aliased tables when those are cached as well -/
theorem C06_witness_9b :
    printed (displayAll [] (allocCached false 0 [[.join ty [tx]], [.table ⟨3, none⟩, .table tx]])) =
      [[.join ty [tx]], [.table ⟨3, none⟩]] := by decide

theorem C06_witness_9c :
    printed (displayAll [] (allocCached false 0 [[.table ty], [.table tx], [.table ty, .table tx]])) =
      [[.table ty], [.table tx], [.table ty]] ∧
    printed (displayAll [] (allocCached true 0 [[.table ⟨1, none⟩], [.table ⟨2, none⟩, .table ⟨1, none⟩]])) =
      [[.table ⟨1, none⟩], [.table ⟨2, none⟩]] ∧
    printed (displayAll [] (allocCached false 0 [[.table ⟨1, none⟩], [.table ⟨2, none⟩, .table ⟨1, none⟩]])) =
      [[.table ⟨1, none⟩], [.table ⟨2, none⟩, .table ⟨1, none⟩]] := by decide

end Scope

end MindsVerif.Props.C06
