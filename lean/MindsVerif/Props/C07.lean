import MindsVerif.Lemmas.DecodeMain
import MindsVerif.Lemmas.Encode
import MindsVerif.Lemmas.Codec
import MindsVerif.Lemmas.FloatLex
import MindsVerif.Model.LitChunk
import MindsVerif.Gen.Reserved
import MindsVerif.Gen.RenderPaths
/-!
# C07 — constants render as inert, exact literals

Output paths of a constant and what is proved about each (current tree):

* **SQLAlchemy rendering** (`get_string(..., with_failback=False)` and the non-raising case of the default call):
  `renderLiteral backslash` = `quote_literal(value, dialect)` behind the `LiteralCompiler` override.  `C07_std` /
  `C07_mysql` (all strings): the standard-SQL reader `stdLex` (PostgreSQL / SQLite / MSSQL / Oracle) resp. the MySQL
  reader `mysqlLex` reads the rendered text back as exactly the value and stops exactly behind it;
  `C07_codec_for_target` packages both; `C07_structure`: what follows the literal does not depend on the value.
  `C07_paths` (kernel-evaluated on probed data): WHICH codec every way of constructing the renderer uses — equal to
  what the target engine needs for every path but `name:Snowflake` (open finding: the Oracle dialect stands in for
  Snowflake, which reads backslash escapes).
* **`to_string()`** read by the library's own parsers: `C07_tostring_codec` (all strings, any dialect).
* **fallback of the default `get_string(ast)`** (`with_failback=True`): when the renderer refuses a tree the caller gets
  `str(ast)`, i.e. the LIBRARY spelling (`\'`, `\\`) for whatever target.  `C07_fallback_mysql` (all strings): a
  MySQL-family target reads it back; `C07_fallback_std_partial`: a standard-SQL target reads it back exactly for
  values without quote and backslash; `C07_review_fallback_witness`: for the other values the literal ends early
  (open finding, design conflict with the fallback contract of C17).  The check drives this path too.
* history (`C07_old_*`): the printer before /repo 2843e02 and the standard rendering read by MySQL before 8d4e738 —
  regression examples about the OLD variants.
-/
namespace MindsVerif.Props.C07
open MindsVerif MindsVerif.Py MindsVerif.Lex MindsVerif.Denote MindsVerif.Literal MindsVerif.LitRender MindsVerif.Gen

/-- full statement for a target reader `lexer` and a renderer `render` -/
def C07_full (render : List Char → List Char) (lexer : List Char → Option (List Char × List Char)) : Prop :=
  ∀ v rest : List Char, rest.head? ≠ some '\'' → lexer (render v ++ rest) = some (v, rest)

/-- **T7.2** standard-SQL targets (postgres, sqlite, mssql, oracle), all strings -/
theorem C07_std : C07_full (renderLiteral false) stdLex := by
  intro v rest hr
  simp [renderLiteral, renderBody, stdLex, stdBody_render rest hr v]

/-- **T7.2 (MySQL)** all strings: the MySQL rendering (quotes doubled, then backslashes doubled — /repo 8d4e738)
is read back by the MySQL reader (backslash escapes on) as exactly the value -/
theorem C07_mysql : C07_full (renderLiteral true) mysqlLex := by
  intro v rest hr
  simp [renderLiteral, mysqlLex, mysqlBody_render rest hr v]

/-- **T7.3** the text behind the literal is read from the same position for every value: the statement
structure does not depend on the data (standard SQL and MySQL) -/
theorem C07_structure (v v' rest : List Char) (hr : rest.head? ≠ some '\'') :
    (stdLex (renderLiteral false v ++ rest)).map Prod.snd = (stdLex (renderLiteral false v' ++ rest)).map Prod.snd ∧
    (mysqlLex (renderLiteral true v ++ rest)).map Prod.snd = (mysqlLex (renderLiteral true v' ++ rest)).map Prod.snd := by
  rw [C07_std v rest hr, C07_std v' rest hr, C07_mysql v rest hr, C07_mysql v' rest hr]; exact ⟨rfl, rfl⟩

def attack : List Char := ['\\', '\'', ' ', 'O', 'R', ' ', '1', '=', '1', ' ', '-', '-', ' ']

/-! regression examples for the repaired defect (fixed: 8d4e738): the *standard* rendering must not be used for
MySQL — `\' OR 1=1 -- ` rendered as `'\'' OR 1=1 -- '` is read by MySQL as `'` followed by ` OR 1=1 -- '` -/
theorem C07_old_witness_mysql : ¬ C07_full (renderLiteral false) mysqlLex := by
  intro h
  have := h attack [] (by decide)
  revert this; decide

theorem C07_old_witness_mysql_value :
    mysqlLex (renderLiteral false attack) = some (['\''], [' ', 'O', 'R', ' ', '1', '=', '1', ' ', '-', '-', ' ', '\'']) ∧
    mysqlLex (renderLiteral true attack) = some (attack, []) := by
  decide

/-- History (codec before 2843e02): `to_string()` against the old MindsDB lexer, partial -/
theorem C07_old_tostring_partial (v rest : List Char) (hv : encOK v = true) (hr : rest.head? ≠ some '\'') :
    (lexQuote .mindsdb (constantToString v ++ rest)).map (fun t => (t.src, t.rest)) =
      some (constantToString v, rest) := by
  obtain ⟨e1, e2, _⟩ := enc_main v hv
  have e : constantToString v = srcLit '\'' (encItems v) := by simp [constantToString, srcLit, e1]
  have hs := mQuote_src rest hr (encItems v) e2
  rw [e]
  simp [srcLit, lexQuote, hs]

/-- **T7.1, full (live code since /repo 2843e02, `Model/Codec.lean`)**: for every string the library's own reader (any
dialect) reads the printed literal back as exactly the value and stops exactly behind it -/
theorem C07_tostring_codec (v rest : List Char) (hr : rest.head? ≠ some '\'') :
    Codec.readString (Codec.constantToString v ++ rest) = some (v, rest) :=
  Codec.roundtrip v rest hr

/-! ## the fallback path of the default `get_string(ast)`: `str(ast)` handed to the target -/

/-- **fallback, MySQL-family targets, all strings**: the library spelling is read back as exactly the value -/
theorem C07_fallback_mysql : C07_full Codec.constantToString mysqlLex :=
  fun v rest hr => Codec.fallback_mysql v rest hr

/-- **fallback, standard-SQL targets, partial**: exactly for values without a quote and without a backslash (the
complement is the open finding; witness below) -/
theorem C07_fallback_std_partial (v rest : List Char) (hr : rest.head? ≠ some '\'')
    (h1 : ∀ c ∈ v, c ≠ '\'') (h2 : ∀ c ∈ v, c ≠ '\\') :
    stdLex (Codec.constantToString v ++ rest) = some (v, rest) :=
  Codec.fallback_std v rest hr h1 h2

example : stdLex (Codec.constantToString ['a', ' ', '%', ';', '-', '-'] ++ [')']) = some (['a', ' ', '%', ';', '-', '-'], [')']) := by
  decide

-- [review] the cross pairing that the fallback path of `SqlalchemyRender.get_string` produces (library printer, read by
-- a standard-SQL engine) does NOT satisfy the full statement: the value `' , 1 -- ` is printed `'\' , 1 -- '`, which a
-- standard-SQL reader ends after the backslash — the rest is read as SQL.  (Model-level witness; the Python path
-- `SqlalchemyRender('sqlite').get_string(Select(targets=[Constant("' , 1 -- ")], from_table=Identifier('a.b.c.d')))`
-- was run on sqlite3 by the reviewer.)
def fbAttack : List Char := "' , 1 -- ".toList

theorem C07_review_fallback_witness :
    Codec.constantToString fbAttack = "'\\' , 1 -- '".toList ∧
    stdLex (Codec.constantToString fbAttack) = some (['\\'], " , 1 -- '".toList) ∧
    ¬ C07_full Codec.constantToString stdLex := by
  refine ⟨by decide, by decide, ?_⟩
  intro h
  have := h fbAttack [] (by decide)
  revert this; decide

-- [review] non-vacuity of `C07_tostring_codec` and `C07_mysql` on the attack value, followed by statement text
example : Codec.readString (Codec.constantToString attack ++ [';']) = some (attack, [';']) := by decide
example : mysqlLex (renderLiteral true attack ++ [')']) = some (attack, [')']) := by decide

/-- regression example (fixed: 2843e02): with the old printer the same value ended the literal early -/
theorem C07_old_witness_tostring :
    (lexQuote .mindsdb (constantToString attack)).map (fun t => t.src) = some ['\'', '\\', '\\', '\''] := by
  decide

/-! ## which codec does the live renderer use? — every construction path (probed, `Gen/RenderPaths.lean`)

`SqlalchemyRender` can be built from a string name or from a dialect class (any driver sub-dialect, or a class
obtained from a URL).  For each accepted path the translator records whether the TARGET engine treats backslash as
an escape character (SQLAlchemy's class hierarchy: `isinstance(dialect, MySQLDialect)`, MySQL and MariaDB) and which
codec the renderer was observed to use.  The theorems below are per codec; these obligations say that every
construction path gets the codec its target needs. -/

/-- the reader of a target and the codec it needs -/
theorem C07_codec_for_target (backslash : Bool) :
    C07_full (renderLiteral backslash) (if backslash then mysqlLex else stdLex) := by
  cases backslash
  · exact C07_std
  · exact C07_mysql

/-- construction paths whose observed codec is not the one their target needs -/
def mismatches : List String :=
  (RenderPaths.paths.filter fun p => p.2.2.1 != p.2.2.2).map (·.1)

/-- **every construction path uses the codec of its target**, except exactly `name:Snowflake` (open finding: the
library maps the name to SQLAlchemy's Oracle dialect, hence the standard codec, while Snowflake reads backslash escapes
inside single-quoted constants; not verifiable offline).  The MariaDB dialect classes, formerly in this list, are
repaired (/repo 27dc99c).  A path that loses its codec (e.g. dialect classes when the decision is taken only for string
names) or a new unsafe path breaks this obligation. -/
theorem C07_paths : RenderPaths.odd = [] ∧ mismatches = ["name:Snowflake"] := by decide

/-- the probe covered each kind of path -/
example : (RenderPaths.paths.map (·.1)).contains "name:mysql" ∧ (RenderPaths.paths.map (·.1)).contains "class:mysql.pymysql" ∧
    (RenderPaths.paths.map (·.1)).contains "class:mysql.mysqlconnector" ∧ (RenderPaths.paths.map (·.1)).contains "url:mysql+pymysql" ∧
    (RenderPaths.paths.map (·.1)).contains "class:postgresql.psycopg2" ∧ (RenderPaths.paths.map (·.1)).contains "name:Snowflake" := by
  decide

/-! pins -/
-- (source text of the override: `Gen.RenderPins.dmlLiteralExpr`, information only; tie = correspondence)
example : RenderPins.paramstyle = "named" := by decide

/-! non-vacuity -/
example : stdLex (renderLiteral false attack ++ [';']) = some (attack, [';']) := by decide
example : encOK ['a', '\'', 'b'] = true := by decide

/-! ## Round 5: float constants through `Constant.get_string` (`float_to_str`, `Model/FloatPos.lean`)

The library's own text (`to_string()`, also what the fallback hands out) has no exponent form: `float_to_str` prints
`repr(value)`, and a repr WITH an exponent is rewritten in positional notation via `Decimal`.  `repr(float)` and
`float(text)` are CPython's (shortest round-trip repr, correctly rounded reading: `float(repr(x)) == x`, trusted); the
model starts at the repr text.  Proved for every digit string and every exponent: the printed text is ONE `FLOAT`
token of the three lexers with exactly the printed digits, and it denotes the SAME rational number as the repr — so
reading it with a correctly rounded `float()` gives the float the repr denotes, i.e. the constant.  Tie:
`float-print` stream (`floatToStr (repr v)` vs `Constant(v).to_string()`), floats of all magnitudes. -/

/-- **floats, repr with an exponent** (`[-]ip[.fp]e±exp`, any digit strings `ip`, `fp`, any exponent): the printed
text is `[-]I.F` with `I`, `F` the digit strings of `positionalParts`; `I.F` is one FLOAT token in every dialect; and
`I.F` denotes `ip.fp × 10^±exp` exactly (`m / 10^s` with `m = dv (I ++ F)`, `s = |F|`, cross-multiplied) -/
theorem C07_float_positional (x : FloatPos.Sci) (d : Dialect)
    (hip : x.ip.all FloatPos.isDig = true) (hfp : x.fp.all FloatPos.isDig = true) :
    FloatPos.positional x =
      (if x.neg then ['-'] else []) ++ (FloatPos.positionalParts x).1 ++ '.' :: (FloatPos.positionalParts x).2 ∧
    lexNumber d ((FloatPos.positionalParts x).1 ++ '.' :: (FloatPos.positionalParts x).2) =
      some (.dec (FloatPos.positionalParts x).1 (FloatPos.positionalParts x).2, []) ∧
    (x.expNeg = false →
      digitsValue ((FloatPos.positionalParts x).1 ++ (FloatPos.positionalParts x).2) * 10 ^ x.fp.length =
        digitsValue (x.ip ++ x.fp) * 10 ^ x.exp * 10 ^ (FloatPos.positionalParts x).2.length) ∧
    (x.expNeg = true →
      digitsValue ((FloatPos.positionalParts x).1 ++ (FloatPos.positionalParts x).2) * 10 ^ (x.fp.length + x.exp) =
        digitsValue (x.ip ++ x.fp) * 10 ^ (FloatPos.positionalParts x).2.length) := by
  obtain ⟨h1, h2, h3, h4⟩ := FloatPos.positional_shape x hip hfp
  obtain ⟨v1, v2⟩ := FloatPos.positional_value x
  refine ⟨rfl, ?_, v1, v2⟩
  exact FloatPos.lexNumber_dec d _ _ h1 h2 (by simpa [List.all_eq_true, FloatPos.isDig] using h3)
    (by simpa [List.all_eq_true, FloatPos.isDig] using h4)

/-- a repr without exponent is printed as it is -/
theorem C07_float_plain (r : List Char) (h : FloatPos.hasExp r = false) : FloatPos.floatToStr r = r := by
  simp [FloatPos.floatToStr, h]

/-- the model on reprs of every kind (tiny, huge, negative, no fraction digits, denormal) -/
example : FloatPos.floatToStr "1.5e-07".toList = "0.00000015".toList ∧
    FloatPos.floatToStr "1e-05".toList = "0.00001".toList ∧
    FloatPos.floatToStr "1e+16".toList = "10000000000000000.0".toList ∧
    FloatPos.floatToStr "-2.5e+20".toList = "-250000000000000000000.0".toList ∧
    FloatPos.floatToStr "1.2345678e-05".toList = "0.000012345678".toList ∧
    FloatPos.floatToStr "1.7976931348623157e+308".toList =
      ("17976931348623157".toList ++ List.replicate 292 '0' ++ ".0".toList) ∧
    FloatPos.floatToStr "5e-324".toList = ("0.".toList ++ List.replicate 323 '0' ++ "5".toList) ∧
    FloatPos.floatToStr "1234.5678".toList = "1234.5678".toList := by decide +kernel

/-- non-vacuity of `C07_float_positional` and what a printer with a fixed number of decimals (the class of the
escaped change: `format(value, 'f')` keeps six) does to `1.5e-07`: `0.000000` denotes 0, the repr 15 / 10^8 -/
theorem C07_witness_float_fixed_decimals :
    FloatPos.parseSci "1.5e-07".toList = some ⟨false, ['1'], ['5'], true, 7⟩ ∧
    FloatPos.positionalParts ⟨false, ['1'], ['5'], true, 7⟩ = (['0'], "00000015".toList) ∧
    digitsValue (['0'] ++ "00000015".toList) * 10 ^ (1 + 7) = digitsValue (['1'] ++ ['5']) * 10 ^ 8 ∧
    ¬ (digitsValue (['0'] ++ "000000".toList) * 10 ^ (1 + 7) = digitsValue (['1'] ++ ['5']) * 10 ^ 6) := by
  decide +kernel

/-! ## Round 6: literals written in pieces (length-dependent rendering paths)

`C07_std` / `C07_mysql` hold for strings of every length — they are theorems about `renderLiteral`.  Whether the live
`quote_literal` IS `renderLiteral` also for long values is the tie's matter (streams `render-long`, `readers-long`:
values around every power-of-two / round-number length up to 10 000 with a quote / backslash at and around the
boundary, every dialect name and one path per dialect group).  What the model says about cutting a long text: -/

theorem chunksGo_flatten (n : Nat) (hn : 0 < n) : ∀ (f : Nat) (l : List Char), l.length ≤ f →
    (LitChunk.chunksGo n f l).flatten = l
  | 0, l, h => by
    have : l = [] := List.eq_nil_of_length_eq_zero (by omega)
    subst this; rfl
  | f + 1, l, h => by
    by_cases hl : l = []
    · subst hl; simp [LitChunk.chunksGo]
    · have hlen : 0 < l.length := List.length_pos_iff.mpr hl
      have ih := chunksGo_flatten n hn f (l.drop n) (by simp only [List.length_drop]; omega)
      simp [LitChunk.chunksGo, hl, ih]

theorem readConcat_render (ps : List (List Char)) :
    LitChunk.readConcat (ps.map (renderLiteral false)) = some ps.flatten := by
  induction ps with
  | nil => rfl
  | cons p t ih =>
    have h := C07_std p [] (by simp)
    simp only [List.append_nil] at h
    simp [LitChunk.readConcat, h, ih]

/-- **cutting the VALUE is sound, for every piece length and every string**: the pieces of `v`, each rendered as its
own literal, read back (standard-SQL reader, literal by literal, nothing left over) and concatenate to exactly `v` -/
theorem C07_chunks_sound (n : Nat) (hn : 0 < n) (v : List Char) :
    LitChunk.readConcat ((LitChunk.chunks n v).map (renderLiteral false)) = some v := by
  rw [readConcat_render, LitChunk.chunks, chunksGo_flatten n hn _ _ (Nat.le_refl _)]

/-- **cutting the quoted text is not** (the class of the escaped change; piece length 4 instead of 4000): the doubled
quote of `abc'd` straddles the cut, the first piece `'abc''` is no terminated literal, and in the statement text the
literal that starts there swallows `) || TO_CLOB(` -/
theorem C07_witness_split_after_doubling :
    LitChunk.splitAfterDoubling 4 "abc'd".toList = ["'abc''".toList, "''d'".toList] ∧
    LitChunk.readConcat (LitChunk.splitAfterDoubling 4 "abc'd".toList) = none ∧
    stdLex "'abc'') || TO_CLOB(''d'))".toList = some ("abc') || TO_CLOB('d".toList, "))".toList) ∧
    LitChunk.readConcat ((LitChunk.chunks 4 "abc'd".toList).map (renderLiteral false)) = some "abc'd".toList := by
  decide +kernel

end MindsVerif.Props.C07
