import MindsVerif.Lemmas.DecodeMain
import MindsVerif.Lemmas.Encode
import MindsVerif.Lemmas.Codec
import MindsVerif.Gen.Reserved
import MindsVerif.Gen.RenderPaths
/-!
# C07 — constants render as inert, exact literals in every output path

* SQLAlchemy path: `renderLiteral mysql` is `quote_literal(value, dialect)` behind the
  `LiteralCompiler.render_literal_value` override.  `C07_mysql` (all strings): the MySQL rendering is read back
  by the MySQL reader.  `C07_std` (unbounded, all strings): a standard-SQL string-literal reader (`stdLex`:
  PostgreSQL / SQLite / MSSQL / Oracle) reads the rendered text back as exactly the value and stops exactly
  at its end, whatever follows; `C07_structure`: hence what follows the literal is the same for every
  value.  `C07_witness_mysql*`: regression examples of the repaired defect (standard rendering read by MySQL).
* `to_string()` path: `Constant.get_string` against the library's own MindsDB lexer: `C07_tostring_partial`
  (values in which every backslash is followed by a character other than `\ ' "`): the token ends exactly
  at the end of the printed literal; false in general: `C07_witness_tostring`.
* [review] doc fix: the previous bullet describes the printer BEFORE /repo 2843e02 (history).  For the live code the
  `to_string()` theorem is `C07_tostring_codec` (all strings, library reader).
* [review] NOT covered by any theorem or stream of C07: the DEFAULT `SqlalchemyRender.get_string(ast)`
  (`with_failback=True`) returns `str(ast)` — the `to_string()` text, library codec `\'` — for ANY dialect whenever
  rendering raises `SQLAlchemyError` / `NotImplementedError` (e.g. a 4-part table name).  A standard-SQL target does
  not read that codec: see `C07_review_fallback_witness` (checked on sqlite3: `SELECT '\' , 1 -- ' FROM a.b.c.d`
  returns the two columns `\` and `1`).  The check calls `get_string(..., with_failback=False)` only.
-/
namespace MindsVerif.Props.C07
open MindsVerif MindsVerif.Py MindsVerif.Lex MindsVerif.Denote MindsVerif.Literal MindsVerif.LitRender MindsVerif.Gen

/-- full statement for a target reader `lexer` and a renderer `render` -/
def C07_full (render : List Char → List Char) (lexer : List Char → Option (List Char × List Char)) : Prop :=
  ∀ v rest : List Char, rest.head? ≠ some '\'' → lexer (render v ++ rest) = some (v, rest)

/-- **T7.2** standard-SQL targets (postgres, sqlite, mssql, oracle), all strings -/
theorem C07_std : C07_full (renderLiteral false) stdLex := by
  intro v rest hr
  simp [renderLiteral, renderBody, stdLex, stdBody_render rest hr v]

/-- **T7.2 (MySQL)** all strings: the MySQL rendering (quotes doubled, then backslashes doubled — /repo 8d4e738)
is read back by the MySQL reader (backslash escapes on) as exactly the value -/
theorem C07_mysql : C07_full (renderLiteral true) mysqlLex := by
  intro v rest hr
  simp [renderLiteral, mysqlLex, mysqlBody_render rest hr v]

/-- **T7.3** the text behind the literal is read from the same position for every value: the statement
structure does not depend on the data (standard SQL and MySQL) -/
theorem C07_structure (v v' rest : List Char) (hr : rest.head? ≠ some '\'') :
    (stdLex (renderLiteral false v ++ rest)).map Prod.snd = (stdLex (renderLiteral false v' ++ rest)).map Prod.snd ∧
    (mysqlLex (renderLiteral true v ++ rest)).map Prod.snd = (mysqlLex (renderLiteral true v' ++ rest)).map Prod.snd := by
  rw [C07_std v rest hr, C07_std v' rest hr, C07_mysql v rest hr, C07_mysql v' rest hr]; exact ⟨rfl, rfl⟩

def attack : List Char := ['\\', '\'', ' ', 'O', 'R', ' ', '1', '=', '1', ' ', '-', '-', ' ']

/-! regression examples for the repaired defect (fixed: 8d4e738): the *standard* rendering must not be used for
MySQL — `\' OR 1=1 -- ` rendered as `'\'' OR 1=1 -- '` is read by MySQL as `'` followed by ` OR 1=1 -- '` -/
theorem C07_witness_mysql : ¬ C07_full (renderLiteral false) mysqlLex := by
  intro h
  have := h attack [] (by decide)
  revert this; decide

theorem C07_witness_mysql_value :
    mysqlLex (renderLiteral false attack) = some (['\''], [' ', 'O', 'R', ' ', '1', '=', '1', ' ', '-', '-', ' ', '\'']) ∧
    mysqlLex (renderLiteral true attack) = some (attack, []) := by
  decide

/-- History (codec before 2843e02): `to_string()` against the old MindsDB lexer, partial -/
theorem C07_tostring_partial (v rest : List Char) (hv : encOK v = true) (hr : rest.head? ≠ some '\'') :
    (lexQuote .mindsdb (constantToString v ++ rest)).map (fun t => (t.src, t.rest)) =
      some (constantToString v, rest) := by
  obtain ⟨e1, e2, _⟩ := enc_main v hv
  have e : constantToString v = srcLit '\'' (encItems v) := by simp [constantToString, srcLit, e1]
  have hs := mQuote_src rest hr (encItems v) e2
  rw [e]
  simp [srcLit, lexQuote, hs]

/-- **T7.1, full (live code since /repo 2843e02, `Model/Codec.lean`)**: for every string the library's own reader (any
dialect) reads the printed literal back as exactly the value and stops exactly behind it -/
theorem C07_tostring_codec (v rest : List Char) (hr : rest.head? ≠ some '\'') :
    Codec.readString (Codec.constantToString v ++ rest) = some (v, rest) :=
  Codec.roundtrip v rest hr

-- [review] the cross pairing that the fallback path of `SqlalchemyRender.get_string` produces (library printer, read by
-- a standard-SQL engine) does NOT satisfy the full statement: the value `' , 1 -- ` is printed `'\' , 1 -- '`, which a
-- standard-SQL reader ends after the backslash — the rest is read as SQL.  (Model-level witness; the Python path
-- `SqlalchemyRender('sqlite').get_string(Select(targets=[Constant("' , 1 -- ")], from_table=Identifier('a.b.c.d')))`
-- was run on sqlite3 by the reviewer.)
def fbAttack : List Char := "' , 1 -- ".toList

theorem C07_review_fallback_witness :
    Codec.constantToString fbAttack = "'\\' , 1 -- '".toList ∧
    stdLex (Codec.constantToString fbAttack) = some (['\\'], " , 1 -- '".toList) ∧
    ¬ C07_full Codec.constantToString stdLex := by
  refine ⟨by decide, by decide, ?_⟩
  intro h
  have := h fbAttack [] (by decide)
  revert this; decide

-- [review] non-vacuity of `C07_tostring_codec` and `C07_mysql` on the attack value, followed by statement text
example : Codec.readString (Codec.constantToString attack ++ [';']) = some (attack, [';']) := by decide
example : mysqlLex (renderLiteral true attack ++ [')']) = some (attack, [')']) := by decide

/-- regression example (fixed: 2843e02): with the old printer the same value ended the literal early -/
theorem C07_witness_tostring :
    (lexQuote .mindsdb (constantToString attack)).map (fun t => t.src) = some ['\'', '\\', '\\', '\''] := by
  decide

/-! ## which codec does the live renderer use? — every construction path (probed, `Gen/RenderPaths.lean`)

`SqlalchemyRender` can be built from a string name or from a dialect class (any driver sub-dialect, or a class
obtained from a URL).  For each accepted path the translator records whether the TARGET engine treats backslash as
an escape character (SQLAlchemy's class hierarchy: `isinstance(dialect, MySQLDialect)`, MySQL and MariaDB) and which
codec the renderer was observed to use.  The theorems below are per codec; these obligations say that every
construction path gets the codec its target needs. -/

/-- the reader of a target and the codec it needs -/
theorem C07_codec_for_target (backslash : Bool) :
    C07_full (renderLiteral backslash) (if backslash then mysqlLex else stdLex) := by
  cases backslash
  · exact C07_std
  · exact C07_mysql

/-- construction paths whose observed codec is not the one their target needs -/
def mismatches : List String :=
  (RenderPaths.paths.filter fun p => p.2.2.1 != p.2.2.2).map (·.1)

/-- **every construction path uses the codec of its target**, except exactly the known finding KF-C07-4 (dialect
classes of the MariaDB family, `dialect.name == 'mariadb'`, get the standard codec); two-state so that the repair
(`docs/proposed_fixes/C07_2.diff`) lands without an edit.  A path that loses its codec (e.g. dialect classes when the
decision is taken only for string names) or a new unsafe path breaks this obligation. -/
theorem C07_paths :
    RenderPaths.odd = [] ∧
    (mismatches = [] ∨
     mismatches = ["url:mariadb", "url:mariadb+mariadbconnector", "url:mariadb+mysqldb", "url:mariadb+pymysql"]) := by
  decide

/-- the probe covered each kind of path -/
example : (RenderPaths.paths.map (·.1)).contains "name:mysql" ∧ (RenderPaths.paths.map (·.1)).contains "class:mysql.pymysql" ∧
    (RenderPaths.paths.map (·.1)).contains "class:mysql.mysqlconnector" ∧ (RenderPaths.paths.map (·.1)).contains "url:mysql+pymysql" ∧
    (RenderPaths.paths.map (·.1)).contains "class:postgresql.psycopg2" ∧ (RenderPaths.paths.map (·.1)).contains "name:Snowflake" := by
  decide

/-! pins -/
-- (source text of the override: `Gen.RenderPins.dmlLiteralExpr`, information only; tie = correspondence)
example : RenderPins.paramstyle = "named" := by decide

/-! non-vacuity -/
example : stdLex (renderLiteral false attack ++ [';']) = some (attack, [';']) := by decide
example : encOK ['a', '\'', 'b'] = true := by decide

end MindsVerif.Props.C07
