import MindsVerif.Lemmas.SemJoin
import MindsVerif.Lemmas.SemPlan2
import MindsVerif.Lemmas.SemPlan3
import MindsVerif.Lemmas.SemSetOps
import MindsVerif.Lemmas.SemChain
import MindsVerif.Lemmas.SemLimit
import MindsVerif.Lemmas.SemSeq
import MindsVerif.Lemmas.SemAgg
import MindsVerif.Lemmas.SemSet
import MindsVerif.Lemmas.SemNames
import MindsVerif.Lemmas.SemScope
/-!
# C08 — executing a federated plan returns what the original query returns

State of the model: `Sem.plan` / `Sem.execPlan` transcribe `PlanJoinTablesQuery` as of repo HEAD 66230b1 for the two-table
fragment `SELECT * FROM t0 <kind> JOIN t1 ON t0.c0 = t1.c1 [WHERE tree] [GROUP BY / HAVING flags] [LIMIT n]` (all five join
spellings); `Sem.markNullable` transcribes `mark_nullable_tables` for left-deep chains of any length.

**Full statement** `C08_full`: `∀ q db, execPlan (plan q) db = evalQuery q db`.  It is still FALSE (`C08_not_full`): the
one remaining defect of the fragment is LIMIT pushed into the first fetch below a join that is not a LEFT join
(`C08_witness_limit_inner`; pinned by the library's own tests, KF-C08-7 / KF-C08-10).

**Main theorem** `C08_partial_model`: `planSound q → execPlan (plan q) db = evalQuery q db` for ALL databases, where
`planSound q = (plan q).limit0.isNone || q.kind.isLeft` is decidable.  Corollaries: `C08_partial_model_nolimit` (EVERY
query without LIMIT: inner / LEFT / LEFT OUTER / RIGHT / FULL, any WHERE tree with AND / OR / NOT / IS NULL),
`C08_partial_model_left` (EVERY LEFT-join query, with or without LIMIT), `C08_partial_model_inner`.

**Component theorems** (all table contents, induction over lists; generic in the row types):
* T8.1 semi-join reduction `C08_T81_inner`, `C08_T81_left`, third table of a chain `C08_T81_third_table`; false for RIGHT /
  FULL (`C08_witness_semi_right/full`), which the planner respects (`Sem.semiAllowed`, `C08_regression_semi_*`).
* T8.2 pushing a WHERE-implied filter into an operand, for any row combiner (pairs in the planner): `C08_T82_inner_right/left`,
  `C08_T82_left_left`, `C08_T82_left_right` (needs a NULL-rejecting filter), instantiated with real column comparisons (the
  earlier `l ++ r` formulation was unusable and is gone: `C08_history_concat_hyp_forces_empty`); what the planner pushes is implied by WHERE for every tree
  (`C08_T82_collected`, `C08_T82_pushed`, `C08_T82_pushedK`); composition over pairs `C08_partial`, `C08_partial_left`,
  `C08_partial_limit` with a non-trivial evaluated example.
* T8.3 LIMIT below LEFT joins `C08_T83_limit_left`, `C08_T83_limit_left_left`; the literal `check_use_limit`
  (`C08_useLimit_two_tables`, `C08_useLimit_group_by`, `C08_useLimit_third`; tied to the code by the `uselimit` stream
  over 2–4 table sequences); `C08_limit_offset_inner_outer_limit`, `C08_offset_left_outer_limit`; when the pinned inner-join plans ARE sound:
  `C08_limit_inner_sound_if_total`, `C08_limit_inner_sound_if_one_to_one`, `C08_offset_left_sound_if_at_most_one`
  (counterexamples `C08_witness_limit_inner`, `C08_witness_offset_left`).
* n-table chains: `C08_markNullable_spec` (closed form of `mark_nullable_tables`), `C08_nullableSide_eq_chain`,
  `C08_chain3_push_first`, `C08_chain3_flag`, `C08_witness_chain3_isnull`.
* what reaches the outer QueryStep: `C08_core`, `C08_post` (grouping / ordering / projection are NOT modelled: `Q2.groupBy` and
  `Q2.having` are planner flags only, `evalQuery` / `execPlan` ignore them).
* outside the claim: `C08_lemma_union_all_congr`, `C08_lemma_union_distinct_congr`, `C08_lemma_cte_store_congr` are pure
  congruence lemmas over abstract operands; `plan_union` / `plan_cte` are not modelled (probe only).

**Regression theorems** — defects that the model exhibited and the library has repaired (the witness now states
plan = query): `C08_regression_not*` (8fa2a67, comparison under NOT), `C08_regression_semi_*` (34967fc, IN filter under
RIGHT / FULL), `C08_useLimit_group_by` (1052add), `C08_regression_isnull*` (15097fa), `C08_regression_limit_where`
(f75cd04).  The component-level counterexamples that motivated those repairs are kept: `C08_witness_semi_right/full`,
`C08_witness_isnull`, `C08_witness_limit_where`, `C08_witness_limit_group`, `C08_witness_chain3_isnull`.

**Round 5 — select lists with aggregates** (`Model/SemAgg.lean`, tie: stream `agg-select`): target trees `Tgt`, the recogniser
`Tgt.hasAgg` (an aggregate call at ANY depth, `C08_agg_hasAgg_iff_subterm`) that `check_use_limit` and `plan_api_db_select` use,
`selectRows` (row-wise, or ONE row with an aggregate), the fragment with a select list `QA`.  `C08_agg_partial_model`:
`planSound q.toQ2 → execPlanA (planA q) q.targets db = evalQueryA q db`; corollaries `C08_agg_partial_model_aggregated` (EVERY
aggregated query, all join kinds, with or without LIMIT), `C08_agg_partial_model_left`; LIMIT is in the first fetch only if no
aggregate occurs anywhere (`C08_agg_limit_pushed_only_if_noagg`); LIMIT commutes with an aggregate-free select list
(`C08_agg_limit_commutes_noagg`, below a LEFT join `C08_agg_T83_limit_left_noagg`) and not with `count(*) + 0`
(`C08_agg_witness_limit_left`); a recogniser that looks at the top node only is wrong (`C08_agg_topAgg_incomplete`,
`C08_agg_witness_shallow`); api split `C08_agg_api`, `C08_agg_witness_api`.

**Round 5 — set operations across integrations** (`Model/SemSet.lean`, tie: stream `setop-plan`): operands with DISTINCT / GROUP BY
/ ORDER BY / LIMIT / OFFSET, trees of UNION [ALL] / INTERSECT / EXCEPT, the step list of `plan_union`.  `C08_set`: plan = query
for EVERY tree and all contents; `C08_set_unique_congr`, `C08_set_distinct_operand_sound_if_no_window` (when an extra DISTINCT in
the operands would be sound), `C08_set_witness_distinct_before_offset`, `C08_set_witness_except_keeps_rows` (DISTINCT before
OFFSET differs).

**Round 6 — column names that need quoting** (`Model/SemNames.lean`, tie: stream `name-rebuild`): names are arbitrary character lists,
identifiers lists of parts; `bareColumn` (= `Identifier(parts=[col.parts[-1]])`, what the planner does for the DISTINCT key, the IN
filter and a pushed ORDER BY) denotes the same column as the qualified original for EVERY name (`C08_names_bare_resolves`), so the
named fragment `QN` has the key columns of its index form and `C08_partial_model` carries over (`C08_names_plan_keys`,
`C08_names_partial_model`); re-parsing the name as a dotted path agrees exactly for names without a dot
(`C08_names_splitDots_iff`, `C08_names_dotted_eq_bare_iff`; `C08_names_witness_dotted`).

Not in Lean (probe only, `tools/props/c08.py`): pushdown into the 2nd / 3rd table of a chain, ORDER BY / OFFSET of join queries,
GROUP BY semantics of join queries, sub-selects and CTEs as join operands, join operands of set operations, IN / scalar
sub-queries, WHERE / ORDER BY of api selects, name resolution of CTEs.
-/
set_option linter.unusedSimpArgs false
namespace MindsVerif.Props.C08
open MindsVerif.Sem

/-- the full statement on the two-table fragment -/
def C08_full : Prop := ∀ (q : Q2) (db : DB), execPlan (plan q) db = evalQuery q db

/-! ## T8.1 semi-join reduction -/

/-- inner join; `hon`: the ON condition implies the key equality and a non-NULL key -/
theorem C08_T81_inner (on : Row → Row → Bool) (cL cR : Row → Val)
    (hon : ∀ l r, on l r = true → cR r = cL l ∧ cR r ≠ .null) (L R : Table) :
    innerJoin on (· ++ ·) L (R.filter (semi cR (distinct (L.map cL)))) = innerJoin on (· ++ ·) L R :=
  innerJoin_restrict on _ _ L R fun l hl r h => semi_of_match cL cR L l r hl (hon l r h)

theorem C08_T81_left (on : Row → Row → Bool) (cL cR : Row → Val) (nr : Row)
    (hon : ∀ l r, on l r = true → cR r = cL l ∧ cR r ≠ .null) (L R : Table) :
    leftJoin on (· ++ ·) nr L (R.filter (semi cR (distinct (L.map cL)))) = leftJoin on (· ++ ·) nr L R :=
  leftJoin_restrict on _ nr _ L R fun l hl r h => semi_of_match cL cR L l r hl (hon l r h)

/-- the hypothesis is satisfiable: SQL equality of two columns -/
example : ∀ l r : Row, (cmpVal .eq (l.get (0, 0)) (r.get (1, 0)) == .t) = true →
    r.get (1, 0) = l.get (0, 0) ∧ r.get (1, 0) ≠ .null := by
  intro l r h
  generalize l.get (0, 0) = a at h ⊢
  generalize r.get (1, 0) = b at h ⊢
  cases a <;> cases b <;> simp_all [cmpVal, TV.ofBool, cmpNN, ordVal]
  · rename_i i j
    by_cases hij : i = j
    · exact hij.symm
    · by_cases h1 : i < j <;> simp [ordOf, hij, h1] at h
  · rename_i s t
    by_cases hst : s = t
    · exact hst.symm
    · by_cases h1 : s < t <;> simp [ordOf, hst, h1] at h

/-! witnesses: one row on each side, keys 1 and 2 -/
def wOn (l r : Row) : Bool := cmpVal .eq (l.get (0, 0)) (r.get (1, 0)) == .t
def wL : Table := [[((0, 0), .int 1)]]
def wR : Table := [[((1, 0), .int 2)]]
def wNL : Row := [((0, 0), .null)]
def wNR : Row := [((1, 0), .null)]
def wSemi : Row → Bool := semi (fun r => r.get (1, 0)) (distinct (wL.map fun l => l.get (0, 0)))

/-- RIGHT join: the unmatched right row `id = 2` must survive NULL-padded; the IN filter removes it -/
theorem C08_witness_semi_right :
    rightJoin wOn (· ++ ·) wNL wL (wR.filter wSemi) ≠ rightJoin wOn (· ++ ·) wNL wL wR := by decide

theorem C08_witness_semi_full :
    fullJoin wOn (· ++ ·) wNL wNR wL (wR.filter wSemi) ≠ fullJoin wOn (· ++ ·) wNL wNR wL wR := by decide

/-- regression examples (defect fixed by repo commit 34967fc): the planner no longer emits the IN filter for the right
table of a RIGHT / FULL join, and on the databases that used to lose the unmatched right row plan = query -/
theorem C08_regression_semi_kinds : (plan { kind := .right, c0 := 0, c1 := 0, w := none, limit := none }).semi1 = false ∧
    (plan { kind := .full, c0 := 0, c1 := 0, w := none, limit := none }).semi1 = false ∧
    (plan { kind := .inner, c0 := 0, c1 := 0, w := none, limit := none }).semi1 = true ∧
    (plan { kind := .left, c0 := 0, c1 := 0, w := none, limit := none }).semi1 = true := by decide

def semiDB : DB := { t0 := [], t1 := [[.int 1, .int 0, .int 1]], n0 := 3, n1 := 3 }

theorem C08_regression_semi_right :
    execPlan (plan { kind := .right, c0 := 0, c1 := 0, w := none, limit := none }) semiDB
      = evalQuery { kind := .right, c0 := 0, c1 := 0, w := none, limit := none } semiDB := by decide

theorem C08_regression_semi_full :
    execPlan (plan { kind := .full, c0 := 0, c1 := 0, w := none, limit := none }) semiDB
      = evalQuery { kind := .full, c0 := 0, c1 := 0, w := none, limit := none } semiDB := by decide

/-! ## T8.2 filter pushdown

Stated for an arbitrary row combiner `mk` (the planner's joined rows are PAIRS `(l, r)`, `mk = Prod.mk`; this is what
`execPlan` uses).  An earlier formulation over association-list rows combined by `++` was unusable: its hypothesis
`∀ l r, w (l ++ r) = true → p l = true` quantifies over ill-formed rows (`l = []`) and forces `p [] = true`, so no column
comparison satisfied it (review finding; `C08_history_concat_hyp_forces_empty` below records why it was dropped). -/

theorem C08_T82_inner_right {α β γ : Type} (on : α → β → Bool) (mk : α → β → γ) (w : γ → Bool) (p : β → Bool)
    (h : ∀ l r, w (mk l r) = true → p r = true) (L : List α) (R : List β) :
    (innerJoin on mk L (R.filter p)).filter w = (innerJoin on mk L R).filter w :=
  push_right_inner on mk w p h L R

theorem C08_T82_inner_left {α β γ : Type} (on : α → β → Bool) (mk : α → β → γ) (w : γ → Bool) (p : α → Bool)
    (h : ∀ l r, w (mk l r) = true → p l = true) (L : List α) (R : List β) :
    (innerJoin on mk (L.filter p) R).filter w = (innerJoin on mk L R).filter w :=
  push_left_inner on mk w p h L R

theorem C08_T82_left_left {α β γ : Type} (on : α → β → Bool) (mk : α → β → γ) (nr : β) (w : γ → Bool) (p : α → Bool)
    (h : ∀ l r, w (mk l r) = true → p l = true) (L : List α) (R : List β) :
    (leftJoin on mk nr (L.filter p) R).filter w = (leftJoin on mk nr L R).filter w :=
  push_left_left on mk nr w p h L R

/-- LEFT join, right operand: the exact extra side condition is `p nr = false` -/
theorem C08_T82_left_right {α β γ : Type} (on : α → β → Bool) (mk : α → β → γ) (nr : β) (w : γ → Bool) (p : β → Bool)
    (h : ∀ l r, w (mk l r) = true → p r = true) (hn : p nr = false) (L : List α) (R : List β) :
    (leftJoin on mk nr L (R.filter p)).filter w = (leftJoin on mk nr L R).filter w :=
  push_right_left on mk nr w p h hn L R

/-- instance with a REAL column comparison: `WHERE t1.x > 0 AND t0.x = 1`, the conjunct `x > 0` pushed into t1's fetch of an
inner join on ids — all table contents -/
example (L R : List TRow) :
    let w : TRow × TRow → Bool :=
      fun p => (cmpVal .gt (p.2.col 1) (.int 0) == .t) && (cmpVal .eq (p.1.col 1) (.int 1) == .t)
    let pR : TRow → Bool := fun r => cmpVal .gt (r.col 1) (.int 0) == .t
    (innerJoin (eqOn 0 0) Prod.mk L (R.filter pR)).filter w = (innerJoin (eqOn 0 0) Prod.mk L R).filter w := by
  intro w pR
  exact C08_T82_inner_right (eqOn 0 0) Prod.mk w pR
    (fun l r h => by simp only [w, Bool.and_eq_true] at h; exact h.1) L R

/-- … and the hypotheses are not vacuous: this `w` is true on one pair and false on another, `pR` rejects a row -/
example : let w : TRow × TRow → Bool :=
      fun p => (cmpVal .gt (p.2.col 1) (.int 0) == .t) && (cmpVal .eq (p.1.col 1) (.int 1) == .t)
    let bad : TRow := [.int 1, .int 0]
    w ([.int 1, .int 1], [.int 1, .int 2]) = true ∧ w ([.int 1, .int 1], bad) = false ∧
    (cmpVal .gt (bad.col 1) (.int 0) == .t) = false := by decide

/-- history: why the `l ++ r` formulation was dropped — its hypothesis forces the pushed predicate to accept the EMPTY row
as soon as `w` is satisfiable -/
theorem C08_history_concat_hyp_forces_empty (w pL : Row → Bool)
    (hL : ∀ l r, w (l ++ r) = true → pL l = true) (x : Row) (hx : w x = true) : pL [] = true :=
  hL [] x (by simpa using hx)

/-- … e.g. the realistic instance `w = (t0.x = 1)`, `pL = (x = 1)` violates it -/
example : ¬ (∀ l r : Row, ((l ++ r).get (0, 1) == .int 1) = true → (l.get (0, 1) == .int 1) = true) := by
  intro h
  have := h [] [((0, 1), .int 1)] (by decide)
  revert this
  decide

/-- what the model of `check_query_conditions` collects is implied by the WHERE tree — every tree -/
theorem C08_T82_collected (w : Expr) (l r : TRow)
    (hw : w.holds l r = true) : ∀ e ∈ w.collected, e.holds l r = true :=
  collected_implied w l r hw

/-- … hence the predicates pushed into the two fetches are implied by WHERE on every joined row -/
theorem C08_T82_pushed (side : Nat) (w : Option Expr) (l r : TRow)
    (hw : whereOf w (l, r) = true) : holdsAll (pushedFor side w) l r = true :=
  pushed_of_where side w l r hw

/-- … also after the NULL-accepting filters have been dropped on a null-supplying side (`pushedForK`) -/
theorem C08_T82_pushedK (k : JoinKind) (side : Nat) (w : Option Expr) (l r : TRow)
    (hw : whereOf w (l, r) = true) : holdsAll (pushedForK k side w) l r = true :=
  holdsAll_filter _ _ l r (pushed_of_where side w l r hw)

/-- regression example (defect fixed by repo commit 8fa2a67): for `WHERE NOT t1.y = 1` nothing is pushed … -/
def notQ : Q2 := { kind := .inner, c0 := 0, c1 := 0, w := some (.not (.cmpC .eq 1 1 (.int 1))), limit := none }

theorem C08_regression_not_pushes_nothing : (plan notQ).push1 = [] ∧ (plan notQ).push0 = [] := by decide

/-- … and on the database that used to show wrong rows the plan now agrees with the query -/
def notDB : DB := { t0 := [[.int 1, .int 0]], t1 := [[.int 1, .int 2]], n0 := 2, n1 := 2 }

theorem C08_regression_not : execPlan (plan notQ) notDB = evalQuery notQ notDB := by decide

/-- `a LEFT JOIN b ON a.id = b.id WHERE b.y IS NULL` (anti-join idiom).  Before repo commit 15097fa `y IS NULL` was
pushed into b's fetch (a filter that is true for NULL, on the null-supplying side) and the plan returned a spurious
NULL-padded row; now nothing is pushed there and plan = query — regression theorems. -/
def isnullQ : Q2 := { kind := .left, c0 := 0, c1 := 0, w := some (.isNull 1 1), limit := none }
def isnullDB : DB := { t0 := [[.int 1, .int 0]], t1 := [[.int 1, .int 2]], n0 := 2, n1 := 2 }

theorem C08_regression_isnull_not_pushed :
    (plan isnullQ).push1 = [] ∧
    (plan { kind := .inner, c0 := 0, c1 := 0, w := some (.isNull 1 1), limit := none }).push1 = [.isNull 1 1] ∧
    (plan { kind := .right, c0 := 0, c1 := 0, w := some (.isNull 0 1), limit := none }).push0 = [] ∧
    (plan { kind := .left, c0 := 0, c1 := 0, w := some (.isNull 0 1), limit := none }).push0 = [.isNull 0 1] := by decide

theorem C08_regression_isnull : execPlan (plan isnullQ) isnullDB = evalQuery isnullQ isnullDB := by decide

/-- why 15097fa was needed — the component-level counterexample stays: restricting the null-supplying operand by a filter
that accepts the all-NULL row changes `LEFT JOIN … WHERE` -/
theorem C08_witness_isnull :
    (leftJoin (eqOn 0 0) Prod.mk (nullRow 2) isnullDB.t0 (isnullDB.t1.filter fun r => (Expr.isNull 1 1).holds [] r)).filter
        (whereOf isnullQ.w)
      ≠ (leftJoin (eqOn 0 0) Prod.mk (nullRow 2) isnullDB.t0 isnullDB.t1).filter (whereOf isnullQ.w) := by decide

/-! ## T8.3 limit pushdown -/

/-- LIMIT n in the fetch of the first table is sound below a LEFT join with nothing else on top -/
theorem C08_T83_limit_left {α β γ : Type} (on : α → β → Bool) (mk : α → β → γ) (nr : β) (n : Nat)
    (L : List α) (R : List β) :
    (leftJoin on mk nr (L.take n) R).take n = (leftJoin on mk nr L R).take n :=
  limit_left_join on mk nr n L R

/-- `check_use_limit` never looks at the join of the second table (the Join item follows its table): for an ungrouped
two-table query the pushdown is allowed whatever the join kind -/
theorem C08_useLimit_two_tables (k : JoinKind) (l : Bool) :
    checkUseLimit false false l [.table true, .table true, .join k] = true := by
  cases k <;> simp [checkUseLimit, useLimitLoop]

/-- regression (repo commit 1052add; the precedence slip `having is None or (group_by is None and limit is not None)` let
GROUP BY through): a grouped or HAVING query never gets the pushdown -/
theorem C08_useLimit_group_by (h l : Bool) (seq : List SeqItem) :
    checkUseLimit h true l seq = false ∧ checkUseLimit true false l seq = false := by
  cases h <;> simp [checkUseLimit]

/-- the third table is checked against the join of the second -/
theorem C08_useLimit_third :
    checkUseLimit false false true [.table true, .table true, .join .left, .table true, .join .inner] = true ∧
    checkUseLimit false false true [.table true, .table true, .join .inner, .table true, .join .left] = false := by
  decide

/-- inner join + LIMIT 1: the only joining left row is the second one -/
def limQ : Q2 := { kind := .inner, c0 := 0, c1 := 0, w := none, limit := some 1 }
def limDB : DB := { t0 := [[.int 1], [.int 2]], t1 := [[.int 2]], n0 := 1, n1 := 1 }

theorem C08_witness_limit_inner : execPlan (plan limQ) limDB ≠ evalQuery limQ limDB := by decide

theorem C08_plan_limit_inner : (plan limQ).limit0 = some 1 := by decide

/-- why 1052add was needed (the planner no longer does this): GROUP BY + LIMIT 2 even over a LEFT join — two groups
exist, a limited fetch sees one -/
def grpL : Table := [[((0, 0), .int 1)], [((0, 0), .int 1)], [((0, 0), .int 2)]]

theorem C08_witness_limit_group :
    (groupCount (fun r => r.get (0, 0)) (leftJoin (fun _ _ => false) (· ++ ·) wNR (grpL.take 2) [])).take 2 ≠
    (groupCount (fun r => r.get (0, 0)) (leftJoin (fun _ _ => false) (· ++ ·) wNR grpL [])).take 2 := by decide

/-! ## the composition (joined rows are pairs, ON is `t0.c0 = t1.c1`: the shape of `execPlan`) -/

/-- **C08_partial (inner join)**: fetch(L | pL); DISTINCT key; fetch(R | pR ∧ key IN …); join; WHERE w  =  join; WHERE w.
Hypotheses = the side conditions: WHERE implies both pushed predicates (met by real column filters, example below). -/
theorem C08_partial (c0 c1 : Nat) (w : TRow × TRow → Bool) (pL pR : TRow → Bool)
    (hL : ∀ l r, w (l, r) = true → pL l = true) (hR : ∀ l r, w (l, r) = true → pR r = true)
    (L R : List TRow) :
    (innerJoin (eqOn c0 c1) Prod.mk (L.filter pL)
        ((R.filter pR).filter fun r => sqlIn (r.col c1) (distinct ((L.filter pL).map fun l => l.col c0)) == .t)).filter w
      = (innerJoin (eqOn c0 c1) Prod.mk L R).filter w := by
  rw [innerJoin_restrict _ _ _ _ _
        (semi_ok { kind := .inner, c0 := c0, c1 := c1, w := none, limit := none } (L.filter pL)),
      push_right_inner _ _ w pR hR, push_left_inner _ _ w pL hL]

/-- **C08_partial (LEFT join)**: additionally the right predicate must reject the padded row `nr` -/
theorem C08_partial_left (c0 c1 : Nat) (nr : TRow) (w : TRow × TRow → Bool) (pL pR : TRow → Bool)
    (hL : ∀ l r, w (l, r) = true → pL l = true) (hR : ∀ l r, w (l, r) = true → pR r = true)
    (hn : pR nr = false) (L R : List TRow) :
    (leftJoin (eqOn c0 c1) Prod.mk nr (L.filter pL)
        ((R.filter pR).filter fun r => sqlIn (r.col c1) (distinct ((L.filter pL).map fun l => l.col c0)) == .t)).filter w
      = (leftJoin (eqOn c0 c1) Prod.mk nr L R).filter w := by
  rw [leftJoin_restrict _ _ _ _ _ _
        (semi_ok { kind := .inner, c0 := c0, c1 := c1, w := none, limit := none } (L.filter pL)),
      push_right_left _ _ nr w pR hR hn, push_left_left _ _ nr w pL hL]

/-- **C08_partial (LEFT join + LIMIT, no WHERE)** -/
theorem C08_partial_limit (c0 c1 : Nat) (nr : TRow) (n : Nat) (L R : List TRow) :
    (leftJoin (eqOn c0 c1) Prod.mk nr (L.take n)
        (R.filter fun r => sqlIn (r.col c1) (distinct ((L.take n).map fun l => l.col c0)) == .t)).take n
      = (leftJoin (eqOn c0 c1) Prod.mk nr L R).take n := by
  rw [leftJoin_restrict _ _ _ _ _ _
        (semi_ok { kind := .inner, c0 := c0, c1 := c1, w := none, limit := none } (L.take n)),
      C08_T83_limit_left]

/-- non-vacuity with NON-trivial pushed filters on concrete columns: `WHERE t0.x = 1 AND t1.x > 0`, the fetches are filtered
by `x = 1` / `x > 0`, LEFT join on ids — for all table contents -/
example (L R : List TRow) :
    let w : TRow × TRow → Bool :=
      fun p => (cmpVal .eq (p.1.col 1) (.int 1) == .t) && (cmpVal .gt (p.2.col 1) (.int 0) == .t)
    let pL : TRow → Bool := fun l => cmpVal .eq (l.col 1) (.int 1) == .t
    let pR : TRow → Bool := fun r => cmpVal .gt (r.col 1) (.int 0) == .t
    (leftJoin (eqOn 0 0) Prod.mk (nullRow 2) (L.filter pL)
        ((R.filter pR).filter fun r => sqlIn (r.col 0) (distinct ((L.filter pL).map fun l => l.col 0)) == .t)).filter w
      = (leftJoin (eqOn 0 0) Prod.mk (nullRow 2) L R).filter w := by
  intro w pL pR
  exact C08_partial_left 0 0 (nullRow 2) w pL pR
    (fun l r h => by simp only [w, Bool.and_eq_true] at h; exact h.1)
    (fun l r h => by simp only [w, Bool.and_eq_true] at h; exact h.2)
    (by decide) L R

/-- … evaluated on concrete rows: the pushed filters really remove rows (t0 row 2 and the t1 row with `x = 0`), the IN filter
has a non-trivial key list, and both sides are the one matched pair -/
example :
    let L : List TRow := [[.int 1, .int 1], [.int 2, .int 0]]
    let R : List TRow := [[.int 1, .int 2], [.int 1, .int 0], [.int 9, .int 5]]
    let w : TRow × TRow → Bool :=
      fun p => (cmpVal .eq (p.1.col 1) (.int 1) == .t) && (cmpVal .gt (p.2.col 1) (.int 0) == .t)
    let pL : TRow → Bool := fun l => cmpVal .eq (l.col 1) (.int 1) == .t
    let pR : TRow → Bool := fun r => cmpVal .gt (r.col 1) (.int 0) == .t
    L.filter pL = [[.int 1, .int 1]] ∧
    (R.filter pR).filter (fun r => sqlIn (r.col 0) (distinct ((L.filter pL).map fun l => l.col 0)) == .t)
      = [[.int 1, .int 2]] ∧
    (leftJoin (eqOn 0 0) Prod.mk (nullRow 2) L R).filter w = [([.int 1, .int 1], [.int 1, .int 2])] := by decide

/-- **C08_partial_model**: the model plan of the transcribed planner returns exactly what the query returns, for ALL
databases, for every query of the two-table fragment — every join kind (inner, LEFT, LEFT OUTER, RIGHT, FULL), ANY
WHERE tree (AND / OR / NOT, comparisons, IS NULL), with or without LIMIT — that satisfies the decidable side condition

    `planSound q  =  (plan q).limit0.isNone || q.kind.isLeft`

i.e. LIMIT is not pushed into the first fetch, or the join is a LEFT join.  Nothing else is left: NULL-accepting filters
are not pushed to a null-supplying side (15097fa), a grouped query never gets the LIMIT pushdown (1052add), and LIMIT is
pushed only when WHERE is completely evaluated in the first fetch (f75cd04, `Sem.whereApplied`).  The one remaining
violation is inhabited: `C08_witness_limit_inner` (LIMIT pushed below a join that is not a LEFT join — pinned by the
test-suite, KF-C08-7); `C08_limit_inner_sound_if_total` delimits it. -/
theorem C08_partial_model (q : Q2) (db : DB) (h : planSound q = true) :
    execPlan (plan q) db = evalQuery q db :=
  plan2_sound q db h

/-- corollary: EVERY query without LIMIT — all join kinds, any WHERE tree, every database -/
theorem C08_partial_model_nolimit (q : Q2) (db : DB) (hl : q.limit = none) :
    execPlan (plan q) db = evalQuery q db := by
  apply plan2_sound
  simp [planSound, limitSound, plan, hl]

/-- corollary: every inner join without LIMIT (any WHERE tree) -/
theorem C08_partial_model_inner (q : Q2) (db : DB) (_hk : q.kind = .inner) (hl : q.limit = none) :
    execPlan (plan q) db = evalQuery q db :=
  C08_partial_model_nolimit q db hl

/-- corollary: EVERY LEFT / LEFT OUTER join query — any WHERE tree, with or without LIMIT (the flags `groupBy` / `having`
only switch the LIMIT pushdown off; grouping itself is not evaluated by the model, see `C08_core` / `C08_post`) -/
theorem C08_partial_model_left (q : Q2) (db : DB) (hk : q.kind.isLeft = true) :
    execPlan (plan q) db = evalQuery q db := by
  apply plan2_sound
  simp [planSound, limitSound, hk]

-- [review] The flags mentioned above are the PLANNER flags `q.groupBy` / `q.having` only (they switch the LIMIT
-- pushdown off); `evalQuery` and `execPlan` ignore them — no grouping / aggregation is evaluated on either side, and for a
-- grouped `q` with LIMIT `evalQuery` cuts the un-grouped join rows, which is not what SQL does.  What does follow for
-- grouped / ordered / projected / OFFSET queries is `C08_post` below: when nothing is limited in the first
-- fetch, the rows that reach the outer QueryStep are the rows of join + WHERE, so any function of them agrees.

/-- [review] the rows handed to the outer QueryStep (before its LIMIT) equal join + WHERE of the query, for EVERY query of
the fragment, when LIMIT is not put into the first fetch -/
theorem C08_core (q : Q2) (db : DB) :
    execPlan { plan q with limit0 := none, limit := none } db = evalQuery { q with limit := none } db := by
  have h := C08_partial_model_nolimit { q with limit := none } db rfl
  have hp : plan { q with limit := none } = { plan q with limit0 := none, limit := none } := by
    simp [plan]
  rw [hp] at h
  exact h

/-- [review] … hence every post-processing of the outer QueryStep (GROUP BY / aggregates, ORDER BY, projection,
LIMIT / OFFSET — any function `post` of the joined and filtered rows) gives the same answer.  This is congruence on top of
`C08_core`; `post` itself is not modelled or tied to the code. -/
theorem C08_post {γ : Type} (post : List (TRow × TRow) → γ) (q : Q2) (db : DB) :
    post (execPlan { plan q with limit0 := none, limit := none } db)
      = post (evalQuery { q with limit := none } db) :=
  congrArg post (C08_core q db)

/-- (kept under its old name) LEFT join with LIMIT and a WHERE on the first table only -/
theorem C08_partial_model_left_limit (q : Q2) (db : DB) (hk : q.kind = .left) (_hw : whereLeftOnly q.w = true) :
    execPlan (plan q) db = evalQuery q db :=
  C08_partial_model_left q db (by simp [hk, JoinKind.isLeft])

/-- non-vacuity / coverage of `planSound` (by evaluation): LEFT + WHERE on both tables without LIMIT, LEFT + LIMIT +
WHERE on the first table, RIGHT and FULL with NULL-rejecting filters, inner with NOT / OR -/
def exW1 : Expr := .and (.cmpC .gt 1 1 (.int 0)) (.cmpC .eq 0 2 (.int 1))
def exW2 : Expr := .and (.cmpC .gt 0 1 (.int 0)) (.isNull 0 2)
def exW3 : Expr := .and (.cmpC .gt 0 1 (.int 0)) (.cmpC .lt 1 1 (.int 2))
def exW4 : Expr := .and (.cmpC .gt 1 1 (.int 0)) (.not (.or (.isNull 0 1) (.cmpCC .lt 1 2)))
example : planSound { kind := .left, c0 := 0, c1 := 0, limit := none, w := some exW1 } = true := by decide
example : planSound { kind := .left, c0 := 0, c1 := 0, limit := some 2, w := some exW2 } = true := by decide
example : planSound { kind := .right, c0 := 0, c1 := 0, limit := none, w := some (.cmpC .gt 0 1 (.int 0)) } = true := by
  decide
example : planSound { kind := .full, c0 := 0, c1 := 0, limit := none, w := some exW3 } = true := by decide
example : planSound { kind := .inner, c0 := 0, c1 := 0, limit := none, w := some exW4 } = true := by decide
/-- the witness queries violate it -/
example : planSound isnullQ = true ∧ planSound limQ = false := by decide
example : planSound { kind := .right, c0 := 0, c1 := 0, limit := some 1, w := some exW3 } = true := by decide

-- [review] concrete NON-trivial instances of `C08_partial_model` (hypothesis AND conclusion, by evaluation):
-- (1) LEFT join, LIMIT 2 really pushed into the first fetch together with the filter `x > 0`, IN filter active; the
--     limited fetch drops rows 3 and 4 of t0 that pass the filter, the result has a NULL-padded and a matched row
def rvQ : Q2 := { kind := .left, c0 := 0, c1 := 0, w := some (.cmpC .gt 0 1 (.int 0)), limit := some 2 }
def rvDB : DB := { t0 := [[.int 1, .int 0], [.int 2, .int 1], [.int 3, .int 1], [.int 4, .int 1]],
                   t1 := [[.int 3, .int 5], [.int 3, .int 6], [.int 9, .int 9]], n0 := 2, n1 := 2 }
example : planSound rvQ = true ∧ (plan rvQ).limit0 = some 2 ∧ (plan rvQ).push0 = [.cmpC .gt 0 1 (.int 0)] ∧
    (plan rvQ).semi1 = true ∧
    execPlan (plan rvQ) rvDB = [([.int 2, .int 1], nullRow 2), ([.int 3, .int 1], [.int 3, .int 5])] ∧
    evalQuery rvQ rvDB = execPlan (plan rvQ) rvDB := by decide
-- (2) RIGHT join, `WHERE t1.x > 0 AND t0.x IS NULL`: `x > 0` pushed to t1, `IS NULL` NOT pushed to the null-supplied t0,
--     no IN filter; the unmatched right row survives NULL-padded
def rvQ2 : Q2 := { kind := .right, c0 := 0, c1 := 0,
                   w := some (.and (.cmpC .gt 1 1 (.int 0)) (.isNull 0 1)), limit := none }
example : planSound rvQ2 = true ∧ (plan rvQ2).push1 = [.cmpC .gt 1 1 (.int 0)] ∧ (plan rvQ2).push0 = [] ∧
    (plan rvQ2).semi1 = false ∧
    execPlan (plan rvQ2) rvDB = [(nullRow 2, [.int 9, .int 9])] ∧
    evalQuery rvQ2 rvDB = execPlan (plan rvQ2) rvDB := by decide
-- [review] what `planSound` EXCLUDES: every inner / RIGHT / FULL join with LIMIT and no WHERE (the commonest LIMIT query)
example (n c0 c1 : Nat) :
    planSound { kind := .inner, c0 := c0, c1 := c1, w := none, limit := some n } = false ∧
    planSound { kind := .right, c0 := c0, c1 := c1, w := none, limit := some n } = false ∧
    planSound { kind := .full, c0 := c0, c1 := c1, w := none, limit := some n } = false := by
  simp [planSound, limitSound, plan, checkUseLimit, useLimitLoop, whereApplied, JoinKind.isLeft]

/-- LEFT join + LIMIT 1 + a WHERE on the second table: the first left row has no partner with `y = 1`.  Before repo
commit f75cd04 LIMIT 1 went into the first fetch and the plan returned nothing; now LIMIT is not pushed (a conjunct of
WHERE is evaluated after the join) and plan = query — regression theorems. -/
def limWhereQ : Q2 := { kind := .left, c0 := 0, c1 := 0, w := some (.cmpC .eq 1 1 (.int 1)), limit := some 1 }
def limWhereDB : DB := { t0 := [[.int 1, .int 0], [.int 2, .int 0]], t1 := [[.int 2, .int 1]], n0 := 2, n1 := 2 }

theorem C08_regression_limit_where :
    (plan limWhereQ).limit0 = none ∧ planSound limWhereQ = true ∧
    execPlan (plan limWhereQ) limWhereDB = evalQuery limWhereQ limWhereDB := by decide

/-- LIMIT is still pushed when WHERE is completely evaluated in the first fetch -/
theorem C08_limit_pushed_when_where_applied :
    (plan { kind := .left, c0 := 0, c1 := 0, w := some (.cmpC .eq 0 1 (.int 1)), limit := some 1 }).limit0 = some 1 ∧
    (plan { kind := .left, c0 := 0, c1 := 0, w := none, limit := some 2 }).limit0 = some 2 := by decide

/-- why f75cd04 was needed (component level): LIMIT below a LEFT join with a residual WHERE -/
theorem C08_witness_limit_where :
    ((leftJoin (eqOn 0 0) Prod.mk (nullRow 2) (limWhereDB.t0.take 1) limWhereDB.t1).filter (whereOf limWhereQ.w)).take 1
      ≠ ((leftJoin (eqOn 0 0) Prod.mk (nullRow 2) limWhereDB.t0 limWhereDB.t1).filter (whereOf limWhereQ.w)).take 1 := by
  decide

/-! ## delimiting the pinned LIMIT / OFFSET plans (KF-C08-7, KF-C08-10)

`tests/test_planner/test_join_tables.py::test_join_tables_plan_limit_offset` and `::test_join_tables_plan_order_by` pin
`LIMIT n OFFSET k` inside the fetch of the first table of an INNER join (OFFSET removed from the outer query).  These
plans are wrong in general (`C08_witness_limit_inner`, `C08_witness_offset_left`) and right exactly in the situations
below. -/

/-- LIMIT n below an INNER join is sound if the join loses no left row: every left row has at least one partner -/
theorem C08_limit_inner_sound_if_total {α β γ : Type} (on : α → β → Bool) (mk : α → β → γ) (n : Nat)
    (L : List α) (R : List β) (h : ∀ l ∈ L, R.filter (on l) ≠ []) :
    (innerJoin on mk (L.take n) R).take n = (innerJoin on mk L R).take n :=
  limit_inner_total on mk n L R h

/-- LIMIT n OFFSET k moved into the first fetch below an INNER join is sound if every left row has exactly one partner
(the join is one-to-one on the left table, e.g. a NOT NULL foreign key to a unique key) -/
theorem C08_limit_inner_sound_if_one_to_one {α β γ : Type} (on : α → β → Bool) (mk : α → β → γ) (n k : Nat)
    (L : List α) (R : List β) (h : ∀ l ∈ L, (R.filter (on l)).length = 1) :
    innerJoin on mk ((L.drop k).take n) R = ((innerJoin on mk L R).drop k).take n :=
  limit_offset_inner_one on mk n k L R h

/-- … and below a LEFT join if every left row has at most one partner (the right key is unique) -/
theorem C08_offset_left_sound_if_at_most_one {α β γ : Type} (on : α → β → Bool) (mk : α → β → γ) (nr : β) (n k : Nat)
    (L : List α) (R : List β) (h : ∀ l ∈ L, (R.filter (on l)).length ≤ 1) :
    leftJoin on mk nr ((L.drop k).take n) R = ((leftJoin on mk nr L R).drop k).take n :=
  limit_offset_left_atmost_one on mk nr n k L R h

/-- the hypotheses are satisfiable and not vacuous: ids 1,2 each with exactly one partner -/
example : ∀ l ∈ ([[.int 1], [.int 2]] : List TRow),
    (([[.int 2], [.int 1], [.int 3]] : List TRow).filter (eqOn 0 0 l)).length = 1 := by decide

-- [review] `C08_limit_inner_sound_if_total` instantiated: LIMIT 2 cuts the third left row, the first left row has TWO
-- partners (so the outer LIMIT cuts too); hypothesis by evaluation
example : (innerJoin (eqOn 0 0) Prod.mk (([[.int 1], [.int 2], [.int 3]] : List TRow).take 2)
             ([[.int 2], [.int 1], [.int 3], [.int 1]] : List TRow)).take 2
        = (innerJoin (eqOn 0 0) Prod.mk ([[.int 1], [.int 2], [.int 3]] : List TRow)
             ([[.int 2], [.int 1], [.int 3], [.int 1]] : List TRow)).take 2 :=
  C08_limit_inner_sound_if_total _ _ 2 _ _ (by decide)

-- [review] `C08_offset_left_sound_if_at_most_one`: hypothesis met with an unmatched left row (id 5); LIMIT 1 OFFSET 1
example : ∀ l ∈ ([[.int 1], [.int 5], [.int 2]] : List TRow),
    (([[.int 2], [.int 1], [.int 3]] : List TRow).filter (eqOn 0 0 l)).length ≤ 1 := by decide
example : leftJoin (eqOn 0 0) Prod.mk (nullRow 1) ((([[.int 1], [.int 5], [.int 2]] : List TRow).drop 1).take 1)
            ([[.int 2], [.int 1], [.int 3]] : List TRow) = [([.int 5], nullRow 1)] := by decide

/-- [review] the REAL plan keeps `LIMIT n` in the outer QueryStep (only OFFSET is removed from it): same statements with
the outer LIMIT re-applied -/
theorem C08_limit_offset_inner_outer_limit {α β γ : Type} (on : α → β → Bool) (mk : α → β → γ) (n k : Nat)
    (L : List α) (R : List β) (h : ∀ l ∈ L, (R.filter (on l)).length = 1) :
    (innerJoin on mk ((L.drop k).take n) R).take n = ((innerJoin on mk L R).drop k).take n := by
  rw [C08_limit_inner_sound_if_one_to_one on mk n k L R h, List.take_take, Nat.min_self]

-- [review]
theorem C08_offset_left_outer_limit {α β γ : Type} (on : α → β → Bool) (mk : α → β → γ) (nr : β) (n k : Nat)
    (L : List α) (R : List β) (h : ∀ l ∈ L, (R.filter (on l)).length ≤ 1) :
    (leftJoin on mk nr ((L.drop k).take n) R).take n = ((leftJoin on mk nr L R).drop k).take n := by
  rw [C08_offset_left_sound_if_at_most_one on mk nr n k L R h, List.take_take, Nat.min_self]

/-- OFFSET 1 moved below a LEFT join whose only left row has two partners: the second joined row is lost (KF-C08-10) -/
theorem C08_witness_offset_left :
    leftJoin (eqOn 0 0) Prod.mk (nullRow 1) (([[.int 1]] : List TRow).drop 1) [[.int 1], [.int 1]]
      ≠ (leftJoin (eqOn 0 0) Prod.mk (nullRow 1) ([[.int 1]] : List TRow) [[.int 1], [.int 1]]).drop 1 := by decide

/-! ## three-table left-deep chains (component level) -/

/-- LIMIT n in the fetch of the first table of `(L LEFT JOIN R1) LEFT JOIN R2` (what `check_use_limit` allows when the
join of the second table is spelled `LEFT JOIN`, see `C08_useLimit_third`; sound only if the LAST join is LEFT too) -/
theorem C08_T83_limit_left_left {α β γ δ ε : Type} (on1 : α → β → Bool) (mk1 : α → β → γ) (nr1 : β)
    (on2 : γ → δ → Bool) (mk2 : γ → δ → ε) (nr2 : δ) (n : Nat) (L : List α) (R1 : List β) (R2 : List δ) :
    (leftJoin on2 mk2 nr2 (leftJoin on1 mk1 nr1 (L.take n) R1) R2).take n
      = (leftJoin on2 mk2 nr2 (leftJoin on1 mk1 nr1 L R1) R2).take n :=
  limit_left_left_join on1 mk1 nr1 on2 mk2 nr2 n L R1 R2

/-- the IN filter of the third table uses the DISTINCT keys of the FETCH `F` of an earlier table: sound for an inner /
left join with the two-table result `J` whenever every row of `J` carries a row of `F` or a NULL-padded one -/
theorem C08_T81_third_table (F : List TRow) (n c0 c1 : Nat) (J : List (TRow × TRow)) (R : List TRow) (nr : TRow)
    (hJ : ∀ x ∈ J, x.1 ∈ F ∨ x.1 = nullRow n) :
    let on := fun (x : TRow × TRow) (r : TRow) => cmpVal .eq (x.1.col c0) (r.col c1) == .t
    let s := fun (r : TRow) => sqlIn (r.col c1) (distinct (F.map fun l => l.col c0)) == .t
    innerJoin on Prod.mk J (R.filter s) = innerJoin on Prod.mk J R ∧
    leftJoin on Prod.mk nr J (R.filter s) = leftJoin on Prod.mk nr J R := by
  intro on s
  exact ⟨third_table_restrict_inner on Prod.mk s J R (third_table_semi_ok F n c0 c1 J hJ),
         third_table_restrict_left on Prod.mk nr s J R (third_table_semi_ok F n c0 c1 J hJ)⟩

-- [review] `hJ` of `C08_T81_third_table` is met by the join of the fetch `F` with any second table (LEFT shown; inner is
-- the same); note that the theorem covers a third table joined to the FIRST table's key (`x.1`) only, and that
-- `useLimitLoop` on sequences of more than two tables (`C08_useLimit_third`) is compared with the code by no stream.
example (F R1 : List TRow) (c0 c1 : Nat) :
    ∀ x ∈ leftJoin (eqOn c0 c1) Prod.mk (nullRow 3) F R1, x.1 ∈ F ∨ x.1 = nullRow 3 := by
  intro x hx
  obtain ⟨l, hl, r, rfl⟩ := mem_leftJoin _ _ _ _ _ x hx
  exact Or.inl hl

/-! ## n-table chains: which tables a later outer join pads with NULLs (`mark_nullable_tables`) -/

/-- closed form of the literal loop, for chains of ANY length: the first table is null-supplied iff some join of the chain
is RIGHT / FULL; table i ≥ 1 iff its own join is LEFT / FULL or a LATER join is RIGHT / FULL (`nullableTail`) -/
theorem C08_markNullable_spec (ks : List JoinKind) :
    markNullable ks = ks.any JoinKind.padsLeft :: nullableTail ks :=
  markNullable_spec ks

/-- the two-table fragment (`nullableSide`) is the one-join instance -/
theorem C08_nullableSide_eq_chain (k : JoinKind) : markNullable [k] = [nullableSide k 0, nullableSide k 1] :=
  nullableSide_eq_chain k

/-- samples: `a JOIN b RIGHT JOIN c` flags a AND b; `a LEFT JOIN b JOIN c FULL JOIN d` flags everything -/
example : markNullable [.inner, .right] = [true, true, false] ∧ markNullable [.right, .inner] = [true, false, false] ∧
    markNullable [.left, .inner, .full] = [true, true, true, true] ∧
    markNullable [.left, .inner, .left] = [false, true, false, true] := by decide

/-- **three tables**: a filter implied by WHERE may be pushed into the fetch of the FIRST table of `(L k1 R1) k2 R2`
(`k1` inner / LEFT) for every later join kind `k2`, provided that it rejects the padded row whenever `k2` is RIGHT / FULL —
i.e. whenever `markNullable [k1, k2]` flags the first table -/
theorem C08_chain3_push_first {α β γ δ ε : Type} (k1 k2 : JoinKind) (hk1 : k1.padsLeft = false)
    (on1 : α → β → Bool) (mk1 : α → β → γ) (nl1 : α) (nr1 : β)
    (on2 : γ → δ → Bool) (mk2 : γ → δ → ε) (nl2 : γ) (nr2 : δ)
    (w : ε → Bool) (p : α → Bool) (p' : γ → Bool) (hp : ∀ l r, p' (mk1 l r) = p l)
    (hw : ∀ x r2, w (mk2 x r2) = true → p' x = true) (hn : k2.padsLeft = true → p' nl2 = false)
    (L : List α) (R1 : List β) (R2 : List δ) :
    (joinG k2 on2 mk2 nl2 nr2 (joinG k1 on1 mk1 nl1 nr1 (L.filter p) R1) R2).filter w
      = (joinG k2 on2 mk2 nl2 nr2 (joinG k1 on1 mk1 nl1 nr1 L R1) R2).filter w :=
  chain3_push_first k1 k2 hk1 on1 mk1 nl1 nr1 on2 mk2 nl2 nr2 w p p' hp hw hn L R1 R2

/-- the flag of the first table of a three-table chain is exactly the side condition of `C08_chain3_push_first` -/
theorem C08_chain3_flag (k1 k2 : JoinKind) (hk1 : k1.padsLeft = false) :
    (markNullable [k1, k2]).head? = some k2.padsLeft := by
  cases k1 <;> cases k2 <;> simp_all [JoinKind.padsLeft] <;> rfl

/-- `a JOIN b ON a.id = b.id RIGHT JOIN c ON b.id = c.id WHERE a.x IS NULL`: pushing `x IS NULL` into a's fetch (what a
planner that looks only at the table just before the RIGHT join would do) loses the matching a-row with `x = 1`, the RIGHT
join pads NULLs and the re-applied filter accepts the row -/
def ch3A : List TRow := [[.int 1, .int 1]]
def ch3B : List TRow := [[.int 1]]
def ch3C : List TRow := [[.int 1]]
def ch3w (x : (TRow × TRow) × TRow) : Bool := x.1.1.col 1 == .null
def ch3j (A : List TRow) : List ((TRow × TRow) × TRow) :=
  joinG .right (fun (x : TRow × TRow) (c : TRow) => eqOn 0 0 x.2 c) Prod.mk (nullRow 2, nullRow 1) (nullRow 1)
    (joinG .inner (eqOn 0 0) Prod.mk (nullRow 2) (nullRow 1) A ch3B) ch3C

theorem C08_witness_chain3_isnull :
    (ch3j (ch3A.filter fun a => a.col 1 == .null)).filter ch3w ≠ (ch3j ch3A).filter ch3w := by decide

-- [review] `C08_chain3_push_first` instantiated with a real column filter: `a JOIN b RIGHT JOIN c WHERE a.x = 1`
-- (`x = 1` rejects the NULL-padded row, so it may go into a's fetch although the RIGHT join pads a) — all table contents
example (A B C : List TRow) :
    let p : TRow → Bool := fun a => cmpVal .eq (a.col 1) (.int 1) == .t
    let w : (TRow × TRow) × TRow → Bool := fun x => p x.1.1
    let on2 := fun (x : TRow × TRow) (c : TRow) => eqOn 0 0 x.2 c
    (joinG .right on2 Prod.mk (nullRow 2, nullRow 1) (nullRow 1)
        (joinG .inner (eqOn 0 0) Prod.mk (nullRow 2) (nullRow 1) (A.filter p) B) C).filter w
      = (joinG .right on2 Prod.mk (nullRow 2, nullRow 1) (nullRow 1)
        (joinG .inner (eqOn 0 0) Prod.mk (nullRow 2) (nullRow 1) A B) C).filter w := by
  intro p w on2
  exact C08_chain3_push_first .inner .right rfl (eqOn 0 0) Prod.mk (nullRow 2) (nullRow 1) on2 Prod.mk
    (nullRow 2, nullRow 1) (nullRow 1) w p (fun x => p x.1) (fun _ _ => rfl) (fun _ _ h => h) (fun _ => by decide) A B C

/-! ## congruence lemmas about set operations and name substitution — OUTSIDE the claim

The three lemmas below are facts about list append / de-duplication / a one-entry name lookup over ABSTRACT operands
(`A A' B B'`, `bodyPlan`, `main`).  Nothing in them models `plan_union` / `plan_cte` of `query_planner.py` (operand plans, the
UnionStep wiring and the CTE name resolution are parameters; no correspondence stream touches `Lemmas/SemSetOps.lean`), so they
would stay true whatever the planner does.  They are kept as lemmas, are not listed among the property theorems, and set
operations / CTEs are covered by the impl-level probe only (typed generator incl. CTE-name collisions in every table
position). -/

/-- congruence: multiset-equal operands give multiset-equal concatenations -/
theorem C08_lemma_union_all_congr {α : Type} [BEq α] (A A' B B' : List α) (hA : MEq A A') (hB : MEq B B') :
    MEq (A ++ B) (A' ++ B') :=
  unionAll_compositional A A' B B' hA hB

/-- congruence: operands with the same rows give de-duplicated concatenations that are permutations of each other -/
theorem C08_lemma_union_distinct_congr {α : Type} [DecidableEq α] (A A' B B' : List α)
    (hA : ∀ x, x ∈ A ↔ x ∈ A') (hB : ∀ x, x ∈ B ↔ x ∈ B') :
    (dedupL (A ++ B)).Perm (dedupL (A' ++ B')) :=
  unionDistinct_compositional A A' B B' hA hB

/-- congruence: looking a name up in a one-entry store that holds the body's rows equals binding the name to the body.
(Which table references ARE such a name is exactly what this lemma does not model; the real planner's name resolution had
two defects there — repaired, see the fixed cte-shadow entries of known_findings.json — and is exercised by the probe.) -/
theorem C08_lemma_cte_store_congr (n : String) (body main : NamedQuery) (bodyPlan : (String → Table) → Table)
    (env : String → Table) (h : bodyPlan env = body env) :
    execWith n bodyPlan main env = evalWith n body main env :=
  cte_compositional n body main bodyPlan env h

/-- the full statement is false -/
theorem C08_not_full : ¬ C08_full := fun h => C08_witness_limit_inner (h limQ limDB)

/-- on a query without the witness classes the model plan and the query agree (sample, by evaluation) -/
example : execPlan (plan { kind := .left, c0 := 0, c1 := 0, w := some (.cmpC .gt 1 1 (.int 0)), limit := none })
    { t0 := [[.int 1, .int 0], [.int 2, .int 0]], t1 := [[.int 1, .int 2], [.int 1, .int 0]], n0 := 2, n1 := 2 }
  = evalQuery { kind := .left, c0 := 0, c1 := 0, w := some (.cmpC .gt 1 1 (.int 0)), limit := none }
    { t0 := [[.int 1, .int 0], [.int 2, .int 0]], t1 := [[.int 1, .int 2], [.int 1, .int 0]], n0 := 2, n1 := 2 } := by
  decide

/-! ## round 5 (i): select lists with aggregates at any depth (`Model/SemAgg.lean`, stream `agg-select`) -/

/-- the full statement on the fragment with a select list (false for the same reason as `C08_full`: LIMIT below a join that is
not a LEFT join; see `C08_agg_partial_model`) -/
def C08_agg_full : Prop := ∀ (q : QA) (db : DB), execPlanA (planA q) q.targets db = evalQueryA q db

/-- the recogniser `query_traversal(targets, is_aggregate)`: true iff SOME sub-term, at any depth, is an aggregate call -/
theorem C08_agg_hasAgg_iff_subterm (t : Tgt) : t.hasAgg = true ↔ ∃ s ∈ t.subterms, s.topAgg = true :=
  t.hasAgg_iff_subterm

/-- the top-node test accepts only aggregated select lists … -/
theorem C08_agg_topAgg_sound (ts : List Tgt) (h : selTopAgg ts = true) : selHasAgg ts = true :=
  selHasAgg_of_selTopAgg ts h

/-- `count(*) + 0` -/
def tCountPlus0 : Tgt := .arith .add (.agg .count .star) (.const (.int 0))

/-- … but misses `count(*) + 0`, `CAST(sum(x) AS integer)`, `max(x) - min(x)`, `CASE WHEN count(*) > 1 …`, `abs(min(x))` -/
theorem C08_agg_topAgg_incomplete :
    [tCountPlus0, .cast (.agg .sum (.col 0 1)), .arith .sub (.agg .max (.col 0 1)) (.agg .min (.col 0 1)),
      .case (.cmp .gt (.agg .count .star) (.const (.int 1))) (.const (.int 1)) (.const (.int 0)),
      .fn1 (.agg .min (.col 1 0))].all (fun t => t.hasAgg && !t.topAgg) = true := by decide

/-- **fragment theorem with a select list** (row-wise or aggregated at any depth), all databases -/
theorem C08_agg_partial_model (q : QA) (db : DB) (h : planSound q.toQ2 = true) :
    execPlanA (planA q) q.targets db = evalQueryA q db :=
  planA_sound q db h

/-- LIMIT is copied into the first fetch only if no aggregate occurs anywhere in the select list -/
theorem C08_agg_limit_pushed_only_if_noagg (q : QA) (h : (planA q).limit0.isSome = true) : selHasAgg q.targets = false :=
  planA_limit0_some_only_if_noagg q h

/-- corollary: EVERY aggregated query (aggregate at any depth) — all join kinds, any WHERE tree, with or without LIMIT -/
theorem C08_agg_partial_model_aggregated (q : QA) (db : DB) (h : selHasAgg q.targets = true) :
    execPlanA (planA q) q.targets db = evalQueryA q db := by
  apply planA_sound
  have := planA_limit0_none_of_agg q h
  simp [planSound, limitSound, planA] at this ⊢
  simp [this]

/-- corollary: EVERY LEFT-join query, any select list, with or without LIMIT -/
theorem C08_agg_partial_model_left (q : QA) (db : DB) (hk : q.kind.isLeft = true) :
    execPlanA (planA q) q.targets db = evalQueryA q db := by
  apply planA_sound
  simp [planSound, limitSound, QA.toQ2, hk]

/-- LIMIT may be applied before an aggregate-free select list (the heart of both pushdown paths) … -/
theorem C08_agg_limit_commutes_noagg (ts : List Tgt) (h : selHasAgg ts = false) (n : Option Nat)
    (rows : List (TRow × TRow)) : limitOf n (selectRows ts rows) = selectRows ts (limitOf n rows) :=
  selectRows_limit_noagg ts h n rows

/-- … hence LIMIT n below a LEFT join is row-preserving when no aggregate occurs anywhere in the select list -/
theorem C08_agg_T83_limit_left_noagg {α β : Type} (ts : List Tgt) (h : selHasAgg ts = false)
    (on : α → β → Bool) (mk : α → β → TRow × TRow) (nr : β) (n : Nat) (L : List α) (R : List β) :
    limitOf (some n) (selectRows ts (leftJoin on mk nr (L.take n) R))
      = limitOf (some n) (selectRows ts (leftJoin on mk nr L R)) :=
  limit_left_select_noagg ts h on mk nr n L R

/-- counter-witness: `SELECT count(*) + 0 … LEFT JOIN … LIMIT 1` with the LIMIT below the join counts 1 row instead of 3 -/
theorem C08_agg_witness_limit_left :
    limitOf (some 1) (selectRows [tCountPlus0]
        (leftJoin (eqOn 0 0) Prod.mk (nullRow 1) ([[.int 1], [.int 2], [.int 3]].take 1) [[.int 2]]))
      ≠ limitOf (some 1) (selectRows [tCountPlus0]
        (leftJoin (eqOn 0 0) Prod.mk (nullRow 1) [[.int 1], [.int 2], [.int 3]] [[.int 2]])) := by decide

def aggQ : QA :=
  { kind := .left, c0 := 0, c1 := 0, w := none, limit := some 1,
    targets := [.arith .sub (.agg .max (.col 0 1)) (.agg .min (.col 0 1)), tCountPlus0] }
def aggDB : DB := { t0 := [[.int 1, .int 5], [.int 2, .int 9]], t1 := [[.int 1, .int 0], [.int 1, .int 1]], n0 := 2, n1 := 2 }

/-- the real recogniser keeps LIMIT out of the first fetch; the top-node recogniser lets it in … -/
theorem C08_agg_witness_shallow_plan : (planA aggQ).limit0 = none ∧ (planAShallow aggQ).limit0 = some 1 := by decide

/-- … and the plan is then wrong: `max(x) - min(x), count(*) + 0` over 1 fetched row instead of over the 3 joined rows -/
theorem C08_agg_witness_shallow :
    execPlanA (planAShallow aggQ) aggQ.targets aggDB ≠ evalQueryA aggQ aggDB ∧
    execPlanA (planA aggQ) aggQ.targets aggDB = evalQueryA aggQ aggDB := by decide

/-- api integrations: the split plan of `plan_api_db_select` (LIMIT in the fetch iff no aggregate anywhere) is right -/
theorem C08_agg_api (ts : List Tgt) (n : Option Nat) (T : List TRow) :
    execApi (apiPushLimit ts) ts n T = evalApi ts n T :=
  api_sound ts n T

/-- counter-witness: LIMIT in the api fetch of `SELECT max(x) - min(x) … LIMIT 1` -/
theorem C08_agg_witness_api :
    execApi true [.arith .sub (.agg .max (.col 0 0)) (.agg .min (.col 0 0))] (some 1) [[.int 1], [.int 4]]
      ≠ evalApi [.arith .sub (.agg .max (.col 0 0)) (.agg .min (.col 0 0))] (some 1) [[.int 1], [.int 4]] := by decide

/-- non-vacuity: the hypothesis of `C08_agg_partial_model` holds for an inner join with an aggregated select list and LIMIT, and
the evaluated sides agree -/
example : planSound ({ aggQ with kind := .inner } : QA).toQ2 = true ∧
    execPlanA (planA { aggQ with kind := .inner }) aggQ.targets aggDB = evalQueryA { aggQ with kind := .inner } aggDB := by decide

/-! ## round 5 (ii): set operations across integrations (`Model/SemSet.lean`, stream `setop-plan`) -/

/-- the full statement for set operations: the step list of `plan_union` returns the rows of the query -/
def C08_set_full : Prop := ∀ (q : SetQ) (db : DBn), execSetPlan (planSet q []) db = q.eval db

/-- **set operations: plan = query** for every tree of UNION [ALL] / INTERSECT / EXCEPT, every operand shape (DISTINCT, GROUP BY,
ORDER BY, LIMIT, OFFSET in every combination) and all contents -/
theorem C08_set : C08_set_full := planSet_sound

/-- the shape of the plan of a two-operand operation: the operands as written, then the UnionStep over steps 0 and 1 -/
theorem C08_set_plan_shape (k : SetOpK) (a b : Opnd) :
    planSet (.op k (.sel a) (.sel b)) [] = ([.fetch a, .fetch b, .setop k 0 1], 2) := rfl

/-- a non-ALL UnionStep depends only on the row SETS of its operands (up to order) -/
theorem C08_set_unique_congr (k : SetOpK) (hk : k.unique = true) (A A' B B' : List TRow)
    (hA : ∀ x, x ∈ A ↔ x ∈ A') (hB : ∀ x, x ∈ B ↔ x ∈ B') : (k.apply A B).Perm (k.apply A' B') :=
  apply_perm_of_mem_iff k hk A A' B B' hA hB

/-- when WOULD "every source returns distinct rows" be sound: operands without a row window (no LIMIT, no OFFSET) -/
theorem C08_set_distinct_operand_sound_if_no_window (k : SetOpK) (hk : k.unique = true) (ol or : Opnd)
    (hl : ol.noWindow = true) (hr : or.noWindow = true) (db : DBn) :
    (k.apply (ol.optDistinct.eval db) (or.optDistinct.eval db)).Perm (k.apply (ol.eval db) (or.eval db)) :=
  optDistinct_sound_if_no_window k hk ol or hl hr db

/-- `(SELECT c0 FROM t0 ORDER BY c0 OFFSET 1) <op> SELECT c0 FROM t1` -/
def setQ (k : SetOpK) : SetQ :=
  .op k (.sel { tbl := 0, cols := [0], order := [(0, false)], offset := some 1 }) (.sel { tbl := 1, cols := [0] })
def setDB : DBn := [[[.int 0], [.int 1], [.int 0]], [[.int 2]]]

/-- DISTINCT before OFFSET differs: t0.c0 in order is 0 0 1, skipping one row leaves 0 1; de-duplicated first it is 0 1 and
skipping one row leaves 1 — the UNION loses the row 0 (the guard `limit is None` alone is not enough) -/
theorem C08_set_witness_distinct_before_offset :
    execSetPlan (planSetOpt (setQ .union) false []) setDB ≠ (setQ .union).eval setDB ∧
    execSetPlan (planSet (setQ .union) []) setDB = (setQ .union).eval setDB := by decide

/-- … and `SELECT c0 FROM t1 EXCEPT (SELECT c0 FROM t0 ORDER BY c0 OFFSET 2)` keeps a row that the query removes -/
theorem C08_set_witness_except_keeps_rows :
    let q : SetQ := .op .except (.sel { tbl := 1, cols := [0] })
      (.sel { tbl := 0, cols := [0], order := [(0, false)], offset := some 2 })
    let db : DBn := [[[.int 0], [.int 1], [.int 0]], [[.int 1], [.int 2]]]
    execSetPlan (planSetOpt q false []) db = [[.int 1], [.int 2]] ∧ q.eval db = [[.int 2]] := by decide

/-- the hypothesis of `C08_set_distinct_operand_sound_if_no_window` is satisfiable and excludes the witness operand -/
example : ({ tbl := 0, cols := [0, 1], order := [(1, true)] } : Opnd).noWindow = true ∧
    ({ tbl := 0, cols := [0], order := [(0, false)], offset := some 1 } : Opnd).noWindow = false := by decide

/-- a three-operand tree with a grouped, a windowed and a DISTINCT operand (sample, by evaluation) -/
example :
    let q : SetQ := .op .unionAll (.op .intersect
        (.sel { tbl := 0, cols := [0], group := true, order := [(0, true)], limit := some 2 })
        (.sel { tbl := 1, cols := [0, 1] }))
      (.sel { tbl := 0, cols := [1, 0], distinct := true, order := [(0, false), (1, false)], limit := some 1, offset := some 1 })
    let db : DBn := [[[.int 0, .int 1], [.int 1, .null], [.int 0, .int 1]], [[.int 1, .int 1], [.int 0, .int 2]]]
    execSetPlan (planSet q []) db = [[.int 1, .int 1], [.int 0, .int 2], [.int 1, .int 0]] := by decide

/-! ## round 6: column names that need quoting (`Model/SemNames.lean`, stream `name-rebuild`) -/

/-- stripping the qualifier the way the planner does keeps the column, for EVERY alias and EVERY name (dots, spaces, keywords …) -/
theorem C08_names_bare_resolves (s : Scope) (n : Name) :
    s.resolve (bareColumn [s.alias, n]) = s.resolve [s.alias, n] ∧ s.resolve (bareColumn [n]) = s.resolve [n] :=
  ⟨resolve_bare_qualified s n, resolve_bare_unqualified s n⟩

/-- parsing a name as a dotted path gives back the name iff it has no dot -/
theorem C08_names_splitDots_iff (cs : Name) : splitDots cs = [cs] ↔ '.' ∉ cs :=
  splitDots_eq_singleton_iff cs

/-- `Identifier(name)` instead of `Identifier(parts=[name])` is the same rebuild exactly for names without a dot -/
theorem C08_names_dotted_eq_bare_iff (t n : Name) : dottedColumn [t, n] = bareColumn [t, n] ↔ '.' ∉ n :=
  dotted_eq_bare_iff t n

/-- the DISTINCT key and the IN-filter column of the plan are the ON columns of the query -/
theorem C08_names_plan_keys (q : QN) (n0 n1 : Name) (hl : q.onL = [q.l.alias, n0]) (hr : q.onR = [q.r.alias, n1]) :
    q.planKeys bareColumn = (q.toQ2).map fun q2 => (q2.c0, q2.c1) :=
  planKeys_bare q n0 n1 hl hr

/-- the fragment theorem for queries written with NAMES (any names): the rebuilt key columns are those of the index form, whose
plan returns the rows of the query -/
theorem C08_names_partial_model (q : QN) (q2 : Q2) (n0 n1 : Name) (hl : q.onL = [q.l.alias, n0])
    (hr : q.onR = [q.r.alias, n1]) (h2 : q.toQ2 = some q2) (hs : planSound q2 = true) (db : DB) :
    q.planKeys bareColumn = some (q2.c0, q2.c1) ∧ execPlan (plan q2) db = evalQuery q2 db := by
  refine ⟨?_, plan2_sound q2 db hs⟩
  rw [planKeys_bare q n0 n1 hl hr, h2]
  rfl

def nmQ : Name := ['q']
def nmQX : Name := ['q', '.', 'x']
def nmX : Name := ['x']
/-- a table called `q` with the columns `q.x`, `x`, `y` -/
def nmScope : Scope := { alias := nmQ, cols := [nmQX, nmX, ['y']] }

/-- counter-witness: the dotted rebuild of `q.`q.x`` is `q.x` = column `x` of `q` (index 1, silently the wrong column); in a
table called otherwise it denotes nothing (the step cannot be carried out); the code's rebuild denotes column 0 -/
theorem C08_names_witness_dotted :
    nmScope.resolve (dottedColumn [nmQ, nmQX]) = some 1 ∧ nmScope.resolve (bareColumn [nmQ, nmQX]) = some 0 ∧
    nmScope.resolve [nmQ, nmQX] = some 0 ∧
    ({ nmScope with alias := ['t'] } : Scope).resolve (dottedColumn [['t'], nmQX]) = none := by decide

/-- … and the key columns of the plan are then not those of the query -/
theorem C08_names_witness_keys :
    let q : QN := { kind := .inner, l := nmScope, r := { alias := ['r'], cols := [['k']] }, onL := [nmQ, nmQX], onR := [['r'], ['k']],
                    w := none, limit := none }
    q.planKeys dottedColumn = some (1, 0) ∧ q.planKeys bareColumn = some (0, 0) ∧
    (q.toQ2).map (fun q2 => (q2.c0, q2.c1)) = some (0, 0) := by decide

/-! ## round 6 (old escapes): one CTE name in several sibling scopes (`Model/SemScope.lean`; tie: probe kind `scopes` only) -/

/-- `plan_cte` rebinds the name for every WITH clause it meets: for sibling scopes (branches of a set operation, derived tables of
a join) every main select reads the rows of its OWN body, whatever the name was bound to before -/
theorem C08_scope_siblings (ss : List ScopeQ) (cur : Option Rows) : execScopes false ss cur = evalScopes ss :=
  execScopes_rebind ss cur

/-- counter-witness: "a name that already has an entry is not planned again" binds the second scope to the first body -/
theorem C08_scope_witness_skip :
    execScopes true [([[.int 1]], id), ([[.int 2]], id)] none ≠ evalScopes [([[.int 1]], id), ([[.int 2]], id)] ∧
    execScopes false [([[.int 1]], id), ([[.int 2]], id)] none = [[.int 1], [.int 2]] := by decide

end MindsVerif.Props.C08
