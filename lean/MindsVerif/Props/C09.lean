import MindsVerif.Lemmas.PlanJoin
/-!
# C09 — every emitted plan is a well-formed, forward-only dataflow program

Model: `MindsVerif.Plan` (`Model/Plan.lean`) — `QueryPlan.add_step`, and the step-stack / partition
bookkeeping of `PlanJoinTablesQuery` (`get_join_sequence`, the model-first swap, the loop of
`plan_join_tables`, `add_plan_step / add_step_to_partition / close_partition`, the `QueryStep`
wrapper), over an abstract join skeleton.  Steps planned by *other* planners (nested selects, CTE
bodies, sub-selects in FROM) enter as blocks that are assumed well-formed (`preOK`, `treeOK`).

What is proved (for all skeletons, all starting plans, by induction):
* `C09_add_step` (T9.1), `C09_partial` (T9.2 for the pinned `add_plan_step`, excluding the
  open-partition fall-through by the decidable hypothesis `noFallThrough`), `C09_fixed` (T9.2 for the
  repaired `add_plan_step`, no exclusion), `C09_error_class` (T9.3, unconditional).
What is *not* a theorem: the other planners (`plan_select_identifier`, `plan_nested_select`, the
time-series planner, DML planners) and the abstraction of real steps to `(kind, num, refs)`;
these are covered by the correspondence stream and the impl-level probe of `tools/props/c09.py`.
-/
namespace MindsVerif.Props.C09
open MindsVerif.Plan

/-- the modelled part of the full statement: from a well-formed plan, planning a join query either
fails with a user-level error or yields a well-formed plan that extends the old one and whose
returned step (the answer) is its last step -/
def GoodResult (plan : List Step) : Except Err (List Step × SNum) → Prop
  | .ok (plan', x) =>
    stepsOK 0 plan' = true ∧ plan <+: plan' ∧ plan.length < plan'.length ∧ x = .top (plan'.length - 1)
  | .error e => IsUserErr e

def C09_body (fixed : Bool) (q : JQ) (plan : List Step) : Prop :=
  GoodResult plan (planJoin fixed q plan)

instance (e : Err) : Decidable (IsUserErr e) :=
  match e with
  | .planning _ => isTrue trivial
  | .notImpl _ => isTrue trivial
  | .internal _ => isFalse (fun h => h)

instance (plan : List Step) : (r : Except Err (List Step × SNum)) → Decidable (GoodResult plan r)
  | .ok (plan', x) => inferInstanceAs (Decidable
      (stepsOK 0 plan' = true ∧ plan <+: plan' ∧ plan.length < plan'.length ∧ x = .top (plan'.length - 1)))
  | .error e => inferInstanceAs (Decidable (IsUserErr e))

instance (fixed : Bool) (q : JQ) (plan : List Step) : Decidable (C09_body fixed q plan) :=
  inferInstanceAs (Decidable (GoodResult plan (planJoin fixed q plan)))

/-- full statement for the pinned code — false (see `C09_witness_1`) -/
def C09_full : Prop :=
  ∀ (q : JQ) (plan : List Step), stepsOK 0 plan = true → preOK q.pre = true →
    treeOK (planPre q.pre plan []).1.length q.tree = true → C09_body false q plan

/-- **T9.1** `QueryPlan.add_step` keeps steps numbered by position and forward-only -/
theorem C09_add_step (plan : List Step) (s : Step) (h : stepsOK 0 plan = true)
    (hn : falsy s.num = true ∨ s.num = some (.top plan.length))
    (hr : s.refs.all (refOKTop plan.length) = true)
    (hs : subsOK plan.length 0 s.subs = true) :
    stepsOK 0 (addStep plan s) = true ∧ (addStep plan s).length = plan.length + 1 :=
  ⟨addStep_ok plan s h hn hr hs, by simp [addStep]⟩

/-- **T9.3** user-level errors only, unconditionally (pinned and repaired code, every input) -/
theorem C09_error_class (fixed : Bool) (q : JQ) (plan : List Step) :
    match planJoin fixed q plan with
    | .ok _ => True
    | .error e => IsUserErr e := by
  unfold planJoin
  rcases planJoinTables_error_class fixed q.tree (planPre q.pre plan []).1 with ⟨r, h⟩ | ⟨e, h, hu⟩
  · rw [h]; obtain ⟨p, j⟩ := r; cases q.wrap <;> simp
  · rw [h]; exact hu

theorem body_of (fixed : Bool) (q : JQ) (plan : List Step)
    (hok : stepsOK 0 plan = true) (hpre : preOK q.pre = true)
    (ht : treeOK (planPre q.pre plan []).1.length q.tree = true)
    (hnf : fixed = true ∨ noFallThrough false (seqOf q.tree) = true) : C09_body fixed q plan := by
  unfold C09_body GoodResult
  have he := C09_error_class fixed q plan
  cases h : planJoin fixed q plan with
  | error e => rw [h] at he; exact he
  | ok r => obtain ⟨plan', x⟩ := r; exact planJoin_inv fixed q plan hok hpre ht hnf plan' x h

/-- **T9.2 (pinned code)**: the invariant holds for every join query in which no table / sub-select
operand follows a model that carries `partition_size`.  Missing w.r.t. `C09_full`: exactly that class. -/
theorem C09_partial (q : JQ) (plan : List Step) (hok : stepsOK 0 plan = true) (hpre : preOK q.pre = true)
    (ht : treeOK (planPre q.pre plan []).1.length q.tree = true)
    (hnf : noFallThrough false (seqOf q.tree) = true) : C09_body false q plan :=
  body_of false q plan hok hpre ht (Or.inr hnf)

/-- **T9.2 (repair `fixes/C09_1.diff`)**: with `close_partition` on the fall-through path the
invariant holds for every join query -/
theorem C09_fixed (q : JQ) (plan : List Step) (hok : stepsOK 0 plan = true) (hpre : preOK q.pre = true)
    (ht : treeOK (planPre q.pre plan []).1.length q.tree = true) : C09_body true q plan :=
  body_of true q plan hok hpre ht (Or.inl rfl)

/-! ### witnesses -/

/-- `t JOIN model JOIN t2 ON t.id = t2.id USING partition_size=N` -/
def w1 : JQ :=
  ⟨[], .join (.join (.leaf (.table false [] [])) (.leaf (.predictor false true))) (.leaf (.table false [0] [])), false⟩

/-- same without a usable ON filter (no `SubSelectStep`): the sub-step still consumes `Result(2)` -/
def w2 : JQ :=
  ⟨[], .join (.join (.leaf (.table false [] [])) (.leaf (.predictor false true))) (.leaf (.table false [] [])), true⟩

/-- `t JOIN model JOIN (sub-select) AS s USING partition_size=N` -/
def w3 : JQ :=
  ⟨[], .join (.join (.leaf (.table false [] [])) (.leaf (.predictor false true)))
      (.leaf (.subselect true [⟨.fetch, some (.top 0), [], []⟩] 0)), false⟩

/-- the pinned code emits, for `w1`, exactly the plan observed on the real planner: step 1 is a
map-reduce step whose third sub-step consumes `Result(3)`, and the returned step is step 1 of 4 -/
theorem C09_witness_1 :
    (planJoin false w1 []).toOption = some (
      [⟨.fetch, some (.top 0), [], []⟩,
       ⟨.mapreduce, some (.top 1), [.top 0],
         [⟨.apply, some (.sub 1 0), [.top 0]⟩,
          ⟨.join, some (.sub 1 1), [.top 0, .sub 1 0]⟩,
          ⟨.join, some (.sub 1 2), [.sub 1 1, .top 3]⟩]⟩,
       ⟨.subselect, some (.top 2), [.top 0], []⟩,
       ⟨.fetch, some (.top 3), [.top 2], []⟩], .top 1) := by decide

theorem C09_witness_1_not : ¬ C09_body false w1 [] := by decide
theorem C09_witness_2_not : ¬ C09_body false w2 [] := by decide
theorem C09_witness_3_not : ¬ C09_body false w3 [] := by decide

/-- hence the full statement is false for the pinned code -/
theorem C09_full_false : ¬ C09_full := fun h => C09_witness_1_not (h w1 [] rfl rfl rfl)

/-- the witnesses are exactly in the excluded class … -/
example : noFallThrough false (seqOf w1.tree) = false := by decide
example : noFallThrough false (seqOf w3.tree) = false := by decide
/-- … and the repaired code handles them -/
example : C09_body true w1 [] := by decide
example : C09_body true w3 [] := by decide

/-! ### non-vacuity: the hypotheses of `C09_partial` are satisfiable, with and without partitions -/

/-- `t JOIN m1 JOIN m2 USING partition_size=N` (tests/test_planner/test_join_predictor.py::test_partition) -/
def ok1 : JQ :=
  ⟨[], .join (.join (.leaf (.table false [] [])) (.leaf (.predictor false true))) (.leaf (.predictor false true)), true⟩

/-- `with c as (…) select … from t1 join t2 on … join (select …) s where t1.x = (select …)` -/
def ok2 : JQ :=
  ⟨[([⟨.fetch, some (.top 0), [], []⟩], 0, false), ([⟨.fetch, some (.top 0), [], []⟩], 0, true)],
   .join (.join (.leaf (.table true [] [0, 1])) (.leaf (.table false [0] [])))
     (.leaf (.subselect true [⟨.fetch, some (.top 0), [], []⟩, ⟨.subselect, some (.top 1), [.top 0], []⟩] 1)), true⟩

example : noFallThrough false (seqOf ok1.tree) = true ∧ preOK ok1.pre = true ∧
    treeOK (planPre ok1.pre [] []).1.length ok1.tree = true := by decide
example : noFallThrough false (seqOf ok2.tree) = true ∧ preOK ok2.pre = true ∧
    treeOK (planPre ok2.pre [] []).1.length ok2.tree = true := by decide
example : (planJoin false ok1 []).toOption.map (fun r => r.1.length) = some 3 := by decide
example : (planJoin false ok2 []).toOption.map (fun r => r.1.length) = some 11 := by decide

/-- `add_step` keeps a truthy `step_num`: re-adding a numbered step breaks the numbering (model-level
observation; no planner path does this today) -/
example : stepsOK 0 (addStep [⟨.fetch, some (.top 0), [], []⟩] ⟨.fetch, some (.top 5), [], []⟩) = false := by decide

end MindsVerif.Props.C09
