import MindsVerif.Lemmas.PlanQ
import MindsVerif.Lemmas.Catalog
import MindsVerif.Lemmas.PlanSizes
/-!
# C09 — every emitted plan is a well-formed, forward-only dataflow program

Model: `MindsVerif.Plan` (`Model/Plan.lean`, `Model/PlanQ.lean`) — `QueryPlan.add_step`; the step-stack /
partition bookkeeping of `PlanJoinTablesQuery`; and the planners around it as functions on the plan model:
`plan_select` dispatch, `plan_union`, `plan_cte`, nested selects replaced by `Parameter(Result)`,
`plan_integration_select`, `plan_api_db_select`, `plan_integration_select_with_functions`,
`plan_select_from_predictor` / `plan_project`, `plan_nested_select`, native query / data in FROM,
`plan_sub_select`, the `PlanJoin.plan` dispatch, the time-series planner's step emission, and `from_query`
with the DML planners — over a skeleton language (`Sel`, `Stmt`) whose constructors are the branches taken.

What is proved (all skeletons, by induction) — every theorem about live code is for `fixed = true`, the
`add_plan_step` that closes an open partition before a step that cannot be partitioned (the live variant is pinned
on every run by the obligation `pin:add_plan_step-variant-repaired` of `tools/props/c09.py`):
* `C09_partial` — `from_query` on every statement skeleton, started from the empty plan, raises a user-level
  error or returns a plan numbered by position, forward-only (incl. sub-steps of containers), non-empty, whose
  returned step is the last one.  *Partial* w.r.t. the property text because (i) which branch a real
  query × catalog takes and (ii) the abstraction of real steps to `(class, step_num, references)` are outside
  the model — tied by the correspondence streams (every constructor of `Sel` / `Stmt` occurs in them) and watched by
  the impl-level probe of `tools/props/c09.py`.
* `C09_plan_select` — the same for `plan_select` in any environment of already planned results.
* `C09_add_step` (T9.1), `C09_join` (T9.2, live variant, no exclusion).
* `C09_error_class` (T9.3 at the join level, from *any* plan, either variant) — has the hypothesis that the planners of
  sub-select operands raise user-level errors only (`leavesAll OperandNoInt`); from well-formed plans the error class is
  part of `C09_partial` / `C09_join` without that hypothesis.
* `C09_cte_lookup` — the name dictionary of `plan_cte` / `get_integration_select_step` for any consistent key spelling;
  `C09_cte_keys_necessary`: with inconsistent spelling (a hypothetical incomplete refactor, not the live code) the lookup raises.
* History / regression (the FORMER `add_plan_step`, `fixed = false`, which no longer exists in the library):
  `C09_join_unrepaired` (the invariant held outside the fall-through class `¬ noFallThrough`),
  `C09_regress_unrepaired_plan`, `C09_regress_unrepaired_{1,2,3}` (what it emitted inside that class), and
  `C09_regress_repaired_plan`, `C09_regress_repaired_{1,3}` (what the live variant emits for the same inputs).
* Round 5 / 6 — the CATALOG look-ups (`Model/Catalog.lean`: registration of a predictor-metadata entry in its three forms,
  `integration_name`, `timeseries`, `order_by_column`, `group_by_columns`, `window`, `to_predict`, an integration's `type`,
  each over absent / `None` / booleans / numbers / strings / lists / `{}`), which choose the skeleton.  The code as it is
  (`CatFix.live`, after the repairs e4d7787, 08911cf, d8a610a, 88dbd1a; pinned by `pin:catalog-lookups-variant-live`):
  `C09_catalog_total : C09_catalog_full CatFix.live` — for every record whose `integration_name` is absent / `None` / the
  project and whose other keys are absent or hold ANY value, every metadata form, every catalog-sensitive statement, from
  every well-formed plan: a well-formed plan or a user-level error; `C09_integration_total`.  `C09_catalog` is the same for any
  variant `fx` under the restrictions `ShapeOK fx` it still has.  History (FORMER code, `CatFix.former`):
  `C09_catalog_former` (held under `ShapeOK CatFix.former`), `C09_regress_catalog_former_not_full`, `C09_regress_r5_*`
  (the former code raised `KeyError` / `AttributeError` / `TypeError`: KF-C09-8…11, fixed) and the live code on the same inputs.
* Round 6 — several models with per-model `USING <alias>.partition_size = n`, several partitions in one plan
  (`Model/PlanSizes.lean`): `C09_sizes_not_consulted` (for EVERY size assignment the live join planner is the planner of
  `Model/Plan.lean`: a partitionable step joins the open partition whatever size it asks for), hence `C09_join_sizes` (C09 for
  every join tree × size assignment); `C09_split_stale_plan` / `C09_split_stale_witness` (HYPOTHETICAL, not live code: closing
  the open partition for a model with another size while its step keeps the dataframe it was built with emits a
  `MapReduceStep` on `Result('1_1')`, a sub-result of another container) and the same feature done right (`splitFresh`) as
  `decide`d examples.  Pinned by `pin:partition-sizes-not-consulted` on the stream `partition_sizes`.
-/
namespace MindsVerif.Props.C09
open MindsVerif.Plan

def GoodResult (plan : List Step) : Except Err (List Step × SNum) → Prop
  | .ok (plan', x) =>
    stepsOK 0 plan' = true ∧ plan <+: plan' ∧ plan.length < plan'.length ∧ x = .top (plan'.length - 1)
  | .error e => IsUserErr e

instance (e : Err) : Decidable (IsUserErr e) :=
  match e with
  | .planning _ => isTrue trivial
  | .notImpl _ => isTrue trivial
  | .internal _ => isFalse (fun h => h)

instance (plan : List Step) : (r : Except Err (List Step × SNum)) → Decidable (GoodResult plan r)
  | .ok (plan', x) => inferInstanceAs (Decidable
      (stepsOK 0 plan' = true ∧ plan <+: plan' ∧ plan.length < plan'.length ∧ x = .top (plan'.length - 1)))
  | .error e => inferInstanceAs (Decidable (IsUserErr e))

/-- the statement of C09 for one planner call started from `plan` (decidable) -/
def C09_body (f : Planner) (plan : List Step) : Prop := GoodResult plan (f plan)

instance (f : Planner) (plan : List Step) : Decidable (C09_body f plan) :=
  inferInstanceAs (Decidable (GoodResult plan (f plan)))

theorem body_of_good {n : Nat} {f : Planner} (h : Good n f) (plan : List Step) (hl : n ≤ plan.length)
    (hok : stepsOK 0 plan = true) : C09_body f plan := by
  have := h plan hl hok
  unfold C09_body GoodResult
  cases hf : f plan with
  | error e => rw [hf] at this; exact this
  | ok r => obtain ⟨p, x⟩ := r; rw [hf] at this; exact this

/-- full statement on the skeleton language: whatever statement is planned (current code) -/
def C09_full : Prop := ∀ q : Stmt, C09_body (fromQuery true q) []

/-- **C09 on the skeleton language** (see the header for what makes it partial w.r.t. the property text) -/
theorem C09_partial : C09_full := fun q => body_of_good (fromQuery_good q) [] (Nat.le_refl _) rfl

/-- `plan_select` on any skeleton, in any environment of earlier results, from any well-formed plan -/
theorem C09_plan_select (s : Sel) (env : List SNum) (plan : List Step) (hok : stepsOK 0 plan = true)
    (he : env.all (refOKTop plan.length) = true) : C09_body (den true s env).1 plan :=
  body_of_good (den_good s env plan.length he).1 plan (Nat.le_refl _) hok

/-- **T9.1** `QueryPlan.add_step` keeps steps numbered by position and forward-only -/
theorem C09_add_step (plan : List Step) (s : Step) (h : stepsOK 0 plan = true)
    (hn : falsy s.num = true ∨ s.num = some (.top plan.length))
    (hr : s.refs.all (refOKTop plan.length) = true)
    (hs : subsOK plan.length 0 s.subs = true) :
    stepsOK 0 (addStep plan s) = true ∧ (addStep plan s).length = plan.length + 1 :=
  ⟨addStep_ok plan s h hn hr hs, by simp [addStep]⟩

/-- **T9.2 (current code)** the join planner, for every join tree whose table operands reference earlier
results only and whose sub-select planners satisfy C09 -/
theorem C09_join (t : JT) (wrap : Bool) (params : List SNum) (plan : List Step) (hok : stepsOK 0 plan = true)
    (ht : TreeOK plan.length t) (hp : params.all (refOKTop plan.length) = true) :
    C09_body (planJoin true t wrap params) plan :=
  body_of_good (planJoin_good true plan.length t wrap params ht hp (Or.inl rfl)) plan (Nat.le_refl _) hok

/-- **History (former `add_plan_step`)**: without `close_partition` on the fall-through path the invariant held for every
join in which no table / sub-select operand follows a model that carries `partition_size` -/
theorem C09_join_unrepaired (t : JT) (wrap : Bool) (params : List SNum) (plan : List Step)
    (hok : stepsOK 0 plan = true) (ht : TreeOK plan.length t) (hp : params.all (refOKTop plan.length) = true)
    (hnf : noFallThrough false (seqOf t) = true) : C09_body (planJoin false t wrap params) plan :=
  body_of_good (planJoin_good false plan.length t wrap params ht hp (Or.inr hnf)) plan (Nat.le_refl _) hok

/-- **T9.3 (join level)** from *any* plan, in both variants, incl. the fall-through class: the stack pops of the
`Join` branch and the final `step_stack.pop()` never fail, provided sub-select planners raise user errors only -/
theorem C09_error_class (fixed : Bool) (t : JT) (plan : List Step) (hno : leavesAll OperandNoInt t) :
    match planJoinTables fixed t plan with
    | .ok _ => True
    | .error e => IsUserErr e := by
  rcases planJoinTables_error_class fixed t plan hno with ⟨r, h⟩ | ⟨e, h, hu⟩
  · rw [h]; trivial
  · rw [h]; exact hu

/-- **CTE references** (`plan_cte` stores, `get_integration_select_step` tests and fetches): whenever the membership
test and the dictionary access spell the key alike — as written (`CteKeys.exact`, the code as it is) or
case-folded (`CteKeys.folded`) — a bare table name resolves without raising and the emitted step satisfies C09 -/
theorem C09_cte_lookup (k : CteKeys) (hk : ∀ m, k.test m = k.fetch m) (dict : List (Name × SNum)) (name : Name)
    (params : List SNum) (plan : List Step) (hok : stepsOK 0 plan = true)
    (hd : ∀ key r, (key, r) ∈ dict → refOKTop plan.length r = true)
    (hp : params.all (refOKTop plan.length) = true) : C09_body (planTableRef k dict name params) plan :=
  body_of_good (planTableRef_good plan.length k hk dict hd name params hp) plan (Nat.le_refl _) hok

example : ∀ m, CteKeys.exact.test m = CteKeys.exact.fetch m := fun _ => rfl
example : ∀ m, CteKeys.folded.test m = CteKeys.folded.fetch m := fun _ => rfl

/-- an incomplete case-insensitive refactor (store and test folded, access as written): `WITH Ab AS … FROM Ab`
ends in `KeyError` — the hypothesis of `C09_cte_lookup` is necessary -/
theorem C09_cte_keys_necessary :
    ¬ C09_body (planTableRef ⟨lowerName, lowerName, id⟩ (cteStore ⟨lowerName, lowerName, id⟩ [] [65, 98] (.top 0))
        [65, 98] []) [⟨.fetch, some (.top 0), [], []⟩] := by decide

/-! ### regression theorems: the former `add_plan_step` (`fixed = false`, KF-C09-1, repaired) vs the live one -/

/-- `t JOIN model JOIN t2 ON t.id = t2.id USING partition_size=N` -/
def w1 : JT := .join (.join (.leaf (.table false [] [])) (.leaf (.predictor false true))) (.leaf (.table false [0] []))

/-- `t JOIN model JOIN (sub-select) AS s USING partition_size=N` -/
def w3 : JT := .join (.join (.leaf (.table false [] [])) (.leaf (.predictor false true)))
  (.leaf (.subselect true (pStep .fetch [])))

/-- the FORMER code emitted, for `w1`, exactly the plan that was observed on the planner before the repair: step 1 is a
map-reduce step whose third sub-step consumes `Result(3)`, and the returned step is step 1 of 4 -/
theorem C09_regress_unrepaired_plan :
    (planJoin false w1 false [] []).toOption = some (
      [⟨.fetch, some (.top 0), [], []⟩,
       ⟨.mapreduce, some (.top 1), [.top 0],
         [⟨.apply, some (.sub 1 0), [.top 0]⟩,
          ⟨.join, some (.sub 1 1), [.top 0, .sub 1 0]⟩,
          ⟨.join, some (.sub 1 2), [.sub 1 1, .top 3]⟩]⟩,
       ⟨.subselect, some (.top 2), [.top 0], []⟩,
       ⟨.fetch, some (.top 3), [.top 2], []⟩], .top 1) := by decide

theorem C09_regress_unrepaired_1 : ¬ C09_body (planJoin false w1 false []) [] := by decide
theorem C09_regress_unrepaired_2 : ¬ C09_body (planJoin false w1 true []) [] := by decide
theorem C09_regress_unrepaired_3 : ¬ C09_body (planJoin false w3 false []) [] := by decide

/-- the LIVE variant on the same input: the partition is closed before the second table is fetched; the join of the
partition result with that table is an ordinary last step (this is the plan the real planner returns today) -/
theorem C09_regress_repaired_plan :
    (planJoin true w1 false [] []).toOption = some (
      [⟨.fetch, some (.top 0), [], []⟩,
       ⟨.mapreduce, some (.top 1), [.top 0],
         [⟨.apply, some (.sub 1 0), [.top 0]⟩,
          ⟨.join, some (.sub 1 1), [.top 0, .sub 1 0]⟩]⟩,
       ⟨.subselect, some (.top 2), [.top 0], []⟩,
       ⟨.fetch, some (.top 3), [.top 2], []⟩,
       ⟨.join, some (.top 4), [.top 1, .top 3], []⟩], .top 4) := by decide

theorem C09_regress_repaired_1 : C09_body (planJoin true w1 false []) [] := by decide
theorem C09_regress_repaired_3 : C09_body (planJoin true w3 false []) [] := by decide

/-- these inputs are exactly in the class excluded from `C09_join_unrepaired` -/
example : noFallThrough false (seqOf w1) = false := by decide
example : noFallThrough false (seqOf w3) = false := by decide

/-! ### non-vacuity / concrete instances of the skeleton language -/

/-- `t JOIN m1 JOIN m2 USING partition_size=N` (tests/test_planner/test_join_predictor.py::test_partition) -/
def ok1 : Sel := .joinTables (.jJoin (.jJoin (.jTable false [] []) (.jModel false true)) (.jModel false true)) true []

/-- `with c as (…) select …, (select …) from c join t2 on c.id = t2.id join (select … from a join m) s where c.x = (select …)` -/
def ok2 : Sel :=
  .bind (.table false []) (.bind (.table false []) (.bind (.table false [])
    (.joinTables (.jJoin (.jJoin (.jTable true [] [2, 0]) (.jTable false [0] []))
        (.jSub true (.joinTables (.jJoin (.jTable false [] []) (.jModel false false)) false []))) true [1, 0])))

/-- `insert into t (select * from a union select * from (select * from m where x = 1))` -/
def ok3 : Stmt := .insertSelect (.union (.table false []) (.fromSelect (.predictor false [] true []) true))

example : ((den false ok1 []).1 []).toOption.map (fun r => r.1.length) = some 3 := by decide
example : ((den true ok2 []).1 []).toOption.map (fun r => (r.1.length, r.2)) = some (13, .top 12) := by decide
example : ((fromQuery true ok3) []).toOption.map (fun r => (r.1.length, r.2)) = some (5, .top 4) := by decide
example : TreeOK 0 (den false ok1 []).2 := (den_good ok1 [] 0 rfl).2
example : noFallThrough false (seqOf (den false
    (.jJoin (.jJoin (.jTable false [] []) (.jModel false true)) (.jModel false true)) []).2) = true := by decide

/-- `model JOIN table ON table.k = 1 [LIMIT n]` (the model written first): the two operands are swapped
(`swapModelFirst`), the table is fetched first, then the model is applied and joined -/
def ok4 : Sel := .joinTables (.jJoin (.jModel false false) (.jTable false [0] [])) true []

example : ((den true ok4 []).1 []).toOption =
    some ([⟨.fetch, some (.top 0), [], []⟩, ⟨.apply, some (.top 1), [.top 0], []⟩,
           ⟨.join, some (.top 2), [.top 0, .top 1], []⟩, ⟨.query, some (.top 3), [.top 2], []⟩], .top 3) := by decide
/-- with three operands a model written first is `NotImplementedError` ("Predictor can't be first element of join syntax") -/
example : ((den true (.joinTables (.jJoin (.jJoin (.jModel false false) (.jTable false [] [])) (.jTable false [] [])) false []) []).1 []
    ).toOption = none := by decide

/-- `add_step` keeps a truthy `step_num`: re-adding a numbered step breaks the numbering (model-level
observation; no planner path does this today) -/
example : stepsOK 0 (addStep [⟨.fetch, some (.top 0), [], []⟩] ⟨.fetch, some (.top 5), [], []⟩) = false := by decide

/-! ### [review] non-vacuity of the remaining hypotheses -/

-- [review] non-vacuity of `C09_error_class`: `w3` (a sub-select operand whose planner never raises) meets `OperandNoInt`
example : leavesAll OperandNoInt w3 := ⟨⟨trivial, trivial⟩, fun _ => trivial⟩

example : match planJoinTables false w3 [] with | .ok _ => True | .error e => IsUserErr e :=
  C09_error_class false w3 [] ⟨⟨trivial, trivial⟩, fun _ => trivial⟩

-- [review] non-vacuity of `C09_cte_lookup` with a non-empty dictionary: `WITH ab AS (…) … FROM ab`, keys as written
example : C09_body (planTableRef CteKeys.exact (cteStore CteKeys.exact [] [97, 98] (.top 0)) [97, 98] [])
    [⟨.fetch, some (.top 0), [], []⟩] :=
  C09_cte_lookup CteKeys.exact (fun _ => rfl) _ [97, 98] [] _ rfl
    (by intro key r h; simp [cteStore, CteKeys.exact] at h; obtain ⟨_, rfl⟩ := h; decide) rfl

-- … and the step it emits is a SubSelectStep on the CTE result
example : (planTableRef CteKeys.exact (cteStore CteKeys.exact [] [97, 98] (.top 0)) [97, 98] []
    [⟨.fetch, some (.top 0), [], []⟩]).toOption =
    some ([⟨.fetch, some (.top 0), [], []⟩, ⟨.subselect, some (.top 1), [.top 0], []⟩], .top 1) := by decide

-- [review] `C09_add_step` instantiated: a fresh map-reduce step with one sub-step referencing step 0
example : stepsOK 0 (addStep [⟨.fetch, some (.top 0), [], []⟩]
      ⟨.mapreduce, none, [.top 0], [⟨.apply, some (.sub 1 0), [.top 0]⟩]⟩) = true
    ∧ (addStep [⟨.fetch, some (.top 0), [], []⟩]
      ⟨.mapreduce, none, [.top 0], [⟨.apply, some (.sub 1 0), [.top 0]⟩]⟩).length = 2 :=
  C09_add_step _ _ rfl (Or.inl rfl) (by decide) (by decide)

/-! ### round 5 / 6: catalog record SHAPES (`Model/Catalog.lean`) -/

/-- the total-function property of the catalog look-ups for variant `fx` of the code: for every predictor-metadata
record `r` of the documented domain (`integration_name` absent, `None` or the project's name; every other key absent or
holding ANY value), in every metadata form, for every catalog-sensitive statement and from every well-formed plan,
`QueryPlanner(…)` + planning returns a well-formed plan or raises a user-level error -/
def C09_catalog_full (fx : CatFix) : Prop :=
  ∀ (form : Form) (proj pns : Name) (r : Rec) (q : CQ) (plan : List Step),
    lowerName pns = lowerName proj → NsOK proj r = true → stepsOK 0 plan = true →
    C09_body (planCat fx form proj pns r q) plan

/-- every variant of the code, on the records that meet the restrictions the variant still has -/
theorem C09_catalog (fx : CatFix) (form : Form) (proj pns : Name) (r : Rec) (q : CQ) (plan : List Step)
    (hp : lowerName pns = lowerName proj) (hns : NsOK proj r = true) (hs : ShapeOK fx form r = true)
    (hok : stepsOK 0 plan = true) : C09_body (planCat fx form proj pns r q) plan :=
  body_of_good (planCat_good fx form proj pns r q hp hns hs) plan (Nat.zero_le _) hok

/-- **the code as it is: the catalog look-ups are total on the whole documented domain** -/
theorem C09_catalog_total : C09_catalog_full CatFix.live :=
  fun form proj pns r q plan hp hns hok => C09_catalog CatFix.live form proj pns r q plan hp hns rfl hok

/-- an integration given as a dict: the constructor's `type` read, then a statement shipped whole -/
theorem C09_integration (fx : CatFix) (r : IRec) (plan : List Step) (h : (fx.itype || (r.get .type).isSome) = true)
    (hok : stepsOK 0 plan = true) : C09_body (planIntegration fx r) plan :=
  body_of_good (planIntegration_good fx r h) plan (Nat.zero_le _) hok

/-- the code as it is: every integration dict -/
theorem C09_integration_total (r : IRec) (plan : List Step) (hok : stepsOK 0 plan = true) :
    C09_body (planIntegration CatFix.live r) plan := C09_integration CatFix.live r plan rfl hok

/-- **History (former code)**: C09 held on the records of the shape the happy path expected (`ShapeOK CatFix.former`: a
string / defaulted namespace; a time-series model has a string `order_by_column`, a present sized `group_by_columns`, a
present `window`; `to_predict` is absent, `None`, a string or a non-empty list) -/
theorem C09_catalog_former (form : Form) (proj pns : Name) (r : Rec) (q : CQ) (plan : List Step)
    (hp : lowerName pns = lowerName proj) (hns : NsOK proj r = true) (hs : ShapeOK CatFix.former form r = true)
    (hok : stepsOK 0 plan = true) : C09_body (planCat CatFix.former form proj pns r q) plan :=
  C09_catalog CatFix.former form proj pns r q plan hp hns hs hok

/-- `"proj"`, `"t"`, `"g"`, `"y"` -/
def nProj : Name := [112, 114, 111, 106]
def nT : Name := [116]
def nG : Name := [103]
def nY : Name := [121]

/-- `SELECT * FROM int1.tab1 ta JOIN proj.m tb WHERE ta.t > LATEST` -/
def qLatest : CQ := .modelJoin ⟨nT, .latest, none, false, true, false⟩
/-- `SELECT * FROM int1.tab1 a JOIN proj.m b` -/
def qPlain : CQ := .modelJoin ⟨nT, .none, none, false, true, false⟩

/-- a complete time-series record -/
def recTS : Rec := [(.integrationName, .str nProj), (.timeseries, .bool true), (.orderBy, .str nT),
  (.groupBy, .strs [nG]), (.window, .num 5)]

/-! regression theorems: the FORMER code (KF-C09-8 … 11, fixed by e4d7787, 08911cf, d8a610a, 88dbd1a) vs the live code -/

def r5_1 : Rec := [(.integrationName, .str nProj), (.timeseries, .bool true), (.orderBy, .str nT), (.groupBy, .strs [nG])]
def r5_1b : Rec := [(.timeseries, .bool true), (.orderBy, .null), (.groupBy, .strs [nG]), (.window, .num 5)]
def r5_1c : Rec := [(.timeseries, .bool true), (.orderBy, .str nT), (.groupBy, .bool false), (.window, .num 5)]
def r5_2 : Rec := [(.integrationName, .str nProj), (.toPredict, .strs [])]

/-- KF-C09-8 (former code): a time-series model whose record has no `window` → `KeyError` -/
theorem C09_regress_r5_1 : ¬ C09_body (planCat CatFix.former .list nProj nProj r5_1 qLatest) [] := by decide
/-- KF-C09-8 (former code): `order_by_column: None` → `AttributeError`; `group_by_columns: False` → `TypeError`;
`timeseries: 1` on a record without any setting → `KeyError` -/
theorem C09_regress_r5_1b : ¬ C09_body (planCat CatFix.former .legacy nProj nProj r5_1b qLatest) [] := by decide
theorem C09_regress_r5_1c : ¬ C09_body (planCat CatFix.former .list nProj nProj r5_1c qLatest) [] := by decide
theorem C09_regress_r5_1d : ¬ C09_body (planCat CatFix.former .list nProj nProj [(.timeseries, .num 1)] qPlain) [] := by decide
/-- KF-C09-9 (former code): a model that reports no target (`to_predict: []`) joined with a table → `AttributeError` -/
theorem C09_regress_r5_2 : ¬ C09_body (planCat CatFix.former .list nProj nProj r5_2 qPlain) [] := by decide
/-- KF-C09-10 (former code): `integration_name: None` (list form) → `AttributeError` in the constructor; a dotted legacy
name without `integration_name` → `KeyError` -/
theorem C09_regress_r5_3 : ¬ C09_body (planCat CatFix.former .list nProj nProj [(.integrationName, .null)] qPlain) [] := by decide
theorem C09_regress_r5_3b : ¬ C09_body (planCat CatFix.former .dotted nProj nProj [] (.modelSelect false true)) [] := by decide
/-- KF-C09-11 (former code): an integration dict without `type` → `KeyError` in the constructor -/
theorem C09_regress_r5_4 : ¬ C09_body (planIntegration CatFix.former [(.classType, .str [115, 113, 108])]) [] := by decide

/-- hence the former code did NOT have the total-function property (it had on `ShapeOK`: `C09_catalog_former`) -/
theorem C09_regress_catalog_former_not_full : ¬ C09_catalog_full CatFix.former :=
  fun h => C09_regress_r5_2 (h .list nProj nProj _ qPlain [] rfl (by decide) rfl)

/-- the LIVE code on the same inputs: a user-level error (settings refused) or a plan -/
theorem C09_regress_r5_live :
    (planCat CatFix.live .list nProj nProj r5_1 qLatest [] = .error (.planning "no window setting")) ∧
    C09_body (planCat CatFix.live .legacy nProj nProj r5_1b qLatest) [] ∧
    C09_body (planCat CatFix.live .list nProj nProj r5_1c qLatest) [] ∧
    C09_body (planCat CatFix.live .list nProj nProj [(.timeseries, .num 1)] qPlain) [] ∧
    ((planCat CatFix.live .list nProj nProj r5_2 qPlain []).toOption.map (fun r => (r.1.length, r.2)) = some (3, .top 2)) ∧
    C09_body (planCat CatFix.live .list nProj nProj [(.integrationName, .null)] qPlain) [] ∧
    ((planCat CatFix.live .dotted nProj nProj [] (.modelSelect false true) []).toOption.map (fun r => (r.1.length, r.2)) = some (1, .top 0)) ∧
    C09_body (planIntegration CatFix.live [(.classType, .str [115, 113, 108])]) [] := by
  refine ⟨rfl, ?_, ?_, ?_, ?_, ?_, ?_, ?_⟩ <;> decide

/-- `group_by_columns: None` describes an ungrouped time-series model — in BOTH variants it reads as "no groups" (the
seeded change C09_10 broke exactly this; the stream `catalog` compares it on every run) -/
example : (tsSettings CatFix.live ((.groupBy, .null) :: recTS)).toOption = some ⟨nT, []⟩ := by decide
example : (tsSettings CatFix.former ((.groupBy, .null) :: recTS)).toOption = some ⟨nT, []⟩ := by decide
/-- … and the plan is the ungrouped one: fetch, apply, join -/
example : ((planCat CatFix.live .list nProj nProj ((.groupBy, .null) :: recTS) qLatest) []).toOption =
    some ([⟨.fetch, some (.top 0), [], []⟩, ⟨Kind.applyTS, some (.top 1), [.top 0], []⟩,
           ⟨.join, some (.top 2), [.top 1, .top 0], []⟩], .top 2) := by decide
/-- the grouped record: partitions, map-reduce, apply, join -/
example : ((planCat CatFix.live .list nProj nProj recTS qLatest) []).toOption.map (fun r => (r.1.length, r.2)) =
    some (4, .top 3) := by decide

/-- non-vacuity: the hypotheses of `C09_catalog_total` / `C09_catalog_former` are met by the complete record -/
example : NsOK nProj recTS = true ∧ ShapeOK CatFix.former .list recTS = true := by decide
example : ShapeOK CatFix.former .dotted [(.integrationName, .str nProj), (.toPredict, .strs [nY])] = true := by decide
example : C09_body (planCat CatFix.live .list nProj nProj recTS qLatest) [] :=
  C09_catalog_total .list nProj nProj recTS qLatest [] rfl (by decide) rfl

/-! ### round 6: per-model `USING <alias>.partition_size = n` (`Model/PlanSizes.lean`) -/

/-- **the sizes are not consulted** (the code as it is): for every size assignment, join tree, clause set and plan, the join
planner with per-model partition sizes is the join planner of `Model/Plan.lean` — a partitionable step joins the open
partition whatever size it asks for; with no partition open only `partition_size is not None` matters -/
theorem C09_sizes_not_consulted (sizes : Nat → Nat) (t : JT) (wrap : Bool) (params : List SNum) :
    planJoinZ .joinOpen sizes t wrap params = planJoin true t wrap params := planJoinZ_joinOpen sizes t wrap params

/-- **T9.2 with per-model USING options**: every join tree × every size assignment (any number of models, equal or
different sizes, any number of partitions in the plan) -/
theorem C09_join_sizes (sizes : Nat → Nat) (t : JT) (wrap : Bool) (params : List SNum) (plan : List Step)
    (hok : stepsOK 0 plan = true) (ht : TreeOK plan.length t) (hp : params.all (refOKTop plan.length) = true) :
    C09_body (planJoinZ .joinOpen sizes t wrap params) plan := by
  rw [C09_sizes_not_consulted]; exact C09_join t wrap params plan hok ht hp

/-- `t JOIN m1 b JOIN m2 c USING b.partition_size = 10, c.partition_size = 20` -/
def w2m : JT := .join (.join (.leaf (.table false [] [])) (.leaf (.predictor false true))) (.leaf (.predictor false true))

/-- the live code: one partition holds both models -/
example : (planJoinZ .joinOpen (sizesOf [0, 10, 20]) w2m false [] []).toOption = some (
    [⟨.fetch, some (.top 0), [], []⟩,
     ⟨.mapreduce, some (.top 1), [.top 0],
       [⟨.apply, some (.sub 1 0), [.top 0]⟩, ⟨.join, some (.sub 1 1), [.top 0, .sub 1 0]⟩,
        ⟨.apply, some (.sub 1 2), [.sub 1 1]⟩, ⟨.join, some (.sub 1 3), [.sub 1 1, .sub 1 2]⟩]⟩], .top 1) := by decide

/-- HYPOTHETICAL (seeded change C09_11, not live code): a second partition is opened for the model with another size, but its
step — built before the close — and the new `MapReduceStep` keep `Result('1_1')`, a sub-result of the closed partition -/
theorem C09_split_stale_plan : (planJoinZ .splitStale (sizesOf [0, 10, 20]) w2m false [] []).toOption = some (
    [⟨.fetch, some (.top 0), [], []⟩,
     ⟨.mapreduce, some (.top 1), [.top 0],
       [⟨.apply, some (.sub 1 0), [.top 0]⟩, ⟨.join, some (.sub 1 1), [.top 0, .sub 1 0]⟩]⟩,
     ⟨.mapreduce, some (.top 2), [.sub 1 1],
       [⟨.apply, some (.sub 2 0), [.sub 1 1]⟩, ⟨.join, some (.sub 2 1), [.top 1, .sub 2 0]⟩]⟩], .top 2) := by decide

theorem C09_split_stale_witness : ¬ C09_body (planJoinZ .splitStale (sizesOf [0, 10, 20]) w2m false []) [] := by decide

/-- the same feature with the step re-read from the stack after the close is well formed (two partitions in one plan) -/
example : C09_body (planJoinZ .splitFresh (sizesOf [0, 10, 20]) w2m false []) [] := by decide
/-- equal sizes: the hypothetical variants do what the live code does -/
example : (planJoinZ .splitStale (sizesOf [0, 10, 10]) w2m false [] []).toOption =
    (planJoinZ .joinOpen (sizesOf [0, 10, 10]) w2m false [] []).toOption := by decide
/-- non-vacuity of `C09_join_sizes` -/
example : C09_body (planJoinZ .joinOpen (sizesOf [0, 10, 20]) w2m true []) [] :=
  C09_join_sizes _ w2m true [] [] rfl ⟨⟨rfl, trivial⟩, trivial⟩ rfl

end MindsVerif.Props.C09
