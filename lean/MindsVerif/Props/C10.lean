import MindsVerif.Lemmas.RouteInfo
import MindsVerif.Lemmas.RouteModel
import MindsVerif.Lemmas.RouteNorm
/-!
# C10 — every table and model is routed to the place its name resolves to

Model: `MindsVerif/Model/Route.lean` — the constructor's normalisation, `resolve_database_table` (`resolveSimple`) and
`PlanJoinTablesQuery.resolve_table` (`resolveTable`, transcribed on its own from plan_join.py, with its aliases and
bare-name flag), `get_predictor`, `get_query_info`, both `check_single_integration`s with the CTE-capture guard,
`prepare_integration_select` over the walker's view of a tree (which children a node has, in which role and order, is
input: the harness probes / transcribes `query_traversal` and the `plan` / `strip` streams check it).
The full statement has four clauses.
* (i) `C10_resolvers`, `C10_resolvers_catalog`, `C10_resolvers_same` — proved for all inputs: the two Python resolvers
  are two functions; their independent transcriptions agree on every identifier operand (a proof by cases, since the
  models differ in shape), and a join operand is fetched from where `resolve_database_table` sends its name (under
  `defaultOk`: the default namespace is a known database — `C10_regression_6` shows why).  What `resolve_table` reports
  besides: `C10_resolve_table_bare`, `C10_resolve_table_aliases`, `C10_resolve_table_sub`.
* (ii) `C10_partial_pushdown` under `skipLeafOnly` (checked on every generated tree at run time; `C10_pushdown_full_false`
  is about arbitrary `Node` trees: `C10_regression_3`).
* (iii) `C10_partial_stripped`, `C10_stripped_exact` (`C10_witness_5`: a doubled qualifier keeps one — by design).
* (iv) `C10_model_join` (namespace = database the name resolves to; follows from (i)'s agreement) and the link to the
  record: `C10_model_join_project`, `C10_model_join_project_default`; `C10_model_version`, `_noversion`, `_case`,
  `C10_model_step_simple`; `C10_model_no_hidden_state` / `_versions_independent` hold by construction of the model
  (a `map`) and are tied to the code by the `predseq` stream.
* the 'dbt' source of a time-series model inside CREATE TABLE / INSERT / UPDATE..FROM (`dbtSource`): `C10_partial_dbt`,
  `C10_dbt_project_source`, `C10_dbt_plain` (any letter case of the qualifier); `C10_witness_dbt` / `C10_dbt_full_false`
  (unqualified source: open, by design); `C10_regression_dbt` (qualifier compared as written, before 18f6c71).
* T10.1 `C10_case_insensitive`, `C10_catalog_*`: equality of the constructor's result for names vs dicts, letter case
  (incl. the default namespace), `None` vs `[]`, list vs legacy dict.
Regression examples (`C10_regression_*`) are about OLDER variants of the code (`resolveJoinOld`, a constructor that kept
`default_namespace` as given, a walker with unvisited slots); every finding they document is repaired in /repo.
-/
namespace MindsVerif.Props.C10
open MindsVerif.Route

/-! ## statements -/

/-- (i) a join operand is fetched from where `resolve_database_table` sends its name -/
def C10_resolvers_full : Prop :=
  ∀ (c : Catalog) (parts : List Name), defaultOk c = true → parts ≠ [] →
    routeJoinOperand c parts = routeSimple c parts

/-- where a table reference of a query pushed to `i` may legitimately live: in `i`, or it is a CTE name
(`skip = true`: `get_query_info` since 0e75382 does not resolve bare CTE names at all; `false`: before) -/
def belongs (skip : Bool) (c : Catalog) (ctes : List Name) (i : Name) (parts : List Name) : Prop :=
  (skip = true ∧ isCteRef ctes parts = true) ∨
  ∃ integ rest, resolveSimple c parts = some (integ, rest) ∧
    ((integ = i ∧ i ∉ c.projects) ∨ (integ ∈ c.projects ∧ skip = false ∧ joinDots parts ∈ ctes))

/-- (ii) a query pushed down whole mentions no table that belongs elsewhere -/
def C10_pushdown_full : Prop :=
  ∀ (skip : Bool) (names : List Name) (c : Catalog) (ctes : List Name) (q : Node) (steps : List Step),
    planTop skip names c ctes q = some steps →
    ∃ i, steps = [.fetch i (strip i names .noFrom .arg q)] ∧ ∀ parts ∈ allTables .arg q, belongs skip c ctes i parts

/-- (iii) after `prepare_integration_select db` no identifier the walker visits is still qualified by `db` -/
def C10_stripped_full : Prop :=
  ∀ (db : Name) (names : List Name) (par : Par) (s : Slot) (n : Node),
    ∀ y ∈ visitedIdents s (strip db names par s n), qualifiedBy db y.1 y.2.1 = false

/-- (iv) a model in a join gets the namespace its name resolves to, the rest of the name (with version) kept -/
def C10_model_join_full : Prop :=
  ∀ (c : Catalog) (parts : List Name),
    predictorStepJoin c parts = (if isPredictor c parts then resolveSimple c parts else none)

def C10_full : Prop := C10_resolvers_full ∧ C10_pushdown_full ∧ C10_stripped_full ∧ C10_model_join_full

/-- what is proved of `C10_full`: (i) and (iv) outright, (ii) and (iii) in the `_partial` forms below -/
def C10_proved : Prop := C10_resolvers_full ∧ C10_model_join_full

/-! ## T10.1 -/

/-- `resolve_database_table` depends only on the lower-cased parts: same database, same table path up to case -/
theorem C10_case_insensitive (c : Catalog) (a b : List Name) (h : a.map lower = b.map lower) :
    (resolveSimple c a).map normRes = (resolveSimple c b).map normRes := resolveSimple_lower c a b h

/-- integrations given as names or as `{'name':…, 'type':'data'}` dicts (any mixture): same catalog -/
theorem C10_catalog_names_dicts (i : CatalogIn) (l : List IntegSpec) :
    mkCatalog { i with integrations := some (l.map canonSpec) } = mkCatalog { i with integrations := some l } :=
  mkCatalog_canon i l

/-- letter case of the supplied integration names does not matter -/
theorem C10_catalog_case (i : CatalogIn) (l : List IntegSpec) :
    mkCatalog { i with integrations := some (l.map lowerSpec) } = mkCatalog { i with integrations := some l } :=
  mkCatalog_lowerSpec i l

/-- letter case of `default_namespace` does not matter either (since 10d49ed) -/
theorem C10_catalog_default_case (i : CatalogIn) :
    mkCatalog { i with defaultNs := i.defaultNs.map lower } = mkCatalog i := mkCatalog_default_case i

theorem C10_catalog_none (i : CatalogIn) :
    mkCatalog { i with integrations := none } = mkCatalog { i with integrations := some [] } :=
  mkCatalog_none_nil i

/-- predictor metadata as a list of records or as the legacy dict (names without dots): same catalog -/
theorem C10_catalog_legacy_list (i : CatalogIn) (ps : List PredSpec) (h : ∀ p ∈ ps, dot ∉ p.name) :
    mkCatalog { i with preds := .legacy ps } = mkCatalog { i with preds := .list ps } :=
  mkCatalog_legacy_list i ps h

/-! ## T10.2 -/

/-- clause (i): a join operand is fetched from where `resolve_database_table` sends its name —
for every catalog whose default namespace (if any) is a known database written in lower case, and
every non-empty identifier -/
theorem C10_resolvers : C10_resolvers_full := fun c parts hd hne =>
  route_of_resolver_eq resolveJoin c parts hd hne (resolveJoin_eq_simple c parts)

/-- `resolve_table` (model `resolveTable`, written from plan_join.py: `len(parts) > 1`, `parts[0]`, `pop(0)`, the
sub-select exemption) and `resolve_database_table` (model `resolveSimple`, written from query_planner.py) are two
functions; on every identifier operand they return the same (integration, remaining parts) -/
theorem C10_resolvers_same (c : Catalog) (parts : List Name) : resolveJoin c parts = resolveSimple c parts :=
  resolveJoin_eq_simple c parts

/-- the bare-name flag of `resolve_table` (consulted by the "is it a CTE?" test since 6dae0a8) -/
theorem C10_resolve_table_bare (c : Catalog) (parts : List Name) (alias : Option (List Name)) (sub : Bool)
    (ti : TableInfo) (h : resolveTable c parts alias sub = some ti) : ti.bareName = (parts.length == 1) :=
  resolveTable_bare c parts alias sub ti h

/-- the names under which columns may refer to the operand: the alias only, or every suffix of the written name -/
theorem C10_resolve_table_aliases (c : Catalog) (parts : List Name) (alias : Option (List Name)) (sub : Bool)
    (ti : TableInfo) (h : resolveTable c parts alias sub = some ti) :
    ti.aliases = match alias with
      | some a => [a.map lower]
      | none => (List.range parts.length).map fun i => (parts.drop i).map lower :=
  resolveTable_aliases c parts alias sub ti h

/-- a sub-select operand is never refused, even without a default namespace -/
theorem C10_resolve_table_sub (c : Catalog) (parts : List Name) (alias : Option (List Name)) :
    (resolveTable c parts alias true).isSome = true := resolveTable_sub c parts alias

example : resolveTable (mkCatalog ⟨some [.nm n!"int1", .nm n!"int2"], none, .none, some n!"mindsdb"⟩) [n!"INT1", n!"s", n!"t"] none false =
    some ⟨some n!"int1", [n!"s", n!"t"], [[n!"int1", n!"s", n!"t"], [n!"s", n!"t"], [n!"t"]], false⟩ := by decide

/-- `integrations=['int1','int2'], default_namespace='mindsdb'` -/
def cat2 : Catalog := mkCatalog ⟨some [.nm n!"int1", .nm n!"int2"], none, .none, some n!"mindsdb"⟩

example : defaultOk cat2 = true := by decide

/-- regression (before b8a8b6b): `INT1.tbl1 JOIN int2.tbl2` sent the first operand to the default
namespace; now it goes to `int1` -/
theorem C10_regression_1 :
    routeJoinOperandOld cat2 [n!"INT1", n!"tbl1"] = .fetch n!"mindsdb" [n!"INT1", n!"tbl1"] ∧
    routeJoinOperand cat2 [n!"INT1", n!"tbl1"] = .fetch n!"int1" [n!"tbl1"] ∧
    routeSimple cat2 [n!"INT1", n!"tbl1"] = .fetch n!"int1" [n!"tbl1"] := by decide

/-- regression (before b8a8b6b): `int1 JOIN …` (a table of the default namespace called like an
integration) emptied the identifier -/
theorem C10_regression_2 :
    routeJoinOperandOld cat2 [n!"int1"] = .crash ∧
    routeJoinOperand cat2 [n!"int1"] = .fetch n!"mindsdb" [n!"int1"] ∧
    routeSimple cat2 [n!"int1"] = .fetch n!"mindsdb" [n!"int1"] := by decide

/-- the old resolver agreed with `resolve_database_table` exactly on `agreeClass` -/
theorem C10_old_resolver_partial (c : Catalog) (parts : List Name) (hd : defaultOk c = true) (hne : parts ≠ [])
    (h : agreeClass c parts = true) : routeJoinOperandOld c parts = routeSimple c parts :=
  route_of_resolver_eq resolveJoinOld c parts hd hne (resolveJoinOld_eq_simple c parts h)

/-- clause (i) for every catalog the constructor can build: the only hypothesis left is that the default
namespace (if any) is one of the known databases -/
theorem C10_resolvers_catalog (i : CatalogIn) (parts : List Name) (hk : defaultKnown (mkCatalog i) = true)
    (hne : parts ≠ []) : routeJoinOperand (mkCatalog i) parts = routeSimple (mkCatalog i) parts :=
  C10_resolvers (mkCatalog i) parts (defaultOk_mkCatalog i hk) hne

/-- `default_namespace='Proj'` -/
def catProj : Catalog := mkCatalog ⟨some [.nm n!"int1", .nm n!"int2"], none, .none, some n!"Proj"⟩

example : defaultKnown cat2 = true := by decide

/-- regression (before 10d49ed the constructor kept `default_namespace` as given): with 'Proj' a join
operand of the default namespace kept the namespace as a qualifier in the fetched query -/
theorem C10_regression_6 :
    routeJoinOperand { catProj with defaultNs := some n!"Proj" } [n!"t"] = .fetch n!"Proj" [n!"Proj", n!"t"] ∧
    routeJoinOperand catProj [n!"t"] = .fetch n!"proj" [n!"t"] ∧
    routeSimple catProj [n!"t"] = .fetch n!"proj" [n!"t"] := by decide

/-! ## the data source of a time-series model inside CREATE TABLE / INSERT / UPDATE..FROM (`adapt_dbt_query`) -/

/-- full statement: the workaround does not change where the source is fetched from -/
def C10_dbt_full : Prop :=
  ∀ (c : Catalog) (i : Option Name) (parts : List Name), routeSimple c (dbtSource c i parts) = routeSimple c parts

/-- a source qualified with a known database — an integration OR a project, written in ANY letter case — is left
alone, so it is fetched from where its name resolves to; in particular a view `proj.v` / `PROJ.v` is never sent to the
integration being written to -/
theorem C10_partial_dbt (c : Catalog) (i : Option Name) (p : Name) (rest : List Name) (h : lower p ∈ c.databases) :
    dbtSource c i (p :: rest) = p :: rest ∧ routeSimple c (dbtSource c i (p :: rest)) = routeSimple c (p :: rest) := by
  cases i <;> simp [dbtSource, h]

theorem C10_dbt_project_source (c : Catalog) (i : Option Name) (p : Name) (rest : List Name) (h : lower p ∈ c.projects) :
    dbtSource c i (p :: rest) = p :: rest :=
  (C10_partial_dbt c i p rest (by simp [Catalog.databases, h])).1

/-- outside CREATE TABLE / INSERT / UPDATE (no target integration) nothing is prepended -/
theorem C10_dbt_plain (c : Catalog) (parts : List Name) : dbtSource c none parts = parts := by
  cases parts <;> simp [dbtSource]

/-- the excluded class is inhabited (open finding, by design): an unqualified source is fetched from the target
integration instead of the default namespace — the documented dbt workaround -/
theorem C10_witness_dbt :
    routeSimple cat2 (dbtSource cat2 (some n!"int1") [n!"v1"]) = .fetch n!"int1" [n!"v1"] ∧
    routeSimple cat2 [n!"v1"] = .fetch n!"mindsdb" [n!"v1"] := by decide

theorem C10_dbt_full_false : ¬ C10_dbt_full := fun h => by
  have := h cat2 (some n!"int1") [n!"v1"]
  rw [C10_witness_dbt.1, C10_witness_dbt.2] at this
  exact absurd this (by decide)

/-- regression (before 18f6c71 the qualifier was compared as written): `Int1.s` got `int1` in front and was fetched as
`Int1.s`; now it is left alone and fetched as `s` -/
theorem C10_regression_dbt :
    routeSimple cat2 (dbtSourceOld cat2 (some n!"int1") [n!"Int1", n!"s"]) = .fetch n!"int1" [n!"Int1", n!"s"] ∧
    routeSimple cat2 (dbtSource cat2 (some n!"int1") [n!"Int1", n!"s"]) = .fetch n!"int1" [n!"s"] ∧
    routeSimple cat2 [n!"Int1", n!"s"] = .fetch n!"int1" [n!"s"] := by decide

example : n!"mindsdb" ∈ cat2.projects ∧
    dbtSource cat2 (some n!"int2") [n!"MindsDB", n!"view"] = [n!"MindsDB", n!"view"] := by decide

/-! ## T10.3 -/

/-- the cut removes exactly the first part; unless an identifier spells the integration name twice
in front (`int1.int1.t`, a schema named like the integration), or is a two-part column reference through an
alias / CTE called like the integration that the cut leaves alone since 1ea1207 (`keepsLocal`), nothing visited is
still qualified.  With `names = []` (the cut before 1ea1207) or `db ∉ names` the second exception is empty. -/
theorem C10_partial_stripped (db : Name) (names : List Name) (par : Par) (s : Slot) (n : Node)
    (h : ∀ x ∈ visitedIdents s n, doubleQual db x.1 x.2.1 = false ∧ keepsLocal db names x.2.2 x.1 x.2.1 = false) :
    ∀ y ∈ visitedIdents s (strip db names par s n), qualifiedBy db y.1 y.2.1 = false := by
  intro y hy
  rw [visitedIdents_strip] at hy
  obtain ⟨x, hx, rfl⟩ := List.mem_map.mp hy
  exact not_qualified_after_cutN db names x.2.2 x.1 x.2.1 (h x hx).1 (h x hx).2

/-- the special case `names = []` (no local name protects anything: the cut as it was before 1ea1207, and the cut of
the join path's per-table selects, which have no aliases equal to the integration) -/
theorem C10_partial_stripped_no_names (db : Name) (par : Par) (s : Slot) (n : Node)
    (h : ∀ x ∈ visitedIdents s n, doubleQual db x.1 x.2.1 = false) :
    ∀ y ∈ visitedIdents s (strip db [] par s n), qualifiedBy db y.1 y.2.1 = false :=
  C10_partial_stripped db [] par s n (fun x hx => ⟨h x hx, keepsLocal_of_not_mem db [] _ _ _ (by simp)⟩)

/-- the visited identifiers of the pushed query are exactly the original ones with the cut applied -/
theorem C10_stripped_exact (db : Name) (names : List Name) (par : Par) (s : Slot) (n : Node) :
    visitedIdents s (strip db names par s n) = (visitedIdents s n).map (cutId db names) :=
  visitedIdents_strip db names par s n

theorem planTop_spec (skip : Bool) (names : List Name) (c : Catalog) (ctes : List Name) (q : Node) (steps : List Step)
    (h : planTop skip names c ctes q = some steps) :
    ∃ i, checkSingle skip c ctes (visit .arg q) = some i ∧ steps = [.fetch i (strip i names .noFrom .arg q)] := by
  unfold planTop at h
  cases hc : checkSingle skip c ctes (visit .arg q) with
  | none => simp [hc] at h
  | some i => simp only [hc, Option.some.injEq] at h; exact ⟨i, rfl, h.symm⟩

/-- when only names and constants sit in slots the walker skips (CTE names, column lists, …)
a whole-query pushdown mentions only tables of the target integration (or CTE names) -/
theorem C10_partial_pushdown (skip : Bool) (names : List Name) (c : Catalog) (ctes : List Name) (q : Node)
    (steps : List Step) (hns : skipLeafOnly q = true) (h : planTop skip names c ctes q = some steps) :
    ∃ i, steps = [.fetch i (strip i names .noFrom .arg q)] ∧
      ∀ parts ∈ allTables .arg q, belongs skip c ctes i parts := by
  obtain ⟨i, hc, hs⟩ := planTop_spec skip names c ctes q steps h
  refine ⟨i, hs, ?_⟩
  intro parts hp
  rw [← allTables_eq_visit .arg q hns] at hp
  obtain ⟨it, hit, hto⟩ := List.mem_filterMap.mp hp
  obtain ⟨parts', rfl, hcase⟩ := (checkSingle_sound skip c ctes _ i hc).1 it hit
  simp only [tableOf, Option.some.injEq] at hto
  subst hto
  exact hcase

def Step.integration : Step → Name
  | .fetch i _ => i

/-- model-level witness that the hypothesis of `C10_partial_pushdown` is needed: a sub-query in a slot the
walker skips.  On the code this was `select case (select …) when …` until a58885a and
`select substring(x from (select max(a) from int2.t2)) from int1.t1` until 674e01f; with the current walker
no parser-produced tree has such a slot (`hyp:skipLeafOnly` is checked on every generated tree by
`tools/props/c10.py`), so the theorem applies to all of them. -/
def caseQuery : Node :=
  .scope (.sel false) (.cons .tbl (.ident [n!"int1", n!"t1"] false none)
    (.cons .tgt (.func false (.cons .arg (.ident [n!"x"] false none) (.cons .skip
        (.scope (.sel false) (.cons .tbl (.ident [n!"int2", n!"t2"] false none)
          (.cons .tgt (.func false (.cons .arg (.ident [n!"a"] false none) .nil)) .nil)))
        .nil))) .nil))

/-- regression / model level: on a tree with a sub-query in a skipped slot the whole query is sent to `int1` although it
mentions `int2.t2` (on the code: CASE operand until a58885a, `Function.from_arg` until 674e01f) -/
theorem C10_regression_3 :
    (planTop false [] cat2 [] caseQuery).map (·.map Step.integration) = some [n!"int1"] ∧
    [n!"int2", n!"t2"] ∈ allTables .arg caseQuery ∧
    resolveSimple cat2 [n!"int2", n!"t2"] = some (n!"int2", [n!"t2"]) := by decide

theorem C10_pushdown_full_false : ¬ C10_pushdown_full := fun h => by
  cases hp : planTop false [] cat2 [] caseQuery with
  | none => have := C10_regression_3.1; rw [hp] at this; exact absurd this (by decide)
  | some steps =>
    obtain ⟨i, hs, hall⟩ := h false [] cat2 [] caseQuery steps hp
    have h1 := C10_regression_3.1
    rw [hp, hs] at h1
    simp only [Option.map_some, List.map_cons, List.map_nil, Step.integration, Option.some.injEq,
      List.cons.injEq, and_true] at h1
    rcases hall _ C10_regression_3.2.1 with ⟨hsk, _⟩ | ⟨integ, rest, hr, hcase⟩
    · exact absurd hsk (by decide)
    · rw [C10_regression_3.2.2] at hr
      simp only [Option.some.injEq, Prod.mk.injEq] at hr
      rcases hcase with ⟨he, _⟩ | ⟨hpj, _⟩
      · rw [← hr.1, h1] at he; exact absurd he (by decide)
      · rw [← hr.1] at hpj; exact absurd hpj (by decide)

/-- the excluded class of `C10_partial_stripped` is inhabited (`int1.int1.t` keeps `int1.t`); this is
the cut removing exactly one part, not a defect -/
theorem C10_witness_5 :
    visitedIdents .tbl (strip n!"int1" [] .noFrom .tbl (.ident [n!"int1", n!"int1", n!"t"] false none)) =
      [([n!"int1", n!"t"], false, true)] := by decide

theorem C10_stripped_full_false : ¬ C10_stripped_full := fun h => by
  have := h n!"int1" [] .noFrom .tbl (.ident [n!"int1", n!"int1", n!"t"] false none) ([n!"int1", n!"t"], false, true)
    (by rw [C10_witness_5]; simp)
  exact absurd this (by decide)

example : ∀ x ∈ visitedIdents .arg caseQuery, doubleQual n!"int1" x.1 x.2.1 = false := by decide

-- [review] non-vacuity of `C10_partial_pushdown`: `select int1.t.x from INT1.s join int1.t on int1.t.id = s.id` has no
-- skipped non-leaf slot and IS pushed down whole, so the theorem's conclusion applies to it (all its tables belong to int1)
def reviewJoinQuery : Node :=
  .scope (.sel true) (.cons .tbl (.plain (.cons .tbl (.ident [n!"INT1", n!"s"] false none)
      (.cons .tbl (.ident [n!"int1", n!"t"] false none)
        (.cons .arg (.plain (.cons .arg (.ident [n!"int1", n!"t", n!"id"] false none)
          (.cons .arg (.ident [n!"s", n!"id"] false none) .nil))) .nil))))
    (.cons .tgt (.ident [n!"int1", n!"t", n!"x"] false none) .nil))

example : skipLeafOnly reviewJoinQuery = true ∧ (planTop true [] cat2 [] reviewJoinQuery).isSome = true ∧
    allTables .arg reviewJoinQuery = [[n!"INT1", n!"s"], [n!"int1", n!"t"]] := by decide

example : ∀ parts ∈ allTables .arg reviewJoinQuery, belongs true cat2 [] n!"int1" parts := by
  cases h : planTop true [] cat2 [] reviewJoinQuery with
  | none => exact absurd h (by decide)
  | some steps =>
    obtain ⟨i, hs, hall⟩ := C10_partial_pushdown true [] cat2 [] reviewJoinQuery steps (by decide) h
    have hi : i = n!"int1" := by
      have h2 : (planTop true [] cat2 [] reviewJoinQuery).map (·.map Step.integration) = some [n!"int1"] := by decide
      rw [h, hs] at h2
      simpa [Step.integration] using h2
    rw [← hi]; exact hall

/-! ## T10.4 -/

/-- a trailing all-digit part is kept as the version and the same record is found as without it -/
theorem C10_model_version (c : Catalog) (pre : List Name) (name v : Name) (hv : isDigitStr v = true) :
    getPredictor c (pre ++ [name, v]) =
      (lookupModel c (nsOf c pre.reverse) name).map fun info => ⟨info.project, name, some v⟩ :=
  getPredictor_version c pre name v hv

theorem C10_model_noversion (c : Catalog) (pre : List Name) (name : Name) (hn : isDigitStr name = false) :
    getPredictor c (pre ++ [name]) =
      (lookupModel c (nsOf c pre.reverse) name).map fun info => ⟨info.project, name, none⟩ :=
  getPredictor_noversion c pre name hn

/-- no hidden state: what a model reference resolves to (record, name as written, version) depends only on that
reference and the catalog — not on the references met before or after it in the same statement (`UNION` of
`pred.1` and `pred.2`, a CTE plus the main query, two joined sub-selects, …).  The model has this by construction;
the `predseq` stream of `tools/props/c10.py` ties it to the code: ONE real planner resolves a whole sequence and
every answer must equal the stateless model's answer for that reference alone. -/
theorem C10_model_no_hidden_state (c : Catalog) (before after : List (List Name)) (r : List Name) :
    (resolveModels c (before ++ r :: after))[before.length]? = some (getPredictor c r) := by
  simp [resolveModels]

/-- in particular two references to the same model with different versions keep their own versions -/
theorem C10_model_versions_independent (c : Catalog) (pre : List Name) (name v w : Name)
    (hv : isDigitStr v = true) (hw : isDigitStr w = true) :
    resolveModels c [pre ++ [name, v], pre ++ [name, w]] =
      [(lookupModel c (nsOf c pre.reverse) name).map fun info => ⟨info.project, name, some v⟩,
       (lookupModel c (nsOf c pre.reverse) name).map fun info => ⟨info.project, name, some w⟩] := by
  simp [resolveModels, getPredictor_version c pre name v hv, getPredictor_version c pre name w hw]

/-- simple path (`plan_select_from_predictor`, time-series join): the step's namespace is the
record's own `integration_name`, its predictor identifier is the name as written plus the version -/
theorem C10_model_step_simple (c : Catalog) (parts : List Name) (ns : Name) (ps : List Name)
    (h : predictorStepSimple c parts = some (ns, ps)) :
    ∃ v, getPredictor c parts = some v ∧ v.project = some ns ∧ ps = v.name :: v.version.toList :=
  predictorStepSimple_spec c parts ns ps h

/-- which record and which version a model reference denotes does not depend on letter case -/
theorem C10_model_case (c : Catalog) (a b : List Name) (h : a.map lower = b.map lower) :
    (getPredictor c a).map viewKey = (getPredictor c b).map viewKey := getPredictor_lower c a b h

/-- clause (iv), join path (`process_predictor`): the namespace is the database the name resolves to and
the remaining parts (name, version) are kept -/
theorem C10_model_join : C10_model_join_full := fun c parts => by
  unfold predictorStepJoin predictorStepJoinWith
  rw [resolveJoin_eq_simple c parts]

/-- T10.4, join path, the link to the record: for a catalog built by the constructor from list metadata (or a
legacy dict without dotted keys) and dot-free names, a model written `q.name[.version]` in a join gets the apply
step namespace = the record's own `integration_name` (lower-cased) and predictor = `name[.version]` -/
theorem C10_model_join_project (i : CatalogIn)
    (hpm : match i.preds with
      | .none => True
      | .list _ => True
      | .legacy ps => ∀ p ∈ ps, dot ∉ p.name)
    (q name : Name) (ver : Option Name) (hv : ∀ v, ver = some v → isDigitStr v = true)
    (hn : isDigitStr name = false) (view : PredView) (P : Name)
    (hg : getPredictor (mkCatalog i) (q :: name :: ver.toList) = some view) (hP : view.project = some P)
    (hq : dot ∉ q) (hPd : dot ∉ P) :
    predictorStepJoin (mkCatalog i) (q :: name :: ver.toList) = some (lower P, name :: ver.toList) := by
  rw [C10_model_join, show isPredictor (mkCatalog i) (q :: name :: ver.toList) = true by simp [isPredictor, hg]]
  exact model_qualified_resolves_to_project _ (wfPreds_mkCatalog i hpm) q name ver hv hn view P hg hP hq hPd

/-- the same for a bare `name[.version]` under a dot-free default namespace -/
theorem C10_model_join_project_default (i : CatalogIn)
    (hpm : match i.preds with
      | .none => True
      | .list _ => True
      | .legacy ps => ∀ p ∈ ps, dot ∉ p.name)
    (d name : Name) (ver : Option Name) (hd : i.defaultNs = some d) (hdd : dot ∉ d)
    (hv : ∀ v, ver = some v → isDigitStr v = true ∧ lower name ∉ (mkCatalog i).databases)
    (hn : isDigitStr name = false) (view : PredView) (P : Name)
    (hg : getPredictor (mkCatalog i) (name :: ver.toList) = some view) (hP : view.project = some P)
    (hPd : dot ∉ P) :
    predictorStepJoin (mkCatalog i) (name :: ver.toList) = some (lower P, name :: ver.toList) := by
  rw [C10_model_join, show isPredictor (mkCatalog i) (name :: ver.toList) = true by simp [isPredictor, hg]]
  have hdn : (mkCatalog i).defaultNs = some (lower d) := by simp [mkCatalog, hd]
  exact model_unqualified_resolves_to_project _ (wfPreds_mkCatalog i hpm) (lower d) name ver hdn (lower_idem d) hv hn
    view P hg hP (fun h => hdd ((dot_mem_lower d).mp h)) hPd

/-- `integrations=['int1','int2'], default_namespace='proj', predictor_metadata=[{'name':'pred','integration_name':'mindsdb'}]` -/
def catP : Catalog :=
  mkCatalog ⟨some [.nm n!"int1", .nm n!"int2"], none, .list [⟨n!"pred", some n!"mindsdb"⟩], some n!"proj"⟩

/-- regression (before b8a8b6b): `… JOIN MINDSDB.pred.3` applied the model in namespace `proj` with
predictor `MINDSDB.pred.3`; now `mindsdb` / `pred.3` as on the simple path -/
theorem C10_regression_4 :
    predictorStepJoinOld catP [n!"MINDSDB", n!"pred", n!"3"] = some (n!"proj", [n!"MINDSDB", n!"pred", n!"3"]) ∧
    predictorStepJoin catP [n!"MINDSDB", n!"pred", n!"3"] = some (n!"mindsdb", [n!"pred", n!"3"]) ∧
    predictorStepSimple catP [n!"MINDSDB", n!"pred", n!"3"] = some (n!"mindsdb", [n!"pred", n!"3"]) := by decide

example : isPredictor catP [n!"mindsdb", n!"pred", n!"3"] = true := by decide

theorem C10_main : C10_proved := ⟨C10_resolvers, C10_model_join⟩

/-! ## Round 6 — the join planner's own pushdown site; the case-mapping as a parameter

`PlanJoin.check_single_integration` takes its decision from the same `get_query_info` but has no user-function test:
whatever the walker callback of `get_query_info` does not see (a sub-query on another integration, or on a model,
written inside an argument of `project.fn(…)` / `llm(…)`, a CASE, a cast, a window specification …) is shipped with a
join of tables of one integration.  The theorems below are about the COMPLETE visit log (`visit`); the `plan` stream
ties `visit` to what the live `find_objects` collects (`query_info`, `singleJoin`) on trees that nest foreign tables and
models at every expression position. -/

/-- clause (ii) for the join site, for every case-mapping `n` used by the resolver: when only names and constants sit
in slots the walker skips, a join sent whole to `i` mentions only tables of `i` (or CTE names) — user functions or not -/
theorem C10_pushdown_join (n : Norm) (c : Catalog) (ctes : List Name) (q : Node) (i : Name)
    (hns : skipLeafOnly q = true) (h : checkSingleJoinG n c ctes (visit .arg q) = some i) :
    ∀ parts ∈ allTables .arg q, belongsG n c ctes i parts := by
  intro parts hp
  rw [← allTables_eq_visit .arg q hns] at hp
  obtain ⟨it, hit, hto⟩ := List.mem_filterMap.mp hp
  cases it with
  | table p =>
    simp only [tableOf, Option.some.injEq] at hto; subst hto
    exact (checkSingleJoinG_sound n c ctes _ i h).1 _ hit
  | native => simp [tableOf] at hto
  | udf => simp [tableOf] at hto

/-- the same in the vocabulary of `Model/Route.lean` (`lower`, the code as it is: `skip = true`) -/
theorem C10_partial_pushdown_join (c : Catalog) (ctes : List Name) (q : Node) (i : Name)
    (hns : skipLeafOnly q = true) (h : checkSingleJoin true c ctes (visit .arg q) = some i) :
    ∀ parts ∈ allTables .arg q, belongs true c ctes i parts := by
  intro parts hp
  rw [← checkSingleJoinG_lower] at h
  rcases C10_pushdown_join lower c ctes q i hns h parts hp with hc | ⟨rest, hr, hpj⟩
  · exact Or.inl ⟨rfl, hc⟩
  · rw [resolveSimpleG_lower] at hr
    exact Or.inr ⟨i, rest, hr, Or.inl ⟨rfl, hpj⟩⟩

/-- `select myproj.fn(a.x, (select max(y) from int2.u)) from int1.a join int1.b on a.id = b.id` -/
def udfJoinQuery : Node :=
  .scope (.sel true) (.cons .tbl (.plain (.cons .tbl (.ident [n!"int1", n!"a"] false none)
      (.cons .tbl (.ident [n!"int1", n!"b"] false none)
        (.cons .arg (.plain (.cons .arg (.ident [n!"a", n!"id"] false none)
          (.cons .arg (.ident [n!"b", n!"id"] false none) .nil))) .nil))))
    (.cons .tgt (.func true (.cons .arg (.ident [n!"a", n!"x"] false none)
      (.cons .arg (.scope (.sel false) (.cons .tbl (.ident [n!"int2", n!"u"] false none)
        (.cons .tgt (.func false (.cons .arg (.ident [n!"y"] false none) .nil)) .nil))) .nil))) .nil))

/-- the class of the round-6 change, at model level: a `find_objects` that stops descending at user-defined functions
(`visitStop`) makes the JOIN site send the whole query to `int1` although it mentions `int2.u`; the top-level site is
not affected (it refuses any query with a user function); on the complete visit log neither site pushes -/
theorem C10_witness_udf_stop :
    checkSingleJoin true cat2 [] (visitStop .arg udfJoinQuery) = some n!"int1" ∧
    checkSingle true cat2 [] (visitStop .arg udfJoinQuery) = none ∧
    checkSingleJoin true cat2 [] (visit .arg udfJoinQuery) = none ∧
    skipLeafOnly udfJoinQuery = true ∧
    [n!"int2", n!"u"] ∈ allTables .arg udfJoinQuery ∧
    resolveSimple cat2 [n!"int2", n!"u"] = some (n!"int2", [n!"u"]) := by decide

/-- so the conclusion of `C10_partial_pushdown_join` fails for a decision taken on an incomplete visit log -/
theorem C10_pushdown_needs_complete_log :
    ¬ (∀ parts ∈ allTables .arg udfJoinQuery, belongs true cat2 [] n!"int1" parts) := fun h => by
  rcases h _ C10_witness_udf_stop.2.2.2.2.1 with ⟨_, hc⟩ | ⟨integ, rest, hr, hcase⟩
  · exact absurd hc (by decide)
  · rw [C10_witness_udf_stop.2.2.2.2.2] at hr
    simp only [Option.some.injEq, Prod.mk.injEq] at hr
    rcases hcase with ⟨he, _⟩ | ⟨hpj, _⟩
    · rw [← hr.1] at he; exact absurd he (by decide)
    · rw [← hr.1] at hpj; exact absurd hpj (by decide)

-- non-vacuity of `C10_partial_pushdown_join`: a join of two int1 tables with a user function over int1 columns only
def udfJoinOk : Node :=
  .scope (.sel true) (.cons .tbl (.plain (.cons .tbl (.ident [n!"int1", n!"a"] false none)
      (.cons .tbl (.ident [n!"INT1", n!"b"] false none) .nil)))
    (.cons .tgt (.func true (.cons .arg (.ident [n!"a", n!"x"] false none) .nil)) .nil))

example : checkSingleJoin true cat2 [] (visit .arg udfJoinOk) = some n!"int1" ∧ skipLeafOnly udfJoinOk = true ∧
    checkSingle true cat2 [] (visit .arg udfJoinOk) = none := by decide

/-- T10.1/T10.3 with the case-mapping as a parameter: when the resolver and the cut use the SAME function `n` — whatever
it is — a table is fetched from the database its name resolves to under the path the resolver left over -/
theorem C10_norm_route (n : Norm) (c : Catalog) (hd : defaultKnown c = true) (parts : List Name) (db : Name)
    (rest : List Name) (h : resolveSimpleG n c parts = some (db, rest)) : routeSimpleG n n c parts = .fetch db rest := by
  simp only [routeSimpleG, h, cut_eq_rest n c hd parts db rest h]

/-- at `lower` this is the model of `Model/Route.lean` -/
theorem C10_norm_instance : resolveSimpleG lower = resolveSimple ∧ mkCatalogG lower = mkCatalog ∧
    stripPartsG lower = stripParts := ⟨resolveSimpleG_lower, mkCatalogG_lower, stripPartsG_lower⟩

/-- `integrations=['Straße'], default_namespace='mindsdb'` as the constructor stores it with `str.lower` -/
def catS : Catalog := mkCatalogG lower ⟨some [.nm n!"Straße"], none, .none, some n!"mindsdb"⟩

/-- two different functions diverge: the resolver (`lower`) finds `Straße.tab` in integration `straße`, a cut that
compares with full case folding (`ß ↦ ss`) does not recognise the qualifier: the table is sent as `Straße.tab` -/
theorem C10_witness_norm :
    resolveSimpleG lower catS [n!"Straße", n!"tab"] = some (n!"straße", [n!"tab"]) ∧
    routeSimpleG lower lower catS [n!"Straße", n!"tab"] = .fetch n!"straße" [n!"tab"] ∧
    routeSimpleG lower fold catS [n!"Straße", n!"tab"] = .fetch n!"straße" [n!"Straße", n!"tab"] ∧
    defaultKnown catS = true := by decide

theorem C10_norm_route_needs_same : ¬ (∀ (nr nc : Norm) (c : Catalog), defaultKnown c = true → ∀ parts db rest,
    resolveSimpleG nr c parts = some (db, rest) → routeSimpleG nr nc c parts = .fetch db rest) := fun h => by
  have := h lower fold catS C10_witness_norm.2.2.2 _ _ _ C10_witness_norm.1
  rw [C10_witness_norm.2.2.1] at this
  exact absurd this (by decide)

end MindsVerif.Props.C10
