import MindsVerif.Lemmas.RouteInfo
import MindsVerif.Lemmas.RouteSem
import MindsVerif.Lemmas.RouteNorm
/-!
# C11 — a query on one SQL integration is pushed down whole and unchanged in meaning

* T11.3 `C11_partial_decision` / `C11_decision_cte` / `C11_decision_sound`: `check_single_integration` sends the query to
  `i` (plan = exactly one fetch step for `i` holding the stripped query) whenever every item the walker visits is a
  table that `resolve_database_table` sends to the data integration `i` (SQL-capable, not files/views, no UDF, no
  native query) — since 0e75382 (`skip = true`) also bare CTE names, under any
  default namespace — and conversely, when it does, every visited item is such a table (or a CTE name).
* T11.2 `C11_names`: an identifier target keeps its output column name (an alias is added exactly when
  the bare target would otherwise be the only carrier of the name; the cut never removes the last part).
* T11.1 `C11_resolution` (full strength, no hypothesis): in the name-resolution semantics of `Model/Route.lean`
  (scopes innermost first, CTE bodies as scopes of their own, `c` / `q.c` / `db.q.c` references, ambiguity) every
  column reference of the original query that denotes something denotes exactly the same (scope depth, table
  instance, table, column) in the pushed-down query on the integration's own catalog — for the cut as the planner
  performs it since 1ea1207 / bd15793 (`names` = alias or own name of every table reference).
  `C11_resolution_exact`: equality of the whole result lists for every `names` under `okSel`;
  `C11_exactness_needs_hypothesis`: why equality needs one.  `C11_regression_1` (alias = integration name, before
  1ea1207), `C11_regression_3` (table called like the integration, before bd15793).
  `C11_main`: the names and resolution clauses are proved in full; the decision clause is `C11_partial_decision`
  (outside the class the planner deliberately does not push down since a9036e5, `C11_witness_2`).
What is **not** proved here: evaluation of whole queries (M6); T11.1 is about name resolution, the
only thing the rewrite touches.  The end-to-end statement is probed on sqlite3 by `tools/props/c11.py`.
-/
namespace MindsVerif.Props.C11
open MindsVerif.Route

/-- full statement, resolution clause, for the planner as it is (the cut is handed `names` = for every table
reference of the query its alias or, without one, its own name — 1ea1207, bd15793): every column reference of the
original query that denotes something (or is ambiguous) under the federated catalog denotes exactly the same
(scope depth, table instance, table, column) in the pushed-down query under the integration's own catalog —
for ALL queries of the `Sel` shape (any nesting, CTE bodies as scopes of their own, any table references, any
column references), no hypothesis.  Nothing is claimed for a reference that denotes nothing in the original. -/
def C11_resolution_full : Prop :=
  ∀ (db : Name) (sch : Schema) (s : Sel),
    keepsAll (resolveAll true db sch [] s) (resolveAll false db sch [] (stripSel db (aliasesOf s) s))

/-- full statement, decision clause, for the planner as it is (since 0e75382 bare CTE names are not looked at):
if everything the walker visits is a table of the data integration `i` or a CTE name, and at least one is a
table, the plan is exactly one fetch step for `i` holding the stripped query -/
def C11_decision_full : Prop :=
  ∀ (names : List Name) (c : Catalog) (ctes : List Name) (q : Node) (i : Name),
    (visit .arg q).any (counted true ctes) = true → (∀ it ∈ visit .arg q, itemFine true c ctes i it) →
    i ∉ c.projects → i ≠ n!"files" → i ≠ n!"views" → c.classType i ≠ some n!"api" →
    planTop true names c ctes q = some [.fetch i (strip i names .noFrom .arg q)]

/-- the class the planner deliberately keeps out of the pushdown since a9036e5: a qualified table reference whose last
part is also a CTE name of the query (cutting the qualifier would turn it into a reference to the CTE) -/
def captures (ctes : List Name) (q : Node) : Bool := cteCaptures ctes (visit .arg q)

/-- full statement, names clause -/
def C11_names_full : Prop :=
  ∀ (db : Name) (names : List Name) (par : Par) (s : Slot) (parts : List Name) (alias : Option (List Name)),
    outName (stripIdent db names par s parts false alias).1 (stripIdent db names par s parts false alias).2 =
      outName parts alias

def C11_full : Prop := C11_decision_full ∧ C11_names_full ∧ C11_resolution_full

/-- T11.3 for both readings of `get_query_info` (`skip = true`: the code since 0e75382): the visited items may also
be bare CTE names, as long as at least one of them is a real table; with `skip = true` this covers CTE queries
under ANY default namespace (before 0e75382 only when the default namespace was a project: `C11_regression_2`) -/
theorem C11_decision_cte (skip : Bool) (names : List Name) (c : Catalog) (ctes : List Name) (q : Node) (i : Name)
    (hne : (visit .arg q).any (counted skip ctes) = true)
    (hall : ∀ it ∈ visit .arg q, itemFine skip c ctes i it) (hi : i ∉ c.projects)
    (hf : i ≠ n!"files") (hv : i ≠ n!"views") (hapi : c.classType i ≠ some n!"api")
    (hcap : captures ctes q = false) :
    planTop skip names c ctes q = some [.fetch i (strip i names .noFrom .arg q)] := by
  simp [planTop, checkSingle_of_fine skip c ctes i _ hne hall hi hf hv hapi hcap]

/-- T11.3 (main): the decision clause outside the capture class -/
theorem C11_partial_decision (names : List Name) (c : Catalog) (ctes : List Name) (q : Node) (i : Name)
    (hne : (visit .arg q).any (counted true ctes) = true) (hall : ∀ it ∈ visit .arg q, itemFine true c ctes i it)
    (hi : i ∉ c.projects) (hf : i ≠ n!"files") (hv : i ≠ n!"views") (hapi : c.classType i ≠ some n!"api")
    (hcap : captures ctes q = false) :
    planTop true names c ctes q = some [.fetch i (strip i names .noFrom .arg q)] :=
  C11_decision_cte true names c ctes q i hne hall hi hf hv hapi hcap

/-- `WITH t AS (SELECT * FROM int1.s) SELECT * FROM t JOIN int1.t AS u …`: everything is in `int1`, yet the query is
not pushed down whole — the planner declines because `int1.t`, once cut to `t`, would be read as the CTE (a9036e5);
the full decision clause is therefore false, by design -/
theorem C11_witness_2 :
    checkSingle true (mkCatalog ⟨some [.nm n!"int1", .nm n!"int2"], none, .none, some n!"mindsdb"⟩) [n!"t"]
      [.table [n!"int1", n!"s"], .table [n!"t"], .table [n!"int1", n!"t"]] = none ∧
    checkSingle true (mkCatalog ⟨some [.nm n!"int1", .nm n!"int2"], none, .none, some n!"mindsdb"⟩) [n!"c"]
      [.table [n!"int1", n!"s"], .table [n!"c"], .table [n!"int1", n!"t"]] = some n!"int1" := by decide

/-- T11.3 as it was before 0e75382 (no CTE references among the visited items) -/
theorem C11_decision_before_0e75382 (names : List Name) (c : Catalog) (ctes : List Name) (q : Node) (i : Name)
    (hne : visit .arg q ≠ []) (hall : allResolveTo c i (visit .arg q)) (hi : i ∉ c.projects)
    (hf : i ≠ n!"files") (hv : i ≠ n!"views") (hapi : c.classType i ≠ some n!"api")
    (hcap : captures ctes q = false) :
    planTop false names c ctes q = some [.fetch i (strip i names .noFrom .arg q)] := by
  simp [planTop, checkSingle_of_single c ctes i _ hne hall hi hf hv hapi hcap]

/-- T11.3, converse: a pushdown happens only for such queries, and yields exactly one fetch step -/
theorem C11_decision_sound (skip : Bool) (names : List Name) (c : Catalog) (ctes : List Name) (q : Node)
    (steps : List Step) (h : planTop skip names c ctes q = some steps) :
    ∃ i, steps = [.fetch i (strip i names .noFrom .arg q)] ∧ (∀ it ∈ visit .arg q, pushedOk skip c ctes i it) ∧
      i ≠ n!"files" ∧ i ≠ n!"views" ∧ c.classType i ≠ some n!"api" ∧ captures ctes q = false := by
  unfold planTop at h
  cases hc : checkSingle skip c ctes (visit .arg q) with
  | none => simp [hc] at h
  | some i =>
    simp only [hc, Option.some.injEq] at h
    exact ⟨i, h.symm, checkSingle_sound skip c ctes _ i hc⟩

/-- T11.2 -/
theorem C11_names : C11_names_full := outName_stripIdent

/-- T11.1 (main, full resolution clause) -/
theorem C11_resolution : C11_resolution_full :=
  fun db sch s => resolveAll_keeps db (aliasesOf s) sch s [] (by intro sc h; simp at h) (fun _ h => h)

/-- the same when the planner hands more names to the cut (it also adds the names of CTEs nobody refers to) -/
theorem C11_resolution_names (db : Name) (names : List Name) (sch : Schema) (s : Sel)
    (h : ∀ n ∈ aliasesOf s, n ∈ names) :
    keepsAll (resolveAll true db sch [] s) (resolveAll false db sch [] (stripSel db names s)) :=
  resolveAll_keeps db names sch s [] (by intro sc h; simp at h) h

/-- what is proved of `C11_full`: the names and resolution clauses outright, the decision clause outside the
capture class (`C11_partial_decision`, `C11_witness_2`) -/
theorem C11_main : C11_names_full ∧ C11_resolution_full := ⟨C11_names, C11_resolution⟩

/-- T11.1 in the exact form (also references that denote nothing stay that way), for every `names` — the cut
before 1ea1207 is `names = []` —: under `okSel db names` (table references `[db.]t`; a two-part column reference is
qualified by the integration name only if the cut leaves it alone) the two result lists are EQUAL -/
theorem C11_resolution_exact (db : Name) (names : List Name) (sch : Schema) (s : Sel)
    (h : okSel db names s = true) :
    resolveAll false db sch [] (stripSel db names s) = resolveAll true db sch [] s :=
  resolveAll_strip db names sch s [] (by intro sc hsc; simp at hsc) h

/-- tables `t(id, x)` and `s(id, y)` -/
def sch1 : Schema := fun _ t =>
  if t = n!"t" then [n!"id", n!"x"] else if t = n!"s" then [n!"id", n!"y"] else []

/-- `select int1.x, s.y from int1.t as int1 join int1.s as s on int1.id = s.id` -/
def aliasQuery : Sel :=
  .mk [⟨[n!"int1", n!"t"], some n!"int1"⟩, ⟨[n!"int1", n!"s"], some n!"s"⟩]
      [[n!"int1", n!"x"], [n!"s", n!"y"], [n!"int1", n!"id"], [n!"s", n!"id"]] .nil .nil

/-- regression (before 1ea1207 the cut ignored aliases, `names = []`): the alias equals the integration name,
`int1.id` was cut to `id`, which is ambiguous on `int1`; with the aliases handed to the cut the query keeps its meaning
and lies inside `C11_resolution_exact` -/
theorem C11_regression_1 :
    resolveAll true n!"int1" sch1 [] aliasQuery =
      [.ok 0 0 n!"t" n!"x", .ok 0 1 n!"s" n!"y", .ok 0 0 n!"t" n!"id", .ok 0 1 n!"s" n!"id"] ∧
    resolveAll false n!"int1" sch1 [] (stripSel n!"int1" [] aliasQuery) =
      [.ok 0 0 n!"t" n!"x", .ok 0 1 n!"s" n!"y", .ambiguous, .ok 0 1 n!"s" n!"id"] ∧
    okSel n!"int1" [] aliasQuery = false ∧
    okSel n!"int1" (aliasesOf aliasQuery) aliasQuery = true ∧
    resolveAll false n!"int1" sch1 [] (stripSel n!"int1" (aliasesOf aliasQuery) aliasQuery) =
      resolveAll true n!"int1" sch1 [] aliasQuery := by decide

/-- tables `int1(id, x)` and `s(id, y)` of integration `int1` -/
def sch2 : Schema := fun _ t =>
  if t = n!"int1" then [n!"id", n!"x"] else if t = n!"s" then [n!"id", n!"y"] else []

/-- `select int1.id from int1.int1 join int1.s on …`: an UNALIASED table whose own name is the integration name -/
def tableNamedLikeDb : Sel :=
  .mk [⟨[n!"int1", n!"int1"], none⟩, ⟨[n!"int1", n!"s"], none⟩] [[n!"int1", n!"id"]] .nil .nil

/-- regression (before bd15793 the own names of unaliased tables were not among the `names`; here there is no
alias, so `names` was `[]`): `int1.id` (column of table `int1`) was cut to `id`, ambiguous on the integration; now it
keeps its meaning -/
theorem C11_regression_3 :
    resolveAll true n!"int1" sch2 [] tableNamedLikeDb = [.ok 0 0 n!"int1" n!"id"] ∧
    resolveAll false n!"int1" sch2 [] (stripSel n!"int1" [] tableNamedLikeDb) = [.ambiguous] ∧
    aliasesOf tableNamedLikeDb = [n!"int1", n!"s"] ∧
    resolveAll false n!"int1" sch2 [] (stripSel n!"int1" (aliasesOf tableNamedLikeDb) tableNamedLikeDb) =
      [.ok 0 0 n!"int1" n!"id"] := by decide

/-- `select int1.id from (select * from int1.int1) as int1 join int1.s as a …`: a DERIVED table aliased like the
integration.  For name resolution a derived table is a CTE body plus a bare reference to its alias, so its alias is among
`aliasesOf`; a planner that forgets aliases of sub-selects (names = `[a]` here) cuts `int1.id` to an ambiguous `id` -/
def derivedQuery : Sel :=
  .mk [⟨[n!"int1"], none⟩, ⟨[n!"int1", n!"s"], some n!"a"⟩] [[n!"int1", n!"id"], [n!"a", n!"y"]] .nil
    (.cons (.mk [⟨[n!"INT1", n!"int1"], none⟩] [] .nil .nil) .nil)

theorem C11_regression_4 :
    resolveAll true n!"int1" sch2 [] derivedQuery = [.ok 0 0 n!"int1" n!"id", .ok 0 1 n!"s" n!"y"] ∧
    resolveAll false n!"int1" sch2 [] (stripSel n!"int1" (aliasesOf derivedQuery) derivedQuery) =
      resolveAll true n!"int1" sch2 [] derivedQuery ∧
    resolveAll false n!"int1" sch2 [] (stripSel n!"int1" [n!"a"] derivedQuery) = [.ambiguous, .ok 0 1 n!"s" n!"y"] := by
  decide

/-- `select int1.x from int1.t` — nothing is called `int1`, the reference denotes nothing in the original, but after
the cut it denotes `t.x`: `keeps` cannot be strengthened to equality of the result lists without a hypothesis -/
def danglingQuery : Sel := .mk [⟨[n!"int1", n!"t"], none⟩] [[n!"int1", n!"x"]] .nil .nil

theorem C11_exactness_needs_hypothesis :
    resolveAll true n!"int1" sch1 [] danglingQuery = [.notFound] ∧
    resolveAll false n!"int1" sch1 [] (stripSel n!"int1" (aliasesOf danglingQuery) danglingQuery) =
      [.ok 0 0 n!"t" n!"x"] ∧
    okSel n!"int1" (aliasesOf danglingQuery) danglingQuery = false := by decide

/-- regression (before 0e75382): `WITH cte1 AS (SELECT x FROM int1.t) SELECT * FROM cte1` with
`default_namespace='proj'` (not a project) — the reference to the CTE counted as a second integration and the query was
not pushed down whole; with a project as default namespace it was; now it is in both cases (`C11_partial_decision`) -/
theorem C11_regression_2 :
    checkSingle false (mkCatalog ⟨some [.nm n!"int1", .nm n!"int2"], none, .none, some n!"proj"⟩) [n!"cte1"]
      [.table [n!"cte1"], .table [n!"int1", n!"t"]] = none ∧
    checkSingle false (mkCatalog ⟨some [.nm n!"int1", .nm n!"int2"], none, .none, some n!"mindsdb"⟩) [n!"cte1"]
      [.table [n!"cte1"], .table [n!"int1", n!"t"]] = some n!"int1" ∧
    checkSingle true (mkCatalog ⟨some [.nm n!"int1", .nm n!"int2"], none, .none, some n!"proj"⟩) [n!"cte1"]
      [.table [n!"cte1"], .table [n!"int1", n!"t"]] = some n!"int1" := by decide

/-! non-vacuity: a nested, aliased, three-part-qualified query satisfies `okSel` and is not trivial -/

/-- `with c as (select int1.x, int1.t.id from INT1.t as int1)
    select int1.t.x, a.y, (select max(INT1.t.x) from int1.s where s.id = a.id) from int1.t join int1.s as a` -/
def goodQuery : Sel :=
  .mk [⟨[n!"int1", n!"t"], none⟩, ⟨[n!"int1", n!"s"], some n!"a"⟩]
      [[n!"int1", n!"t", n!"x"], [n!"a", n!"y"]]
      (.cons (.mk [⟨[n!"int1", n!"s"], none⟩] [[n!"INT1", n!"t", n!"x"], [n!"s", n!"id"], [n!"a", n!"id"]] .nil .nil) .nil)
      (.cons (.mk [⟨[n!"INT1", n!"t"], some n!"int1"⟩] [[n!"int1", n!"x"], [n!"int1", n!"t", n!"id"]] .nil .nil) .nil)

example : okSel n!"int1" (aliasesOf goodQuery) goodQuery = true := by decide
example : resolveAll false n!"int1" sch1 [] (stripSel n!"int1" (aliasesOf goodQuery) goodQuery) =
    resolveAll true n!"int1" sch1 [] goodQuery := by decide
example : aliasesOf goodQuery = [n!"t", n!"a", n!"s", n!"int1"] := by decide
example : resolveAll true n!"int1" sch1 [] goodQuery =
    [.ok 0 0 n!"t" n!"x", .notFound,
     .ok 0 0 n!"t" n!"x", .ok 0 1 n!"s" n!"y", .ok 1 0 n!"t" n!"x", .ok 0 0 n!"s" n!"id", .ok 1 1 n!"s" n!"id"] := by
  decide

/-- non-vacuity of the decision theorem -/
def cat2 : Catalog := mkCatalog ⟨some [.nm n!"int1", .nm n!"int2"], none, .none, some n!"mindsdb"⟩
def joinQuery : Node :=
  .scope (.sel true) (.cons .tbl (.plain (.cons .tbl (.ident [n!"INT1", n!"s"] false none)
      (.cons .tbl (.ident [n!"int1", n!"t"] false none)
        (.cons .arg (.plain (.cons .arg (.ident [n!"int1", n!"t", n!"id"] false none)
          (.cons .arg (.ident [n!"s", n!"id"] false none) .nil))) .nil))))
    (.cons .tgt (.ident [n!"int1", n!"t", n!"x"] false none) .nil))

def Step.integration : Step → Name
  | .fetch i _ => i
def Step.idents : Step → List (List Name × Bool × Option (List Name))
  | .fetch _ q => allIdents q

example : (planTop true [] cat2 [] joinQuery).map (·.map Step.integration) = some [n!"int1"] := by decide
example : (planTop true [] cat2 [] joinQuery).map (·.flatMap Step.idents) =
    some [([n!"s"], false, none), ([n!"t"], false, none), ([n!"t", n!"id"], false, none),
      ([n!"s", n!"id"], false, none), ([n!"t", n!"x"], false, none)] := by decide

-- [review] non-vacuity of `C11_partial_decision` THROUGH the theorem: every hypothesis is met by `joinQuery`
example : planTop true [] cat2 [] joinQuery = some [.fetch n!"int1" (strip n!"int1" [] .noFrom .arg joinQuery)] := by
  have hv : visit .arg joinQuery = [.table [n!"INT1", n!"s"], .table [n!"int1", n!"t"]] := by decide
  refine C11_partial_decision [] cat2 [] joinQuery n!"int1" (by decide) ?_ (by decide) (by decide) (by decide)
    (by decide) (by decide)
  intro it hit
  rw [hv] at hit
  simp only [List.mem_cons, List.not_mem_nil, or_false] at hit
  rcases hit with rfl | rfl
  · exact ⟨_, rfl, Or.inr ⟨[n!"s"], by decide⟩⟩
  · exact ⟨_, rfl, Or.inr ⟨[n!"t"], by decide⟩⟩

/-! ## Round 6 — the case-mapping as a parameter; planner-made identifiers keep names exactly

`Model/RouteNorm.lean` is the model with one `Norm := Name → Name` per SITE that normalises names: constructor (`nk`),
resolver / decision (`nr`), cut (`nc`).  The law the code has to obey is that they are the same function.
`C11_norm_consistent`: that is sufficient, for EVERY function (ASCII `lower`, Python's `str.lower`, `str.casefold`, …):
the query pushed to `i` is the original in which every table reference that the decision site resolved to
(`i`, `rest`) reads exactly `rest`.  `C11_witness_norm_cut` / `_ctor`: two different functions diverge.  The tie is the
`norm` stream of `tools/props/c11.py` / `c10.py`: the real planner against this model instantiated with Python's
`str.lower` (sent along per case as a code-point table) at all three sites, on catalogs and queries with non-ASCII and
case-variant integration / project names. -/

/-- at `lower` the generic model is the model of `Model/Route.lean`: every theorem above is about its `lower` instance -/
theorem C11_norm_instance (names : List Name) (c : Catalog) (ctes : List Name) (q : Node) :
    planTopG lower lower names c ctes q = planTop true names c ctes q ∧ mkCatalogG lower = mkCatalog :=
  ⟨planTopG_lower names c ctes q, mkCatalogG_lower⟩

/-- ONE normaliser at the decision site and the cut site ⇒ consistent, at the top-level site: the plan is one fetch
step for `i`; the identifiers the walker visits in the pushed query are the original ones with the cut applied; and every
visited table identifier is a CTE name or was resolved by the decision site to (`i`, `rest`), `i` a data integration,
and reads exactly `rest` in the pushed query -/
theorem C11_norm_consistent (n : Norm) (names : List Name) (c : Catalog) (hd : defaultKnown c = true)
    (ctes : List Name) (q : Node) (steps : List Step) (h : planTopG n n names c ctes q = some steps) :
    ∃ i, steps = [.fetch i (stripG n i names .noFrom .arg q)] ∧
      visitedIdents .arg (stripG n i names .noFrom .arg q) = (visitedIdents .arg q).map (cutIdG n i names) ∧
      ∀ x ∈ visitedIdents .arg q, x.2.2 = true → x.2.1 = false →
        isCteRef ctes x.1 = true ∨
        ∃ rest, resolveSimpleG n c x.1 = some (i, rest) ∧ i ∉ c.projects ∧ (cutIdG n i names x).1 = rest := by
  unfold planTopG at h
  cases hc : checkSingleG n c ctes (visit .arg q) with
  | none => simp [hc] at h
  | some i =>
    simp only [hc, Option.some.injEq] at h
    exact ⟨i, h.symm, visitedIdents_stripG n i names .noFrom .arg q,
      pushed_tables_consistent n names c hd ctes q i (checkSingleJoinG_of_checkSingleG n c ctes _ i hc)⟩

/-- the same at the join planner's site (`PlanJoin.plan`, "send join to integration as is") -/
theorem C11_norm_consistent_join (n : Norm) (names : List Name) (c : Catalog) (hd : defaultKnown c = true)
    (ctes : List Name) (q : Node) (steps : List Step) (h : planJoinG n n names c ctes q = some steps) :
    ∃ i, steps = [.fetch i (stripG n i names .noFrom .arg q)] ∧
      visitedIdents .arg (stripG n i names .noFrom .arg q) = (visitedIdents .arg q).map (cutIdG n i names) ∧
      ∀ x ∈ visitedIdents .arg q, x.2.2 = true → x.2.1 = false →
        isCteRef ctes x.1 = true ∨
        ∃ rest, resolveSimpleG n c x.1 = some (i, rest) ∧ i ∉ c.projects ∧ (cutIdG n i names x).1 = rest := by
  unfold planJoinG at h
  cases hc : checkSingleJoinG n c ctes (visit .arg q) with
  | none => simp [hc] at h
  | some i =>
    simp only [hc, Option.some.injEq] at h
    exact ⟨i, h.symm, visitedIdents_stripG n i names .noFrom .arg q, pushed_tables_consistent n names c hd ctes q i hc⟩

/-- `integrations=['Straße'], default_namespace='mindsdb'`, stored with `str.lower` -/
def catS : Catalog := mkCatalogG lower ⟨some [.nm n!"Straße"], none, .none, some n!"mindsdb"⟩

/-- ``select * from `Straße`.tab where `Straße`.tab.a > 10`` -/
def sharpQuery : Node :=
  .scope (.sel false) (.cons .tbl (.ident [n!"Straße", n!"tab"] false none)
    (.cons .tgt (.ident [] true none)
      (.cons .arg (.plain (.cons .arg (.ident [n!"Straße", n!"tab", n!"a"] false none) (.cons .arg .leaf .nil))) .nil)))

def Step.tables : Step → List (List Name × Bool × Bool)
  | .fetch _ q => (visitedIdents .arg q).filter (·.2.2)

/-- two different functions diverge (the round-6 change: `casefold()` at the cut, `lower()` everywhere else): the
query is still sent whole to `straße`, but the qualifier is not recognised and stays on the table; with one function
at both sites — either of the two — it is removed -/
theorem C11_witness_norm_cut :
    (planTopG lower fold [n!"tab"] catS [] sharpQuery).map (·.map Step.integration) = some [n!"straße"] ∧
    (planTopG lower fold [n!"tab"] catS [] sharpQuery).map (·.flatMap Step.tables) =
      some [([n!"Straße", n!"tab"], false, true)] ∧
    (planTopG lower lower [n!"tab"] catS [] sharpQuery).map (·.flatMap Step.tables) = some [([n!"tab"], false, true)] ∧
    (planTopG fold fold [n!"tab"] (mkCatalogG fold ⟨some [.nm n!"Straße"], none, .none, some n!"mindsdb"⟩) []
        sharpQuery).map (·.flatMap Step.tables) = some [([n!"tab"], false, true)] ∧
    resolveSimpleG lower catS [n!"Straße", n!"tab"] = some (n!"straße", [n!"tab"]) ∧
    defaultKnown catS = true := by decide

/-- so `C11_norm_consistent` does not hold for two arbitrary functions: the law "same function" is needed -/
theorem C11_norm_needs_same : ¬ (∀ (nr nc : Norm) (names : List Name) (c : Catalog), defaultKnown c = true →
    ∀ (ctes : List Name) (q : Node) (steps : List Step), planTopG nr nc names c ctes q = some steps →
    ∃ i, steps = [.fetch i (stripG nc i names .noFrom .arg q)] ∧
      ∀ x ∈ visitedIdents .arg q, x.2.2 = true → x.2.1 = false → isCteRef ctes x.1 = true ∨
        ∃ rest, resolveSimpleG nr c x.1 = some (i, rest) ∧ (cutIdG nc i names x).1 = rest) := fun h => by
  cases hp : planTopG lower fold [n!"tab"] catS [] sharpQuery with
  | none => have := C11_witness_norm_cut.1; rw [hp] at this; exact absurd this (by decide)
  | some steps =>
    obtain ⟨i, hs, hall⟩ := h lower fold [n!"tab"] catS C11_witness_norm_cut.2.2.2.2.2 [] sharpQuery steps hp
    have h1 := C11_witness_norm_cut.1
    rw [hp, hs] at h1
    simp only [Option.map_some, List.map_cons, List.map_nil, Step.integration, Option.some.injEq,
      List.cons.injEq, and_true] at h1
    subst h1
    rcases hall ([n!"Straße", n!"tab"], false, true) (by decide) rfl rfl with hc | ⟨rest, hr, hcut⟩
    · exact absurd hc (by decide)
    · rw [C11_witness_norm_cut.2.2.2.2.1] at hr
      simp only [Option.some.injEq, Prod.mk.injEq, true_and] at hr
      subst hr
      exact absurd hcut (by decide)

/-- the other pair of sites: a constructor that stores names case-folded (`strasse`) while the resolver lower-cases
(`straße`): the integration is not found, the table falls to the default namespace and nothing is pushed down -/
theorem C11_witness_norm_ctor :
    planTopG lower lower [n!"tab"] (mkCatalogG fold ⟨some [.nm n!"Straße"], none, .none, some n!"mindsdb"⟩) []
      sharpQuery = none ∧
    resolveSimpleG lower (mkCatalogG fold ⟨some [.nm n!"Straße"], none, .none, some n!"mindsdb"⟩)
      [n!"Straße", n!"tab"] = some (n!"mindsdb", [n!"Straße", n!"tab"]) := by decide

-- non-vacuity of `C11_norm_consistent` THROUGH the theorem, with a normaliser that is not `lower`
example : ∃ i, planTopG fold fold [n!"tab"] (mkCatalogG fold ⟨some [.nm n!"Straße"], none, .none, some n!"mindsdb"⟩) []
    sharpQuery = some [.fetch i (stripG fold i [n!"tab"] .noFrom .arg sharpQuery)] := by
  cases hp : planTopG fold fold [n!"tab"] (mkCatalogG fold ⟨some [.nm n!"Straße"], none, .none, some n!"mindsdb"⟩) []
      sharpQuery with
  | none => exact absurd hp (by decide)
  | some steps =>
    obtain ⟨i, hs, _⟩ := C11_norm_consistent fold [n!"tab"] _ (by decide) [] sharpQuery steps hp
    exact ⟨i, by rw [hs]⟩

/-- T11.2 sharpened: the alias the planner adds to a bare identifier target is ONE part, the column's own (last) name
verbatim — dots, spaces, back-quotes and upper case included — for every normaliser of the cut -/
theorem C11_alias_exact (nc : Norm) (db : Name) (names : List Name) (parts : List Name) (l : Name)
    (h : parts.getLast? = some l) :
    (stripIdentG nc db names (.sel false) .tgt parts false none).2 = some [l] := alias_exact nc db names parts l h

/-- the path-string constructor `Identifier(name)` is the identity only on names without dots … -/
theorem C11_path_str_nodot (l : Name) (h : dot ∉ l) (hne : l ≠ []) : pathParts l = [l] := pathParts_nodot l h hne

/-- … an alias built with it for the quoted column `a.b` has two parts: the output column is called `b`, not `a.b` (and
``tab.`a.b` AS a.b`` is not even a statement) — the round-6 change `Identifier(last_part)` -/
theorem C11_witness_alias_path_str :
    pathParts n!"a.b" = [n!"a", n!"b"] ∧
    outName [n!"tab", n!"a.b"] (some (pathParts n!"a.b")) = some n!"b" ∧
    outName [n!"tab", n!"a.b"] (stripIdentG lower n!"int1" [] (.sel false) .tgt [n!"int1", n!"tab", n!"a.b"] false none).2 =
      some n!"a.b" ∧
    (stripIdentG lower n!"int1" [] (.sel false) .tgt [n!"int1", n!"tab", n!"a.b"] false none) =
      ([n!"tab", n!"a.b"], some [n!"a.b"]) := by decide

end MindsVerif.Props.C11
