import MindsVerif.Lemmas.RouteInfo
import MindsVerif.Lemmas.RouteSem
/-!
# C11 — a query on one SQL integration is pushed down whole and unchanged in meaning

* T11.3 `C11_decision` / `C11_decision_cte` / `C11_decision_sound`: `check_single_integration` sends the query to
  `i` (plan = exactly one fetch step for `i` holding the stripped query) whenever every item the walker visits is a
  table that `resolve_database_table` sends to the data integration `i` (SQL-capable, not files/views, no UDF, no
  native query) — since 0e75382 (`skip = true`) also bare CTE names, under any
  default namespace — and conversely, when it does, every visited item is such a table (or a CTE name).
* T11.2 `C11_names`: an identifier target keeps its output column name (an alias is added exactly when
  the bare target would otherwise be the only carrier of the name; the cut never removes the last part).
* T11.1 `C11_partial_resolution`: in the name-resolution semantics of `Model/Route.lean` every column
  reference of the stripped query denotes, on the integration's own catalog, the same
  (scope depth, table instance, table, column) as in the original on the federated catalog — for all
  queries of the fragment (any nesting, any number of tables/columns, ANY aliases) satisfying `okSel db names`:
  table references are `[db.]t` and a two-part column reference is qualified by the integration name only if the
  cut leaves it alone (`db ∈ names`).  `names` = the aliases and CTE names of the query is the cut of the code since 1ea1207
  (`names = []` was the cut before: `C11_regression_1`).  Still outside: an UNALIASED table whose own name is the
  integration name (`C11_witness_1`; proposal fixes/C11_1.diff adds table names to `names`).
What is **not** proved here: evaluation of whole queries (M6); T11.1 is about name resolution, the
only thing the rewrite touches.  The end-to-end statement is probed on sqlite3 by `tools/props/c11.py`.
-/
namespace MindsVerif.Props.C11
open MindsVerif.Route

/-- full statement, resolution clause, for the planner as it is (since 1ea1207 the cut is handed `names` = the
lower-cased aliases and CTE names of the query): stripping never changes what a column reference denotes -/
def C11_resolution_full : Prop :=
  ∀ (db : Name) (sch : Schema) (s : Sel),
    resolveAll false db sch [] (stripSel db (aliasesOf s) s) = resolveAll true db sch [] s

/-- full statement, decision clause, for the planner as it is (since 0e75382 bare CTE names are not looked at):
if everything the walker visits is a table of the data integration `i` or a CTE name, and at least one is a
table, the plan is exactly one fetch step for `i` holding the stripped query -/
def C11_decision_full : Prop :=
  ∀ (names : List Name) (c : Catalog) (ctes : List Name) (q : Node) (i : Name),
    (visit .arg q).any (counted true ctes) = true → (∀ it ∈ visit .arg q, itemFine true c ctes i it) →
    i ∉ c.projects → i ≠ n!"files" → i ≠ n!"views" → c.classType i ≠ some n!"api" →
    planTop true names c ctes q = some [.fetch i (strip i names .noFrom .arg q)]

/-- full statement, names clause -/
def C11_names_full : Prop :=
  ∀ (db : Name) (names : List Name) (par : Par) (s : Slot) (parts : List Name) (alias : Option (List Name)),
    outName (stripIdent db names par s parts false alias).1 (stripIdent db names par s parts false alias).2 =
      outName parts alias

def C11_full : Prop := C11_decision_full ∧ C11_names_full ∧ C11_resolution_full

/-- T11.3 for both readings of `get_query_info` (`skip = true`: the code since 0e75382): the visited items may also
be bare CTE names, as long as at least one of them is a real table; with `skip = true` this covers CTE queries
under ANY default namespace (before 0e75382 only when the default namespace was a project: `C11_regression_2`) -/
theorem C11_decision_cte (skip : Bool) (names : List Name) (c : Catalog) (ctes : List Name) (q : Node) (i : Name)
    (hne : (visit .arg q).any (counted skip ctes) = true)
    (hall : ∀ it ∈ visit .arg q, itemFine skip c ctes i it) (hi : i ∉ c.projects)
    (hf : i ≠ n!"files") (hv : i ≠ n!"views") (hapi : c.classType i ≠ some n!"api") :
    planTop skip names c ctes q = some [.fetch i (strip i names .noFrom .arg q)] := by
  simp [planTop, checkSingle_of_fine skip c ctes i _ hne hall hi hf hv hapi]

/-- T11.3 (main, full decision clause) -/
theorem C11_decision : C11_decision_full :=
  fun names c ctes q i hne hall hi hf hv hapi => C11_decision_cte true names c ctes q i hne hall hi hf hv hapi

/-- T11.3 as it was before 0e75382 (no CTE references among the visited items) -/
theorem C11_decision_before_0e75382 (names : List Name) (c : Catalog) (ctes : List Name) (q : Node) (i : Name)
    (hne : visit .arg q ≠ []) (hall : allResolveTo c i (visit .arg q)) (hi : i ∉ c.projects)
    (hf : i ≠ n!"files") (hv : i ≠ n!"views") (hapi : c.classType i ≠ some n!"api") :
    planTop false names c ctes q = some [.fetch i (strip i names .noFrom .arg q)] := by
  simp [planTop, checkSingle_of_single c ctes i _ hne hall hi hf hv hapi]

/-- T11.3, converse: a pushdown happens only for such queries, and yields exactly one fetch step -/
theorem C11_decision_sound (skip : Bool) (names : List Name) (c : Catalog) (ctes : List Name) (q : Node)
    (steps : List Step) (h : planTop skip names c ctes q = some steps) :
    ∃ i, steps = [.fetch i (strip i names .noFrom .arg q)] ∧ (∀ it ∈ visit .arg q, pushedOk skip c ctes i it) ∧
      i ≠ n!"files" ∧ i ≠ n!"views" ∧ c.classType i ≠ some n!"api" := by
  unfold planTop at h
  cases hc : checkSingle skip c ctes (visit .arg q) with
  | none => simp [hc] at h
  | some i =>
    simp only [hc, Option.some.injEq] at h
    exact ⟨i, h.symm, checkSingle_sound skip c ctes _ i hc⟩

/-- T11.2 -/
theorem C11_names : C11_names_full := outName_stripIdent

/-- T11.1, for the cut as it is (`names = []`) and for the alias-aware cut of fixes/C11_2.diff: every column
reference of the stripped query denotes on the integration's own catalog what it denoted on the federated one,
for all queries of the fragment (any nesting) with `[db.]t` table references in which a two-part column
reference is qualified by the integration name only if the cut leaves it alone (`db ∈ names`) -/
theorem C11_partial_resolution (db : Name) (names : List Name) (sch : Schema) (s : Sel)
    (h : okSel db names s = true) :
    resolveAll false db sch [] (stripSel db names s) = resolveAll true db sch [] s :=
  resolveAll_strip db names sch s [] (by intro sc hsc; simp at hsc) h

/-- tables `t(id, x)` and `s(id, y)` -/
def sch1 : Schema := fun _ t =>
  if t = n!"t" then [n!"id", n!"x"] else if t = n!"s" then [n!"id", n!"y"] else []

/-- `select int1.x, s.y from int1.t as int1 join int1.s as s on int1.id = s.id` -/
def aliasQuery : Sel :=
  .mk [⟨[n!"int1", n!"t"], some n!"int1"⟩, ⟨[n!"int1", n!"s"], some n!"s"⟩]
      [[n!"int1", n!"x"], [n!"s", n!"y"], [n!"int1", n!"id"], [n!"s", n!"id"]] .nil

/-- regression (before 1ea1207 the cut ignored aliases, `names = []`): the alias equals the integration name,
`int1.id` was cut to `id`, which is ambiguous on `int1`; with the aliases handed to the cut the query keeps its meaning
and lies inside `C11_partial_resolution` -/
theorem C11_regression_1 :
    resolveAll true n!"int1" sch1 [] aliasQuery =
      [.ok 0 0 n!"t" n!"x", .ok 0 1 n!"s" n!"y", .ok 0 0 n!"t" n!"id", .ok 0 1 n!"s" n!"id"] ∧
    resolveAll false n!"int1" sch1 [] (stripSel n!"int1" [] aliasQuery) =
      [.ok 0 0 n!"t" n!"x", .ok 0 1 n!"s" n!"y", .ambiguous, .ok 0 1 n!"s" n!"id"] ∧
    okSel n!"int1" [] aliasQuery = false ∧
    okSel n!"int1" (aliasesOf aliasQuery) aliasQuery = true ∧
    resolveAll false n!"int1" sch1 [] (stripSel n!"int1" (aliasesOf aliasQuery) aliasQuery) =
      resolveAll true n!"int1" sch1 [] aliasQuery := by decide

/-- tables `int1(id, x)` and `s(id, y)` of integration `int1` -/
def sch2 : Schema := fun _ t =>
  if t = n!"int1" then [n!"id", n!"x"] else if t = n!"s" then [n!"id", n!"y"] else []

/-- `select int1.id from int1.int1 join int1.s on …`: an UNALIASED table whose own name is the integration name -/
def tableNamedLikeDb : Sel :=
  .mk [⟨[n!"int1", n!"int1"], none⟩, ⟨[n!"int1", n!"s"], none⟩] [[n!"int1", n!"id"]] .nil

/-- the class still excluded from `C11_partial_resolution` is inhabited: table names are not among the `names`
handed to the cut, so `int1.id` (column of table `int1`) is cut to `id`, ambiguous on the integration -/
theorem C11_witness_1 :
    resolveAll true n!"int1" sch2 [] tableNamedLikeDb = [.ok 0 0 n!"int1" n!"id"] ∧
    resolveAll false n!"int1" sch2 [] (stripSel n!"int1" (aliasesOf tableNamedLikeDb) tableNamedLikeDb) = [.ambiguous] ∧
    okSel n!"int1" (aliasesOf tableNamedLikeDb) tableNamedLikeDb = false := by decide

theorem C11_resolution_full_false : ¬ C11_resolution_full := fun h => by
  have := h n!"int1" sch2 tableNamedLikeDb
  rw [C11_witness_1.1, C11_witness_1.2.1] at this
  exact absurd this (by decide)

/-- regression (before 0e75382): `WITH cte1 AS (SELECT x FROM int1.t) SELECT * FROM cte1` with
`default_namespace='proj'` (not a project) — the reference to the CTE counted as a second integration and the query was
not pushed down whole; with a project as default namespace it was; now it is in both cases (`C11_decision`) -/
theorem C11_regression_2 :
    checkSingle false (mkCatalog ⟨some [.nm n!"int1", .nm n!"int2"], none, .none, some n!"proj"⟩) [n!"cte1"]
      [.table [n!"cte1"], .table [n!"int1", n!"t"]] = none ∧
    checkSingle false (mkCatalog ⟨some [.nm n!"int1", .nm n!"int2"], none, .none, some n!"mindsdb"⟩) [n!"cte1"]
      [.table [n!"cte1"], .table [n!"int1", n!"t"]] = some n!"int1" ∧
    checkSingle true (mkCatalog ⟨some [.nm n!"int1", .nm n!"int2"], none, .none, some n!"proj"⟩) [n!"cte1"]
      [.table [n!"cte1"], .table [n!"int1", n!"t"]] = some n!"int1" := by decide

/-! non-vacuity: a nested, aliased, three-part-qualified query satisfies `okSel` and is not trivial -/

/-- `select int1.t.x, a.y, (select max(INT1.t.x) from int1.s where s.id = a.id) from int1.t join int1.s as a` -/
def goodQuery : Sel :=
  .mk [⟨[n!"int1", n!"t"], none⟩, ⟨[n!"int1", n!"s"], some n!"a"⟩]
      [[n!"int1", n!"t", n!"x"], [n!"a", n!"y"]]
      (.cons (.mk [⟨[n!"int1", n!"s"], none⟩] [[n!"INT1", n!"t", n!"x"], [n!"s", n!"id"], [n!"a", n!"id"]] .nil) .nil)

example : okSel n!"int1" (aliasesOf goodQuery) goodQuery = true := by decide
example : resolveAll true n!"int1" sch1 [] goodQuery =
    [.ok 0 0 n!"t" n!"x", .ok 0 1 n!"s" n!"y", .ok 1 0 n!"t" n!"x", .ok 0 0 n!"s" n!"id", .ok 1 1 n!"s" n!"id"] := by
  decide

/-- non-vacuity of the decision theorem -/
def cat2 : Catalog := mkCatalog ⟨some [.nm n!"int1", .nm n!"int2"], none, .none, some n!"mindsdb"⟩
def joinQuery : Node :=
  .scope (.sel true) (.cons .tbl (.plain (.cons .tbl (.ident [n!"INT1", n!"s"] false none)
      (.cons .tbl (.ident [n!"int1", n!"t"] false none)
        (.cons .arg (.plain (.cons .arg (.ident [n!"int1", n!"t", n!"id"] false none)
          (.cons .arg (.ident [n!"s", n!"id"] false none) .nil))) .nil))))
    (.cons .tgt (.ident [n!"int1", n!"t", n!"x"] false none) .nil))

def Step.integration : Step → Name
  | .fetch i _ => i
def Step.idents : Step → List (List Name × Bool × Option (List Name))
  | .fetch _ q => allIdents q

example : (planTop true [] cat2 [] joinQuery).map (·.map Step.integration) = some [n!"int1"] := by decide
example : (planTop true [] cat2 [] joinQuery).map (·.flatMap Step.idents) =
    some [([n!"s"], false, none), ([n!"t"], false, none), ([n!"t", n!"id"], false, none),
      ([n!"s", n!"id"], false, none), ([n!"t", n!"x"], false, none)] := by decide

end MindsVerif.Props.C11
