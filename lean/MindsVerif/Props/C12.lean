import MindsVerif.Lemmas.ParamsFill
import MindsVerif.Lemmas.WalkLiftP
import MindsVerif.Gen.Schema
import MindsVerif.Props.C13   -- [review] for `reorder`, `walk_congr` (used by `C12_review_visits_reordered`)
/-!
# C12 — prepared statements bind placeholders in textual order

`get_query_params` / `fill_query_params` (`planner/utils.py`, as of c3aa76c): the walker (`Model/Walk.lean`, schema
probed from the code) finds the placeholders, `sort_by_text_position` orders them by their position in the rendered
statement (`Params.sortByText` over `Walk.textOrder`, the print-template order of all nodes), the values are assigned
to that list and a second walk replaces every placeholder by the value looked up by identity (`cbFillMap`).
`prepare` / `execute` / `info` transcribe `PreparedStatementPlanner` (`Model/Params.lean`).

* `C12_count` (T12.1): `prepare` reports as many placeholders as the walk visits; `C12_found_perm`: they are those.
* `C12_textual` (T12.3, **no `okTree` hypothesis**): when the found placeholders are rendered (decidable), the reported
  list is ordered by rendered position — whatever order the walker visits them in.
* `C12_fill` (T12.2), all schemas / trees / value lists of the reported length (placeholder identities distinct):
  no IndexError, no value left, and the (placeholder, value) pairs made by the walk are a permutation of pairing the
  i-th placeholder *in textual order* with the i-th value — none unbound, none bound twice; nothing else is replaced.
* `C12_visits` (coverage): on an `okTree` both walks visit exactly `expected` (every required node), so every placeholder
  in a required position is found; needs `phi12`.  Since the walker's order deviations are repaired, `okTree` holds for
  ordinary statements of the probed schema (`Props.C13.phi13_samples`, `C12_samples`, `okQ`, `wUpdate`); outside it are only
  CREATE TABLE statements with column objects.  `C12_review_visits_reordered` is the general form for walkers that deviate
  in order only.
* `phi12_markers`: the probed markers of `sort_by_text_position` are pairwise infix-free (what the print-position model
  of the marker search assumes).
* `C12_execute`, `C12_mismatch` (T12.4).  `C12_partial` bundles the above for the probed schema.
* `C12_samples`: on parser trees of real statements (regenerated on every run) the hypotheses of `C12_textual` / `C12_fill`
  hold and the placeholders are reported in written order.
* regression theorems for repaired defects: `C12_update_textual` (live walker), `C12_update_textual_oldwalker` (history:
  with WHERE walked first, binding is still by written position), `C12_case_operand`, `C12_from_arg`, `C12_second_execute`,
  `C12_info_after_execute`, `C12_keeps_alias`.
Not in the model: `C12_count` counts what the walk visits, not the `?` of the text (the link is the coverage clause plus the
parser; checked on the real code by the impl-level oracle of the check).
Planning of the filled tree (`plan_query`) is outside this model; the check compares plans on the real code.
-/
namespace MindsVerif.Props.C12
open MindsVerif.Walk MindsVerif.Params MindsVerif.Gen

def σ : Schema := Schema.schema
def P : Nat := Schema.classNames.findIdx (· == "Parameter")
def C : Nat := Schema.classNames.findIdx (· == "Constant")

/-- the (placeholder, value) pairs made by a walk -/
def bindings (P : Nat) (o : Out Unit) : List (Option Nat × Option Nat) :=
  (o.log.filter (isP P)).map (fun v => (v.tag, v.ans.map Node.tag))

/-- all found placeholders are rendered -/
def rendered (σ : Schema) (P : Nat) (q : Node) : Bool :=
  (walk σ (cbFind P) q []).st.all (fun p => (textOrder σ q).contains p.tag)

/-- full statement (for a schema) -/
def C12_full (σ : Schema) (P C : Nat) : Prop :=
  ∀ (q : Node) (vs : List Nat),
    -- every placeholder of the statement is reached: the walk visits the textual preorder of the required nodes
    (walk σ (cbFind P) q []).log.map Visit.key = expected σ q false false
    -- the reported placeholders are in the order they are written
    ∧ (getParams σ P q).Pairwise (fun a b => rank (textOrder σ q) a.tag ≤ rank (textOrder σ q) b.tag)
    -- binding: i-th written placeholder ↦ i-th value, none left, none twice
    ∧ (vs.length = (getParams σ P q).length →
        (fillParams σ P C q vs).failed = false ∧ (fillParams σ P C q vs).left = 0
        ∧ (bindings P (fillParams σ P C q vs).out).Perm
            (((getParams σ P q).map (fun m => some m.tag)).zip (vs.map some)))
    ∧ (vs.length ≠ (getParams σ P q).length →
        (execute σ P C (some vs) (prepare σ P q .init)).2 = .error .planning)

/-- the placeholders reported by `prepare` are exactly those the walk visits (in some order) -/
theorem C12_found_perm (σ : Schema) (P : Nat) (q : Node) :
    ((getParams σ P q).map some).Perm (((walk σ (cbFind P) q []).log.filter (isP P)).map Visit.node) := by
  have h := find_trace P _ _ _ (trace_all σ (cbFind P) q false false 0 [])
  simp only [List.map_nil, List.nil_append] at h
  have hp := (sortByText_perm σ q (walk σ (cbFind P) q []).st).map some
  exact hp.trans (.of_eq h)

/-- T12.1 -/
theorem C12_count (σ : Schema) (P : Nat) (q : Node) :
    (getParams σ P q).length = nP P (walk σ (cbFind P) q []).log := by
  have := (C12_found_perm σ P q).length_eq
  simpa [nP] using this

/-- T12.3: the reported placeholders are in the order they are written (no hypothesis on the walker's order) -/
theorem C12_textual (σ : Schema) (P : Nat) (q : Node) (h : rendered σ P q = true) :
    (getParams σ P q).Pairwise (fun a b => rank (textOrder σ q) a.tag ≤ rank (textOrder σ q) b.tag) :=
  sortByText_sorted σ q _ h

theorem mem_of_some_mem {α : Type} {l : List α} {a : α} (h : some a ∈ l.map some) : a ∈ l := by
  obtain ⟨b, hb, e⟩ := List.mem_map.mp h
  injection e with e; exact e ▸ hb

/-- T12.2 -/
theorem C12_fill (σ : Schema) (P C : Nat) (q : Node) (vs : List Nat)
    (h : vs.length = (getParams σ P q).length) (hnd : ((getParams σ P q).map Node.tag).Nodup) :
    (fillParams σ P C q vs).failed = false ∧ (fillParams σ P C q vs).left = 0
    ∧ (bindings P (fillParams σ P C q vs).out).Perm
        (((getParams σ P q).map (fun m => some m.tag)).zip (vs.map some))
    ∧ (∀ v ∈ (fillParams σ P C q vs).out.log, isP P v = false → v.ans = none) := by
  have hlt : ¬ vs.length < (getParams σ P q).length := by omega
  have hf : fillParams σ P C q vs = ⟨walk σ (cbFillMap P C (((getParams σ P q).map Node.tag).zip vs)) q (), false,
      vs.length - (getParams σ P q).length⟩ := by
    simp only [fillParams, if_neg hlt]
  rw [hf]
  refine ⟨rfl, by simp only; omega, ?_⟩
  simp only
  generalize hkeys : (getParams σ P q).map Node.tag = keys at hnd
  let vals := keys.zip vs
  have htr := trace_unit_mem _ _ _ _ (trace_all σ (cbFillMap P C vals) q false false 0 ())
  -- the placeholders visited by the fill walk are those visited by the find walk
  have hs := (same_visits σ (cbFind P) (cbFillMap P C vals) (agree_find_fill P C vals) q false false 0 [] ()).1
  have hnodes : ((walk σ (cbFillMap P C vals) q ()).log.filter (isP P)).map Visit.node
      = ((walk σ (cbFind P) q []).log.filter (isP P)).map Visit.node := by
    simp only [walk]; rw [filter_isP_what, ← hs, ← filter_isP_what]
  have hperm := C12_found_perm σ P q
  rw [← hnodes] at hperm
  have hlen : keys.length ≤ vs.length := by rw [← hkeys]; simp [h]
  refine ⟨?_, ?_⟩
  · -- bindings, visit by visit
    let g : Option Node → Option Nat × Option Nat := fun n =>
      match n with | some m => (some m.tag, vals.lookup m.tag) | none => (none, none)
    have e1 : bindings P (walk σ (cbFillMap P C vals) q ())
        = (((walk σ (cbFillMap P C vals) q ()).log.filter (isP P)).map Visit.node).map g := by
      simp only [bindings, List.map_map]
      apply List.map_congr_left
      intro v hv
      have hvl := (List.mem_filter.mp hv).1
      have hvp := (List.mem_filter.mp hv).2
      have hans := htr v hvl
      cases hn : v.node with
      | none => simp [isP, hn] at hvp
      | some m =>
        have hm : m.cls = P := by simpa [isP, hn] using hvp
        have hmem : m ∈ getParams σ P q := by
          apply mem_of_some_mem
          exact hperm.mem_iff.mpr (List.mem_map.mpr ⟨v, hv, hn⟩)
        have hk : m.tag ∈ keys := by rw [← hkeys]; exact List.mem_map.mpr ⟨m, hmem, rfl⟩
        have hlk : ∃ x, vals.lookup m.tag = some x := by
          have hmz : m.tag ∈ (keys.zip vs).map (·.1) := by
            rw [List.map_fst_zip (by omega)]; exact hk
          obtain ⟨kv, hkv, hkv1⟩ := List.mem_map.mp hmz
          cases hl : vals.lookup m.tag with
          | some x => exact ⟨x, rfl⟩
          | none =>
            exfalso
            have := List.lookup_eq_none_iff.mp hl kv hkv
            simp [hkv1] at this
        obtain ⟨x, hx⟩ := hlk
        rw [hn] at hans
        simp only [cbFillMap, hm, if_true, hx] at hans
        have hvt : v.tag = some m.tag := by simp [Visit.tag, hn]
        have hva : v.ans.map Node.tag = some x := by rw [← hans]; rfl
        simp only [Function.comp, g, hn, hvt, hva, hx]
    rw [e1]
    refine (hperm.symm.map g).trans (.of_eq ?_)
    simp only [List.map_map]
    have e2 : (getParams σ P q).map (g ∘ some) = keys.map (fun k => (some k, vals.lookup k)) := by
      rw [← hkeys, List.map_map]; rfl
    rw [e2]
    have lz := lookup_zip keys vs hnd hlen
    have : keys.map (fun k => (some k, vals.lookup k))
        = (keys.map (fun k => (k, (keys.zip vs).lookup k))).map (fun kv => (some kv.1, kv.2)) := by
      simp [List.map_map, Function.comp_def, vals]
    rw [this, lz, List.map_map]
    have e3 : (getParams σ P q).map (fun m => some m.tag) = keys.map some := by rw [← hkeys, List.map_map]; rfl
    rw [e3, List.zip_map]
    rfl
  · intro v hv hp
    have hans := htr v hv
    rw [← hans]
    cases hn : v.node with
    | none => simp [cbFillMap]
    | some m =>
      have hm : ¬ m.cls = P := by simpa [isP, hn] using hp
      simp [cbFillMap, hm]

/-- Φ12 (markers): the markers `sort_by_text_position` renders for 30 placeholders are pairwise infix-free, so the
search `text.find(marker)` finds a placeholder's own rendering (pins the assumption of `Params.sortByText`) -/
theorem phi12_markers : markersOK Schema.markers = true := by decide +kernel

/-- a marker scheme without a closing delimiter is rejected (`:__param_1` occurs inside `:__param_10`) -/
example : markersOK ((List.range 30).map (fun i => [58, 112] ++ (toString i).toList.map Char.toNat)) = false := by decide

/-- Φ12: the walker's branch for `Parameter` traverses nothing -/
theorem phi12 : (σ.row P).walk = [] := by decide +kernel

theorem leafOnly_fill (σ : Schema) (P C : Nat) (values : List (Nat × Nat)) (hP : (σ.row P).walk = []) :
    LeafOnly σ (cbFillMap P C values) := by
  intro st n a b pq x hx
  cases n with
  | none => simp [cbFillMap] at hx
  | some m =>
    by_cases hm : m.cls = P
    · exact ⟨m, rfl, by rw [hm]; exact hP⟩
    · simp [cbFillMap, hm] at hx

theorem leafOnly_find (σ : Schema) (P : Nat) (hP : (σ.row P).walk = []) : LeafOnly σ (cbFind P) := by
  intro st n a b pq x hx
  cases n with
  | none => simp [cbFind] at hx
  | some m =>
    by_cases hm : m.cls = P
    · exact ⟨m, rfl, by rw [hm]; exact hP⟩
    · simp [cbFind, hm] at hx

/-- coverage: on a tree avoiding the excepted configurations both walks visit exactly the required nodes -/
theorem C12_visits (σ : Schema) (P C : Nat) (hP : (σ.row P).walk = []) (q : Node) (hq : okTree σ q = true)
    (values : List (Nat × Nat)) :
    (walk σ (cbFind P) q []).log.map Visit.key = expected σ q false false
    ∧ (walk σ (cbFillMap P C values) q ()).log.map Visit.key = expected σ q false false :=
  ⟨goodlog_all σ (cbFind P) (leafOnly_find σ P hP) q hq false false 0 [],
   goodlog_all σ (cbFillMap P C values) (leafOnly_fill σ P C values hP) q hq false false 0 ()⟩

/-- T12.4: the count check -/
theorem C12_execute (σ : Schema) (P C : Nat) (q : Node) (vs : List Nat) (s0 : PState)
    (h : vs.length = (getParams σ P q).length) :
    (execute σ P C (some vs) (prepare σ P q s0)).2 = .planned (fillParams σ P C q vs).out.self := by
  simp [execute, prepare, h]

theorem C12_mismatch (σ : Schema) (P C : Nat) (q : Node) (vs : List Nat) (s0 : PState)
    (h : vs.length ≠ (getParams σ P q).length) :
    (execute σ P C (some vs) (prepare σ P q s0)).2 = .error .planning := by
  simp [execute, prepare, h]

/-- `C12_partial`: the full statement for the probed schema, the first clause (every placeholder is reached) on the
trees that avoid the excepted configurations, the order clause when the placeholders are rendered, the binding
clause for distinct identities -/
theorem C12_partial (q : Node) (vs : List Nat) :
    (okTree σ q = true → (walk σ (cbFind P) q []).log.map Visit.key = expected σ q false false)
    ∧ (rendered σ P q = true →
        (getParams σ P q).Pairwise (fun a b => rank (textOrder σ q) a.tag ≤ rank (textOrder σ q) b.tag))
    ∧ (vs.length = (getParams σ P q).length → ((getParams σ P q).map Node.tag).Nodup →
        (fillParams σ P C q vs).failed = false ∧ (fillParams σ P C q vs).left = 0
        ∧ (bindings P (fillParams σ P C q vs).out).Perm
            (((getParams σ P q).map (fun m => some m.tag)).zip (vs.map some)))
    ∧ (vs.length ≠ (getParams σ P q).length →
        (execute σ P C (some vs) (prepare σ P q .init)).2 = .error .planning) :=
  ⟨fun hq => (C12_visits σ P C phi12 q hq []).1,
   C12_textual σ P q,
   fun h hnd => ⟨(C12_fill σ P C q vs h hnd).1, (C12_fill σ P C q vs h hnd).2.1, (C12_fill σ P C q vs h hnd).2.2.1⟩,
   fun h => C12_mismatch σ P C q vs .init h⟩

/-! ### regression examples -/

def cid (n : String) : Nat := Schema.classNames.findIdx (· == n)
def sid (c s : String) : Nat := (Schema.slotNames.getD (cid c) []).findIdx (· == s)
def param (c s : String) (tag : Nat) : Node := .mk P (sid c s) tag []
def ident (c s : String) (tag : Nat) : Node := .mk (cid "Identifier") (sid c s) tag []

/-- `UPDATE t SET a = ?, b = ? WHERE c = ?` -/
def wUpdate : Node := .mk (cid "Update") 0 0
  [ident "Update" "table" 1, param "Update" "update_columns" 2, param "Update" "update_columns" 3,
   param "Update" "where" 4]

/-- (regression, c3aa76c + 66230b1) the placeholders are visited, reported and bound in the order they are written -/
theorem C12_update_textual :
    ((walk σ (cbFind P) wUpdate []).log.filter (isP P)).map Visit.tag = [some 2, some 3, some 4]
    ∧ (getParams σ P wUpdate).map Node.tag = [2, 3, 4]
    ∧ bindings P (fillParams σ P C wUpdate [10, 20, 30]).out = [(some 2, some 10), (some 3, some 20), (some 4, some 30)]
    ∧ rendered σ P wUpdate = true ∧ okTree σ wUpdate = true := by
  decide +kernel

/-- the walker as it was before 66230b1 (history): the `Update` branch traverses WHERE before the SET values -/
def σOldUpdate : Schema :=
  σ.modify (cid "Update") fun r =>
    { r with walk := r.walk.filter (fun e => e.slot == sid "Update" "table")
                  ++ r.walk.filter (fun e => e.slot == sid "Update" "where")
                  ++ r.walk.filter (fun e => e.slot != sid "Update" "table" && e.slot != sid "Update" "where") }

/-- (history: old variant of the walker) binding by written position does not depend on the walker's order: with WHERE
visited first (placeholder 4) the placeholders are still reported and bound as written (c3aa76c) -/
theorem C12_update_textual_oldwalker :
    ((walk σOldUpdate (cbFind P) wUpdate []).log.filter (isP P)).map Visit.tag = [some 4, some 2, some 3]
    ∧ (getParams σOldUpdate P wUpdate).map Node.tag = [2, 3, 4]
    ∧ bindings P (fillParams σOldUpdate P C wUpdate [10, 20, 30]).out
        = [(some 4, some 30), (some 2, some 10), (some 3, some 20)] := by
  decide +kernel

/-- (regression, fixed by a58885a) `SELECT CASE ? WHEN ? THEN ? END`: all 3 placeholders are found, operand first -/
def wCase : Node := .mk (cid "Select") 0 0
  [.mk (cid "Case") (sid "Select" "targets") 1
    [param "Case" "arg" 2, param "Case" "rules" 3, param "Case" "rules" 4]]
theorem C12_case_operand : (getParams σ P wCase).map Node.tag = [2, 3, 4] := by decide +kernel

/-- (regression, fixed by 674e01f) `SELECT extract(? FROM ?)`: both placeholders are found, in textual order -/
def wFromArg : Node := .mk (cid "Select") 0 0
  [.mk (cid "Function") (sid "Select" "targets") 1 [param "Function" "args" 2, param "Function" "from_arg" 3]]
theorem C12_from_arg : (getParams σ P wFromArg).map Node.tag = [2, 3] ∧ okTree σ wFromArg = true := by decide +kernel

/-- (regression, fixed by 80e5910) a second `execute` with values raises PlanningException — for every statement -/
theorem C12_second_execute (σ : Schema) (P C : Nat) (q : Node) (vs ws : List Nat) (s0 : PState)
    (h : vs.length = (getParams σ P q).length) :
    (execute σ P C (some ws) (execute σ P C (some vs) (prepare σ P q s0)).1).2 = .error .planning := by
  simp [execute, prepare, h]

/-- (regression, fixed by 80e5910) `get_statement_info()` after `execute` reports no parameters -/
theorem C12_info_after_execute (σ : Schema) (P C : Nat) (q : Node) (vs : List Nat) (s0 : PState)
    (h : vs.length = (getParams σ P q).length) :
    info (execute σ P C (some vs) (prepare σ P q s0)).1 = .ok 0 := by
  simp [execute, prepare, info, h]

/-- (regression, fixed by b11daf5) `SELECT ? AS x`: the bound constant keeps the alias of the placeholder;
the alias slot has the same id in `Parameter` and `Constant` -/
def wAlias : Node := .mk (cid "Select") 0 0
  [.mk P (sid "Select" "targets") 1 [ident "Parameter" "alias" 2]]
theorem C12_keeps_alias :
    (fillParams σ P C wAlias [10]).out.self.flat
      = (Node.mk (cid "Select") 0 0 [.mk C (sid "Select" "targets") 10 [ident "Constant" "alias" 2]]).flat
    ∧ sid "Parameter" "alias" = sid "Constant" "alias" := by decide +kernel

/-! ### non-vacuity -/

/-- `SELECT ?, f(?) FROM (SELECT ? …) WHERE a = ?` -/
def okQ : Node := .mk (cid "Select") 0 0
  [param "Select" "targets" 1,
   .mk (cid "Function") (sid "Select" "targets") 2 [param "Function" "args" 3],
   .mk (cid "Select") (sid "Select" "from_table") 7 [param "Select" "targets" 8],
   .mk (cid "BinaryOperation") (sid "Select" "where") 4 [ident "BinaryOperation" "args" 5, param "BinaryOperation" "args" 6]]
example : rendered σ P okQ = true ∧ (getParams σ P okQ).map Node.tag = [1, 3, 8, 6]
    ∧ ((getParams σ P okQ).map Node.tag).Nodup := by decide +kernel
example : bindings P (fillParams σ P C okQ [10, 20, 30, 40]).out
    = [(some 1, some 10), (some 3, some 20), (some 8, some 30), (some 6, some 40)] := by decide +kernel
example : okTree σ okQ = true := by decide +kernel
/-- a tree satisfying the coverage hypothesis -/
example : okTree σ (.mk (cid "Select") 0 0 [param "Select" "targets" 1,
    .mk (cid "BinaryOperation") (sid "Select" "where") 4 [ident "BinaryOperation" "args" 5, param "BinaryOperation" "args" 6]]) = true := by
  decide +kernel

/-! ### real statements with placeholders (parser trees emitted by the extractor on every run) -/

/-- for every sample statement: the found placeholders are rendered and have distinct identities (the hypotheses of
`C12_textual` and `C12_fill`), and they are reported in the order they are written -/
theorem C12_samples : Schema.sampleTrees.all (fun t =>
      rendered σ P t && decide ((getParams σ P t).map Node.tag).Nodup
      && ((getParams σ P t).map Node.tag == (textOrder σ t).filter (fun x => (getParams σ P t).any (·.tag == x)))) = true
    ∧ (Schema.sampleTrees.map (fun t => (getParams σ P t).length)).sum = 7 := by decide +kernel

/-! ### [review] coverage for walkers that deviate only in the visiting order (general)

Contributed by the independent review when `okTree σ q` failed for every statement with `SELECT … FROM …`, a JOIN or
`UPDATE … SET … WHERE` because of the walker's order deviations.  These are repaired in the library: `C12_visits` now applies
to ordinary statements on the probed schema (`okQ`, `wUpdate`, `Props.C13.phi13_samples`).  The theorem stays as a general
statement for any schema: the order in which a walker meets the placeholders is irrelevant for C12 (`C12_textual`, `C12_fill`
sort / look up by identity), so coverage can be read on the re-ordered schema. -/

-- [review]
open MindsVerif.Props.C13 (reorder walk_congr sameWalk_reorder) in
theorem C12_review_visits_reordered (σ : Schema) (P C : Nat) (hP : (σ.row P).walk = []) (q : Node)
    (hq : okTree (reorder σ) q = true) (values : List (Nat × Nat)) :
    (walk σ (cbFind P) q []).log.map Visit.key = expected (reorder σ) q false false
    ∧ (walk σ (cbFillMap P C values) q ()).log.map Visit.key = expected (reorder σ) q false false := by
  have hP' : ((reorder σ).row P).walk = [] := by rw [(sameWalk_reorder σ P).1]; exact hP
  have h := C12_visits (reorder σ) P C hP' q hq values
  rw [walk_congr (reorder σ) σ (sameWalk_reorder σ) (cbFind P) q [],
      walk_congr (reorder σ) σ (sameWalk_reorder σ) (cbFillMap P C values) q ()] at h
  exact h

-- [review, history] with the old walker `okQ` (sub-query in FROM) and `wUpdate` were outside `C12_visits` and inside the
-- re-ordered version; with the repaired walker they are inside both
example : okTree σ okQ = true ∧ okTree (MindsVerif.Props.C13.reorder σ) okQ = true
    ∧ okTree σ wUpdate = true ∧ okTree (MindsVerif.Props.C13.reorder σ) wUpdate = true := by decide +kernel

end MindsVerif.Props.C12
