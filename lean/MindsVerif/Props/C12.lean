import MindsVerif.Lemmas.ParamsFill
import MindsVerif.Lemmas.WalkLiftP
import MindsVerif.Gen.Schema
/-!
# C12 — prepared statements bind placeholders in textual order

`get_query_params` / `fill_query_params` are the walker (`Model/Walk.lean`, schema probed from the code)
with the visitors `cbFind` / `cbFill`; `prepare` / `execute` / `info` transcribe
`PreparedStatementPlanner` (`Model/Params.lean`).

* `C12_count` (T12.1): `prepare` reports the number of `Parameter` visits of the walk, for all trees.
* `C12_fill` (T12.2), for all schemas, all trees, all value lists of the reported length: no `IndexError`,
  every value is consumed, the *i*-th visited parameter is answered with the *i*-th value (none left,
  none twice), these are the very parameters `prepare` reported, in the same order, and no other node
  is replaced.  (That an answer takes exactly the place of the visited node is `C13_lifting` (b).)
* `C12_textual` (T12.3): on a tree that avoids the excepted configurations (`okTree`) the visiting
  order — hence the binding order — is the textual order.  Needs Φ12 (`phi12`: the branch of
  `Parameter` traverses nothing), kernel-evaluated on the probed schema.
* `C12_execute`, `C12_mismatch` (T12.4): after `prepare q`, `execute vs` plans the filled tree iff the
  count matches, else `PlanningException`.
* witnesses: `C12_witness_update` (first value bound to the WHERE placeholder), `C12_case_operand`, `C12_from_arg`
  (regressions, a58885a / 674e01f: placeholders in a CASE operand and in a FROM-argument are found).
* regression theorems for defects fixed in the library (80e5910, b11daf5): `C12_second_execute` (a second
  `execute` with values raises PlanningException, for every statement), `C12_info_after_execute`
  (`get_statement_info` reports no parameters after execution), `C12_keeps_alias` (the constant written
  for a placeholder keeps the placeholder's alias child).
Full statement `C12_full` is not a theorem on the pinned tree: it needs `∀ t, okTree σ t`, which the
deviations listed in `C13.knownDevs` refute.  Planning of the filled tree (`plan_query`) is outside
this model; the check compares plans on the real code.
-/
namespace MindsVerif.Props.C12
open MindsVerif.Walk MindsVerif.Params MindsVerif.Gen

def σ : Schema := Schema.schema
def P : Nat := Schema.classNames.findIdx (· == "Parameter")
def C : Nat := Schema.classNames.findIdx (· == "Constant")

/-- the identities of the placeholders in textual order -/
def textualParams (σ : Schema) (P : Nat) (q : Node) : List (Option Nat) :=
  ((walk σ cbLog q ()).log.filter (isP P)).map Visit.tag

/-- full statement (for a schema): count, textual binding, exhaustion, count check -/
def C12_full (σ : Schema) (P C : Nat) : Prop :=
  ∀ (q : Node) (vs : List Nat),
    -- visiting order is textual order
    (walk σ (cbFill P C) q ⟨vs, false⟩).log.map Visit.key = expected σ q false false
    ∧ (vs.length = (getParams σ P q).length →
        (walk σ (cbFill P C) q ⟨vs, false⟩).st = ⟨[], false⟩
        ∧ ((walk σ (cbFill P C) q ⟨vs, false⟩).log.filter (isP P)).map (fun v => v.ans.map Node.tag) = vs.map some)
    ∧ (vs.length ≠ (getParams σ P q).length →
        (execute σ P C (some vs) (prepare σ P q .init)).2 = .error .planning)

/-- T12.1 -/
theorem C12_count (σ : Schema) (P : Nat) (q : Node) :
    (getParams σ P q).length = nP P (walk σ (cbFind P) q []).log := by
  have h := find_trace P _ _ _ (trace_all σ (cbFind P) q false false 0 [])
  have := congrArg List.length h
  simpa [getParams, walk, nP] using this

theorem nP_find_fill (σ : Schema) (P C : Nat) (q : Node) (s : FillSt) :
    nP P (walk σ (cbFind P) q []).log = nP P (walk σ (cbFill P C) q s).log := by
  rw [nP_what, nP_what]
  have := (same_visits σ (cbFind P) (cbFill P C) (agree_find_fill P C) q false false 0 [] s).1
  simp only [walk]
  rw [this]

/-- T12.2 -/
theorem C12_fill (σ : Schema) (P C : Nat) (q : Node) (vs : List Nat)
    (h : vs.length = (getParams σ P q).length) :
    let o := walk σ (cbFill P C) q ⟨vs, false⟩
    o.st = ⟨[], false⟩
    ∧ (o.log.filter (isP P)).map (fun v => v.ans.map Node.tag) = vs.map some
    ∧ (o.log.filter (isP P)).map Visit.node = (getParams σ P q).map some
    ∧ (∀ v ∈ o.log, isP P v = false → v.ans = none)
    ∧ (∀ v ∈ o.log, isP P v = true → ∃ m x, v.node = some m ∧ v.ans = some (.mk C m.slot x m.kids)) := by
  intro o
  have hn : nP P o.log = vs.length := by
    rw [h, C12_count, nP_find_fill σ P C q ⟨vs, false⟩]
  have ht := fill_trace P C _ _ _ (trace_all σ (cbFill P C) q false false 0 ⟨vs, false⟩)
    (by show nP P o.log ≤ vs.length; omega)
  obtain ⟨t1, t2, t3, t4, t5⟩ := ht
  have hn' : nP P (tr σ (cbFill P C) q false false 0 ⟨vs, false⟩).log = vs.length := hn
  refine ⟨?_, ?_, ?_, t4, t5⟩
  · have e1 : o.st.vals = [] := by
      show (tr σ (cbFill P C) q false false 0 ⟨vs, false⟩).st.vals = []
      rw [t1, hn']; simp
    have e2 : o.st.failed = false := t2
    cases ho : o.st with
    | mk vals failed => rw [ho] at e1 e2; simp at e1 e2; rw [e1, e2]
  · show ((tr σ (cbFill P C) q false false 0 ⟨vs, false⟩).log.filter (isP P)).map _ = _
    rw [t3, hn']; simp
  · have hf := find_trace P _ _ _ (trace_all σ (cbFind P) q false false 0 [])
    have hs := (same_visits σ (cbFind P) (cbFill P C) (agree_find_fill P C) q false false 0 [] ⟨vs, false⟩).1
    show ((tr σ (cbFill P C) q false false 0 ⟨vs, false⟩).log.filter (isP P)).map Visit.node = _
    rw [filter_isP_what, ← hs, ← filter_isP_what]
    simpa [getParams, walk] using hf.symm

/-- Φ12: the walker's branch for `Parameter` traverses nothing -/
theorem phi12 : (σ.row P).walk = [] := by decide +kernel

theorem leafOnly_fill (σ : Schema) (P C : Nat) (hP : (σ.row P).walk = []) : LeafOnly σ (cbFill P C) := by
  intro st n a b pq x hx
  cases n with
  | none => simp [cbFill] at hx
  | some m =>
    by_cases hm : m.cls = P
    · exact ⟨m, rfl, by rw [hm]; exact hP⟩
    · simp [cbFill, hm] at hx

/-- T12.3: visiting order (= binding order) is the textual order on trees avoiding the excepted configurations -/
theorem C12_textual (σ : Schema) (P C : Nat) (hP : (σ.row P).walk = []) (q : Node) (hq : okTree σ q = true)
    (s : FillSt) : (walk σ (cbFill P C) q s).log.map Visit.key = expected σ q false false :=
  goodlog_all σ (cbFill P C) (leafOnly_fill σ P C hP) q hq false false 0 s

/-- T12.4: the count check -/
theorem C12_execute (σ : Schema) (P C : Nat) (q : Node) (vs : List Nat) (s0 : PState)
    (h : vs.length = (getParams σ P q).length) :
    (execute σ P C (some vs) (prepare σ P q s0)).2 = .planned (fillParams σ P C q vs).1 := by
  simp [execute, prepare, h]

theorem C12_mismatch (σ : Schema) (P C : Nat) (q : Node) (vs : List Nat) (s0 : PState)
    (h : vs.length ≠ (getParams σ P q).length) :
    (execute σ P C (some vs) (prepare σ P q s0)).2 = .error .planning := by
  simp [execute, prepare, h]

/-- `C12_partial`: everything the full statement says, on the trees that avoid the excepted configurations -/
theorem C12_partial (q : Node) (hq : okTree σ q = true) (vs : List Nat) :
    (walk σ (cbFill P C) q ⟨vs, false⟩).log.map Visit.key = expected σ q false false
    ∧ (vs.length = (getParams σ P q).length →
        (walk σ (cbFill P C) q ⟨vs, false⟩).st = ⟨[], false⟩
        ∧ ((walk σ (cbFill P C) q ⟨vs, false⟩).log.filter (isP P)).map (fun v => v.ans.map Node.tag) = vs.map some)
    ∧ (vs.length ≠ (getParams σ P q).length →
        (execute σ P C (some vs) (prepare σ P q .init)).2 = .error .planning) :=
  ⟨C12_textual σ P C phi12 q hq _,
   fun h => ⟨(C12_fill σ P C q vs h).1, (C12_fill σ P C q vs h).2.1⟩,
   fun h => C12_mismatch σ P C q vs .init h⟩

/-! ### witnesses -/

def cid (n : String) : Nat := Schema.classNames.findIdx (· == n)
def sid (c s : String) : Nat := (Schema.slotNames.getD (cid c) []).findIdx (· == s)
def param (c s : String) (tag : Nat) : Node := .mk P (sid c s) tag []
def ident (c s : String) (tag : Nat) : Node := .mk (cid "Identifier") (sid c s) tag []

/-- `UPDATE t SET a = ?, b = ? WHERE c = ?`: the first value is bound to the WHERE placeholder (tag 4) -/
def wUpdate : Node := .mk (cid "Update") 0 0
  [ident "Update" "table" 1, param "Update" "update_columns" 2, param "Update" "update_columns" 3,
   param "Update" "where" 4]
theorem C12_witness_update :
    ((walk σ (cbFill P C) wUpdate ⟨[10, 20, 30], false⟩).log.filter (isP P)).map
        (fun v => (v.tag, v.ans.map Node.tag))
      = [(some 4, some 10), (some 2, some 20), (some 3, some 30)]
    ∧ ((expected σ wUpdate false false).map (·.1)) = [some 0, some 1, some 2, some 3, some 4] := by
  decide +kernel

/-- (regression, fixed by a58885a) `SELECT CASE ? WHEN ? THEN ? END`: all 3 placeholders are found, operand first -/
def wCase : Node := .mk (cid "Select") 0 0
  [.mk (cid "Case") (sid "Select" "targets") 1
    [param "Case" "arg" 2, param "Case" "rules" 3, param "Case" "rules" 4]]
theorem C12_case_operand : (getParams σ P wCase).map Node.tag = [2, 3, 4] := by decide +kernel

/-- (regression, fixed by 674e01f) `SELECT extract(? FROM ?)`: both placeholders are found, in textual order -/
def wFromArg : Node := .mk (cid "Select") 0 0
  [.mk (cid "Function") (sid "Select" "targets") 1 [param "Function" "args" 2, param "Function" "from_arg" 3]]
theorem C12_from_arg : (getParams σ P wFromArg).map Node.tag = [2, 3] ∧ okTree σ wFromArg = true := by decide +kernel

/-- (regression, fixed by 80e5910) a second `execute` with values raises PlanningException — for every statement -/
theorem C12_second_execute (σ : Schema) (P C : Nat) (q : Node) (vs ws : List Nat) (s0 : PState)
    (h : vs.length = (getParams σ P q).length) :
    (execute σ P C (some ws) (execute σ P C (some vs) (prepare σ P q s0)).1).2 = .error .planning := by
  simp [execute, prepare, h]

/-- (regression, fixed by 80e5910) `get_statement_info()` after `execute` reports no parameters -/
theorem C12_info_after_execute (σ : Schema) (P C : Nat) (q : Node) (vs : List Nat) (s0 : PState)
    (h : vs.length = (getParams σ P q).length) :
    info (execute σ P C (some vs) (prepare σ P q s0)).1 = .ok 0 := by
  simp [execute, prepare, info, h]

/-- (regression, fixed by b11daf5) `SELECT ? AS x`: the bound constant keeps the alias of the placeholder;
the alias slot has the same id in `Parameter` and `Constant` -/
def wAlias : Node := .mk (cid "Select") 0 0
  [.mk P (sid "Select" "targets") 1 [ident "Parameter" "alias" 2]]
theorem C12_keeps_alias :
    (fillParams σ P C wAlias [10]).1.flat
      = (Node.mk (cid "Select") 0 0 [.mk C (sid "Select" "targets") 10 [ident "Constant" "alias" 2]]).flat
    ∧ sid "Parameter" "alias" = sid "Constant" "alias" := by decide +kernel

/-! ### non-vacuity -/

/-- `SELECT ?, f(?) WHERE a = ?` -/
def okQ : Node := .mk (cid "Select") 0 0
  [param "Select" "targets" 1,
   .mk (cid "Function") (sid "Select" "targets") 2 [param "Function" "args" 3],
   .mk (cid "BinaryOperation") (sid "Select" "where") 4 [ident "BinaryOperation" "args" 5, param "BinaryOperation" "args" 6]]
example : okTree σ okQ = true := by decide +kernel
example : (getParams σ P okQ).length = 3 := by decide +kernel
example : ((walk σ (cbFill P C) okQ ⟨[10, 20, 30], false⟩).log.filter (isP P)).map (fun v => (v.tag, v.ans.map Node.tag))
    = [(some 1, some 10), (some 3, some 20), (some 6, some 30)] := by decide +kernel

end MindsVerif.Props.C12
