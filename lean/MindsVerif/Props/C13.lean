import MindsVerif.Lemmas.WalkLiftP
import MindsVerif.Lemmas.WalkRepl
import MindsVerif.Lemmas.WalkTrace
import MindsVerif.Lemmas.WalkSchemaOK
import MindsVerif.Lemmas.WalkNoNone
import MindsVerif.Lemmas.WalkPerm
import MindsVerif.Lemmas.WalkDepth
import MindsVerif.Gen.Schema
/-!
# C13 — the AST walker visits every table, expression and subquery once, in textual order

`Walk.walk σ cb t` is the model of `query_traversal` (Model/Walk.lean) over rose trees; `σ` is the class
schema *probed from the running code* on every check (`Gen/Schema.lean`: per class the child slots with
their kind, the order in which `to_string()` prints them, and the branch of the walker).

* `C13_lifting` (T13.1, all schemas, all trees — structural induction): if every node of a tree is in a
  class / slot configuration whose branch is right (`okTree`, decidable), then
  (a) a visitor that only looks is called exactly on the textual preorder of the required nodes
      (`expected`: the node, then for every printed slot of a required kind its occupants in list
      order — each listed once), with `is_table` / `is_target` equal to the slot kinds, and the tree is
      left unchanged;
  (b) a visitor that answers `r` for the node `x` yields the tree in which exactly `x` is `r`.
* `C13_of_schemaOK`: a schema all of whose rows are right (`schemaOK`, decidable) makes every tree
  `okTree`; hence `C13_full σ` for such a schema (the lifting theorem in its Φ ⇒ ∀-trees form).
* `phi13` (Φ13, kernel evaluation on the generated schema): the probed schema differs from an OK schema *exactly* by the
  `(class, slot, deviation)` triples of `knownDevs` — what is left after the library repairs is a CTE entry walked on its
  own and the `TableColumn` objects of CREATE TABLE offered to the visitor, neither a finding on a statement tree — and
  every class without a listed triple is `rowOK` (`phi13_rest`); `phi13_uniform`; `phi13_clean`.
* `C13_partial`: (a) and (b) for the probed schema on every `okTree`.  Since the walker's order deviations are repaired,
  ordinary statements are `okTree`: `phi13_samples` / `C13_samples_textual` check this in the kernel on parser trees of real
  statements (SELECT … FROM … JOIN … WHERE …, WITH, UPDATE, INSERT, DELETE, set operations, sub-queries, placeholders) that
  the extractor regenerates on every run.  Outside `okTree`: CREATE TABLE with column objects.
* `C13_once` (permutation theorem): on an `okTree` the calls are a permutation of `reqTags` — every required node exactly
  once; `expected` looks through container slots (`Select.cte`).  `C13_unchanged`: unconditional.
* Truthiness: clause (b) is proved for *truthy* answers (`truthyIn`); `phi13_truthy` pins by introspection that no AST class
  defines `__len__` / `__bool__`, hence `C13_replace` (every answer, probed schema).  `Entry.orStyle` (probed) marks the
  `… or child` positions; `applyRepl_exact_iff` / `C13_falsy_answer`: there a falsy answer is dropped, elsewhere it is kept.
* `C13_trace`, for every schema, tree and visitor: the log is a faithful trace of the visitor.
* `C13_no_none_call` (every tree, every visitor, no hypothesis; via `phi13_clean`): the visitor is never called with `None`.
* `C13_regress_*`: regression examples for the deviations repaired in the library (coverage, `None` call, replacement
  targets, visiting order).
* `[review]` section: `walk_congr`, `C13_review_once_reordered`, `C13_review_replace_reordered` — general theorems for walkers
  that deviate only in the visiting order (any schema); on the probed schema they add nothing any more (`phi13_reordered`).
* Depth and process history (round 6): every theorem above quantifies over **all** trees — there is no bound on the nesting
  depth anywhere — and `walk` is a pure function of schema, visitor, tree and visitor state.  Made explicit as the
  specification of two streams of the check (`tools/harness/walkhist.py`):
  `C13_deep_ops / _calls / _subqueries / _joins / _casts / _case` (operator chains, nested calls, sub-queries, join chains, casts,
  CASE nested `n` deep are `okTree` for every `n`, so clauses (a) and (b) hold on them, and the looking visitor is called
  `k·n + b` times); `C13_any_depth`; `C13_cut_eq` / `C13_cut_nothing` / `C13_cut_witness` (a walker with a depth budget is the
  walker exactly on the trees that fit the budget; below it nothing is called); `C13_history_free` (a call observes
  `specSeen` of that call alone, whatever calls — completed or aborted by an exception at any node — were made before);
  `C13_abort_prefix`, `C13_abort_expected` (the calls of an aborted walk are the textual preorder up to the raising node);
  `C13_ctr_fresh`, `C13_history_witness` (a depth counter kept in process state that is not restored on an exception: right
  in a fresh process on every tree that fits, wrong after enough aborted walks).
Specification data not derived from the code: the slot kinds (which child slots are table / target / expression / query
positions, which are names or containers) come from the hand-written `tools/harness/walkspec.py`.
-/
namespace MindsVerif.Props.C13
open MindsVerif.Walk MindsVerif.Params MindsVerif.Gen

/-- the property for one schema and one tree -/
def C13_body (σ : Schema) (t : Node) : Prop :=
  (∀ (S : Type) (cb : Cb S), (∀ st n a b pq, (cb st n a b pq).1 = none) → ∀ st,
      (walk σ cb t st).log.map Visit.key = expected σ t false false
      ∧ (walk σ cb t st).self = t ∧ (walk σ cb t st).repl = none)
  ∧ (∀ x r, truthyIn σ r = true → (t.tag = x → (walk σ (cbAt x r) t ()).repl = some r)
      ∧ (t.tag ≠ x → (walk σ (cbAt x r) t ()).repl = none ∧ (walk σ (cbAt x r) t ()).self = subst σ x r t))

/-- full statement: for every tree over the schema -/
def C13_full (σ : Schema) : Prop := ∀ t : Node, C13_body σ t

/-- T13.1 — lifting theorem, for all schemas and all trees -/
theorem C13_lifting (σ : Schema) (t : Node) (h : okTree σ t = true) : C13_body σ t := by
  refine ⟨?_, ?_⟩
  · intro S cb hcb st
    have hl : LeafOnly σ cb := by
      intro st n a b pq x hx
      rw [hcb] at hx; cases hx
    have g := goodlog_all σ cb hl t h false false 0 st
    have u := unchanged_all σ cb hcb t false false 0 st
    exact ⟨g, u.2, u.1⟩
  · intro x r htr
    have g := goodrep_all σ x r htr t h false false 0 ()
    exact ⟨fun hx => (g.1 hx).1, g.2⟩

/-- "every required node exactly once": on an `okTree` the calls of a visitor that only looks are a
permutation of `reqTags σ t` — the node, the subtrees of its children in required slots and (looking
through container children) their required children — each identity listed once per occurrence -/
theorem C13_once (σ : Schema) (t : Node) (h : okTree σ t = true) {S : Type} (cb : Cb S)
    (hcb : ∀ st n a b pq, (cb st n a b pq).1 = none) (st : S) :
    ((walk σ cb t st).log.map Visit.tag).Perm ((reqTags σ t).map some) := by
  have g := (C13_lifting σ t h).1 S cb hcb st
  have : (walk σ cb t st).log.map Visit.tag = ((walk σ cb t st).log.map Visit.key).map (·.1) := by
    simp [List.map_map, Function.comp_def, Visit.key]
  rw [this, g.1]
  exact expected_perm σ t h false false

/-- … for every schema and tree, whatever the walker does: a visitor that only looks leaves the tree unchanged -/
theorem C13_unchanged {S : Type} (σ : Schema) (cb : Cb S) (hcb : ∀ st n a b pq, (cb st n a b pq).1 = none)
    (t : Node) (st : S) : (walk σ cb t st).repl = none ∧ (walk σ cb t st).self = t :=
  unchanged_all σ cb hcb t false false 0 st

/-- T13.1 in the form "Φ on the finite schema ⇒ the property for all trees" -/
theorem C13_of_schemaOK (σ : Schema) (h : schemaOK σ = true) : C13_full σ :=
  fun t => C13_lifting σ t (okTree_of_schemaOK σ h t)

/-- non-vacuity of `schemaOK`: a two-class schema (a binary operation over leaves) -/
example : schemaOK [⟨[], [], [], false⟩, ⟨[.expr], [0], [⟨0, none, false, false, .inherit, .same, false, true⟩], false⟩] = true := by decide

/-- non-vacuity of the container clause of `okTree` (the probed `Select` always has its select list visited before
the WITH bodies, so no probed tree with a WITH clause is `okTree`): class 1 holds a list of entries (container, looked
through), class 2 is an entry with a name and a body, class 3 a leaf -/
def σc : Schema := [⟨[], [], [], false⟩,
  ⟨[.container, .target], [0, 1], [⟨0, some 1, false, false, .self, .same, false, false⟩, ⟨1, none, false, true, .self, .same, false, true⟩], false⟩,
  ⟨[.name, .query], [0, 1], [], false⟩, ⟨[], [], [], false⟩]
def tc : Node := .mk 1 0 0 [.mk 2 0 1 [.mk 3 0 2 [], .mk 3 1 3 []], .mk 3 1 4 []]
example : okTree σc tc = true
    ∧ (walk σc cbLog tc ()).log.map Visit.tag = [some 0, some 3, some 4]
    ∧ (expected σc tc false false).map (·.1) = [some 0, some 3, some 4]
    ∧ reqTags σc tc = [0, 3, 4]
    ∧ (walk σc (cbAt 3 (.mk 0 0 9 [])) tc ()).self.flat
        = (Node.mk 1 0 0 [.mk 2 0 1 [.mk 3 0 2 [], .mk 0 1 9 []], .mk 3 1 4 []]).flat := by decide

/-- for every schema, tree and visitor the log is a faithful trace of the visitor -/
theorem C13_trace {S : Type} (σ : Schema) (cb : Cb S) (t : Node) (st : S) :
    Trace cb st (walk σ cb t st).log (walk σ cb t st).st := trace_all σ cb t false false 0 st

/-! ### Φ13 on the probed schema -/

def σ : Schema := Schema.schema

/-- the deviations of the probed schema, by class and slot *name* -/
def namedDevs : List (String × String × Dev) :=
  (schemaDevs σ).map fun d =>
    (Schema.classNames.getD d.1 "", (Schema.slotNames.getD d.1 []).getD d.2.1 "", d.2.2)

/-- what is left at schema level; neither shows on a statement tree, neither is a known finding:
* `CommonTableExpression.query unvisited`: the branch for a CTE *entry walked on its own* traverses nothing — inside a
  statement the entry is looked through by the `Select` / set-operation branch (`via`), which visits the body;
* `CreateTable.columns extra`: the `TableColumn` objects of a CREATE TABLE are offered to the visitor although they are
  not table references, expressions or queries (more calls than required, none missing; such trees are outside `okTree`
  because the log then has entries that `expected` does not list). -/
def knownDevs : List (String × String × Dev) :=
  [("CommonTableExpression", "query", .unvisited),
   ("CreateTable", "columns", .extra)]

/-- Φ13: the probed schema deviates exactly at the listed triples -/
theorem phi13 : namedDevs = knownDevs := by decide +kernel

/-- … and every class without a listed triple has a right branch -/
theorem phi13_rest :
    (List.range σ.length).all (fun c => !(rowDevs (σ.row c)).isEmpty || rowOK (σ.row c)) = true := by
  decide +kernel

/-- the exemplars of every class agreed with each other (uniformity of the probe) -/
theorem phi13_uniform : Schema.nonuniform = 0 := by decide

/-- on the probed schema no branch passes `None`, every replacement is assigned to the visited position -/
theorem phi13_clean : noNoneSchema σ = true
    ∧ σ.all (fun r => r.walk.all (fun e => e.repl == .same)) = true := by decide +kernel

/-- hence, for **every** tree and every visitor (no hypothesis), the visitor is never called with `None`
(repaired in the library by 5d2003c; before, `CASE` without `ELSE` was a counterexample) -/
theorem C13_no_none_call {S : Type} (cb : Cb S) (t : Node) (st : S) :
    ∀ v ∈ (walk σ cb t st).log, v.node.isSome = true :=
  no_none_all σ phi13_clean.1 cb t false false 0 st

/-- Φ13 (truthiness): by introspection no AST class defines `__len__` / `__bool__` (pinned list: empty), so no node
object is falsy and `query_traversal(child, …) or child` never drops an answer -/
theorem phi13_truthy : Schema.falsyCapable = [] ∧ σ.all (fun r => !r.falsy) = true := by decide +kernel

/-- hence on the probed schema every answer node is truthy -/
theorem C13_truthy (r : Node) : truthyIn σ r = true := truthy_all σ phi13_truthy.2 r

/-- `C13_partial`: the property on every tree that avoids the excepted configurations -/
theorem C13_partial (t : Node) (h : okTree σ t = true) : C13_body σ t := C13_lifting σ t h

/-- clause (b) without the truthiness hypothesis on the probed schema: whatever node the visitor answers for `x`,
exactly `x` becomes that node -/
theorem C13_replace (t : Node) (h : okTree σ t = true) (x : Nat) (r : Node) :
    (t.tag = x → (walk σ (cbAt x r) t ()).repl = some r)
    ∧ (t.tag ≠ x → (walk σ (cbAt x r) t ()).repl = none ∧ (walk σ (cbAt x r) t ()).self = subst σ x r t) :=
  (C13_partial t h).2 x r (C13_truthy r)

/-! ### witnesses: the model exhibits each deviation (class / slot ids looked up by name) -/

def cid (n : String) : Nat := Schema.classNames.findIdx (· == n)
def sid (c s : String) : Nat := (Schema.slotNames.getD (cid c) []).findIdx (· == s)
/-- a leaf `Identifier` in slot `s` of class `c` -/
def leaf (c s : String) (tag : Nat) : Node := .mk (cid "Identifier") (sid c s) tag []
def tagsOf (t : Node) : List (Option Nat) := (walk σ cbLog t ()).log.map Visit.tag
def expTags (t : Node) : List (Option Nat) := (expected σ t false false).map (·.1)

/-! ### falsy answers (what the pin `phi13_truthy` excludes)

The branches for list-valued fields are written `query_traversal(child, …) or child` (`Entry.orStyle`, probed with a falsy
answer); if a node class could be falsy — e.g. a `Tuple` with `__len__`, falsy when empty — such an answer would be dropped
in these positions and kept in the `if … is not None` positions (`applyRepl_exact_iff`, `applyRepl_falsy`). -/

/-- the probed schema with `Tuple` made falsy-capable -/
def σFalsyTuple : Schema := σ.modify (cid "Tuple") fun r => { r with falsy := true }
/-- `a IN <x>` with the operand `x` (tag 2) answered by an empty tuple; `CAST(x AS …)` likewise -/
def wIn : Node := .mk (cid "BinaryOperation") 0 0 [leaf "BinaryOperation" "args" 1, leaf "BinaryOperation" "args" 2]
def wCast : Node := .mk (cid "TypeCast") 0 0 [leaf "TypeCast" "arg" 2]
def emptyTuple : Node := .mk (cid "Tuple") 0 9 []
theorem C13_falsy_answer :
    -- live schema: the empty tuple takes the operand's place, in an `or` position and in an assign position
    (walk σ (cbAt 2 emptyTuple) wIn ()).self.flat
        = (Node.mk (cid "BinaryOperation") 0 0 [leaf "BinaryOperation" "args" 1, emptyTuple.setSlot (sid "BinaryOperation" "args")]).flat
    ∧ (walk σ (cbAt 2 emptyTuple) wCast ()).self.flat = (Node.mk (cid "TypeCast") 0 0 [emptyTuple.setSlot (sid "TypeCast" "arg")]).flat
    -- with a falsy-capable Tuple: dropped in the `or` position (the tree is unchanged), still assigned in the other
    ∧ truthyIn σFalsyTuple emptyTuple = false
    ∧ (walk σFalsyTuple (cbAt 2 emptyTuple) wIn ()).self.flat = wIn.flat
    ∧ (walk σFalsyTuple (cbAt 2 emptyTuple) wCast ()).self.flat = (Node.mk (cid "TypeCast") 0 0 [emptyTuple.setSlot (sid "TypeCast" "arg")]).flat
    -- a non-empty tuple is truthy and is never dropped
    ∧ (walk σFalsyTuple (cbAt 2 (.mk (cid "Tuple") 0 9 [leaf "Tuple" "items" 8])) wIn ()).self.flat ≠ wIn.flat := by
  decide +kernel

/-! ### regression examples for deviations repaired in the library

The four visiting-order deviations of the walker were repaired (dfd5aa9 Join, 240c37d Select, 66230b1 Update): the trees
that used to witness them are now `okTree` and visited in textual order. -/

/-- `a JOIN b`; `SELECT a FROM t LIMIT n`; `UPDATE t SET a = x WHERE c`; `WITH c AS (q) SELECT x` -/
def wJoin : Node := .mk (cid "Join") 0 0 [leaf "Join" "left" 1, leaf "Join" "right" 2]
def wSelect : Node := .mk (cid "Select") 0 0
  [leaf "Select" "targets" 1, leaf "Select" "from_table" 2, leaf "Select" "limit" 3]
def wUpdate : Node := .mk (cid "Update") 0 0
  [leaf "Update" "table" 1, leaf "Update" "update_columns" 2, leaf "Update" "where" 3]
def wCte : Node := .mk (cid "Select") 0 0
  [.mk (cid "CommonTableExpression") (sid "Select" "cte") 1
      [leaf "CommonTableExpression" "name" 2, leaf "CommonTableExpression" "query" 3],
   leaf "Select" "targets" 4]
theorem C13_regress_order :
    [wJoin, wSelect, wUpdate, wCte].all (fun t => okTree σ t && (tagsOf t == expTags t)) = true
    ∧ tagsOf wJoin = [some 0, some 1, some 2] ∧ tagsOf wSelect = [some 0, some 1, some 2, some 3]
    ∧ tagsOf wUpdate = [some 0, some 1, some 2, some 3] ∧ tagsOf wCte = [some 0, some 3, some 4] := by
  decide +kernel



/-- `CASE x WHEN a THEN b END` (a58885a operand visited, 5d2003c no `None` call) -/
def wCase : Node := .mk (cid "Case") 0 0 [leaf "Case" "arg" 1, leaf "Case" "rules" 2, leaf "Case" "rules" 3]
/-- `f(a FROM b)` (674e01f), `DELETE FROM t WHERE c` (4465d4e), `SHOW … WHERE c` (cad3869) -/
def wFunction : Node := .mk (cid "Function") 0 0 [leaf "Function" "args" 1, leaf "Function" "from_arg" 2]
def wDelete : Node := .mk (cid "Delete") 0 0 [leaf "Delete" "table" 1, leaf "Delete" "where" 2]
def wShow : Node := .mk (cid "Show") 0 0 [leaf "Show" "where" 1]
/-- `CREATE KNOWLEDGE_BASE … FROM (q)` (80b3789), `SELECT a LIMIT n OFFSET m` (bf148c0) -/
def wKb : Node := .mk (cid "CreateKnowledgeBase") 0 0 [leaf "CreateKnowledgeBase" "from_query" 1]
def wLimit : Node := .mk (cid "Select") 0 0
  [leaf "Select" "targets" 1, leaf "Select" "limit" 2, leaf "Select" "offset" 3]
theorem C13_regress_coverage :
    [wCase, wFunction, wDelete, wShow, wKb, wLimit].all (fun t => okTree σ t && (tagsOf t == expTags t)) = true
    ∧ tagsOf wCase = [some 0, some 1, some 2, some 3] ∧ tagsOf wDelete = [some 0, some 1, some 2] := by
  decide +kernel

/-- `f(x) OVER (…)` (f7229da): a replacement returned for the function takes its place -/
def wWindow : Node := .mk (cid "WindowFunction") 0 0 [leaf "WindowFunction" "function" 1]
theorem C13_regress_window :
    (walk σ (cbAt 1 (.mk 0 0 9 [])) wWindow ()).self.flat
      = (Node.mk (cid "WindowFunction") 0 0 [.mk 0 (sid "WindowFunction" "function") 9 []]).flat := by decide +kernel

/-- `WITH c AS (q) SELECT …` (ffd6264): a replacement returned for the body `q` replaces the body only -/
theorem C13_regress_cte :
    (walk σ (cbAt 3 (.mk 0 0 9 [])) wCte ()).self.flat
      = (Node.mk (cid "Select") 0 0
          [.mk (cid "CommonTableExpression") (sid "Select" "cte") 1
            [leaf "CommonTableExpression" "name" 2, .mk 0 (sid "CommonTableExpression" "query") 9 []],
           leaf "Select" "targets" 4]).flat := by decide +kernel

/-! ### non-vacuity: trees that satisfy the hypothesis of `C13_partial` -/

/-- `SELECT a, f(b) WHERE c = d ORDER BY e` (no FROM) -/
def okSelect : Node := .mk (cid "Select") 0 0
  [leaf "Select" "targets" 1,
   .mk (cid "Function") (sid "Select" "targets") 2 [leaf "Function" "args" 3],
   .mk (cid "BinaryOperation") (sid "Select" "where") 4 [leaf "BinaryOperation" "args" 5, leaf "BinaryOperation" "args" 6],
   .mk (cid "OrderBy") (sid "Select" "order_by") 7 [leaf "OrderBy" "field" 8]]
example : okTree σ okSelect = true := by decide +kernel
example : tagsOf okSelect = [some 0, some 1, some 2, some 3, some 4, some 5, some 6, some 7, some 8] := by
  decide +kernel
/-- `INSERT INTO t VALUES (a, b)`, `UPDATE t SET a = x`, `CASE WHEN a THEN b ELSE c END` -/
example : okTree σ (.mk (cid "Insert") 0 0 [leaf "Insert" "table" 1, leaf "Insert" "values" 2, leaf "Insert" "values" 3]) = true := by
  decide +kernel
example : okTree σ (.mk (cid "Update") 0 0 [leaf "Update" "table" 1, leaf "Update" "update_columns" 2]) = true := by
  decide +kernel
example : okTree σ (.mk (cid "Case") 0 0 [leaf "Case" "rules" 1, leaf "Case" "rules" 2, leaf "Case" "default" 3]) = true := by
  decide +kernel
/-- the remaining excepted configuration is rejected by the hypothesis: `CREATE TABLE t (c …)` with column objects -/
example : okTree σ (.mk (cid "CreateTable") 0 0
    [leaf "CreateTable" "name" 1, .mk (cid "TableColumn") (sid "CreateTable" "columns") 2 []]) = false := by decide +kernel

/-! ### real statements: the hypothesis holds for parser trees of ordinary queries

`Gen.Schema.sampleTrees` are the parser trees of `Gen.Schema.sampleSql` (SELECT … FROM … JOIN … WHERE … GROUP BY … HAVING …
ORDER BY … LIMIT, chained joins, WITH, UPDATE … SET … WHERE, multi-row INSERT, INSERT … SELECT, DELETE, CASE / CAST /
extract / window function, UNION, sub-queries with EXISTS / IN, statements with placeholders), serialised by the harness
from the live parser on every run. -/

/-- every sample statement satisfies the hypothesis of `C13_partial` / `C13_once` … -/
theorem phi13_samples : Schema.sampleTrees.length = 12 ∧ Schema.sampleTrees.all (okTree σ) = true := by decide +kernel

/-- … and the model walks it in textual order, visiting exactly the required nodes -/
theorem C13_samples_textual :
    Schema.sampleTrees.all (fun t => tagsOf t == expTags t) = true := by decide +kernel

example : Schema.sampleSql.head? = some
    "SELECT a, b AS c FROM t JOIN u ON t.x = u.x WHERE a = 1 AND b IN (1, 2) GROUP BY a HAVING count(a) > 1 ORDER BY b LIMIT 3 OFFSET 1" := rfl

/-! ### [review] "every required node exactly once" for walkers that deviate ONLY in the visiting order (general)

Contributed by the independent review when the walker still visited FROM before the select list, the right side of a join
first, WHERE before SET and WITH bodies late, which made `okTree σ t` false for ordinary queries.  Those order deviations
are repaired in the library, so for the probed schema `σ` the plain theorems (`C13_partial`, `C13_once`) now apply to
ordinary statements (`phi13_samples`).  The theorems below stay as *general* statements for any schema: the walker never
looks at the print template (`walk_congr`), neither does `reqTags` (`reqTags_congr`); hence for a walker whose only
deviation is the order, coverage / once / flags / replacement hold with the specification read on the schema whose print
templates are re-ordered to the walker's own order (`reorder`).  On the probed schema `reorder` changes nothing that
matters (`phi13_reordered`: the same two triples as `phi13`). -/

-- [review]
/-- rows agree on the walker's branch -/
-- [review]
def SameWalk (σ σ' : Schema) : Prop := ∀ c, (σ.row c).walk = (σ'.row c).walk ∧ (σ.row c).falsy = (σ'.row c).falsy
-- [review]
def SameKinds (σ σ' : Schema) : Prop := ∀ c, (σ.row c).kinds = (σ'.row c).kinds

-- [review]
mutual
-- [review]
theorem tr_congr {S : Type} (σ σ' : Schema) (h : SameWalk σ σ') (cb : Cb S) : ∀ t : Node, tr σ cb t = tr σ' cb t
  | .mk c s t ks => by
    simp only [tr]
    rw [items_congr σ σ' h cb ks]
    unfold step
    rw [(h c).1]
    have ht : ∀ x : Node, truthyIn σ x = truthyIn σ' x := fun x => by simp only [truthyIn, (h x.cls).2]
    simp only [ht]
-- [review]
theorem trVia_congr {S : Type} (σ σ' : Schema) (h : SameWalk σ σ') (cb : Cb S) : ∀ t : Node, trVia σ cb t = trVia σ' cb t
  | .mk c s t ks => by
    simp only [trVia]
    rw [items_congr σ σ' h cb ks]
-- [review]
theorem items_congr {S : Type} (σ σ' : Schema) (h : SameWalk σ σ') (cb : Cb S) : ∀ ks : List Node, items σ cb ks = items σ' cb ks
  | [] => by simp [items]
  | k :: ks => by
    simp only [items]
    rw [tr_congr σ σ' h cb k, trVia_congr σ σ' h cb k, items_congr σ σ' h cb ks]
end

-- [review]
theorem walk_congr {S : Type} (σ σ' : Schema) (h : SameWalk σ σ') (cb : Cb S) (t : Node) (st : S) :
    walk σ cb t st = walk σ' cb t st := by
  simp only [walk, tr_congr σ σ' h cb t]

-- [review]
theorem kind_congr (σ σ' : Schema) (h : SameKinds σ σ') (c s : Nat) : (σ.row c).kind s = (σ'.row c).kind s := by
  simp only [ClassRow.kind, h c]

-- [review]
mutual
-- [review]
theorem reqTags_congr (σ σ' : Schema) (h : SameKinds σ σ') : ∀ t : Node, reqTags σ t = reqTags σ' t
  | .mk c s t ks => by
    simp only [reqTags]
    rw [reqKids_congr σ σ' h (σ.row c) (σ'.row c) (fun s => kind_congr σ σ' h c s) ks]
-- [review]
theorem reqKids_congr (σ σ' : Schema) (h : SameKinds σ σ') (row row' : ClassRow) (hr : ∀ s, row.kind s = row'.kind s) :
    ∀ ks : List Node, reqKids σ row ks = reqKids σ' row' ks
  | [] => by simp [reqKids]
  | .mk c s t gs :: ks => by
    simp only [reqKids]
    rw [hr s, reqTags_congr σ σ' h (.mk c s t gs),
      reqKids_congr σ σ' h (σ.row c) (σ'.row c) (fun s => kind_congr σ σ' h c s) gs,
      reqKids_congr σ σ' h row row' hr ks]
end

/-- the same row with the print template re-ordered to the walker's order: the relevant slots the branch traverses, in
branch order, then the remaining printed slots -/
-- [review]
def reorderRow (r : ClassRow) : ClassRow :=
  let ws := (r.walk.map (·.slot)).eraseDups
  { r with print := ws.filter (fun s => r.print.contains s) ++ r.print.filter (fun s => !ws.contains s) }

-- [review]
def reorder (σ : Schema) : Schema := σ.map reorderRow

-- [review]
def σr : Schema := reorder σ

-- [review]
def namedDevsR : List (String × String × Dev) :=
  (schemaDevs σr).map fun d =>
    (Schema.classNames.getD d.1 "", (Schema.slotNames.getD d.1 []).getD d.2.1 "", d.2.2)

-- [review]
theorem row_reorder (σ : Schema) (c : Nat) : (reorder σ).row c = reorderRow (σ.row c) := by
  simp only [Schema.row, reorder, List.getD_eq_getElem?_getD, List.getElem?_map]
  cases σ[c]? <;> rfl

-- [review]
theorem sameWalk_reorder (σ : Schema) : SameWalk (reorder σ) σ := fun c => by rw [row_reorder]; exact ⟨rfl, rfl⟩
-- [review]
theorem sameKinds_reorder (σ : Schema) : SameKinds (reorder σ) σ := fun c => by rw [row_reorder]; rfl

/-- **exactly once, up to the visiting order — for ANY schema** -/
-- [review]
theorem C13_review_once_reordered (σ : Schema) (t : Node) (h : okTree (reorder σ) t = true) {S : Type} (cb : Cb S)
    (hcb : ∀ st n a b pq, (cb st n a b pq).1 = none) (st : S) :
    ((walk σ cb t st).log.map Visit.tag).Perm ((reqTags σ t).map some)
    ∧ (walk σ cb t st).log.map Visit.key = expected (reorder σ) t false false
    ∧ (walk σ cb t st).self = t ∧ (walk σ cb t st).repl = none := by
  have hw := walk_congr (reorder σ) σ (sameWalk_reorder σ) cb t st
  have h1 := C13_once (reorder σ) t h cb hcb st
  have h2 := (C13_lifting (reorder σ) t h).1 S cb hcb st
  rw [hw, reqTags_congr (reorder σ) σ (sameKinds_reorder σ) t] at h1
  rw [hw] at h2
  exact ⟨h1, h2.1, h2.2.1, h2.2.2⟩

-- [review]
theorem phi13_reordered : namedDevsR =
    [("CommonTableExpression", "query", .unvisited), ("CreateTable", "columns", .extra)] := by decide +kernel


-- [review] (b) of `C13_body` for the live walker, specification side read on the re-ordered schema
theorem C13_review_replace_reordered (σ : Schema) (t : Node) (h : okTree (reorder σ) t = true) (x : Nat) (r : Node)
    (htr : truthyIn (reorder σ) r = true) :
    (t.tag = x → (walk σ (cbAt x r) t ()).repl = some r)
    ∧ (t.tag ≠ x → (walk σ (cbAt x r) t ()).repl = none ∧ (walk σ (cbAt x r) t ()).self = subst (reorder σ) x r t) := by
  have hw := walk_congr (reorder σ) σ (sameWalk_reorder σ) (cbAt x r) t ()
  have := (C13_lifting (reorder σ) t h).2 x r htr
  rw [hw] at this
  exact this

-- [review, history] when FROM was walked first a `SELECT a FROM t JOIN u` tree was outside `okTree σ` and inside `okTree σr`;
-- with the repaired walker it is inside both and visited in textual order
example :
    let q : Node := .mk (cid "Select") 0 0
      [leaf "Select" "targets" 1,
       .mk (cid "Join") (sid "Select" "from_table") 2 [leaf "Join" "left" 3, leaf "Join" "right" 4]]
    okTree σ q = true ∧ okTree σr q = true ∧ tagsOf q = [some 0, some 1, some 2, some 3, some 4]
      ∧ reqTags σ q = [0, 1, 2, 3, 4] := by decide +kernel

/-! ### depth: the theorems hold at every nesting depth

`C13_lifting`, `C13_once`, `C13_unchanged`, `C13_trace`, `C13_no_none_call` are stated for every tree: the model walker is
defined by structural recursion and has no depth parameter.  The families below are `okTree` on the probed schema at every
height, so the hypothesis of `C13_partial` is not a hidden depth bound.  The check walks parser trees nested 300 … 440 levels
(the same shapes and random mixtures of them, in every clause) with the real code under the interpreter's ordinary recursion
limit and compares with this model (`tools/harness/walkhist.py`, depth stream). -/

/-- `((x op y) op y) … op y`, `f(f(… f(x)))`, `SELECT a FROM (SELECT a FROM (… t))`, `((t JOIN u ON c) JOIN u ON c) …`,
`CAST(CAST(… x …))`, `CASE WHEN a THEN (CASE WHEN a THEN … ELSE c END) ELSE c END` — `n` levels each -/
def opChain (n : Nat) : Node :=
  tower (cid "BinaryOperation") (sid "BinaryOperation" "args") [] [leaf "BinaryOperation" "args" 1]
    (leaf "BinaryOperation" "args" 2) n
def fnNest (n : Nat) : Node :=
  tower (cid "Function") (sid "Function" "args") [] [] (leaf "Function" "args" 2) n
def subNest (n : Nat) : Node :=
  tower (cid "Select") (sid "Select" "from_table") [leaf "Select" "targets" 1] [] (leaf "Select" "from_table" 2) n
def joinChain (n : Nat) : Node :=
  tower (cid "Join") (sid "Join" "left") [] [leaf "Join" "right" 1, leaf "Join" "condition" 3] (leaf "Join" "left" 2) n
def castNest (n : Nat) : Node :=
  tower (cid "TypeCast") (sid "TypeCast" "arg") [] [] (leaf "TypeCast" "arg" 2) n
def caseNest (n : Nat) : Node :=
  tower (cid "Case") (sid "Case" "rules") [leaf "Case" "rules" 1] [leaf "Case" "default" 3] (leaf "Case" "rules" 2) n

/-- what a family has to satisfy at one level (decidable, kernel-evaluated on the probed schema) -/
def levelOK (c s : Nat) (pre post : List Node) (base : Node) : Bool :=
  (base.slot == s) && okTree σ base && nodeOK (σ.row c) (slotsOf pre ++ s :: slotsOf post)
    && okKids σ (σ.row c) pre && okKids σ (σ.row c) post && ((σ.row c).kind s).required

theorem okTree_of_levelOK (c s : Nat) (pre post : List Node) (base : Node) (h : levelOK c s pre post base = true) (n : Nat) :
    okTree σ (tower c s pre post base n) = true := by
  simp only [levelOK, Bool.and_eq_true, beq_iff_eq] at h
  obtain ⟨⟨⟨⟨⟨h1, h2⟩, h3⟩, h4⟩, h5⟩, h6⟩ := h
  exact okTree_tower σ c s pre post base h1 h2 h3 h4 h5 h6 n

/-- the property at every depth of an operator chain: the hypothesis of `C13_partial` holds, the tree is at least `n` deep,
and a looking visitor is called exactly `2·n + 1` times (every operator and every operand once) -/
theorem C13_deep_ops (n : Nat) : okTree σ (opChain n) = true ∧ n < height (opChain n) ∧ C13_body σ (opChain n)
    ∧ ∀ {S : Type} (cb : Cb S), (∀ st m a b pq, (cb st m a b pq).1 = none) → ∀ st,
        (walk σ cb (opChain n) st).log.length = 2 * n + 1 := by
  have hl : levelOK (cid "BinaryOperation") (sid "BinaryOperation" "args") [] [leaf "BinaryOperation" "args" 1]
      (leaf "BinaryOperation" "args" 2) = true := by decide +kernel
  have hok := okTree_of_levelOK _ _ _ _ _ hl n
  refine ⟨hok, height_tower _ _ _ _ _ n, C13_lifting σ _ hok, ?_⟩
  intro S cb hcb st
  have hp := (C13_once σ (opChain n) hok cb hcb st).length_eq
  rw [List.length_map, List.length_map] at hp
  rw [hp]
  have hk : (reqKids σ (σ.row (cid "BinaryOperation")) [leaf "BinaryOperation" "args" 1]).length = 1
      ∧ (reqKids σ (σ.row (cid "BinaryOperation")) ([] : List Node)).length = 0
      ∧ (reqTags σ (leaf "BinaryOperation" "args" 2)).length = 1
      ∧ ((σ.row (cid "BinaryOperation")).kind (sid "BinaryOperation" "args")).required = true
      ∧ (leaf "BinaryOperation" "args" 2).slot = sid "BinaryOperation" "args" := by decide +kernel
  have := reqTags_tower_length σ (cid "BinaryOperation") (sid "BinaryOperation" "args") []
    [leaf "BinaryOperation" "args" 1] (leaf "BinaryOperation" "args" 2) hk.2.2.2.2 hk.2.2.2.1 n
  rw [hk.1, hk.2.1, hk.2.2.1] at this
  simp only [opChain]
  omega

/-- nested function calls, sub-queries in FROM, join chains, casts and CASE expressions: `okTree` at every depth, hence (a)
and (b) of the property -/
theorem C13_deep_calls (n : Nat) : okTree σ (fnNest n) = true ∧ n < height (fnNest n) ∧ C13_body σ (fnNest n) := by
  have hl : levelOK (cid "Function") (sid "Function" "args") [] [] (leaf "Function" "args" 2) = true := by decide +kernel
  have hok := okTree_of_levelOK _ _ _ _ _ hl n
  exact ⟨hok, height_tower _ _ _ _ _ n, C13_lifting σ _ hok⟩
theorem C13_deep_subqueries (n : Nat) : okTree σ (subNest n) = true ∧ n < height (subNest n) ∧ C13_body σ (subNest n) := by
  have hl : levelOK (cid "Select") (sid "Select" "from_table") [leaf "Select" "targets" 1] []
      (leaf "Select" "from_table" 2) = true := by decide +kernel
  have hok := okTree_of_levelOK _ _ _ _ _ hl n
  exact ⟨hok, height_tower _ _ _ _ _ n, C13_lifting σ _ hok⟩
theorem C13_deep_joins (n : Nat) : okTree σ (joinChain n) = true ∧ n < height (joinChain n) ∧ C13_body σ (joinChain n) := by
  have hl : levelOK (cid "Join") (sid "Join" "left") [] [leaf "Join" "right" 1, leaf "Join" "condition" 3]
      (leaf "Join" "left" 2) = true := by decide +kernel
  have hok := okTree_of_levelOK _ _ _ _ _ hl n
  exact ⟨hok, height_tower _ _ _ _ _ n, C13_lifting σ _ hok⟩
theorem C13_deep_casts (n : Nat) : okTree σ (castNest n) = true ∧ n < height (castNest n) ∧ C13_body σ (castNest n) := by
  have hl : levelOK (cid "TypeCast") (sid "TypeCast" "arg") [] [] (leaf "TypeCast" "arg" 2) = true := by decide +kernel
  have hok := okTree_of_levelOK _ _ _ _ _ hl n
  exact ⟨hok, height_tower _ _ _ _ _ n, C13_lifting σ _ hok⟩
theorem C13_deep_case (n : Nat) : okTree σ (caseNest n) = true ∧ n < height (caseNest n) ∧ C13_body σ (caseNest n) := by
  have hl : levelOK (cid "Case") (sid "Case" "rules") [leaf "Case" "rules" 1] [leaf "Case" "default" 3]
      (leaf "Case" "rules" 2) = true := by decide +kernel
  have hok := okTree_of_levelOK _ _ _ _ _ hl n
  exact ⟨hok, height_tower _ _ _ _ _ n, C13_lifting σ _ hok⟩

/-- the hypothesis of `C13_partial` is no depth bound: it is satisfiable at every height -/
theorem C13_any_depth (n : Nat) : ∃ t, n < height t ∧ okTree σ t = true ∧ C13_body σ t :=
  ⟨opChain n, (C13_deep_ops n).2.1, (C13_deep_ops n).1, (C13_deep_ops n).2.2.1⟩

/-- a walker that enters at most `f` levels is the walker on every tree of height ≤ `f` (any schema, any visitor) … -/
theorem C13_cut_eq {S : Type} (σ : Schema) (cb : Cb S) (t : Node) (f : Nat) (h : height t ≤ f) (st : S) :
    walkCut σ cb f t st = walk σ cb t st := walkCut_eq σ cb t f h st
/-- … without budget it calls nothing … -/
theorem C13_cut_nothing {S : Type} (σ : Schema) (cb : Cb S) (t : Node) (st : S) : (walkCut σ cb 0 t st).log = [] :=
  walkCut_zero σ cb t st
/-- … and on a tree that does not fit it is another function: of the 7 calls on a chain of height 4 a budget of 2 makes 3 -/
theorem C13_cut_witness :
    ((walk σ cbLog (opChain 3) ()).log.map Visit.tag).length = 7
    ∧ (walkCut σ cbLog 2 (opChain 3) ()).log.map Visit.tag = [some 0, some 0, some 1]
    ∧ (walkCut σ cbLog 4 (opChain 3) ()).log.map Visit.tag = (walk σ cbLog (opChain 3) ()).log.map Visit.tag := by
  decide +kernel

/-! ### process history: a call observes nothing of earlier calls

`Walk.Proc H` is a walker with hidden process state; `specSeen σ j` is what the specification says about the call `j` alone
(a looking visitor: the calls of `walk`; a visitor raising at `x`: the calls up to `x`, and the exception comes out).  The
history stream of the check makes hundreds of aborted walks (raised at random nodes of ordinary and of deep trees, from nested
walks, by the planner's own visitors) between ordinary walks in one process and requires of every ordinary walk what
`C13_history_free` says: the result of the same walk without any history (and of the Lean walker). -/

/-- for the model: whatever was called before — and however it ended — a call gives `specSeen` of that call -/
theorem C13_history_free (σ : Schema) (pre : List Job) (j : Job) :
    seenAfter (modelProc σ) () pre j = specSeen σ j ∧ HistoryFree (modelProc σ) :=
  ⟨modelProc_seen σ () pre j, modelProc_historyFree σ⟩

/-- the calls of a walk aborted at `x` are a prefix of the calls of the walk … -/
theorem C13_abort_prefix (σ : Schema) (x : Nat) (t : Node) :
    abortLog x (walk σ cbLog t ()).log <+: (walk σ cbLog t ()).log := abortLog_prefix x _
/-- … on an `okTree`: the textual preorder of the required nodes up to the raising node -/
theorem C13_abort_expected (σ : Schema) (x : Nat) (t : Node) (h : okTree σ t = true) :
    (specSeen σ (.abortAt x t)).calls <+: expected σ t false false := by
  have g := ((C13_lifting σ t h).1 Unit cbLog (fun _ _ _ _ _ => rfl) ()).1
  simp only [specSeen]
  rw [← g]
  exact (abortLog_prefix x _).map _

/-- a walker that counts its nesting depth in process state (limit `lim`, no restore when an exception leaves the walk):
in a fresh process it is right on every tree that fits the limit, for looking and for raising visitors … -/
theorem C13_ctr_fresh (σ : Schema) (lim : Nat) (t : Node) (h : height t ≤ lim) (x : Nat) :
    (ctrProc σ lim 0 (.look t)).1 = specSeen σ (.look t)
    ∧ (ctrProc σ lim 0 (.abortAt x t)).1 = specSeen σ (.abortAt x t) :=
  ⟨ctrProc_fresh σ lim t h, ctrProc_fresh_abort σ lim x t h⟩

/-- … and wrong after enough aborted walks: with limit 4, two walks of `(x op y)` aborted at the operand `x` (two active
calls each) leave no budget: after the first the ordinary walk of the same statement is still right, after the second it
calls nothing -/
theorem C13_history_witness :
    seenAfter (ctrProc σ 4) 0 [] (.look (opChain 1)) = specSeen σ (.look (opChain 1))
    ∧ seenAfter (ctrProc σ 4) 0 [.abortAt 2 (opChain 1)] (.look (opChain 1)) = specSeen σ (.look (opChain 1))
    ∧ seenAfter (ctrProc σ 4) 0 [.abortAt 2 (opChain 1), .abortAt 2 (opChain 1)] (.look (opChain 1)) = ⟨[], false⟩
    ∧ (specSeen σ (.look (opChain 1))).calls.length = 3
    ∧ ¬ HistoryFree (ctrProc σ 4) := by
  have h1 : seenAfter (ctrProc σ 4) 0 [] (.look (opChain 1)) = specSeen σ (.look (opChain 1)) := by decide +kernel
  have h2 : seenAfter (ctrProc σ 4) 0 [.abortAt 2 (opChain 1), .abortAt 2 (opChain 1)] (.look (opChain 1))
      ≠ specSeen σ (.look (opChain 1)) := by decide +kernel
  refine ⟨h1, by decide +kernel, by decide +kernel, by decide +kernel, ?_⟩
  intro hf
  exact h2 ((hf 0 [.abortAt 2 (opChain 1), .abortAt 2 (opChain 1)] (.look (opChain 1))).trans h1)

end MindsVerif.Props.C13
