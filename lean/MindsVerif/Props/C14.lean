import MindsVerif.Lemmas.ModelJoinArgs
import MindsVerif.Lemmas.ModelJoinFlow
import MindsVerif.Lemmas.ModelJoinLimit
/-!
# C14 — in a table–model join the model gets the right rows and arguments, only those

Statements are about `MindsVerif.ModelJoin`, a transcription of `PlanJoinTablesQuery` as it is on the pinned
tree now (all findings this package reported have been repaired upstream and are mirrored in the model).  The
model is tied to the code by the whole-plan correspondence stream of `tools/props/c14.py`.  Everything is
proved for ALL condition trees / operand lists / USING lists / select lists (structural induction, no
enumeration, no hypotheses other than "the planner produced this plan").

* statement  `C14_full` (every clause, model level) and `C14_partial : C14_full`; `WhereClauses`,
             `C14_where_clauses`
* arguments  `C14_2` (a top-level `model.col = const` / `const = model.col` conjunct, predict target excluded, is
             an argument and becomes `0 = 0`), `C14_2_iff`, `C14_2_rowdict_sound`, `C14_2_rowdict_complete`,
             `C14_2_not_in_fetch`, `C14_2_table_conditions_never_arguments`, `C14_2_no_consumable_left`,
             `C14_2_conjunctwise`, `C14_2_rest_unchanged`, `C14_2_outer`, `C14_2_outer_query` (the residual WHERE
             accepts every row the original accepted; `val` is an arbitrary valuation of the atoms, so this is
             monotonicity of the AND-skeleton), `C14_target_stays` (the predicted column stays an outer filter)
* filters    `C14_3` (a WHERE-derived filter of a table / sub-select is a top-level conjunct of WHERE mentioning
             only that operand), `C14_3_exact` (nothing when `or` occurs; no `IS` condition on the null-supplying
             side of an outer join), `C14_3_pushed_stored`, `C14_3_nullable`, `C14_3_mentions_only`;
             ON-derived: `C14_3_on` (top-level conjuncts `own column = Constant` of the ON of a join that is
             not RIGHT / FULL, or semi-join filters), `C14_3_on_outer`, `C14_3_on_mentions_only`
* USING      `C14_4_values_from_using`, `C14_4_last_wins`, `C14_4_unprefixed`, `C14_4_foreign_prefix`,
             `C14_4_own_prefix` (alias prefix in any case), `C14_4_partition_size_removed`
* mapping    `C14_5_sound`, `C14_5_complete`, `C14_5_neutralised`, `C14_5_swap` (`model JOIN table ON …`),
             `C14_rewrite_keeps_table` (identifier rewriting keeps the operand an identifier denotes),
             `C14_obs_non_equality_mapped` (observation, not a deviation from the property: a non-equality
             `m.d > t.d` in the model's ON is mapped as well and its residue is `0 > 0`)
* catalog    `C14_cat_project_via_metadata`, `C14_cat_model_any_case`, `C14_cat_model_default_project`,
             `C14_cat_case_invariant` (which operand is a model: every catalog name and every query qualifier is
             compared in lower case; a project known only through `predictor_metadata` is a database)
* rows       `C14_1` (GLOBAL: the apply steps of every plan — also inside MapReduceSteps — are, up to order, exactly
             the model operands, one each (`C14_1_nodup`); the input of the apply step of operand `i` is built by
             fetch / sub-select / apply / join steps from exactly the operands to its left, in join order),
             `C14_1_plan` (the same through `plan`), `C14_1_apply_input`, `C14_1_predictor_first`;
             `C14_limit_plain_row` (a fetch carries LIMIT / OFFSET / ORDER BY only in a plain row query: no
             HAVING, GROUP BY, DISTINCT and no aggregate anywhere in the select list), `C14_limit_needs_use_limit`

The `example`s under "the repaired behaviours" pin, by `decide`, the behaviour after each upstream repair on the
input that used to exhibit the defect (a regression breaks them); the `[review]` examples run one whole query
through `plan` and instantiate `C14_1_plan` / `C14_limit_plain_row` on it.
-/
namespace MindsVerif.Props.C14
open MindsVerif.ModelJoin

/-! ## vocabulary of the full statement -/

/-- admissible truth assignments for the outer filter: three-valued, `0 = 0` is true -/
def ValOK (val : E → Nat) : Prop := (∀ e, val e ≤ 2) ∧ val (zeroEq "=") = 2

/-- the WHERE / USING clauses for one model operand `i` and one table operand `j`
(`consumed ops i tgt c` = "`c` is an equality between a column of model `i`, not the predict target, and a
constant, in either orientation") -/
def WhereClauses (ops : List Operand) (w : E) (i j : Nat) (tgt : Option String) (u : List (String × String)) : Prop :=
    -- model-column = constant conjuncts become arguments and are neutralised
    (∀ c ∈ topConjuncts w, consumed ops i tgt c = true →
        (∃ d, rowDict ops i tgt (some w) = some d ∧ eqKey c ∈ keys d) ∧ neut1 (consumed ops i tgt) c = zeroEq "=")
    -- arguments come only from top-level equalities on the model's own columns
    ∧ (∀ d k v, rowDict ops i tgt (some w) = some d → (k, v) ∈ d →
        ∃ c ∈ topConjuncts w, consumed ops i tgt c = true ∧ eqKey c = k ∧ eqVal c = some v)
    -- the consumed conditions no longer filter the outer result
    ∧ (∀ val, ValOK val → ev val w ≤ ev val (neutTop (consumed ops i tgt) w))
    -- pushed filters are top-level conjuncts of WHERE mentioning only that table
    ∧ (∀ f ∈ conditionsOf ops j w, ∃ c ∈ topConjuncts w, attributed ops c = some (j, f) ∧
        ∀ q ∈ qualsOf c, tableFor ops q = some j)
    -- USING: an alias prefix selects the model whatever its case
    ∧ (∀ k a b rest, splitDots k = a :: b :: rest → (aliasesOf (ops.getD i default)).contains [lower a] = true →
        routeKey (aliasesOf (ops.getD i default)) k = some (lower (joinDots (b :: rest))))
    ∧ (∀ k' v, (k', v) ∈ paramsLoop (aliasesOf (ops.getD i default)) u [] →
        ∃ k, (k, v) ∈ u ∧ routeKey (aliasesOf (ops.getD i default)) k = some k')

/-- **the statement** (model level): every clause of the property except the global form of T14.1 -/
def C14_full : Prop :=
  ∀ (ops : List Operand) (w : E) (i j : Nat) (tgt : Option String) (u : List (String × String)),
    WhereClauses ops w i j tgt u
    -- ON-derived filters: top-level conjuncts of the ON of a join that is not RIGHT / FULL, mentioning only
    -- that table (or semi-join filters)
    ∧ (∀ on st, ∀ f ∈ (onFilters ops j (some on) st).2, rightOrFull (ops.getD j default).jtype = false ∧
        ((f ∈ topConjuncts on ∧ ∀ q ∈ qualsOf f, tableFor ops q = some j) ∨ isInFilter f = true))
    -- ON comparisons between a column of model `i` and another column -> columns_map, neutralised
    ∧ (∀ on op q1 n1 q2 n2, E.bin op (.col q1 n1) (.col q2 n2) ∈ nodes on → tableFor ops q1 = some i →
        n1 ∈ keys (colMap ops i on) ∧ neut (mapped ops i) (.bin op (.col q1 n1) (.col q2 n2)) = zeroEq op)
    -- the columns_map of model `i` is built from its join's ON — for `model JOIN table` from that Join's ON, which
    -- the JoinStep then sees neutralised
    ∧ ((predictorArgs ops i (some w) (some u)).2.2.2 = (effOn ops i).map (colMap ops i) ∧
       (isSwap ops = true → effOn ops 0 = (ops.getD 1 default).on ∧
          onAfter ops 1 = (ops.getD 1 default).on.map (neut (mapped ops 0))))
    -- what is pushed is among what is stored, and on the null-supplying side of an outer join it rejects NULLs
    ∧ (∀ f ∈ whereFilters ops j (some w), f ∈ conditionsOf ops j w ∧ (isNullable ops j = true → acceptsNull f = false))
    -- identifier rewriting keeps the table an identifier denotes
    ∧ (∀ q, lookupFrom ops q 0 = some j → lookupFrom ops (shortName ops j) 0 = some j)

/-! ## T14.2 — which comparisons become model arguments -/

/-- every `row_dict` entry comes from a TOP-LEVEL conjunct that is an equality between a column of the
model (not the predict target) and a Constant/Parameter, in either orientation -/
theorem C14_2_rowdict_sound (ops : List Operand) (i : Nat) (tgt : Option String) (w : E)
    (d : List (String × String)) (k v : String)
    (hd : rowDict ops i tgt (some w) = some d) (hkv : (k, v) ∈ d) :
    ∃ c ∈ topConjuncts w, consumed ops i tgt c = true ∧ eqKey c = k ∧ eqVal c = some v := by
  simp only [rowDict] at hd
  split at hd
  · cases hd
  · injection hd with hd
    subst hd
    rcases mem_rowDictLoop tgt _ [] k v hkv with h | ⟨c, r, hm, hp, ht, hv⟩
    · cases h
    · obtain ⟨n, hn, ha⟩ := mem_conditionsOf.mp hm
      obtain ⟨h1, h2, h3⟩ := attributed_consumed ha hp ht
      exact ⟨n, hn, h1, h2, by rw [h3, hv]⟩

/-- every top-level conjunct passing the test yields a `row_dict` key -/
theorem C14_2_rowdict_complete (ops : List Operand) (i : Nat) (tgt : Option String) (w c : E)
    (hn : c ∈ topConjuncts w) (hc : consumed ops i tgt c = true) :
    ∃ d, rowDict ops i tgt (some w) = some d ∧ eqKey c ∈ keys d := by
  obtain ⟨c', r, v, ha, hp, hv, _, ht⟩ := consumed_attributed hc
  have hm : c' ∈ conditionsOf ops i w := mem_conditionsOf.mpr ⟨_, hn, ha⟩
  have hne : (conditionsOf ops i w).isEmpty = false := by
    cases h : conditionsOf ops i w with
    | nil => rw [h] at hm; cases hm
    | cons _ _ => rfl
  refine ⟨rowDictLoop tgt (conditionsOf ops i w) [], by simp [rowDict, hne], ?_⟩
  exact keys_rowDictLoop_complete tgt _ [] c' (eqKey c) r v hm hp ht hv

/-- **T14.2 (iff)**: `k` is a model argument iff some top-level conjunct of WHERE is an equality between the
model's column `k` (not the predict target) and a constant -/
theorem C14_2_iff (ops : List Operand) (i : Nat) (tgt : Option String) (w : E) (k : String) :
    (∃ d, rowDict ops i tgt (some w) = some d ∧ k ∈ keys d) ↔
    (∃ c ∈ topConjuncts w, consumed ops i tgt c = true ∧ eqKey c = k) := by
  constructor
  · rintro ⟨d, hd, hk⟩
    simp only [keys, List.mem_map] at hk
    obtain ⟨⟨k', v⟩, hm, e⟩ := hk
    simp only at e
    subst e
    obtain ⟨c, hc, h1, h2, _⟩ := C14_2_rowdict_sound ops i tgt w d k' v hd hm
    exact ⟨c, hc, h1, h2⟩
  · rintro ⟨c, hc, h1, h2⟩
    rw [← h2]
    exact C14_2_rowdict_complete ops i tgt w c hc h1

/-- a comparison consumed by model `i` is stored for operand `i` only — so it is in no table's fetch -/
theorem C14_2_not_in_fetch (ops : List Operand) (i j : Nat) (tgt : Option String) (n f : E)
    (hc : consumed ops i tgt n = true) (ha : attributed ops n = some (j, f)) : j = i := by
  obtain ⟨c, _, _, ha', _⟩ := consumed_attributed hc
  rw [ha'] at ha
  injection ha with ha
  injection ha with h1 _
  exact h1.symm

/-- conditions on table columns never become model arguments: every entry originates from a conjunct whose
only identifier resolves to the model operand itself -/
theorem C14_2_table_conditions_never_arguments (ops : List Operand) (i : Nat) (tgt : Option String) (w : E)
    (d : List (String × String)) (k v : String)
    (hd : rowDict ops i tgt (some w) = some d) (hkv : (k, v) ∈ d) :
    ∃ c ∈ topConjuncts w, eqKey c = k ∧ ∀ q ∈ qualsOf c, tableFor ops q = some i := by
  obtain ⟨c, hc, h1, h2, _⟩ := C14_2_rowdict_sound ops i tgt w d k v hd hkv
  obtain ⟨c', _, _, ha, _⟩ := consumed_attributed h1
  exact ⟨c, hc, h2, attributed_quals ha⟩

/-- neutralisation acts conjunct by conjunct; a consumed conjunct becomes `0 = 0` -/
theorem C14_2_conjunctwise (ops : List Operand) (i : Nat) (tgt : Option String) (w : E) :
    topConjuncts (neutTop (consumed ops i tgt) w) = (topConjuncts w).map (neut1 (consumed ops i tgt)) ∧
    ∀ c, consumed ops i tgt c = true → neut1 (consumed ops i tgt) c = zeroEq "=" := by
  constructor
  · exact topConjuncts_neutTop _ w
  · intro c hc
    obtain ⟨l, r, e⟩ := consumed_shape hc
    subst e
    simp [neut1, hc]

/-- after neutralisation no consumable conjunct is left in the outer query -/
theorem C14_2_no_consumable_left (ops : List Operand) (w : E) :
    ∀ c ∈ topConjuncts (outerWhere ops w), consumedAny ops ops 0 c = false := by
  intro c hc
  simp only [outerWhere, topConjuncts_neutTop, List.mem_map] at hc
  obtain ⟨c0, _, e⟩ := hc
  subst e
  cases c0 with
  | bin op l r =>
    simp only [neut1]
    split
    · exact consumedAny_zero ops ops 0 op
    · rename_i h; simpa using h
  | _ =>
    simp only [neut1]
    cases h : consumedAny ops ops 0 _ with
    | false => rfl
    | true => obtain ⟨l, r, e⟩ := consumedAny_eq ops ops 0 _ h; cases e

/-- nothing but consumed conjuncts is changed -/
theorem C14_2_rest_unchanged (p : E → Bool) (w : E) (h : ∀ c ∈ topConjuncts w, p c = false) : neutTop p w = w :=
  neutTop_id p w h

/-- **"no longer filter the outer result"**: every row accepted by the original WHERE is accepted by the
neutralised one (three-valued, for every valuation of the atoms in which `0 = 0` is true) -/
theorem C14_2_outer (ops : List Operand) (i : Nat) (tgt : Option String) (w : E) (val : E → Nat)
    (hval : ValOK val) : ev val w ≤ ev val (neutTop (consumed ops i tgt) w) :=
  neutTop_relaxes _ val (fun _ h => consumed_shape h) hval.1 hval.2 w

/-- … also for the residual WHERE of the final QueryStep (all models together) -/
theorem C14_2_outer_query (ops : List Operand) (w : E) (val : E → Nat) (hval : ValOK val) :
    ev val w ≤ ev val (outerWhere ops w) :=
  neutTop_relaxes _ val (fun n h => consumedAny_eq ops ops 0 n h) hval.1 hval.2 w

/-- **T14.2**: a top-level equality between a model column (not the target) and a constant, in either
orientation, is an argument and becomes `0 = 0` -/
theorem C14_2 (ops : List Operand) (i : Nat) (tgt : Option String) (w c : E)
    (hc : c ∈ topConjuncts w) (hcons : consumed ops i tgt c = true) :
    (∃ d, rowDict ops i tgt (some w) = some d ∧ eqKey c ∈ keys d) ∧ neut1 (consumed ops i tgt) c = zeroEq "=" :=
  ⟨C14_2_rowdict_complete ops i tgt w c hc hcons, (C14_2_conjunctwise ops i tgt w).2 _ hcons⟩

/-! ## T14.3 — what is pushed into a table's fetch -/

/-- exact characterisation: the WHERE-derived filters of operand `j` (table or sub-select) are the stored
copies of the top-level conjuncts attributed to `j` — unless an `or` occurs anywhere in WHERE, and without the
`IS` conditions when `j` is on the null-supplying side of an outer join (15097fa) -/
theorem C14_3_exact (ops : List Operand) (j : Nat) (w f : E) :
    f ∈ whereFilters ops j (some w) ↔
      (opsOf w).contains "or" = false ∧ (∃ c ∈ topConjuncts w, attributed ops c = some (j, f)) ∧
      (isNullable ops j = true → acceptsNull f = false) := by
  simp only [whereFilters]
  split
  · rename_i h; rw [h]; simp
  · rename_i h
    have h' : (opsOf w).contains "or" = false := by simpa using h
    split
    · rename_i hn
      rw [List.mem_filter, mem_conditionsOf, h']
      simp [hn]
    · rename_i hn
      rw [mem_conditionsOf, h']
      simp [hn]

/-- what is pushed is among what is stored -/
theorem C14_3_pushed_stored (ops : List Operand) (j : Nat) (w : Option E) (f : E) (hf : f ∈ whereFilters ops j w) :
    ∃ w', w = some w' ∧ f ∈ conditionsOf ops j w' := by
  cases w with
  | none => simp [whereFilters] at hf
  | some w' =>
    refine ⟨w', rfl, ?_⟩
    simp only [whereFilters] at hf
    split at hf
    · cases hf
    · split at hf
      · exact (List.mem_filter.mp hf).1
      · exact hf

/-- **15097fa**: on the null-supplying side of an outer join no `IS` condition is applied before the join -/
theorem C14_3_nullable (ops : List Operand) (j : Nat) (w : Option E) (f : E) (hn : isNullable ops j = true)
    (hf : f ∈ whereFilters ops j w) : acceptsNull f = false := by
  cases w with
  | none => simp [whereFilters] at hf
  | some w' => exact ((C14_3_exact ops j w' f).mp hf).2.2 hn

/-- … which mentions only that operand -/
theorem C14_3_mentions_only (ops : List Operand) (j : Nat) (c f : E) (ha : attributed ops c = some (j, f)) :
    ∀ q ∈ qualsOf c, tableFor ops q = some j := attributed_quals ha

/-- **T14.3 (WHERE)**: every pushed filter is (the stored copy of) a top-level conjunct of WHERE that
mentions only that operand -/
theorem C14_3 (ops : List Operand) (j : Nat) (w f : E) (hf : f ∈ conditionsOf ops j w) :
    ∃ c ∈ topConjuncts w, attributed ops c = some (j, f) ∧ ∀ q ∈ qualsOf c, tableFor ops q = some j := by
  obtain ⟨n, hn, ha⟩ := mem_conditionsOf.mp hf
  exact ⟨n, hn, ha, attributed_quals ha⟩

/-- **T14.3 (ON)**: whatever `get_filters_from_join_conditions` returns for operand `j` (for any planner
state), the join is not RIGHT / FULL, and each filter is either a TOP-LEVEL conjunct of that join's ON of the
form `own column = Constant` that mentions only operand `j`, or a semi-join filter `col IN :Result`
(derived from an ON equality; its soundness is C08's subject) -/
theorem C14_3_on (ops : List Operand) (j : Nat) (on : E) (st : St) (f : E)
    (hf : f ∈ (onFilters ops j (some on) st).2) :
    rightOrFull (ops.getD j default).jtype = false ∧
    ((f ∈ topConjuncts on ∧ onConstP ops j f = true ∧ ∀ q ∈ qualsOf f, tableFor ops q = some j) ∨
      isInFilter f = true) := by
  obtain ⟨h1, h2⟩ := onFilters_shape ops j on st f hf
  refine ⟨h1, ?_⟩
  rcases h2 with ⟨ha, hb⟩ | h
  · left; exact ⟨ha, hb, onConstP_quals hb⟩
  · right; exact h

/-- nothing is derived from ON for the right operand of a RIGHT / FULL join -/
theorem C14_3_on_outer (ops : List Operand) (j : Nat) (on : Option E) (st : St)
    (h : rightOrFull (ops.getD j default).jtype = true) : (onFilters ops j on st).2 = [] := by
  cases on with
  | none => rfl
  | some on => simp only [onFilters, h, if_true]

theorem C14_3_on_mentions_only (ops : List Operand) (j : Nat) (f : E) (h : onConstP ops j f = true) :
    ∀ q ∈ qualsOf f, tableFor ops q = some j := onConstP_quals h

/-! ## T14.4 — USING -/

/-- every param value comes from a USING entry routed to that key (lower-cased; own alias prefix stripped) -/
theorem C14_4_values_from_using (als : List (List String)) (u : List (String × String)) (k' v : String)
    (h : (k', v) ∈ paramsLoop als u []) : ∃ k, (k, v) ∈ u ∧ routeKey als k = some k' := by
  rcases mem_paramsLoop als u [] k' v h with h | h
  · cases h
  · exact h

/-- the value reaching the model under a key is that of the last USING entry routed to it: unchanged -/
theorem C14_4_last_wins (als : List (List String)) (u1 u2 : List (String × String)) (k v k' : String)
    (hk : routeKey als k = some k') (h2 : ∀ x ∈ u2, routeKey als x.1 ≠ some k') :
    dictGet (paramsLoop als (u1 ++ (k, v) :: u2) []) k' = some v :=
  paramsLoop_last als u1 u2 k v k' [] hk h2

/-- an un-prefixed key reaches EVERY model, lower-cased -/
theorem C14_4_unprefixed (als : List (List String)) (k x : String) (h : splitDots k = [x]) :
    routeKey als k = some (lower k) := by simp [routeKey, h]

/-- a key prefixed by something that is not one of the model's aliases does not reach the model -/
theorem C14_4_foreign_prefix (als : List (List String)) (k a b : String) (rest : List String)
    (h : splitDots k = a :: b :: rest) (ha : als.contains [lower a] = false) : routeKey als k = none := by
  simp only [routeKey, h, ha]; rfl

/-- a key prefixed by one of the model's aliases, written in ANY case, reaches it with the prefix removed -/
theorem C14_4_own_prefix (als : List (List String)) (k a b : String) (rest : List String)
    (h : splitDots k = a :: b :: rest) (ha : als.contains [lower a] = true) :
    routeKey als k = some (lower (joinDots (b :: rest))) := by
  simp only [routeKey, h, ha]; rfl

/-- `partition_size` is removed from the params -/
theorem C14_4_partition_size_removed (als : List (List String)) (u : List (String × String))
    (ps : List (String × String)) (h : (modelParams als (some u)).1 = some ps) : "partition_size" ∉ keys ps := by
  simp only [modelParams] at h
  injection h with h
  subst h
  exact not_mem_keys_dictPop _ _

/-! ## T14.5 — ON comparisons between model and other columns → columns_map -/

theorem C14_5_sound (ops : List Operand) (i : Nat) (on : E) (k : String) (c : E) (h : (k, c) ∈ colMap ops i on) :
    ∃ op q1 n1 q2 n2, E.bin op (.col q1 n1) (.col q2 n2) ∈ nodes on ∧
      ((tableFor ops q1 = some i ∧ k = n1 ∧ c = .col q2 n2) ∨
       (tableFor ops q1 ≠ some i ∧ tableFor ops q2 = some i ∧ k = n2 ∧ c = .col q1 n1)) := by
  rcases mem_colMapLoop ops i (nodes on) [] k c h with h | h
  · cases h
  · exact h

theorem C14_5_complete (ops : List Operand) (i : Nat) (on : E) (op : String) (q1 : List String) (n1 : String)
    (q2 : List String) (n2 : String) (h : E.bin op (.col q1 n1) (.col q2 n2) ∈ nodes on) :
    (tableFor ops q1 = some i → n1 ∈ keys (colMap ops i on)) ∧
    (tableFor ops q1 ≠ some i → tableFor ops q2 = some i → n2 ∈ keys (colMap ops i on)) :=
  keys_colMapLoop_complete ops i (nodes on) [] op q1 n1 q2 n2 h

/-- the mapped comparisons are neutralised in the model's join condition: none is left, and a mapped
comparison `l op r` becomes `0 op 0` (`0 = 0` for an equality) -/
theorem C14_5_neutralised (ops : List Operand) (i : Nat) (on : E) :
    (∀ n ∈ nodes (neut (mapped ops i) on), mapped ops i n = false) ∧
    (∀ op l r, mapped ops i (.bin op l r) = true → neut (mapped ops i) (.bin op l r) = zeroEq op) := by
  refine ⟨neut_clean _ (mapped_leafPred ops i) on, ?_⟩
  intro op l r h; simp [neut, h]

/-- the WHERE / USING clauses of the full statement hold for all inputs -/
theorem C14_where_clauses (ops : List Operand) (w : E) (i j : Nat) (tgt : Option String) (u : List (String × String)) :
    WhereClauses ops w i j tgt u :=
  ⟨fun c hc h => C14_2 ops i tgt w c hc h,
   fun d k v hd hkv => C14_2_rowdict_sound ops i tgt w d k v hd hkv,
   fun val hval => C14_2_outer ops i tgt w val hval,
   fun f hf => C14_3 ops j w f hf,
   fun k a b rest h ha => C14_4_own_prefix _ k a b rest h ha,
   fun k' v h => C14_4_values_from_using _ u k' v h⟩

/-! ## T14.1 — bookkeeping (local) -/

/-- the apply step of a model operand takes the step on top of the stack as its input, and exactly this one
step is handed to `add_plan_step` -/
theorem C14_1_apply_input (ops : List Operand) (i : Nat) (w : Option E) (u : Option (List (String × String)))
    (st st' : St) (h : processPredictor ops i w u st = .ok st') :
    ∃ top rest, st.stack = top :: rest ∧
      st' = (let a := predictorArgs ops i w u
             let r := addPlanStep st (.apply i top a.1 a.2.1 a.2.2.2) a.2.2.1
             { r.1 with stack := r.2 :: r.1.stack }) := by
  simp only [processPredictor] at h
  split at h
  · cases h
  · rename_i top rest hs
    injection h with h
    exact ⟨top, rest, hs, h.symm⟩

/-- **T14.1 (global)**.  For every operand list, WHERE, USING and every plan `steps` the modelled planner
produces (`planWith`: join sequence incl. the model-first swap, step stack, MapReduce partitions opened by
`partition_size` and closed before non-partitionable steps / at the end):
* the operands of the apply steps of the plan (top level and inside MapReduceSteps) are a permutation of
  the indices of the model operands — and those are distinct (`C14_1_nodup`), so: exactly one apply step per
  model reference;
* the input reference of the apply step of operand `i` HOLDS `leftOf ops i` = `[0, …, i-1]` (`[1]` for
  `model JOIN table`): following the plan's dataflow (`Holds`: fetch j ↦ [j], sub-select j ↦ [j],
  apply j ↦ [j], join l r ↦ l ++ r, a MapReduceStep ↦ its last sub-step) it is the join of everything to the
  left of the model, in order. -/
theorem C14_1 (ops : List Operand) (w : Option E) (u : Option (List (String × String))) (k : Nat)
    (info : QInfo) (steps : List Step) (h : planWith ops w u k info = .ok steps) :
    ((appliesOf steps).map (·.1)).Perm (modelIdx ops) ∧
    ∀ ir ∈ appliesOf steps, isModAt ops ir.1 = true ∧ Holds steps ir.2 (leftOf ops ir.1) :=
  planWith_flow ops w u k info steps h

/-- **which rows the model is applied to (LIMIT)**.  In every plan the modelled planner produces, a fetch step
carries a LIMIT, an OFFSET or an ORDER BY only when the query is a plain row query: no HAVING, no GROUP BY, no
DISTINCT and no aggregate function ANYWHERE in the select list (`hasAgg` walks the targets: operands of
expressions, function arguments, CAST / CASE operands).  Together with `C14_1` (the input of every apply step is
built from the fetches of the operands to its left): the data a model is applied to is cut by the query's LIMIT
only when LIMIT counts rows of that data. -/
theorem C14_limit_plain_row (ops : List Operand) (w : Option E) (u : Option (List (String × String))) (k : Nat)
    (info : QInfo) (steps : List Step) (h : planWith ops w u k info = .ok steps)
    (j : Nat) (wh : Option E) (l : FetchLim) (hm : Step.fetch j wh l ∈ steps) (hl : l.any = true) :
    info.having = false ∧ info.groupBy = false ∧ info.distinct = false ∧
    ∀ t ∈ info.targets, ∀ n ∈ nodes t, isAggNode n = false := by
  have hp := planWith_limit ops w u k info steps h j wh l hm hl
  simp only [plainRow, hasAgg, Bool.and_eq_true, Bool.not_eq_true', List.any_eq_false] at hp
  refine ⟨hp.1.1.1, hp.1.1.2, hp.1.2, ?_⟩
  intro t ht n hn
  have := hp.2 t ht
  simp only [List.any_eq_true, not_exists, not_and] at this
  cases hb : isAggNode n with
  | false => rfl
  | true => exact absurd hb (this n hn)

/-- the LIMIT of a fetch is decided by `use_limit`, which is only ever switched off after `check_use_limit` -/
theorem C14_limit_needs_use_limit (ops : List Operand) (j : Nat) (w : Option E) (st : St)
    (h : (fetchLim ops j w st).any = true) : st.useLimit = true := fetchLim_any ops j w st h

theorem C14_1_nodup (ops : List Operand) : (modelIdx ops).Nodup := modelIdx_nodup ops

/-- the same for `plan` (identifier rewriting changes only the ON conditions of the operands) -/
theorem C14_1_plan (q : Query) (steps : List Step) (h : plan q = .ok steps) :
    ∃ ops, rewriteOn q.ops q.ops = some ops ∧ ops.map (·.kind) = q.ops.map (·.kind) ∧
      ((appliesOf steps).map (·.1)).Perm (modelIdx ops) ∧
      ∀ ir ∈ appliesOf steps, isModAt ops ir.1 = true ∧ Holds steps ir.2 (leftOf ops ir.1) := by
  obtain ⟨ops, w, h1, h2⟩ := plan_planWith q steps h
  exact ⟨ops, h1, rewriteOn_kinds _ _ _ h1, planWith_flow ops w _ _ _ steps h2⟩

/-! ## the catalog: which operand is a model, in every spelling -/

/-- the project of a model is a database of the planner even when it is known ONLY through `predictor_metadata` -/
theorem C14_cat_project_via_metadata (c : Catalog) (p n : String) (h : (some p, n) ∈ c.models) :
    lower p ∈ c.databases := by
  simp only [Catalog.databases, Catalog.modelKeys, List.mem_append, List.mem_cons, List.mem_map]
  right; right
  exact ⟨(lower p, lower n), ⟨(some p, n), h, rfl⟩, rfl⟩

/-- a model reference `q.m` is recognised — and routed — whatever the case in which the catalog writes the
project and the model and the query writes the qualifier and the name -/
theorem C14_cat_model_any_case (c : Catalog) (p n q m : String) (h : (some p, n) ∈ c.models)
    (hq : lower q = lower p) (hm : lower m = lower n) (hd : isDigits m = false) :
    c.isModel [q, m] = true ∧ c.routable [q, m] = true := by
  constructor
  · have hk : (lower q, lower m) ∈ c.modelKeys := by
      simp only [Catalog.modelKeys, List.mem_map]
      exact ⟨(some p, n), h, by simp [hq, hm]⟩
    simp [Catalog.isModel, dropVersion, hd, hk]
  · have := C14_cat_project_via_metadata c p n h
    simp [Catalog.routable, hq, this]

/-- … and a model without `integration_name` lives in `predictor_namespace` (default `mindsdb`) -/
theorem C14_cat_model_default_project (c : Catalog) (n q m : String) (h : (none, n) ∈ c.models)
    (hq : lower q = c.pns) (hm : lower m = lower n) (hd : isDigits m = false) : c.isModel [q, m] = true := by
  have hk : (lower q, lower m) ∈ c.modelKeys := by
    simp only [Catalog.modelKeys, List.mem_map]
    exact ⟨(none, n), h, by simp [hq, hm]⟩
  simp [Catalog.isModel, dropVersion, hd, hk]

/-- the classification of every operand depends on the catalog only through its lower-cased names: two catalogs
that differ in the case of integration / project / model names, `predictor_namespace` or `default_namespace`
classify and route every identifier alike -/
theorem C14_cat_case_invariant (c c' : Catalog)
    (hi : c.integrations.map lower = c'.integrations.map lower)
    (hp : c.projects.map lower = c'.projects.map lower)
    (hm : c.models.map (fun x => (x.1.map lower, lower x.2)) = c'.models.map (fun x => (x.1.map lower, lower x.2)))
    (hn : c.predictorNs.map lower = c'.predictorNs.map lower)
    (hd : c.defaultNs.map lower = c'.defaultNs.map lower) (parts : List String) :
    c.isModel parts = c'.isModel parts ∧ c.routable parts = c'.routable parts := by
  have hpns : c.pns = c'.pns := by
    simp only [Catalog.pns]
    cases h1 : c.predictorNs <;> cases h2 : c'.predictorNs <;> simp_all
  have hk : c.modelKeys = c'.modelKeys := by
    have e : ∀ (d : Catalog), d.modelKeys =
        (d.models.map (fun x => (x.1.map lower, lower x.2))).map (fun y => (y.1.getD d.pns, y.2)) := by
      intro d
      simp only [Catalog.modelKeys, List.map_map]
      apply List.map_congr_left
      intro x _
      obtain ⟨p, n⟩ := x
      cases p <;> rfl
    rw [e c, e c', hm, hpns]
  have hdb : c.databases = c'.databases := by simp only [Catalog.databases, hi, hp, hk]
  have hds : c.defaultNs.isSome = c'.defaultNs.isSome := by
    cases h1 : c.defaultNs <;> cases h2 : c'.defaultNs <;> simp_all
  constructor
  · simp only [Catalog.isModel, hk, hd]
  · simp only [Catalog.routable, hdb, hds]

/-- a model cannot be the first thing processed -/
theorem C14_1_predictor_first (ops : List Operand) (i : Nat) (w : Option E) (u : Option (List (String × String)))
    (st : St) (h : st.stack = []) : processPredictor ops i w u st = .error .notImplemented := by
  simp [processPredictor, h]

/-! ## operand lists used by the pinned examples; swap / rewriting theorems; one observation -/

def opsW : List Operand :=
  [ { kind := .tab, parts := ["int1", "t1"], alias := some ["t"], jtype := "", on := none, target := none },
    { kind := .mod, parts := ["mindsdb", "pred"], alias := some ["m"], jtype := "JOIN", on := none, target := some "y" } ]

def tA1 : E := .bin "=" (.col ["t"] "a") (.const "1")
def mA1 : E := .bin "=" (.col ["m"] "a") (.const "1")

def opsR : List Operand :=
  [ { kind := .tab, parts := ["int1", "t1"], alias := some ["t"], jtype := "", on := none, target := none },
    { kind := .tab, parts := ["int2", "t2"], alias := some ["s"], jtype := "RIGHT JOIN",
      on := some (.bin "and" (.bin "=" (.col ["t"] "id") (.col ["s"] "id")) (.bin "=" (.col ["s"] "x") (.const "1"))),
      target := none },
    { kind := .mod, parts := ["mindsdb", "pred"], alias := some ["m"], jtype := "JOIN", on := none, target := none } ]

def opsSwap : List Operand :=
  [ { kind := .mod, parts := ["mindsdb", "pred"], alias := some ["m"], jtype := "", on := none, target := none },
    { kind := .tab, parts := ["int1", "t1"], alias := some ["t"], jtype := "JOIN",
      on := some (.bin "=" (.col ["m"] "a") (.col ["t"] "a")), target := none } ]

/-- **651e1d3**: in `model JOIN table ON …` the model's columns_map is built from that Join's ON and the JoinStep
sees the mapped comparisons neutralised -/
theorem C14_5_swap (ops : List Operand) (w : Option E) (u : Option (List (String × String))) (hs : isSwap ops = true) :
    (predictorArgs ops 0 w u).2.2.2 = (ops.getD 1 default).on.map (colMap ops 0) ∧
    onAfter ops 1 = (ops.getD 1 default).on.map (neut (mapped ops 0)) := by
  simp [predictorArgs, effOn, onAfter, hs]

/-- **fcfe472**: the qualifier an identifier is rewritten to still denotes the same operand in `tables_idx` -/
theorem C14_rewrite_keeps_table (ops : List Operand) (q : List String) (i : Nat) (h : lookupFrom ops q 0 = some i) :
    lookupFrom ops (shortName ops i) 0 = some i := shortName_resolves ops q i h

/-- observation about the current code (not a deviation from the property's clauses, which only say that join
conditions between model and table columns become the column mapping): a non-equality `m.d > t.d` in the model's
ON is mapped too, and its residue in the JoinStep is `0 > 0` -/
theorem C14_obs_non_equality_mapped :
    colMap opsW 1 (.bin ">" (.col ["m"] "d") (.col ["t"] "d")) = [("d", .col ["t"] "d")] ∧
    neut (mapped opsW 1) (.bin ">" (.col ["m"] "d") (.col ["t"] "d")) = zeroEq ">" := by
  decide

/-- **C14 (partial)**: every clause of `C14_full` holds for all inputs.  Not covered: the global form of T14.1
(now `C14_1`).  After 651e1d3 / fcfe472 the model-first join and the qualifier rewriting are clauses of the
statement too. -/
theorem C14_partial : C14_full := by
  intro ops w i j tgt u
  refine ⟨C14_where_clauses ops w i j tgt u, ?_, ?_, ⟨rfl, fun hs => ?_⟩, fun f hf => ?_, fun q h => shortName_resolves ops q j h⟩
  · intro on st f hf
    obtain ⟨h1, h2⟩ := C14_3_on ops j on st f hf
    refine ⟨h1, ?_⟩
    rcases h2 with ⟨ha, _, hc⟩ | h
    · left; exact ⟨ha, hc⟩
    · right; exact h
  · intro on op q1 n1 q2 n2 hn ht
    refine ⟨(C14_5_complete ops i on op q1 n1 q2 n2 hn).1 ht, ?_⟩
    exact (C14_5_neutralised ops i on).2 op _ _ (by simp [mapped, ht])
  · simp [effOn, onAfter, hs]
  · obtain ⟨w', e, h1⟩ := C14_3_pushed_stored ops j (some w) f hf
    injection e with e; subst e
    exact ⟨h1, fun hn => C14_3_nullable ops j _ f hn hf⟩

/-! ## the repaired behaviours, pinned on the former witnesses (a regression breaks these `decide`s) -/

def val0 (e : E) : Nat := if e = zeroEq "=" then 2 else 0

theorem val0_ok : ValOK val0 := by
  refine ⟨fun e => ?_, by simp [val0]⟩
  simp only [val0]; split <;> omega

/-- 8fa2a67: nothing is pushed / consumed from under NOT, an arithmetic operand or a function argument -/
example : conditionsOf opsW 0 (.un "not" tA1) = [] := by decide
example : conditionsOf opsW 0 (.bin ">" (.bin "+" (.col ["t"] "a") (.const "1")) (.const "3")) = [] := by decide
example : conditionsOf opsW 0 (.fn "coalesce" (.acons tA1 (.acons (.const "0") .anil))) = [] := by decide
example : rowDict opsW 1 (some "y") (some (.un "not" mA1)) = none ∧
    outerWhere opsW (.un "not" mA1) = .un "not" mA1 := by decide
/-- 9de9983: the reversed equality is an argument and is neutralised -/
example : rowDict opsW 1 (some "y") (some (.bin "=" (.const "3") (.col ["m"] "a"))) = some [("a", "3")] ∧
    outerWhere opsW (.bin "=" (.const "3") (.col ["m"] "a")) = zeroEq "=" := by decide
/-- 048b490: the alias prefix is matched in any case -/
example : routeKey [["m"]] "M.k" = some "k" ∧ routeKey [["m"]] "m.k" = some "k" ∧ routeKey [["m"]] "x.k" = none := by
  decide

def opsS : List Operand :=
  [ { kind := .sub, parts := ["t_sub"], alias := some ["s"], jtype := "", on := none, target := none },
    { kind := .mod, parts := ["mindsdb", "pred"], alias := some ["m"], jtype := "JOIN", on := none, target := none } ]

/-- 1a1b62e / 8fa2a67: a sub-select operand is not filtered by a disjunct -/
example : whereFilters opsS 0 (some (.bin "or" (.bin "=" (.col ["s"] "a") (.const "1"))
    (.bin "=" (.col ["m"] "b") (.const "2")))) = [] := by decide

/-- 34967fc: nothing is derived from the ON of a RIGHT JOIN; a conjunct under NOT is not pushed (the other
top-level conjuncts still are) -/
example : (onFilters opsR 1 (opsR.getD 1 default).on {}).2 = [] := by decide
example : rightOrFull "RIGHT JOIN" = true ∧ rightOrFull "full outer join" = true ∧ rightOrFull "LEFT JOIN" = false ∧
    rightOrFull "JOIN" = false := by decide
example : (onScan opsR 1 (topConjuncts (.bin "and" (.bin "=" (.col ["s"] "y") (.const "2"))
    (.un "not" (.bin "=" (.col ["s"] "x") (.const "1")))))).2.1 = [.bin "=" (.col ["s"] "y") (.const "2")] := by decide

/-- 651e1d3: `FROM model m JOIN table t ON m.a = t.a` -/
example : (predictorArgs opsSwap 0 none none).2.2.2 = some [("a", .col ["t"] "a")] ∧
    onAfter opsSwap 1 = some (zeroEq "=") := by decide

def opsClash : List Operand :=
  [ { kind := .tab, parts := ["int1", "t1"], alias := none, jtype := "", on := none, target := none },
    { kind := .tab, parts := ["int2", "tab4"], alias := some ["t1"], jtype := "JOIN", on := none, target := none },
    { kind := .mod, parts := ["mindsdb", "pred"], alias := some ["m"], jtype := "JOIN", on := none, target := none } ]

/-- fcfe472: with `int1.t1 … JOIN int2.tab4 AS t1`, `int1.t1.c` keeps its full qualifier and stays with operand 0 -/
example : rewrite opsClash (.col ["int1", "t1"] "c") = some (.col ["int1", "t1"] "c") ∧
    tableFor opsClash ["int1", "t1"] = some 0 ∧ tableFor opsClash ["t1"] = some 1 ∧
    conditionsOf opsClash 1 (.bin "=" (.col ["int1", "t1"] "c") (.const "1")) = [] := by decide

def opsN : List Operand :=
  [ { kind := .tab, parts := ["int1", "t3"], alias := some ["t0"], jtype := "", on := none, target := none },
    { kind := .mod, parts := ["proj", "pred2"], alias := some ["m1"], jtype := "RIGHT JOIN", on := none, target := none } ]

def opsL : List Operand :=
  [ { kind := .tab, parts := ["int1", "t1"], alias := some ["t"], jtype := "", on := none, target := none },
    { kind := .tab, parts := ["int2", "t2"], alias := some ["s"], jtype := "LEFT JOIN", on := none, target := none },
    { kind := .mod, parts := ["mindsdb", "pred"], alias := some ["m"], jtype := "JOIN", on := none, target := none } ]

/-- 15097fa: `t0 RIGHT JOIN model`: `t0.c IS NULL` is not pushed into the fetch of `t0` (`t0.d = 1` still is);
`t LEFT JOIN s`: not into `s`, but into `t` -/
example : isNullable opsN 0 = true ∧
    whereFilters opsN 0 (some (.bin "and" (.bin "is" (.col ["t0"] "c") (.const "None")) (.bin "=" (.col ["t0"] "d") (.const "1"))))
      = [.bin "=" (.col [] "d") (.const "1")] := by decide
example : isNullable opsL 0 = false ∧ isNullable opsL 1 = true ∧
    whereFilters opsL 1 (some (.bin "is" (.col ["s"] "c") (.const "None"))) = [] ∧
    whereFilters opsL 0 (some (.bin "is" (.col ["t"] "c") (.const "None"))) = [.bin "is" (.col [] "c") (.const "None")] ∧
    whereFilters opsL 1 (some (.bin "is not" (.col ["s"] "c") (.const "None"))) = [.bin "is not" (.col [] "c") (.const "None")] := by
  decide

/-- the predict target is deliberately not an argument: `m.y = 4` stays an outer filter -/
theorem C14_target_stays :
    rowDict opsW 1 (some "y") (some (.bin "=" (.col ["m"] "Y") (.const "4"))) = some [] ∧
    outerWhere opsW (.bin "=" (.col ["m"] "Y") (.const "4")) = .bin "=" (.col ["m"] "Y") (.const "4") := by
  decide

/-- aggregates nested in an expression / a function / a CAST are seen (seeded change C14_6) -/
example : hasAgg [.bin "/" (.fn "sum" (.acons (.col ["m"] "ttt") .anil)) (.fn "count" (.acons (.opq "Star") .anil))] = true ∧
    hasAgg [.fn "round" (.acons (.fn "avg" (.acons (.col ["m"] "ttt") .anil)) (.acons (.const "2") .anil))] = true ∧
    hasAgg [.fn "cast" (.acons (.fn "SUM" (.acons (.col ["m"] "ttt") .anil)) .anil)] = true ∧
    hasAgg [.col ["t"] "a", .fn "lower" (.acons (.col ["m"] "ttt") .anil)] = false := by decide

/-- `SELECT sum(m.x) / count(*) FROM t JOIN m LIMIT 3`: the fetch feeding the model has no LIMIT;
`SELECT t.a, m.x … LIMIT 3`: it has -/
def qRows : QInfo := { limit := some "3", targets := [.col ["t"] "a"], isStar := false }
def qAgg : QInfo :=
  { targets := [.bin "/" (.fn "sum" (.acons (.col ["m"] "x") .anil)) (.fn "count" (.acons (.opq "Star") .anil))],
    isStar := false, limit := some "3" }

example : fetchLim opsW 0 none { q := qRows, useLimit := checkUseLimit opsW qRows } = { limit := some "3" } ∧
    checkUseLimit opsW qAgg = false ∧
    fetchLim opsW 0 none { q := qAgg, useLimit := checkUseLimit opsW qAgg } = {} := by
  decide

/-- catalog shapes (seeded change C14_8): project `MLProject` known only through predictor_metadata -/
def catMixed : Catalog :=
  { integrations := ["Int1", "INT2"], models := [(some "MLProject", "Pred"), (none, "P2")], defaultNs := some "Int1" }

example : catMixed.isModel ["mlproject", "pred"] = true ∧ catMixed.isModel ["MLPROJECT", "PRED", "3"] = true ∧
    catMixed.isModel ["MindsDB", "p2"] = true ∧ catMixed.isModel ["int1", "pred"] = false ∧
    catMixed.isModel ["pred"] = false ∧ catMixed.routable ["MLProject", "Pred"] = true ∧
    catMixed.databases = ["int1", "int2", "mindsdb", "mlproject", "mindsdb"] := by decide

/-! ## non-vacuity -/

example : ∃ steps, planWith opsR none (some [("partition_size", "5")]) 0 = .ok steps ∧ appliesOf steps = [(2, .top 2)] ∧
    modelIdx opsR = [2] ∧ leftOf opsR 2 = [0, 1] := by
  refine ⟨_, rfl, ?_, ?_, ?_⟩ <;> decide

example : consumed opsW 1 (some "y") mA1 = true := by decide
example : ∃ val, ValOK val := ⟨val0, val0_ok⟩
example : rowDict opsW 1 (some "y") (some (.bin "and" mA1 (.bin ">" (.col ["t"] "b") (.const "2")))) = some [("a", "1")] := by
  decide
example : whereFilters opsW 0 (some (.bin "and" mA1 (.bin ">" (.col ["t"] "b") (.const "2"))))
    = [.bin ">" (.col [] "b") (.const "2")] := by decide

/-! ### [review] instances through `plan` -/

-- [review] one whole plan through `plan` (hypothesis of `C14_1_plan`) on which every clause says something:
-- `SELECT t.a FROM int1.t1 t JOIN mindsdb.pred m WHERE m.a = 1 AND t.b > 2 LIMIT 3 USING M.k = 'v'`
def qRev : Query :=
  { ops := opsW, wh := some (.bin "and" mA1 (.bin ">" (.col ["t"] "b") (.const "2"))), using? := some [("M.k", "v")],
    info := qRows, others := [.col ["t"] "a"] }

example : plan qRev = .ok
    [.fetch 0 (some (.bin ">" (.col [] "b") (.const "2"))) { limit := some "3" },
     .apply 1 (.top 0) (some [("a", "1")]) (some [("k", "v")]) none,
     .join (.top 0) (.top 1) "JOIN" none,
     .query (.top 2) (some (.bin "and" (zeroEq "=") (.bin ">" (.col ["t"] "b") (.const "2")))) (some "3") none] := by
  rfl

-- [review] `C14_1_plan` applied to it
example : ∃ steps ops, plan qRev = .ok steps ∧ rewriteOn qRev.ops qRev.ops = some ops ∧
    ((appliesOf steps).map (·.1)).Perm (modelIdx ops) ∧
    ∀ ir ∈ appliesOf steps, isModAt ops ir.1 = true ∧ Holds steps ir.2 (leftOf ops ir.1) := by
  obtain ⟨ops, h1, _, h3, h4⟩ := C14_1_plan qRev _ rfl
  exact ⟨_, ops, rfl, h1, h3, h4⟩

-- [review] `C14_limit_plain_row` applied to a plan in which a fetch DOES carry the LIMIT (hypotheses `hm`, `hl` met)
example : qRows.having = false ∧ qRows.groupBy = false ∧ qRows.distinct = false ∧
    ∀ t ∈ qRows.targets, ∀ n ∈ nodes t, isAggNode n = false :=
  C14_limit_plain_row opsW none none 0 qRows
    [.fetch 0 none { limit := some "3" }, .apply 1 (.top 0) none none none, .join (.top 0) (.top 1) "JOIN" none,
     .query (.top 2) none (some "3") none] rfl 0 none { limit := some "3" } (List.Mem.head _) rfl

end MindsVerif.Props.C14
