import MindsVerif.Props.C14
import MindsVerif.Lemmas.JoinKind
import MindsVerif.Gen.JoinSpellings
/-!
# C14, join-type spellings — the planner's classification respects what every spelling MEANS

`Join.join_type` is the parser's STRING (`"LEFT OUTER JOIN"`, `"FULL OUTER JOIN"`, `"JOIN"`, …).  `PlanJoinTablesQuery`
classifies it ad hoc at three places (first word, first word, whole string); `ModelJoin` transcribes them literally
(`rightOrFull`, `markNullable`, `useLimitLoop`), and `Model/JoinKind.lean` states what a spelling means (`semClass`,
`JoinClass.flags`) and collects the code's four decisions for a string (`codeFlags`).

Data regenerated on every run by `tools/extract/x_c14join.py` (`Gen/JoinSpellings.lean`):
`spellings` — every connector the LIVE grammar allows between two FROM operands (derived from the productions, not
listed by hand) with the `Join.join_type` the LIVE parser makes of it; `observed` — the four decisions the LIVE planner
takes for each such string (read off the plans of fixed probe queries).

Kernel-decided on that data:
* `C14_join_model_is_code`       the model's `codeFlags` are the decisions observed on the live planner, for every
                                 string the parser produces  (a change of the classification in the code breaks this),
* `C14_join_class_respected`     for every spelling of the live grammar (except the known finding below) the decisions
                                 give its semantics class what it demands: ON restricts nothing under RIGHT / FULL, the
                                 padded sides are marked nullable, LIMIT stays at most under LEFT
                                 (a new spelling, or a changed model, that is classified against its meaning breaks this;
                                 a MORE cautious decision does not); `C14_obs_join_class_exact`: nothing is given up,
* `C14_join_parser_keeps_class`  the string the parser produces has the class of what was written; the comma is inner,
* `C14_join_observed_covers`     every produced string has an observation; `C14_join_all_parsable`.
* `C14_witness_outer_join`       KNOWN FINDING (KF-C14-11): the bare `OUTER JOIN` the grammar accepts is classified
                                 by its first word `OUTER`, i.e. like an inner join.

For ALL strings / operand lists (no enumeration):
* `C14_join_first_word`          the ON and nullable decisions depend on the first word only (as the code has it),
* `C14_join_on_by_class`         a join type that respects its class and keeps the right operand ⇒ no filter and no
                                 semi-join step is derived from its ON clause, in any operand list, any planner state,
* `C14_join_on_only_restrictable` conversely a filter derived from ON ⇒ the class does not keep the right operand,
* `C14_join_nullable_right` / `_left`  in every standard operand list the operand joined by a class that pads the right
                                 side, and every operand in front of a class that pads the left side, gets no `IS`
                                 filter from WHERE (`mark_nullable_tables` + 15097fa).
-/
namespace MindsVerif.Props.C14
open MindsVerif.ModelJoin
open MindsVerif.Gen

/-- join-type strings whose classification by the code is a known finding (KF-C14-11) -/
def knownDeviant : List String := ["OUTER JOIN"]

/-- the model side equals one observation of the live planner -/
def matchesObserved (r : String × Bool × Option Bool × Bool × Bool × Bool) : Bool :=
  let k := codeFlags r.1
  (r.2.2.1 == none || r.2.2.1 == some k.keepsRight) && r.2.2.2.1 == k.padsRight && r.2.2.2.2.1 == k.padsLeft
    && r.2.2.2.2.2 == k.limitLeft

/-! ## kernel-decided on the regenerated data -/

/-- the hand model classifies every string the parser produces exactly as the live planner does -/
theorem C14_join_model_is_code : ∀ r ∈ JoinSpellings.observed, matchesObserved r = true := by decide +kernel

/-- **classification respects the semantics class of every spelling of the live grammar** -/
theorem C14_join_class_respected :
    ∀ s ∈ JoinSpellings.spellings, s.2.1 ∉ knownDeviant → respects s.2.1 = true := by decide +kernel

/-- observation: on the pinned tree nothing is given up either — the ON / nullable decisions are exactly the demanded ones -/
theorem C14_obs_join_class_exact :
    ∀ s ∈ JoinSpellings.spellings, s.2.1 ∉ knownDeviant → exact s.2.1 = true := by decide +kernel

/-- the parser's string keeps the class of the spelling as written; an implicit (comma) join is an inner join -/
theorem C14_join_parser_keeps_class :
    ∀ s ∈ JoinSpellings.spellings, (if s.2.2 then semClass s.2.1 = .inner else semClass s.2.1 = semClass s.1) := by
  decide +kernel

/-- every string the parser produces has been observed on the planner -/
theorem C14_join_observed_covers :
    ∀ s ∈ JoinSpellings.spellings, (JoinSpellings.observed.map fun r => (r.1, r.2.1)).contains (s.2.1, s.2.2) = true := by
  decide +kernel

/-- every connector of the grammar is reachable by the parser, and the planner plans every probe query -/
theorem C14_join_all_parsable : JoinSpellings.unparsable = [] ∧ JoinSpellings.failedProbes = [] := by decide

/-- **KNOWN FINDING KF-C14-11**: the grammar produces `OUTER JOIN`, the code classifies it by its first word `OUTER`:
ON conjuncts and semi-join filters restrict the right operand, no side is marked nullable — the decisions of an inner
join, although no reading of a side-less OUTER JOIN drops unmatched rows of both operands -/
theorem C14_witness_outer_join :
    ("OUTER JOIN", "OUTER JOIN", false) ∈ JoinSpellings.spellings ∧ respects "OUTER JOIN" = false ∧
    semClass "OUTER JOIN" = .outer ∧
    codeFlags "OUTER JOIN" = { keepsRight := false, padsRight := false, padsLeft := false, limitLeft := false } := by
  decide +kernel

/-- non-vacuity: the live list has the three-word spellings whose FIRST word differs from the word in front of JOIN,
every class occurs, and every non-deviant spelling is covered -/
example : ("FULL OUTER JOIN", "FULL OUTER JOIN", false) ∈ JoinSpellings.spellings ∧
    ("LEFT OUTER JOIN", "LEFT OUTER JOIN", false) ∈ JoinSpellings.spellings ∧
    (",", "INNER JOIN", true) ∈ JoinSpellings.spellings := by decide +kernel
example : ∀ c ∈ [JoinClass.inner, .cross, .left, .right, .full, .outer],
    (JoinSpellings.spellings.map fun s => semClass s.2.1).contains c = true := by decide +kernel
example : (JoinSpellings.spellings.filter fun s => !knownDeviant.contains s.2.1).length ≥ 9 := by decide +kernel

/-- what each class demands, spelled out (a change of `JoinClass.flags` is visible here) -/
example : (semClass "FULL OUTER JOIN").flags = { keepsRight := true, padsRight := true, padsLeft := true, limitLeft := false } ∧
    (semClass "left outer join").flags = { keepsRight := false, padsRight := true, padsLeft := false, limitLeft := true } ∧
    (semClass "RIGHT OUTER JOIN").flags = { keepsRight := true, padsRight := false, padsLeft := true, limitLeft := false } ∧
    (semClass "JOIN").flags = { keepsRight := false, padsRight := false, padsLeft := false, limitLeft := false } ∧
    (semClass "CROSS JOIN").flags = (semClass "INNER JOIN").flags ∧ semClass "" = .inner := by decide +kernel

/-- the classification the round-6 seed C14_12 introduced (`words[-2]`, the word in front of JOIN) does NOT respect the
classes: it reads FULL OUTER JOIN and LEFT OUTER JOIN as OUTER (first word and word in front of JOIN differ) -/
example : joinKind "FULL OUTER JOIN" = "full" ∧ (upperWords "FULL OUTER JOIN").dropLast.getLast? = some "OUTER" ∧
    joinKind "LEFT OUTER JOIN" = "left" ∧ (upperWords "LEFT OUTER JOIN").dropLast.getLast? = some "OUTER" := by decide +kernel

/-! ## for all strings and operand lists -/

/-- the ON and nullable decisions are functions of the first word (`join_type.upper().split()[0]`) -/
theorem C14_join_first_word (a b : String) (h : joinKind a = joinKind b) :
    (codeFlags a).keepsRight = (codeFlags b).keepsRight ∧ (codeFlags a).padsRight = (codeFlags b).padsRight ∧
    (codeFlags a).padsLeft = (codeFlags b).padsLeft := codeFlags_first_word a b h

theorem respects_spec {jt : String} (h : respects jt = true) :
    ((semClass jt).keepsRight = true → (codeFlags jt).keepsRight = true) ∧
    ((semClass jt).padsRight = true → (codeFlags jt).padsRight = true) ∧
    ((semClass jt).padsLeft = true → (codeFlags jt).padsLeft = true) := by
  simp only [respects, JoinClass.flags, Bool.and_eq_true, Bool.or_eq_true, Bool.not_eq_true'] at h
  refine ⟨fun hc => ?_, fun hc => ?_, fun hc => ?_⟩
  · rcases h.1.1.1 with h' | h'
    · rw [hc] at h'; cases h'
    · exact h'
  · rcases h.1.1.2 with h' | h'
    · rw [hc] at h'; cases h'
    · exact h'
  · rcases h.1.2 with h' | h'
    · rw [hc] at h'; cases h'
    · exact h'

theorem codeFlags_keepsRight_eq (jt : String) : (codeFlags jt).keepsRight = rightOrFull jt := by
  simp only [codeFlags]

theorem respects_keepsRight {jt : String} (h : respects jt = true) (hc : (semClass jt).keepsRight = true) :
    rightOrFull jt = true := by
  rw [← codeFlags_keepsRight_eq]; exact (respects_spec h).1 hc

/-- a join type that respects its class and whose class keeps every row of the right operand: NOTHING is derived from
its ON clause — no `col = const` filter, no semi-join step — for any operand list and planner state -/
theorem C14_join_on_by_class (ops : List Operand) (j : Nat) (on : Option E) (st : St)
    (hr : respects (ops.getD j default).jtype = true) (hc : (semClass (ops.getD j default).jtype).keepsRight = true) :
    onFilters ops j on st = (st, []) := by
  have h : rightOrFull (ops.getD j default).jtype = true := respects_keepsRight hr hc
  cases on with
  | none => rfl
  | some on => simp only [onFilters, h, if_true]

/-- a filter derived from ON: the class of the join type does not keep the right operand (inner / cross / left) -/
theorem C14_join_on_only_restrictable (ops : List Operand) (j : Nat) (on : E) (st : St) (f : E)
    (hr : respects (ops.getD j default).jtype = true) (hf : f ∈ (onFilters ops j (some on) st).2) :
    (semClass (ops.getD j default).jtype).keepsRight = false := by
  cases hc : (semClass (ops.getD j default).jtype).keepsRight with
  | false => rfl
  | true =>
    have h1 := respects_keepsRight hr hc
    rw [(C14_3_on ops j on st f hf).1] at h1
    cases h1

/-- the kind the code computes is LEFT / FULL exactly when the two-table probe marks the right operand -/
theorem kind_of_padsRight {jt : String} (h : (codeFlags jt).padsRight = true) :
    PadsRKind (joinKind jt) := by
  rw [(codeFlags_pads jt).1] at h
  exact of_decide_eq_true h

theorem kind_of_padsLeft {jt : String} (h : (codeFlags jt).padsLeft = true) :
    PadsLKind (joinKind jt) := by
  rw [(codeFlags_pads jt).2] at h
  exact of_decide_eq_true h

/-- operand `k` of any standard operand list, joined by a type that respects its class and whose class pads the right
side: no `IS` condition of WHERE is applied in its fetch -/
theorem C14_join_nullable_right (ops : List Operand) (hs : standard ops) (k : Nat) (h1 : 1 ≤ k) (h2 : k < ops.length)
    (hr : respects (ops.getD k default).jtype = true) (hc : (semClass (ops.getD k default).jtype).padsRight = true)
    (w : Option E) (f : E) (hf : f ∈ whereFilters ops k w) : acceptsNull f = false := by
  have hk := kind_of_padsRight (jt := (ops.getD k default).jtype) ((respects_spec hr).2.1 hc)
  exact C14_3_nullable ops k w f (isNullable_right ops hs k h1 h2 hk) hf

/-- every operand `j` in front of a join `k` whose type respects its class and whose class pads the left side: no `IS`
condition of WHERE is applied in its fetch -/
theorem C14_join_nullable_left (ops : List Operand) (hs : standard ops) (k : Nat) (h1 : 1 ≤ k) (h2 : k < ops.length)
    (hr : respects (ops.getD k default).jtype = true) (hc : (semClass (ops.getD k default).jtype).padsLeft = true)
    (j : Nat) (hj : j < k) (w : Option E) (f : E) (hf : f ∈ whereFilters ops j w) : acceptsNull f = false := by
  have hk := kind_of_padsLeft (jt := (ops.getD k default).jtype) ((respects_spec hr).2.2 hc)
  exact C14_3_nullable ops j w f (isNullable_left ops hs k h1 h2 hk j hj) hf

/-- the two halves put together on the live data: for every operand list whose join types are spellings of the live
grammar (other than the known finding), an operand joined by a RIGHT / FULL class gets nothing from its ON clause -/
theorem C14_join_on_live (ops : List Operand) (j : Nat) (on : Option E) (st : St)
    (hl : ∃ s ∈ JoinSpellings.spellings, s.2.1 = (ops.getD j default).jtype ∧ s.2.1 ∉ knownDeviant)
    (hc : (semClass (ops.getD j default).jtype).keepsRight = true) : onFilters ops j on st = (st, []) := by
  obtain ⟨s, hs, he, hd⟩ := hl
  exact C14_join_on_by_class ops j on st (he ▸ C14_join_class_respected s hs hd) hc

/-- non-vacuity of `C14_join_on_live` and of the nullable theorems: `a FULL OUTER JOIN b ON a.id = b.id AND b.k = 1` -/
def opsFO : List Operand :=
  [ { kind := .tab, parts := ["int1", "t1"], alias := some ["a"], jtype := "", on := none, target := none },
    { kind := .tab, parts := ["int2", "t2"], alias := some ["b"], jtype := "FULL OUTER JOIN",
      on := some (.bin "and" (.bin "=" (.col ["a"] "id") (.col ["b"] "id")) (.bin "=" (.col ["b"] "k") (.const "1"))),
      target := none },
    { kind := .mod, parts := ["mindsdb", "pred"], alias := some ["m"], jtype := "JOIN", on := none, target := none } ]

example : (onFilters opsFO 1 (opsFO.getD 1 default).on {}).2 = [] ∧ standard opsFO ∧
    respects "FULL OUTER JOIN" = true ∧ (semClass "FULL OUTER JOIN").keepsRight = true ∧
    isNullable opsFO 0 = true ∧ isNullable opsFO 1 = true := by
  refine ⟨by decide +kernel, Or.inl (by decide), by decide +kernel, by decide +kernel, by decide +kernel, by decide +kernel⟩

end MindsVerif.Props.C14
