import MindsVerif.Lemmas.TS
/-!
# C15 — a time-series model receives exactly its context window plus selected rows

Model: `MindsVerif.TS.planTS` (transcription of `plan_timeseries_predictor`, `ts_utils`), row semantics
`evalSel`/`fetched`; specification side: `Model/TSSpec.lean`.

Domain of the row-set theorem (`Dom`): WHERE = any AND-nesting of *one* time condition of the nine classes
`t > c`, `t >= c`, `t = c`, `t < c`, `t <= c`, `t BETWEEN a AND b`, `t > LATEST`, `t = LATEST`, none
(order column on the left, integer constant on the right) and any number of partition filters
`g_i <cmp> c`, `g_i IN (…)`, `g_i BETWEEN a AND b`; any window, any number of group columns, any partition
value, **any table contents** (ties, NULL times, NULL group values, empty partitions, duplicates).

What is *not* a theorem here: the plan glue around the selects (FROM table, `SELECT *`, integration name,
step wiring, side of the join) — checked structurally by the correspondence; SQL semantics of the engine
(`ev`/`evalSel` are tied to sqlite3 by the eval stream); substitution of `$var[col]` is read as SQL equality
with the non-NULL partition value.
-/
namespace MindsVerif.Props.C15
open MindsVerif.TS

/-- no ORDER BY / GROUP BY / HAVING / OFFSET -/
def plain (q : Query) : Prop :=
  q.orderBy = false ∧ q.groupBy = false ∧ q.having = false ∧ q.offset = false

instance (q : Query) : Decidable (plain q) := by unfold plain; infer_instance

/-- T15.1 for one query: the plan exists and, for every partition value `p` and every table `T`, the union of
the fetch selects is (as a multiset) the rows satisfying the user's time condition plus a valid choice `L` of
the `window` most recent rows preceding its lower bound — all with non-NULL order value, restricted by the
user's partition filters and to partition `p`. -/
def RowsSpec (m : Meta) (q : Query) (tc : Option TC) : Prop :=
  ∃ pl, planTS m q = .ok pl ∧ ∀ (p : List Int) (T : List Row),
    ∃ L, WindowSpec m.window p m.nG tc q.whereC T L ∧
      (fetched p T pl.selects).Perm (condRows p m.nG tc q.whereC T ++ L)

/-- partition step: no step without group columns; otherwise its WHERE selects exactly the rows satisfying the
user's non-time filters -/
def PartSpec (m : Meta) (q : Query) (tc : Option TC) (pl : Plan) : Prop :=
  (m.nG = 0 → pl.partWhere = none) ∧
  (m.nG ≠ 0 → ∃ pw, pl.partWhere = some pw ∧ ∀ p r, selO p pw r = restSelO p tc q.whereC r)

/-- T15.2 -/
def OtfSpec (_q : Query) (tc : Option TC) (pl : Plan) : Prop := pl.otf = tc.map TC.toW
def LimitSpec (m : Meta) (q : Query) (pl : Plan) : Prop :=
  pl.limitStep = q.limit ∧ ∀ s ∈ pl.selects, s.limit = none ∨ s.limit = some m.window

/-- T15.3: everything that is not "allowed operators on order/group columns only" is rejected with
PlanningException, and nothing else is ever raised -/
def RejectSpec (m : Meta) (q : Query) : Prop :=
  ((∀ w, q.whereC = some w → w.isOperation = true) → planTS m q ≠ .crash) ∧
  ((q.orderBy = true ∨ q.groupBy = true ∨ q.having = true ∨ q.offset = true ∨
    (∃ w, q.whereC = some w ∧ (opsOk w = false ∨ colsOk m.nG w = false ∨ andOk w = false))) →
      planTS m q = .planning)

/-- the full statement of the property about the model (FALSE on the pinned tree: see the witnesses) -/
def C15_full : Prop :=
  ∀ (m : Meta) (q : Query),
    RejectSpec m q ∧
    ∀ tc, plain q → Dom m.nG tc q.whereC = true →
      RowsSpec m q tc ∧ ∀ pl, planTS m q = .ok pl → PartSpec m q tc pl ∧ OtfSpec q tc pl ∧ LimitSpec m q pl

/-! ## the plan on the domain -/

theorem plan_tc (m : Meta) (q : Query) (tc : TC) (w : W) (hq : q.whereC = some w) (hp : plain q)
    (hd : tcTree m.nG tc.toW w = true) :
    planTS m q = .ok
      ⟨if m.nG = 0 then none else some (removeTF (some tc.toW) w),
       (branchesSpec m.window tc w).1.map (injectSel m.nG), (branchesSpec m.window tc w).2,
       limitOf q.limit⟩ := by
  obtain ⟨ho, hg, hh, hf⟩ := hp
  have hv : validO m.nG q.whereC = true := by rw [hq]; exact tc_validate tc w hd
  have hft : ftOf q.whereC = FT.one tc.toW := by rw [hq]; exact tc_findTF tc w hd
  have h := planTS_eq m q ho hg hh hf hv (some tc.toW) hft
  rw [hq, branches_dom] at h
  exact h

theorem plan_pf (m : Meta) (q : Query) (w : W) (hq : q.whereC = some w) (hp : plain q)
    (hd : pfTree m.nG w = true) :
    planTS m q = .ok
      ⟨if m.nG = 0 then none else some (some w),
       [injectSel m.nG ⟨addNotNull (some w), none⟩], none, limitOf q.limit⟩ := by
  obtain ⟨ho, hg, hh, hf⟩ := hp
  have hv : validO m.nG q.whereC = true := by rw [hq]; exact pf_validate w hd
  have hft : ftOf q.whereC = FT.none := by rw [hq]; exact pf_findTF w hd
  have h := planTS_eq m q ho hg hh hf hv none hft
  rw [hq] at h
  simpa [branches, removeO, pf_removeTF_none w hd] using h

theorem plan_none (m : Meta) (q : Query) (hq : q.whereC = none) (hp : plain q) :
    planTS m q = .ok
      ⟨if m.nG = 0 then none else some none,
       [injectSel m.nG ⟨addNotNull none, none⟩], none, limitOf q.limit⟩ := by
  obtain ⟨ho, hg, hh, hf⟩ := hp
  have h := planTS_eq m q ho hg hh hf (by rw [hq]; rfl) none (by rw [hq]; rfl)
  rw [hq] at h
  simpa [branches, removeO] using h

/-! ## T15.1 — the row sets, all nine classes, all tables -/

theorem C15_rows_tc (m : Meta) (q : Query) (tc : TC) (w : W) (hq : q.whereC = some w) (hp : plain q)
    (hd : tcTree m.nG tc.toW w = true) : RowsSpec m q (some tc) := by
  refine ⟨_, plan_tc m q tc w hq hp hd, ?_⟩
  intro p T
  rw [hq]
  simp only [WindowSpec, condRows, candRows, Option.bind]
  cases tc with
  | gt c =>
    exact fetched_two p T m.window _ _ _ _
      (fun r => selWin_pred (.gt c) p r w m.window _ hd (sel_time_cmp p r c).2.2.2)
      (fun r => selAll_pred (.gt c) p r w _ hd (sel_time_cmp p r c).1)
  | ge c =>
    exact fetched_two p T m.window _ _ _ _
      (fun r => selWin_pred (.ge c) p r w m.window _ hd (sel_time_cmp p r c).2.2.1)
      (fun r => selAll_pred (.ge c) p r w _ hd (sel_time_cmp p r c).2.1)
  | btw a b =>
    exact fetched_two p T m.window _ _ _ _
      (fun r => selWin_pred (.btw a b) p r w m.window _ hd (sel_time_cmp p r a).2.2.1)
      (fun r => selAll_pred (.btw a b) p r w _ hd (sel_time_btw p r a b))
  | eq c =>
    have h0 : ∀ f : Row → Bool, T.filter (fun r => f r && onTime (TC.cond (.eq c)) r) = [] :=
      fun f => filter_cond_false f T
    rw [h0]
    exact fetched_window p T m.window _ _
      (fun r => selWin_pred (.eq c) p r w m.window _ hd (sel_time_cmp p r c).2.2.2)
  | lt c =>
    exact ⟨[], rfl, fetched_all p T _ _ (fun r => selAll_pred (.lt c) p r w _ hd (sel_time_cmp p r c).2.2.1)⟩
  | le c =>
    exact ⟨[], rfl, fetched_all p T _ _ (fun r => selAll_pred (.le c) p r w _ hd (sel_time_cmp p r c).2.2.2)⟩
  | gtLatest =>
    have h0 : ∀ f : Row → Bool, T.filter (fun r => f r && onTime (TC.cond .gtLatest) r) = [] :=
      fun f => filter_cond_false f T
    rw [h0]
    exact fetched_window p T m.window _ _ (fun r => selLatest_pred .gtLatest p r w m.window hd)
  | eqLatest =>
    have h0 : ∀ f : Row → Bool, T.filter (fun r => f r && onTime (TC.cond .eqLatest) r) = [] :=
      fun f => filter_cond_false f T
    rw [h0]
    exact fetched_window p T m.window _ _ (fun r => selLatest_pred .eqLatest p r w m.window hd)

/-- **T15.1** for every class of the domain (including "no time condition") -/
theorem C15_rows (m : Meta) (q : Query) (tc : Option TC) (hp : plain q)
    (hd : Dom m.nG tc q.whereC = true) : RowsSpec m q tc := by
  cases tc with
  | some tc =>
    cases hq : q.whereC with
    | none => simp [Dom, hq] at hd
    | some w => rw [hq] at hd; exact C15_rows_tc m q tc w hq hp hd
  | none =>
    cases hq : q.whereC with
    | none =>
      refine ⟨_, plan_none m q hq hp, ?_⟩
      intro p T
      rw [hq]
      exact ⟨[], rfl, fetched_all p T _ _ (fun r => sel_none_pred p r)⟩
    | some w =>
      rw [hq] at hd
      refine ⟨_, plan_pf m q w hq hp hd, ?_⟩
      intro p T
      rw [hq]
      exact ⟨[], rfl, fetched_all p T _ _ (fun r => sel_pf_pred p r w hd)⟩

/-- partition query: rows selected by the user's non-time filters -/
theorem C15_partitions (m : Meta) (q : Query) (tc : Option TC) (hp : plain q)
    (hd : Dom m.nG tc q.whereC = true) (pl : Plan) (h : planTS m q = .ok pl) : PartSpec m q tc pl := by
  cases tc with
  | some tc =>
    cases hq : q.whereC with
    | none => simp [Dom, hq] at hd
    | some w =>
      rw [hq] at hd
      have := plan_tc m q tc w hq hp hd
      rw [this] at h; injection h with h; subst h
      refine ⟨fun h0 => by simp [h0], fun h0 => ⟨removeTF (some tc.toW) w, by simp [h0], ?_⟩⟩
      intro p r
      simpa [restSelO, hq] using tc_remove tc p r w hd
  | none =>
    cases hq : q.whereC with
    | none =>
      have := plan_none m q hq hp
      rw [this] at h; injection h with h; subst h
      exact ⟨fun h0 => by simp [h0], fun h0 => ⟨none, by simp [h0], fun p r => by simp [selO, restSelO, hq]⟩⟩
    | some w =>
      rw [hq] at hd
      have := plan_pf m q w hq hp hd
      rw [this] at h; injection h with h; subst h
      refine ⟨fun h0 => by simp [h0], fun h0 => ⟨some w, by simp [h0], ?_⟩⟩
      intro p r
      have : restSel p W.null w r = sel p w r := pf_restSel p W.null (by rfl) r w hd
      simp [selO, restSelO, this, hq]

/-! ## T15.2 — output_time_filter and LIMIT -/

/-- the output filter is the user's time condition in every class except `t = c` -/
theorem C15_otf_partial (m : Meta) (q : Query) (tc : Option TC) (hp : plain q)
    (hd : Dom m.nG tc q.whereC = true) (hne : ∀ c, tc ≠ some (.eq c))
    (pl : Plan) (h : planTS m q = .ok pl) : OtfSpec q tc pl := by
  cases tc with
  | some tc =>
    cases hq : q.whereC with
    | none => simp [Dom, hq] at hd
    | some w =>
      rw [hq] at hd
      have := plan_tc m q tc w hq hp hd
      rw [this] at h; injection h with h; subst h
      cases tc <;> first | rfl | exact absurd rfl (hne _)
  | none =>
    cases hq : q.whereC with
    | none =>
      have := plan_none m q hq hp
      rw [this] at h; injection h with h; subst h; rfl
    | some w =>
      rw [hq] at hd
      have := plan_pf m q w hq hp hd
      rw [this] at h; injection h with h; subst h; rfl

/-- in the `t = c` class the output filter is `t > c` (this is the known finding) -/
theorem C15_otf_eq (m : Meta) (q : Query) (c : Int) (hp : plain q)
    (hd : Dom m.nG (some (.eq c)) q.whereC = true) (pl : Plan) (h : planTS m q = .ok pl) :
    pl.otf = some (TC.gt c).toW := by
  cases hq : q.whereC with
  | none => simp [Dom, hq] at hd
  | some w =>
    rw [hq] at hd
    have := plan_tc m q (.eq c) w hq hp hd
    rw [this] at h; injection h with h; subst h; rfl

/-- the user's LIMIT (also `LIMIT 0`, since df1c6e2) becomes the LimitOffsetStep after the join and is never
pushed into a fetch select (their only limit is the window) -/
theorem C15_limit (m : Meta) (q : Query) (tc : Option TC) (hp : plain q)
    (hd : Dom m.nG tc q.whereC = true)
    (pl : Plan) (h : planTS m q = .ok pl) : LimitSpec m q pl := by
  have hlim : limitOf q.limit = q.limit := rfl
  cases tc with
  | some tc =>
    cases hq : q.whereC with
    | none => simp [Dom, hq] at hd
    | some w =>
      rw [hq] at hd
      have := plan_tc m q tc w hq hp hd
      rw [this] at h; injection h with h; subst h
      refine ⟨hlim, ?_⟩
      cases tc <;> simp [branchesSpec, injectSel, selWin, selAll, selLatest]
  | none =>
    cases hq : q.whereC with
    | none =>
      have := plan_none m q hq hp
      rw [this] at h; injection h with h; subst h
      exact ⟨hlim, by simp [injectSel]⟩
    | some w =>
      rw [hq] at hd
      have := plan_pf m q w hq hp hd
      rw [this] at h; injection h with h; subst h
      exact ⟨hlim, by simp [injectSel]⟩

/-! ## T15.3 — rejections -/

/-- ORDER BY / GROUP BY / HAVING / OFFSET ⇒ PlanningException (whatever the WHERE is) -/
theorem C15_reject_flags (m : Meta) (q : Query)
    (h : q.orderBy = true ∨ q.groupBy = true ∨ q.having = true ∨ q.offset = true) :
    planTS m q = .planning := by
  unfold planTS
  rcases h with h | h | h | h <;> simp [h]

/-- the decision table of `planTS` -/
theorem C15_decision (m : Meta) (q : Query) :
    (planTS m q = .planning ↔
      (q.orderBy = true ∨ q.groupBy = true ∨ q.having = true ∨ q.offset = true ∨
        validO m.nG q.whereC = false ∨ ftOf q.whereC = .two)) ∧
    (planTS m q = .crash ↔ (plain q ∧ validO m.nG q.whereC = true ∧ ftOf q.whereC = .crash)) := by
  unfold planTS plain
  cases q.orderBy <;> cases q.groupBy <;> cases q.having <;> cases q.offset <;>
    cases validO m.nG q.whereC <;> cases ftOf q.whereC <;> simp

/-- on the fragment where `validate_ts_where_condition` sees every position (`visible`), a WHERE with a
disallowed operator, a column other than the order / group columns, or an AND operand that is not a condition
is rejected with PlanningException -/
theorem C15_reject_where_partial (m : Meta) (q : Query) (w : W) (hq : q.whereC = some w)
    (hop : w.isOperation = true) (hvis : visible w = true)
    (hbad : opsOk w = false ∨ colsOk m.nG w = false ∨ andOk w = false) : planTS m q = .planning := by
  have hs := validate_spec m.nG w hvis
  rw [identOk_op m.nG hop, Bool.and_true] at hs
  have : validO m.nG q.whereC = false := by
    rw [hq]; simp only [validO]; rw [hs]
    rcases hbad with h | h | h <;> simp [h]
  exact ((C15_decision m q).1).2 (Or.inr (Or.inr (Or.inr (Or.inr (Or.inl this)))))

/-- conversely, on that fragment an all-allowed WHERE passes the validation -/
theorem C15_validate_iff (nG : Nat) (w : W) (hop : w.isOperation = true) (hvis : visible w = true) :
    validate nG w = (opsOk w && colsOk nG w && andOk w) := by
  have hs := validate_spec nG w hvis
  rwa [identOk_op nG hop, Bool.and_true] at hs

/-- nothing but PlanningException (since 8068254): for every WHERE the parser can produce (an Operation or
none) the model never crashes -/
theorem C15_no_crash (m : Meta) (q : Query)
    (h : ∀ w, q.whereC = some w → w.isOperation = true) :
    planTS m q ≠ .crash := by
  intro hc
  obtain ⟨_, hv, hft⟩ := ((C15_decision m q).2).1 hc
  cases hq : q.whereC with
  | none => rw [hq] at hft; simp [ftOf] at hft
  | some w =>
    rw [hq] at hft hv
    exact findTF_no_crash m.nG w (h w hq) hv hft

/-! ## witnesses: the model exhibits the known defects (each reproduced on the real code by the check) -/

/-- KF-C15-1: `WHERE ta.t = 5` — output_time_filter is `t > 5`, not the user's `t = 5` -/
theorem C15_witness_1 :
    ∃ pl, planTS ⟨1, 3⟩ { whereC := some (TC.eq 5).toW } = .ok pl ∧
      ¬ OtfSpec { whereC := some (TC.eq 5).toW } (some (.eq 5)) pl :=
  ⟨_, rfl, by unfold OtfSpec; decide⟩

/-- KF-C15-2 (fixed by df1c6e2): `LIMIT 0` is planned as `LimitOffsetStep(limit=0)` -/
example : ∃ pl, planTS ⟨1, 3⟩ { whereC := some (TC.gt 5).toW, limit := some 0 } = .ok pl ∧
    pl.limitStep = some 0 := ⟨_, rfl, rfl⟩

/-- KF-C15-3: a foreign column inside a non-Operation node (`ta.g IN (ta.x, 1)`, CAST, CASE, sub-select) is
not rejected -/
theorem C15_witness_3 :
    colsOk 1 (.bin .inn (.ident (.grp 0)) (.opaque true)) = false ∧
    planTS ⟨1, 3⟩ { whereC := some (.bin .inn (.ident (.grp 0)) (.opaque true)) } ≠ .planning := by decide

/-- KF-C15-3 (second shape): a foreign column / disallowed operator in an Operation that is the third BETWEEN
operand (`ta.g BETWEEN 1 AND (ta.x + 1)`) is not rejected -/
theorem C15_witness_4 :
    let w := W.btw (.ident (.grp 0)) (.const 1) (.bin (.bad 0) (.ident .other) (.const 1))
    opsOk w = false ∧ colsOk 1 w = false ∧ planTS ⟨1, 3⟩ { whereC := some w } ≠ .planning := by decide

/-- KF-C15-4 (fixed by 8068254): `WHERE ta.g = 1 AND ta.g` is rejected with PlanningException -/
example :
    planTS ⟨1, 3⟩ { whereC := some (.bin .and (.bin .eq (.ident (.grp 0)) (.const 1)) (.ident (.grp 0))) }
      = .planning := by decide

/-- KF-C15-5 (outside `Dom`): order column on the right, `5 < ta.t` — no window select is produced although
the condition has the lower bound 5 -/
theorem C15_witness_6 :
    ∃ pl, planTS ⟨0, 3⟩ { whereC := some (.bin .lt (.const 5) (.ident .time)) } = .ok pl ∧
      pl.selects.length = 1 ∧ ∀ s ∈ pl.selects, s.limit = none := by
  refine ⟨_, rfl, by decide⟩

/-- hence the full statement does not hold for the model of the pinned tree -/
theorem C15_full_false : ¬ C15_full := by
  intro h
  have h1 := (h ⟨1, 3⟩ { whereC := some (TC.eq 5).toW }).2 (some (.eq 5)) (by decide) (by decide)
  obtain ⟨pl, hpl, hn⟩ := C15_witness_1
  exact hn (h1.2 pl hpl).2.1

/-! ## non-vacuity -/

example : Dom 2 (some (.gt 5)) (some (.bin .and (.bin .eq (.ident (.grp 0)) (.const 1))
    (.bin .and (TC.gt 5).toW (.bin .inn (.ident (.grp 1)) (.tuple [1, 2]))))) = true := by decide
example : Dom 0 none none = true := by decide
example : Dom 1 (some .eqLatest) (some (.bin .and (TC.eqLatest).toW (.btw (.ident (.grp 0)) (.const 0) (.const 2))))
    = true := by decide
example : plain { whereC := none, limit := some 7 } := by decide
/-- the specification sets are inhabited, with a tie at the window boundary (two candidates at t = 1) -/
example :
    let T : List Row := [⟨some 1, [some 1]⟩, ⟨some 1, [some 1]⟩, ⟨some 3, [some 1]⟩, ⟨none, [some 1]⟩, ⟨some 0, [some 2]⟩]
    condRows [1] 1 (some (.gt 2)) (some (TC.gt 2).toW) T = [⟨some 3, [some 1]⟩] ∧
    candRows [1] 1 (some (.gt 2)) (some (TC.gt 2).toW) (fun v => decide (v ≤ 2)) T
      = [⟨some 1, [some 1]⟩, ⟨some 1, [some 1]⟩] := by decide
example : visible (.bin .and (.bin .eq (.ident .other) (.const 1)) (TC.gt 2).toW) = true := by decide

end MindsVerif.Props.C15
