import MindsVerif.Lemmas.TS
import MindsVerif.Lemmas.TSClosed
import MindsVerif.Gen.TSCfg
/-!
# C15 — a time-series model receives exactly its context window plus selected rows

Model: `MindsVerif.TS.planTS cfg` (transcription of `plan_timeseries_predictor` and `ts_utils`; `cfg : Cfg` selects
the variant of the WHERE handling, `Cfg.pinned` = the current tree: deep validation and operand normalisation, tied
to the live code by `C15_live_variant`), row semantics `evalSel`/`fetched` over any value domain `α` with decidable
equality and a total preorder (`VOrd`: `Int`, `String`, …); specification side `Model/TSSpec.lean` (never mentions
`planTS`).

Main statements (all for every table contents — ties, NULL times, NULL group values, empty partitions, duplicates —,
every window, every number of group columns, every partition record `e` with `envOk`: no NULL in it, or an executor
that fills `$var[col]` null-safely):
* `C15_rows` — T15.1 for the nine classes spelled column-first (`Dom`), for every `cfg`;
* `C15_rows_spellings` — T15.1 on the pinned tree for all sixteen spellings (`t op c`, `c op t`, BETWEEN, `t > LATEST`,
  `LATEST < t`, `t = LATEST`, `LATEST = t`), specified on the user's own WHERE; `C15_rows_stmt` — per join of a
  statement with several time-series joins;
* `C15_dbt_limit`, `C15_dbt_rows`, `C15_dbt_reject_inner` — the dbt form (data operand written as a sub-select,
  `adaptDbt`): LimitOffsetStep = the smaller of the inner and the outer LIMIT; row sets for the sub-select's WHERE plus
  the moved LATEST conditions; `C15_witness_dbt_outer_ignored` / `C15_witness_dbt_outer`: the rest of the outer query is
  neither applied nor rejected (KF-C15-6, KF-C15-7);
* `C15_rows_nullsafe` / `C15_null_partition_empty` — what the executor must provide for NULL partition values;
* `C15_partitions`, `C15_otf_partial` (all classes except `t = c`, see KF-C15-1 and `C15_witness_1`), `C15_limit`;
* `C15_reject_flags`, `C15_decision`, `C15_reject_where` (every WHERE, pinned tree), `C15_no_crash`;
* sub-queries (round 6): a partition filter `g IN (SELECT … FROM shops WHERE w)` is in `Dom` for EVERY sub-query WHERE `w`
  (`isPF`), so `C15_rows` & co. say that its rows are those of the user's own sub-query; `C15_replace_subqueries`,
  `C15_replace_conjuncts`, `C15_plan_subqueries`: `replace_time_filter` and every query built from it leave all
  sub-queries / value lists / CAST / CASE untouched, on all trees; `C15_witness_deep_replace`, `C15_witness_deep_rows`: a
  replacement that walks the whole tree (`replaceDeep`) does not.
History (statements about the earlier variants, kept because they hold for every `cfg` / are used by the proofs):
`C15_reject_where_partial`, `C15_validate_iff` (shallow `validate`), `C15_reject_where_fixed`, `C15_rows_rev_fixed`
(the generic forms of `C15_reject_where`, `C15_rows_rev`). Regression `example`s state the repaired behaviour of the
fixed findings.

Not theorems: the plan glue around the selects (FROM table, `SELECT *`, integration, step wiring, join side, one
partition step per join) — checked by the probe through step references; the SQL semantics of the engine (`ev`,
`evalSel` are tied to sqlite3 by the eval stream; the specification's `restSel` reuses `sel` for the partition
filters); `TC.cond (.eq c) = false` is the reading "for an exact time just the most recent `window` rows".
-/
namespace MindsVerif.Props.C15
open MindsVerif.TS

set_option linter.unusedSectionVars false
variable {α : Type} [DecidableEq α] [VOrd α]

/-- no ORDER BY / GROUP BY / HAVING / OFFSET -/
def plain (q : Query α) : Prop :=
  q.orderBy = false ∧ q.groupBy = false ∧ q.having = false ∧ q.offset = false

instance (q : Query α) : Decidable (plain q) := by unfold plain; infer_instance

/-- T15.1 for one query: the plan exists and, for every partition value `e` and every table `T`, the union of
the fetch selects is (as a multiset) the rows satisfying the user's time condition plus a valid choice `L` of
the `window` most recent rows preceding its lower bound — all with non-NULL order value, restricted by the
user's partition filters and to partition `e`. -/
def RowsSpec (cfg : Cfg) (m : Meta) (q : Query α) (tc : Option (TC α)) : Prop :=
  ∃ pl, planTS cfg m q = .ok pl ∧ ∀ (e : Env α) (T : List (Row α)), envOk e m.nG = true →
    ∃ L, WindowSpec m.window e m.nG tc q.whereC T L ∧
      (fetched e T pl.selects).Perm (condRows e m.nG tc q.whereC T ++ L)

/-- partition step: no step without group columns; otherwise its WHERE selects exactly the rows satisfying the
user's non-time filters -/
def PartSpec (m : Meta) (q : Query α) (tc : Option (TC α)) (pl : Plan α) : Prop :=
  (m.nG = 0 → pl.partWhere = none) ∧
  (m.nG ≠ 0 → ∃ pw, pl.partWhere = some pw ∧ ∀ e r, selO e pw r = restSelO e tc q.whereC r)

/-- T15.2 -/
def OtfSpec (_q : Query α) (tc : Option (TC α)) (pl : Plan α) : Prop := pl.otf = tc.map TC.toW
def LimitSpec (m : Meta) (q : Query α) (pl : Plan α) : Prop :=
  pl.limitStep = q.limit ∧ ∀ s ∈ pl.selects, s.limit = none ∨ s.limit = some m.window

/-- T15.3: everything that is not "allowed operators on order/group columns only" is rejected with
PlanningException, and nothing else is ever raised -/
def RejectSpec (cfg : Cfg) (m : Meta) (q : Query α) : Prop :=
  ((∀ w, q.whereC = some w → w.isOperation = true) → planTS cfg m q ≠ .crash) ∧
  ((q.orderBy = true ∨ q.groupBy = true ∨ q.having = true ∨ q.offset = true ∨
    (∃ w, q.whereC = some w ∧ (opsOk w = false ∨ colsOk m.nG w = false ∨ andOk w = false))) →
      planTS cfg m q = .planning)

/-- the full statement of the property about the model (FALSE on the pinned tree: see the witnesses) -/
def C15_full (α : Type) [DecidableEq α] [VOrd α] : Prop :=
  ∀ (cfg : Cfg) (m : Meta) (q : Query α),
    RejectSpec cfg m q ∧
    ∀ tc, plain q → Dom m.nG tc q.whereC = true →
      RowsSpec cfg m q tc ∧ ∀ pl, planTS cfg m q = .ok pl → PartSpec m q tc pl ∧ OtfSpec q tc pl ∧ LimitSpec m q pl

/-! ## the plan on the domain -/

theorem plan_tc (cfg : Cfg) (m : Meta) (q : Query α) (tc : TC α) (w : W α) (hq : q.whereC = some w) (hp : plain q)
    (hd : tcTree m.nG tc.toW w = true) :
    planTS cfg m q = .ok
      ⟨if m.nG = 0 then none else some (removeTF (some tc.toW) w),
       (branchesSpec m.window tc w).1.map (injectSel m.nG), (branchesSpec m.window tc w).2,
       limitOf q.limit⟩ := by
  obtain ⟨ho, hg, hh, hf⟩ := hp
  have hv : validO cfg m.nG q.whereC = true := by rw [hq]; exact tc_validO tc cfg w hd
  have hft : ftOf q.whereC = FT.one tc.toW := by rw [hq]; exact tc_findTF tc w hd
  have h := planTS_eq_some cfg m q ho hg hh hf hv tc.toW hft
  rw [normStep_tc, planOk_eq, hq, branches_dom] at h
  exact h

theorem plan_pf (cfg : Cfg) (m : Meta) (q : Query α) (w : W α) (hq : q.whereC = some w) (hp : plain q)
    (hd : pfTree m.nG w = true) :
    planTS cfg m q = .ok
      ⟨if m.nG = 0 then none else some (some w),
       [injectSel m.nG ⟨addNotNull (some w), none⟩], none, limitOf q.limit⟩ := by
  obtain ⟨ho, hg, hh, hf⟩ := hp
  have hv : validO cfg m.nG q.whereC = true := by rw [hq]; exact pf_validO cfg w hd
  have hft : ftOf q.whereC = FT.none := by rw [hq]; exact pf_findTF w hd
  have h := planTS_eq_none cfg m q ho hg hh hf hv hft
  rw [planOk_eq, hq] at h
  simpa [branches, removeO, pf_removeTF_none w hd] using h

theorem plan_none (cfg : Cfg) (m : Meta) (q : Query α) (hq : q.whereC = none) (hp : plain q) :
    planTS cfg m q = .ok
      ⟨if m.nG = 0 then none else some none,
       [injectSel m.nG ⟨addNotNull none, none⟩], none, limitOf q.limit⟩ := by
  obtain ⟨ho, hg, hh, hf⟩ := hp
  have h := planTS_eq_none cfg m q ho hg hh hf (by rw [hq]; rfl) (by rw [hq]; rfl)
  rw [planOk_eq, hq] at h
  simpa [branches, removeO] using h

/-! ## T15.1 — the row sets, all nine classes, all tables -/

theorem C15_rows_tc (cfg : Cfg) (m : Meta) (q : Query α) (tc : TC α) (w : W α) (hq : q.whereC = some w) (hp : plain q)
    (hd : tcTree m.nG tc.toW w = true) : RowsSpec cfg m q (some tc) := by
  refine ⟨_, plan_tc cfg m q tc w hq hp hd, ?_⟩
  intro e T hok0
  have hok : e.ns = true ∨ nonNullFrom e m.nG 0 = true := by simpa [envOk] using hok0
  rw [hq]
  simp only [WindowSpec, condRows, candRows, Option.bind]
  cases tc with
  | gt c =>
    exact fetched_two e T m.window _ _ _ _
      (fun r => selWin_pred (.gt c) e r w m.window _ hd (sel_time_cmp e r c).2.2.2 hok)
      (fun r => selAll_pred (.gt c) e r w _ hd (sel_time_cmp e r c).1 hok)
  | ge c =>
    exact fetched_two e T m.window _ _ _ _
      (fun r => selWin_pred (.ge c) e r w m.window _ hd (sel_time_cmp e r c).2.2.1 hok)
      (fun r => selAll_pred (.ge c) e r w _ hd (sel_time_cmp e r c).2.1 hok)
  | btw a b =>
    exact fetched_two e T m.window _ _ _ _
      (fun r => selWin_pred (.btw a b) e r w m.window _ hd (sel_time_cmp e r a).2.2.1 hok)
      (fun r => selAll_pred (.btw a b) e r w _ hd (sel_time_btw e r a b) hok)
  | eq c =>
    have h0 : ∀ f : Row α → Bool, T.filter (fun r => f r && onTime (TC.cond (.eq c)) r) = [] :=
      fun f => filter_cond_false f T
    rw [h0]
    exact fetched_window e T m.window _ _
      (fun r => selWin_pred (.eq c) e r w m.window _ hd (sel_time_cmp e r c).2.2.2 hok)
  | lt c =>
    exact ⟨[], rfl, fetched_all e T _ _ (fun r => selAll_pred (.lt c) e r w _ hd (sel_time_cmp e r c).2.2.1 hok)⟩
  | le c =>
    exact ⟨[], rfl, fetched_all e T _ _ (fun r => selAll_pred (.le c) e r w _ hd (sel_time_cmp e r c).2.2.2 hok)⟩
  | gtLatest =>
    have h0 : ∀ f : Row α → Bool, T.filter (fun r => f r && onTime (TC.cond .gtLatest) r) = [] :=
      fun f => filter_cond_false f T
    rw [h0]
    exact fetched_window e T m.window _ _ (fun r => selLatest_pred .gtLatest e r w m.window hd hok)
  | eqLatest =>
    have h0 : ∀ f : Row α → Bool, T.filter (fun r => f r && onTime (TC.cond .eqLatest) r) = [] :=
      fun f => filter_cond_false f T
    rw [h0]
    exact fetched_window e T m.window _ _ (fun r => selLatest_pred .eqLatest e r w m.window hd hok)

/-- **T15.1** for every class of the domain (including "no time condition") -/
theorem C15_rows (cfg : Cfg) (m : Meta) (q : Query α) (tc : Option (TC α)) (hp : plain q)
    (hd : Dom m.nG tc q.whereC = true) : RowsSpec cfg m q tc := by
  cases tc with
  | some tc =>
    cases hq : q.whereC with
    | none => simp [Dom, hq] at hd
    | some w => rw [hq] at hd; exact C15_rows_tc cfg m q tc w hq hp hd
  | none =>
    cases hq : q.whereC with
    | none =>
      refine ⟨_, plan_none cfg m q hq hp, ?_⟩
      intro e T hok0
      have hok : e.ns = true ∨ nonNullFrom e m.nG 0 = true := by simpa [envOk] using hok0
      rw [hq]
      exact ⟨[], rfl, fetched_all e T _ _ (fun r => sel_none_pred e r hok)⟩
    | some w =>
      rw [hq] at hd
      refine ⟨_, plan_pf cfg m q w hq hp hd, ?_⟩
      intro e T hok0
      have hok : e.ns = true ∨ nonNullFrom e m.nG 0 = true := by simpa [envOk] using hok0
      rw [hq]
      exact ⟨[], rfl, fetched_all e T _ _ (fun r => sel_pf_pred e r w hd hok)⟩

/-- partition query: rows selected by the user's non-time filters -/
theorem C15_partitions (cfg : Cfg) (m : Meta) (q : Query α) (tc : Option (TC α)) (hp : plain q)
    (hd : Dom m.nG tc q.whereC = true) (pl : Plan α) (h : planTS cfg m q = .ok pl) : PartSpec m q tc pl := by
  cases tc with
  | some tc =>
    cases hq : q.whereC with
    | none => simp [Dom, hq] at hd
    | some w =>
      rw [hq] at hd
      have := plan_tc cfg m q tc w hq hp hd
      rw [this] at h; injection h with h; subst h
      refine ⟨fun h0 => by simp [h0], fun h0 => ⟨removeTF (some tc.toW) w, by simp [h0], ?_⟩⟩
      intro e r
      simpa [restSelO, hq] using tc_remove tc e r w hd
  | none =>
    cases hq : q.whereC with
    | none =>
      have := plan_none cfg m q hq hp
      rw [this] at h; injection h with h; subst h
      exact ⟨fun h0 => by simp [h0], fun h0 => ⟨none, by simp [h0], fun e r => by simp [selO, restSelO, hq]⟩⟩
    | some w =>
      rw [hq] at hd
      have := plan_pf cfg m q w hq hp hd
      rw [this] at h; injection h with h; subst h
      refine ⟨fun h0 => by simp [h0], fun h0 => ⟨some w, by simp [h0], ?_⟩⟩
      intro e r
      have : restSel e W.null w r = sel e w r := pf_restSel e W.null (by rfl) r w hd
      simp [selO, restSelO, this, hq]

/-! ## T15.2 — output_time_filter and LIMIT -/

/-- the output filter is the user's time condition in every class except `t = c` -/
theorem C15_otf_partial (cfg : Cfg) (m : Meta) (q : Query α) (tc : Option (TC α)) (hp : plain q)
    (hd : Dom m.nG tc q.whereC = true) (hne : ∀ c, tc ≠ some (.eq c))
    (pl : Plan α) (h : planTS cfg m q = .ok pl) : OtfSpec q tc pl := by
  cases tc with
  | some tc =>
    cases hq : q.whereC with
    | none => simp [Dom, hq] at hd
    | some w =>
      rw [hq] at hd
      have := plan_tc cfg m q tc w hq hp hd
      rw [this] at h; injection h with h; subst h
      cases tc <;> first | rfl | exact absurd rfl (hne _)
  | none =>
    cases hq : q.whereC with
    | none =>
      have := plan_none cfg m q hq hp
      rw [this] at h; injection h with h; subst h; rfl
    | some w =>
      rw [hq] at hd
      have := plan_pf cfg m q w hq hp hd
      rw [this] at h; injection h with h; subst h; rfl

/-- in the `t = c` class the output filter is `t > c` (this is the known finding) -/
theorem C15_otf_eq (cfg : Cfg) (m : Meta) (q : Query α) (c : α) (hp : plain q)
    (hd : Dom m.nG (some (.eq c)) q.whereC = true) (pl : Plan α) (h : planTS cfg m q = .ok pl) :
    pl.otf = some (TC.gt c).toW := by
  cases hq : q.whereC with
  | none => simp [Dom, hq] at hd
  | some w =>
    rw [hq] at hd
    have := plan_tc cfg m q (.eq c) w hq hp hd
    rw [this] at h; injection h with h; subst h; rfl

/-- the user's LIMIT (also `LIMIT 0`, since df1c6e2) becomes the LimitOffsetStep after the join (in the model this
half is the field copy `limitOf = id`; its content is the correspondence of the `limit=` field) and is never pushed
into a fetch select: their only limit is the window (this half is about the branch table) -/
theorem C15_limit (cfg : Cfg) (m : Meta) (q : Query α) (tc : Option (TC α)) (hp : plain q)
    (hd : Dom m.nG tc q.whereC = true)
    (pl : Plan α) (h : planTS cfg m q = .ok pl) : LimitSpec m q pl := by
  have hlim : limitOf q.limit = q.limit := rfl
  cases tc with
  | some tc =>
    cases hq : q.whereC with
    | none => simp [Dom, hq] at hd
    | some w =>
      rw [hq] at hd
      have := plan_tc cfg m q tc w hq hp hd
      rw [this] at h; injection h with h; subst h
      refine ⟨hlim, ?_⟩
      cases tc <;> simp [branchesSpec, injectSel, selWin, selAll, selLatest]
  | none =>
    cases hq : q.whereC with
    | none =>
      have := plan_none cfg m q hq hp
      rw [this] at h; injection h with h; subst h
      exact ⟨hlim, by simp [injectSel]⟩
    | some w =>
      rw [hq] at hd
      have := plan_pf cfg m q w hq hp hd
      rw [this] at h; injection h with h; subst h
      exact ⟨hlim, by simp [injectSel]⟩

/-! ## T15.3 — rejections -/

/-- ORDER BY / GROUP BY / HAVING / OFFSET ⇒ PlanningException (whatever the WHERE is) -/
theorem C15_reject_flags (cfg : Cfg) (m : Meta) (q : Query α)
    (h : q.orderBy = true ∨ q.groupBy = true ∨ q.having = true ∨ q.offset = true) :
    planTS cfg m q = .planning := by
  unfold planTS
  rcases h with h | h | h | h <;> simp [h]

/-- the decision table of `planTS` -/
theorem C15_decision (cfg : Cfg) (m : Meta) (q : Query α) :
    (planTS cfg m q = .planning ↔
      (q.orderBy = true ∨ q.groupBy = true ∨ q.having = true ∨ q.offset = true ∨
        validO cfg m.nG q.whereC = false ∨ ftOf q.whereC = .two)) ∧
    (planTS cfg m q = .crash ↔ (plain q ∧ validO cfg m.nG q.whereC = true ∧ ftOf q.whereC = .crash)) := by
  unfold planTS plain
  cases q.orderBy <;> cases q.groupBy <;> cases q.having <;> cases q.offset <;>
    cases validO cfg m.nG q.whereC <;> cases ftOf q.whereC <;> simp

theorem validO_le (cfg : Cfg) (nG : Nat) (w : W α) (h : validO cfg nG (some w) = true) :
    validate nG w = true := by
  simp only [validO] at h
  split at h
  · exact validateDeep_le nG w h
  · exact h

/-- [history: the shallow validation before 6ba8cb8; holds for every `cfg`] on the fragment where that
validation sees every position (`visible`), a WHERE with a
disallowed operator, a column other than the order / group columns, or an AND operand that is not a condition
is rejected with PlanningException (pinned tree and repaired tree alike) -/
theorem C15_reject_where_partial (cfg : Cfg) (m : Meta) (q : Query α) (w : W α) (hq : q.whereC = some w)
    (hop : w.isOperation = true) (hvis : visible w = true)
    (hbad : opsOk w = false ∨ colsOk m.nG w = false ∨ andOk w = false) : planTS cfg m q = .planning := by
  have hs := validate_spec m.nG w hvis
  rw [identOk_op m.nG hop, Bool.and_true] at hs
  have hvf : validate m.nG w = false := by
    rw [hs]; rcases hbad with h | h | h <;> simp [h]
  have : validO cfg m.nG q.whereC = false := by
    rw [hq]
    cases hv : validO cfg m.nG (some w) with
    | false => rfl
    | true => rw [validO_le cfg m.nG w hv] at hvf; exact absurd hvf (by simp)
  exact ((C15_decision cfg m q).1).2 (Or.inr (Or.inr (Or.inr (Or.inr (Or.inl this)))))

/-- **with the validation of 6ba8cb8** (`cfg.deepValidate`): the same for *every* WHERE, no `visible`
restriction (closed KF-C15-3) -/
theorem C15_reject_where_fixed (cfg : Cfg) (hcfg : cfg.deepValidate = true) (m : Meta) (q : Query α) (w : W α)
    (hq : q.whereC = some w) (hop : w.isOperation = true)
    (hbad : opsOk w = false ∨ colsOk m.nG w = false ∨ andOk w = false) : planTS cfg m q = .planning := by
  have hs := validateDeep_spec m.nG w
  rw [identOk_op m.nG hop, Bool.and_true] at hs
  have : validO cfg m.nG q.whereC = false := by
    rw [hq]; simp only [validO, hcfg, if_true]; rw [hs]
    rcases hbad with h | h | h <;> simp [h]
  exact ((C15_decision cfg m q).1).2 (Or.inr (Or.inr (Or.inr (Or.inr (Or.inl this)))))

/-- [history: shallow `validate`] conversely, on that fragment an all-allowed WHERE passes the validation -/
theorem C15_validate_iff (nG : Nat) (w : W α) (hop : w.isOperation = true) (hvis : visible w = true) :
    validate nG w = (opsOk w && colsOk nG w && andOk w) := by
  have hs := validate_spec nG w hvis
  rwa [identOk_op nG hop, Bool.and_true] at hs

/-- the repaired validation is the independent reading on every WHERE -/
theorem C15_validateDeep_iff (nG : Nat) (w : W α) (hop : w.isOperation = true) :
    validateDeep nG w = (opsOk w && colsOk nG w && andOk w) := by
  have hs := validateDeep_spec nG w
  rwa [identOk_op nG hop, Bool.and_true] at hs

/-- nothing but PlanningException (since 8068254): for every WHERE the parser can produce (an Operation or
none) the model never crashes -/
theorem C15_no_crash (cfg : Cfg) (m : Meta) (q : Query α)
    (h : ∀ w, q.whereC = some w → w.isOperation = true) :
    planTS cfg m q ≠ .crash := by
  intro hc
  obtain ⟨_, hv, hft⟩ := ((C15_decision cfg m q).2).1 hc
  cases hq : q.whereC with
  | none => rw [hq] at hft; simp [ftOf] at hft
  | some w =>
    rw [hq] at hft hv
    exact findTF_no_crash m.nG w (h w hq) (validO_le cfg m.nG w hv) hft

/-! ## order column on the right (commit a0ed2b6, `cfg.normalizeTF`; closed KF-C15-5) -/

/-- **with the normalisation of a0ed2b6** (`cfg.normalizeTF`): a WHERE whose time condition is written `c op t` is planned
exactly like the WHERE with that leaf rewritten to `t op' c`; the rewritten WHERE is in the domain of
`C15_rows` (class `rc.mirror`) and selects the same rows as the user's WHERE. Hence the fetched rows are the
rows of the user's condition plus the window before its lower bound. -/
theorem C15_rows_rev_fixed (cfg : Cfg) (hcfg : cfg.normalizeTF = true) (m : Meta) (q : Query α) (rc : RC α)
    (w : W α) (hq : q.whereC = some w) (hp : plain q) (hd : tcTree m.nG rc.toW w = true) :
    let w' := replaceTF rc.toW rc.mirror.toW w
    planTS cfg m q = planTS cfg m { q with whereC := some w' } ∧
    RowsSpec cfg m { q with whereC := some w' } (some rc.mirror) ∧
    ∀ e r, sel e w' r = sel e w r := by
  intro w'
  have hd' : tcTree m.nG rc.mirror.toW w' = true := rc_replace_tcTree rc w hd
  have hp' : plain { q with whereC := some w' } := hp
  refine ⟨?_, C15_rows cfg m _ (some rc.mirror) hp' (by simpa [Dom] using hd'), fun e r => rc_replace_sel rc e r w hd⟩
  obtain ⟨ho, hg, hh, hf⟩ := hp
  -- left: find the reversed leaf, normalise it in place
  have hv : validO cfg m.nG q.whereC = true := by rw [hq]; exact rc_validO rc cfg w hd
  have hft : ftOf q.whereC = FT.one rc.toW := by rw [hq]; exact rc_findTF rc w hd
  have h1 := planTS_eq_some cfg m q ho hg hh hf hv rc.toW hft
  have hn : normStep cfg q.whereC rc.toW = (some w', rc.mirror.toW) := by
    simp [normStep, hcfg, hq, normTF_rc, w']
  rw [hn] at h1
  -- right: already normal
  have hv' : validO cfg m.nG (some w') = true := tc_validO rc.mirror cfg w' hd'
  have hft' : ftOf (some w') = FT.one rc.mirror.toW := tc_findTF rc.mirror w' hd'
  have h2 := planTS_eq_some cfg m { q with whereC := some w' } ho hg hh hf hv' rc.mirror.toW hft'
  rw [normStep_tc] at h2
  rw [h1, h2]

/-! ## the pinned tree has both repairs: unconditional instances, and the tie to the live code -/

/-- the variant probed on the live code by `tools/extract/x_c15.py` is the one the theorems are instantiated with -/
theorem C15_live_variant : MindsVerif.Gen.TSCfg.live = Cfg.pinned := by decide

/-- **T15.3 on the pinned tree**: every WHERE with a disallowed operator, a column other than the order / group
columns anywhere outside sub-queries, or an AND operand that is not a condition ⇒ PlanningException -/
theorem C15_reject_where (m : Meta) (q : Query α) (w : W α) (hq : q.whereC = some w)
    (hop : w.isOperation = true)
    (hbad : opsOk w = false ∨ colsOk m.nG w = false ∨ andOk w = false) : planTS Cfg.pinned m q = .planning :=
  C15_reject_where_fixed Cfg.pinned rfl m q w hq hop hbad

/-- **T15.1 on the pinned tree for `c op t`**: planned as `t op' c`, which is in `Dom`, has the row-set property
and selects the same rows -/
theorem C15_rows_rev (m : Meta) (q : Query α) (rc : RC α) (w : W α) (hq : q.whereC = some w) (hp : plain q)
    (hd : tcTree m.nG rc.toW w = true) :
    let w' := replaceTF rc.toW rc.mirror.toW w
    planTS Cfg.pinned m q = planTS Cfg.pinned m { q with whereC := some w' } ∧
    RowsSpec Cfg.pinned m { q with whereC := some w' } (some rc.mirror) ∧
    ∀ e r, sel e w' r = sel e w r :=
  C15_rows_rev_fixed Cfg.pinned rfl m q rc w hq hp hd

/-! ## all sixteen spellings, and statements with several time-series joins -/

/-- T15.1 for one join whose time condition is spelled `tl` (column first, or constant / LATEST first), stated
on the user's own WHERE `w` -/
def RowsSpecL (cfg : Cfg) (m : Meta) (q : Query α) (tl : TL α) (w : W α) : Prop :=
  ∃ pl, planTS cfg m q = .ok pl ∧ ∀ (e : Env α) (T : List (Row α)), envOk e m.nG = true →
    ∃ L, WindowSpecL m.window e m.nG tl w T L ∧
      (fetched e T pl.selects).Perm (condRowsL e m.nG tl w T ++ L)

/-- **T15.1 on the pinned tree for every spelling of the time condition**: `t op c`, `c op t`, BETWEEN,
`t > LATEST`, `LATEST < t`, `t = LATEST`, `LATEST = t`, in any AND-nesting with partition filters: the fetched
rows are the rows satisfying the condition (read with its meaning `tl.cls`) plus a valid window before its
lower bound, restricted by the other conjuncts of the user's WHERE. -/
theorem C15_rows_spellings (m : Meta) (q : Query α) (tl : TL α) (w : W α) (hq : q.whereC = some w)
    (hp : plain q) (hd : tcTree m.nG tl.toW w = true) : RowsSpecL Cfg.pinned m q tl w := by
  cases tl with
  | fwd tc =>
    obtain ⟨pl, h1, h2⟩ := C15_rows_tc Cfg.pinned m q tc w hq hp hd
    refine ⟨pl, h1, fun e T hok => ?_⟩
    obtain ⟨L, hL, hperm⟩ := h2 e T hok
    rw [hq] at hL hperm
    exact ⟨L, hL, hperm⟩
  | rev rc =>
    obtain ⟨heq, ⟨pl, h1, h2⟩, _⟩ := C15_rows_rev m q rc w hq hp hd
    refine ⟨pl, heq.trans h1, fun e T hok => ?_⟩
    obtain ⟨L, hL, hperm⟩ := h2 e T hok
    have hb : ∀ r, base e m.nG (some rc.mirror) (some (replaceTF rc.toW rc.mirror.toW w)) r
        = baseL e m.nG (.rev rc) w r := by
      intro r
      simp only [base, baseL, restSelO, Option.map, Option.getD, TL.toW]
      rw [rc_restSel rc e r w hd]
    have hc : condRows e m.nG (some rc.mirror) (some (replaceTF rc.toW rc.mirror.toW w)) T
        = condRowsL e m.nG (.rev rc) w T := by
      simp only [condRows, condRowsL, TL.cls, hb]
    refine ⟨L, ?_, by rw [← hc]; exact hperm⟩
    simp only [WindowSpec, WindowSpecL, Option.bind, TL.cls] at hL ⊢
    cases hbf : rc.mirror.before with
    | none => rw [hbf] at hL; exact hL
    | some bf =>
      rw [hbf] at hL
      have : candRows e m.nG (some rc.mirror) (some (replaceTF rc.toW rc.mirror.toW w)) bf T
          = candRowsL e m.nG (.rev rc) w bf T := by
        simp only [candRows, candRowsL, hb]
      show IsLastW m.window (candRowsL e m.nG (.rev rc) w bf T) L
      rw [← this]; exact hL

/-- a statement with several time-series joins (the sides of a UNION, joins nested in sub-selects, the source
of INSERT / CREATE TABLE): the planner plans every join by its own call of `plan_timeseries_predictor` with its
own predictor metadata and its own WHERE -/
def planStmt (cfg : Cfg) (joins : List (Meta × Query α)) : List (Res α) :=
  joins.map (fun j => planTS cfg j.1 j.2)

/-- **per-join row-set property for multi-join statements**: the plan of the i-th join is the plan of that join
alone (so it has its own partition query and fetch selects, whatever the other joins are), and it has the
row-set property of its own WHERE -/
theorem C15_rows_stmt (joins : List (Meta × Query α)) (i : Nat) (m : Meta) (q : Query α) (tl : TL α) (w : W α)
    (hi : joins[i]? = some (m, q)) (hq : q.whereC = some w) (hp : plain q)
    (hd : tcTree m.nG tl.toW w = true) :
    (planStmt Cfg.pinned joins)[i]? = some (planTS Cfg.pinned m q) ∧ RowsSpecL Cfg.pinned m q tl w := by
  refine ⟨?_, C15_rows_spellings m q tl w hq hp hd⟩
  simp [planStmt, hi]

/-! ## the dbt form: data operand written as a sub-select (`adapt_dbt_query`) -/

/-- whenever a plan is produced its LimitOffsetStep carries the LIMIT of the query that was planned -/
theorem planTS_limit (cfg : Cfg) (m : Meta) (q : Query α) (pl : Plan α) (h : planTS cfg m q = .ok pl) :
    pl.limitStep = q.limit := by
  unfold planTS at h
  split at h
  · cases h
  · split at h
    · cases h
    · split at h
      · cases h
      · split at h
        · cases h
        · cases h
        · injection h with h; subst h; rfl
        · injection h with h; subst h; rfl

theorem minLimit_some (a b : Nat) : minLimit (some a) (some b) = some (min a b) := by
  simp only [minLimit]
  split
  · rename_i h; congr 1; omega
  · rename_i h; congr 1; omega

theorem minLimit_none_left (b : Option Nat) : minLimit none b = b := by cases b <;> rfl
theorem minLimit_none_right (a : Option Nat) : minLimit a none = a := rfl

/-- **LIMIT in the dbt form**: the LimitOffsetStep after the join carries the smaller of the sub-select's LIMIT and
the outer LIMIT (the one that is present if only one is; none if none is), and no fetch select carries either -/
theorem C15_dbt_limit (cfg : Cfg) (m : Meta) (outer inner : Query α) (pl : Plan α)
    (h : planDbt cfg m outer inner = .ok pl) :
    pl.limitStep = minLimit inner.limit outer.limit ∧
    (∀ a b, inner.limit = some a → outer.limit = some b → pl.limitStep = some (min a b)) ∧
    (inner.limit = none → pl.limitStep = outer.limit) ∧ (outer.limit = none → pl.limitStep = inner.limit) := by
  have h0 : pl.limitStep = minLimit inner.limit outer.limit := planTS_limit cfg m _ pl h
  refine ⟨h0, ?_, ?_, ?_⟩
  · intro a b ha hb; rw [h0, ha, hb, minLimit_some]
  · intro ha; rw [h0, ha, minLimit_none_left]
  · intro hb; rw [h0, hb, minLimit_none_right]

/-- **T15.1 in the dbt form**: when the sub-select's WHERE together with the LATEST conditions moved in from the
outer WHERE is in the domain, the row-set property holds for it -/
theorem C15_dbt_rows (cfg : Cfg) (m : Meta) (outer inner : Query α) (tc : Option (TC α))
    (hp : plain inner) (hd : Dom m.nG tc (adaptDbt outer inner).whereC = true) :
    RowsSpec cfg m (adaptDbt outer inner) tc :=
  C15_rows cfg m (adaptDbt outer inner) tc hp hd

/-- ORDER BY / GROUP BY / HAVING / OFFSET of the sub-select ⇒ PlanningException -/
theorem C15_dbt_reject_inner (cfg : Cfg) (m : Meta) (outer inner : Query α)
    (h : inner.orderBy = true ∨ inner.groupBy = true ∨ inner.having = true ∨ inner.offset = true) :
    planDbt cfg m outer inner = .planning :=
  C15_reject_flags cfg m (adaptDbt outer inner) h

/-- KF-C15-6 / KF-C15-7 (witness, all inputs): of the outer query only the LATEST conditions and the LIMIT
matter — its other WHERE conditions, ORDER BY, GROUP BY, HAVING and OFFSET are neither applied nor rejected -/
theorem C15_witness_dbt_outer_ignored (cfg : Cfg) (m : Meta) (outer outer' inner : Query α)
    (hl : outer.limit = outer'.limit)
    (hw : outerLatest outer = outerLatest outer') :
    planDbt cfg m outer inner = planDbt cfg m outer' inner := by
  simp only [planDbt, adaptDbt, hl, hw]

/-- … e.g. an outer `ORDER BY`, and an outer filter on a foreign column, are accepted -/
theorem C15_witness_dbt_outer :
    planDbt (α := Int) Cfg.pinned ⟨1, 3⟩ { whereC := some (.bin .eq (.ident .other) (.const 3)), orderBy := true }
        { whereC := some (TC.gt 5).toW }
      = planTS (α := Int) Cfg.pinned ⟨1, 3⟩ { whereC := some (TC.gt 5).toW } := by decide

/-- the usual dbt query: partition filter inside, `t > LATEST` outside: the plan is the window query of
`g = 1 AND t > LATEST` -/
example :
    planDbt (α := Int) Cfg.pinned ⟨1, 3⟩ { whereC := some (TC.gtLatest).toW, limit := some 9 }
        { whereC := some (.bin .eq (.ident (.grp 0)) (.const 1)), limit := some 4 }
      = planTS (α := Int) Cfg.pinned ⟨1, 3⟩
          { whereC := some (.bin .and (.bin .eq (.ident (.grp 0)) (.const 1)) (TC.gtLatest).toW), limit := some 4 } := by
  decide

/-! ## NULL partition values: what the executor has to provide -/

/-- with plain SQL equality for `col = $var[col]` a partition record that contains a NULL group value
receives no rows at all (whatever the table) -/
theorem C15_null_partition_empty (cfg : Cfg) (m : Meta) (q : Query α) (tc : Option (TC α)) (hp : plain q)
    (hd : Dom m.nG tc q.whereC = true) (pl : Plan α) (h : planTS cfg m q = .ok pl)
    (e : Env α) (hns : e.ns = false) (hnull : nonNullFrom e m.nG 0 = false) (T : List (Row α)) :
    fetched e T pl.selects = [] := by
  have key : ∀ sels : List (Sel α), fetched e T (sels.map (injectSel m.nG)) = [] := by
    intro sels
    induction sels with
    | nil => rfl
    | cons s rest ih =>
      have hs : T.filter (sel e (injectSel m.nG s).whereC) = [] := by
        have : sel e (injectSel m.nG s).whereC = fun _ => false := by
          funext r; exact sel_injectVars_null e r hns m.nG 0 s.whereC hnull
        rw [this]; simp
      simp only [fetched, List.map, List.flatten_cons] at ih ⊢
      rw [ih]
      cases hl : (injectSel m.nG s).limit <;> simp [evalSel, hs, hl, limitTake]
  cases tc with
  | some tc =>
    cases hq : q.whereC with
    | none => simp [Dom, hq] at hd
    | some w =>
      rw [hq] at hd
      have := plan_tc cfg m q tc w hq hp hd
      rw [this] at h; injection h with h; subst h
      exact key _
  | none =>
    cases hq : q.whereC with
    | none =>
      have := plan_none cfg m q hq hp
      rw [this] at h; injection h with h; subst h
      exact key [_]
    | some w =>
      rw [hq] at hd
      have := plan_pf cfg m q w hq hp hd
      rw [this] at h; injection h with h; subst h
      exact key [_]

/-- **T15.1 for every partition record, NULLs included**, provided the executor fills `$var[col]`
null-safely (`col IS NOT DISTINCT FROM value`): this is `C15_rows` with `e.ns = true` -/
theorem C15_rows_nullsafe (cfg : Cfg) (m : Meta) (q : Query α) (tc : Option (TC α)) (hp : plain q)
    (hd : Dom m.nG tc q.whereC = true) :
    ∃ pl, planTS cfg m q = .ok pl ∧ ∀ (p : List (Option α)) (S T : List (Row α)),
      ∃ L, WindowSpec m.window ⟨p, true, S⟩ m.nG tc q.whereC T L ∧
        (fetched ⟨p, true, S⟩ T pl.selects).Perm (condRows ⟨p, true, S⟩ m.nG tc q.whereC T ++ L) := by
  obtain ⟨pl, h1, h2⟩ := C15_rows cfg m q tc hp hd
  exact ⟨pl, h1, fun p S T => h2 ⟨p, true, S⟩ T (by simp [envOk])⟩

/-! ## witnesses: the model exhibits the known defects (each reproduced on the real code by the check) -/

/-- KF-C15-1: `WHERE ta.t = 5` — output_time_filter is `t > 5`, not the user's `t = 5` -/
theorem C15_witness_1 :
    ∃ pl, planTS (α := Int) Cfg.pinned ⟨1, 3⟩ { whereC := some (TC.eq 5).toW } = .ok pl ∧
      ¬ OtfSpec (α := Int) { whereC := some (TC.eq 5).toW } (some (.eq 5)) pl :=
  ⟨_, rfl, by unfold OtfSpec; decide⟩

/-- KF-C15-2 (fixed by df1c6e2): `LIMIT 0` is planned as `LimitOffsetStep(limit=0)` -/
example : ∃ pl, planTS (α := Int) Cfg.pinned ⟨1, 3⟩ { whereC := some (TC.gt 5).toW, limit := some 0 } = .ok pl ∧
    pl.limitStep = some 0 := ⟨_, rfl, rfl⟩

/-- KF-C15-3 (fixed by 6ba8cb8): a foreign column inside an IN list / CAST / CASE is rejected -/
example :
    planTS (α := Int) Cfg.pinned ⟨1, 3⟩ { whereC := some (.bin .inn (.ident (.grp 0)) (.opaque true)) } = .planning := by
  decide

/-- KF-C15-3, second shape (fixed by 6ba8cb8): `ta.g BETWEEN 1 AND (ta.x + 1)` is rejected -/
example :
    planTS (α := Int) Cfg.pinned ⟨1, 3⟩
      { whereC := some (.btw (.ident (.grp 0)) (.const 1) (.bin (.bad 0) (.ident .other) (.const 1))) } = .planning := by
  decide

/-- KF-C15-4 (fixed by 8068254): `WHERE ta.g = 1 AND ta.g` is rejected with PlanningException -/
example :
    planTS (α := Int) Cfg.pinned ⟨1, 3⟩
      { whereC := some (.bin .and (.bin .eq (.ident (.grp 0)) (.const 1)) (.ident (.grp 0))) }
      = .planning := by decide

/-- KF-C15-5 (fixed by a0ed2b6): `5 < ta.t` is planned like `ta.t > 5` — window select + range select,
output filter `t > 5` -/
example :
    planTS (α := Int) Cfg.pinned ⟨0, 3⟩ { whereC := some (.bin .lt (.const 5) (.ident .time)) }
      = planTS (α := Int) Cfg.pinned ⟨0, 3⟩ { whereC := some (TC.gt 5).toW } := by decide

/-- NULL partition value under plain SQL equality: the table has a row of the NULL partition that satisfies
the user's condition (so the specification set is not empty), but nothing is fetched. Not a defect of this
library by itself — it states what the executor of MapReduceStep must do (`C15_rows_nullsafe`). -/
theorem C15_witness_null :
    let q : Query Int := { whereC := some (TC.gt 2).toW }
    let e : Env Int := ⟨[none], false, []⟩
    let T : List (Row Int) := [⟨some 3, [none]⟩]
    condRows e 1 (some (.gt 2)) q.whereC T = T ∧
    ∀ pl, planTS Cfg.pinned ⟨1, 3⟩ q = .ok pl → fetched e T pl.selects = [] := by
  refine ⟨by decide, fun pl h => ?_⟩
  exact C15_null_partition_empty Cfg.pinned ⟨1, 3⟩ _ (some (.gt 2)) (by decide) (by decide) pl h _ rfl (by decide) _

/-- hence the full statement does not hold for the model of the pinned tree -/
theorem C15_full_false : ¬ C15_full Int := by
  intro h
  have h1 := (h Cfg.pinned ⟨1, 3⟩ { whereC := some (TC.eq 5).toW }).2 (some (.eq 5)) (by decide) (by decide)
  obtain ⟨pl, hpl, hn⟩ := C15_witness_1
  exact hn (h1.2 pl hpl).2.1

/-! ## sub-queries: what `replace_time_filter` reaches (round 6) -/

/-- `replace_time_filter` leaves every sub-query, value list, CAST and CASE of the tree exactly as written -- all trees, every
time filter and replacement that contain no such node themselves (the replacement the planner builds, `t <op> <bound>`, is
made of the order column and an operand of the time filter) -/
theorem C15_replace_subqueries (tf new w : W α) (htf : closedNodes tf = []) (hnew : closedNodes new = []) :
    closedNodes (replaceTF tf new w) = closedNodes w :=
  closedNodes_replaceTF tf new htf hnew w

/-- on every AND-nesting of conditions whose operands are not conditions themselves, `replace_time_filter` changes exactly the
conjuncts that ARE the time filter, as whole conjuncts; every other conjunct -- in particular `g IN (SELECT … WHERE <the same
condition>)` -- is returned as it is -/
theorem C15_replace_conjuncts (tf new w : W α) (htf : tf.isOperation = true) (hna : ∀ l r, tf ≠ .bin .and l r)
    (hw : flatTree w = true) :
    replaceTF tf new w = mapConj (fun c => if c = tf then new else c) w :=
  replaceTF_flat tf new htf hna w hw

/-- planner level, every WHERE the planner accepts, every variant: each query sent to the data source (window select,
range select, partition query) carries exactly the sub-queries / value lists / CAST / CASE of the user's WHERE, unchanged and
in the same order -- provided the time condition itself contains none -/
theorem C15_plan_subqueries (cfg : Cfg) (m : Meta) (q : Query α) (w : W α) (pl : Plan α) (hw : q.whereC = some w)
    (hpl : planTS cfg m q = .ok pl) (htf : ∀ t, findTF w = .one t → closedNodes t = []) :
    (∀ s ∈ pl.selects, closedNodes s.whereC = closedNodes w) ∧
    (∀ pw, pl.partWhere = some (some pw) → closedNodes pw = closedNodes w) ∧
    (pl.partWhere = some none → closedNodes w = []) := by
  -- the three facts for `planOk` on a WHERE `pw` with the closed nodes of `w`
  have key : ∀ (pw : W α) (tf : Option (W α)), (∀ t, tf = some t → closedNodes t = []) →
      closedNodes pw = closedNodes w → pl = planOk m (some pw) q.limit tf →
      (∀ s ∈ pl.selects, closedNodes s.whereC = closedNodes w) ∧
      (∀ pw', pl.partWhere = some (some pw') → closedNodes pw' = closedNodes w) ∧
      (pl.partWhere = some none → closedNodes w = []) := by
    intro pw tf h1 h2 hp
    have hrm := closedNodes_removeTF tf h1 pw
    subst hp
    rw [planOk_eq]
    refine ⟨?_, ?_, ?_⟩
    · intro s hs
      simp only [List.mem_map] at hs
      obtain ⟨s0, hs0, rfl⟩ := hs
      simp only [injectSel, closedNodes_injectVars]
      rw [closedNodes_branches m.window pw tf h1 s0 hs0, h2]
    · intro pw' hpw'
      by_cases hn : m.nG = 0
      · simp [hn] at hpw'
      · simp only [hn, if_false, Option.some.injEq, removeO] at hpw'
        rw [hpw'] at hrm; simp only [Option.getD_some] at hrm; rw [hrm, h2]
    · intro hpn
      by_cases hn : m.nG = 0
      · simp [hn] at hpn
      · simp only [hn, if_false, Option.some.injEq, removeO] at hpn
        rw [hpn] at hrm; simp only [Option.getD_none, closedNodes] at hrm; rw [← h2, ← hrm]
  unfold planTS at hpl
  split at hpl; · cases hpl
  split at hpl; · cases hpl
  split at hpl; · cases hpl
  rw [hw] at hpl
  simp only [ftOf] at hpl
  split at hpl
  · cases hpl
  · cases hpl
  · rename_i t ht
    have h0 := htf t ht
    injection hpl with hpl
    simp only [normStep] at hpl
    split at hpl
    · exact key _ _ (by intro t' e; injection e with e; subst e; exact closedNodes_normTF t h0)
        (closedNodes_replaceTF t _ h0 (closedNodes_normTF t h0) w) hpl.symm
    · exact key _ _ (by intro t' e; injection e with e; subst e; exact h0) rfl hpl.symm
  · injection hpl with hpl
    exact key _ _ (by intro t' e; cases e) rfl hpl.symm

/-- the deep-walking replacement differs from the library's: on `t > 10 AND g IN (SELECT g FROM shops WHERE t > 10)` the
library rewrites the first conjunct only, the walk over the whole tree also rewrites the sub-query's WHERE -/
theorem C15_witness_deep_replace :
    let tf : W Int := (TC.gt 10).toW
    let new : W Int := .bin .le (.ident .time) (.const 10)
    let pf (c : W Int) : W Int := .bin .inn (.ident (.grp 0)) (.sub 1 c)
    replaceTF tf new (.bin .and tf (pf tf)) = .bin .and new (pf tf) ∧
    replaceDeep tf new (.bin .and tf (pf tf)) = .bin .and new (pf new) ∧
    closedNodes (replaceDeep tf new (.bin .and tf (pf tf))) ≠ closedNodes (.bin .and tf (pf tf)) := by decide

/-- … and the rows differ: shop 1 opened on day 20 (`t > 10` selects its vendor), the data table has a row of vendor 1 on
day 8. It precedes the lower bound, so it belongs to the window; the library's window query selects it, the query with the
rewritten sub-query (`… FROM shops WHERE t <= 10`: no shop) does not -/
theorem C15_witness_deep_rows :
    let tf : W Int := (TC.gt 10).toW
    let new : W Int := .bin .le (.ident .time) (.const 10)
    let w : W Int := .bin .and tf (.bin .inn (.ident (.grp 0)) (.sub 1 tf))
    let e : Env Int := { p := [some 1], shops := [⟨some 20, [some 1]⟩, ⟨some 4, [some 2]⟩] }
    let r : Row Int := ⟨some 8, [some 1]⟩
    sel e (replaceTF tf new w) r = true ∧ restSel e tf w r = true ∧ sel e (replaceDeep tf new w) r = false := by decide

/-! ## non-vacuity -/

example : Dom (α := Int) 2 (some (.gt 5)) (some (.bin .and (.bin .eq (.ident (.grp 0)) (.const 1))
    (.bin .and (TC.gt 5).toW (.bin .inn (.ident (.grp 1)) (.tuple [1, 2]))))) = true := by decide
example : Dom (α := Int) 0 none none = true := by decide
example : Dom (α := Int) 1 (some .eqLatest)
    (some (.bin .and (TC.eqLatest).toW (.btw (.ident (.grp 0)) (.const 0) (.const 2)))) = true := by decide
/-- the value domain may be ISO date strings -/
example : Dom (α := String) 1 (some (.ge "2020-01-01"))
    (some (.bin .and (TC.ge "2020-01-01").toW (.bin .eq (.ident (.grp 0)) (.const "nyc")))) = true := by decide
example : (VOrd.le "2020-01-02" "2020-01-10" : Bool) = true := by decide
/-- `LATEST < t` next to a partition filter is in the domain of `C15_rows_spellings` -/
example : tcTree (α := Int) 1 (TL.rev .ltLatest).toW
    (.bin .and (.bin .eq (.ident (.grp 0)) (.const 1)) (RC.ltLatest).toW) = true := by decide
example : plain (α := Int) { whereC := none, limit := some 7 } := by decide
example : envOk (α := Int) ⟨[some 1, none], true, []⟩ 2 = true ∧ envOk (α := Int) ⟨[some 1, some 2], false, []⟩ 2 = true := by
  decide
/-- the specification sets are inhabited, with a tie at the window boundary (two candidates at t = 1) -/
example :
    let T : List (Row Int) := [⟨some 1, [some 1]⟩, ⟨some 1, [some 1]⟩, ⟨some 3, [some 1]⟩, ⟨none, [some 1]⟩, ⟨some 0, [some 2]⟩]
    condRows ⟨[some 1], false, []⟩ 1 (some (.gt 2)) (some (TC.gt 2).toW) T = [⟨some 3, [some 1]⟩] ∧
    candRows ⟨[some 1], false, []⟩ 1 (some (.gt 2)) (some (TC.gt 2).toW) (fun v => vle v 2) T
      = [⟨some 1, [some 1]⟩, ⟨some 1, [some 1]⟩] := by decide
example : visible (α := Int) (.bin .and (.bin .eq (.ident .other) (.const 1)) (TC.gt 2).toW) = true := by decide

/-- a partition filter with a sub-query that spells the outer time condition (inside OR, next to a further sub-query) is in
the domain of `C15_rows` -/
example : Dom (α := Int) 1 (some (.gt 10)) (some (.bin .and (TC.gt 10).toW
    (.bin .inn (.ident (.grp 0)) (.sub 1 (.bin (.bad 0) (TC.gt 10).toW
      (.bin .inn (.ident (.grp 0)) (.sub 1 (TC.gt 10).toW))))))) = true := by decide
/-- the hypotheses of `C15_replace_conjuncts` / `C15_plan_subqueries` hold for it -/
example : flatTree (α := Int) (.bin .and (TC.gt 10).toW (.bin .inn (.ident (.grp 0)) (.sub 1 (TC.gt 10).toW))) = true ∧
    closedNodes (α := Int) (TC.gt 10).toW = [] ∧ (TC.gt 10).toW.isOperation (α := Int) = true := by decide
/-- the row semantics of `IN (sub-query)`: TRUE on a match, NULL (not selected) when only a NULL could match -/
example :
    let e : Env Int := { p := [], shops := [⟨some 20, [some 1]⟩, ⟨some 4, [none]⟩] }
    ev e ⟨some 1, [some 1]⟩ (.bin .inn (.ident (.grp 0)) (.sub 1 .null)) = some true ∧
    ev e ⟨some 1, [some 2]⟩ (.bin .inn (.ident (.grp 0)) (.sub 1 .null)) = none ∧
    ev e ⟨some 1, [some 2]⟩ (.bin .inn (.ident (.grp 0)) (.sub 1 (TC.gt 10).toW)) = some false := by decide

end MindsVerif.Props.C15
