import MindsVerif.Lemmas.TokStr
import MindsVerif.Lemmas.RawQueryLink
import MindsVerif.Lemmas.TokStrRename
import MindsVerif.Model.MultiWord
import MindsVerif.Model.StoredAttr
import MindsVerif.Gen.Valid_mindsdb
import MindsVerif.Gen.C16Data
import MindsVerif.Gen.Tables_mindsdb
/-!
# C16 — queries embedded in MindsDB commands are stored verbatim (up to whitespace and comments)

Property theorems only.  Models: `MindsVerif.TokStr` (`tokens_to_string` as repaired in /repo bd184d7 — a token's `lineno` is the
line it starts on, the loop adds the newlines inside the token's value —, the four `raw_query` actions, the token actions under
the regenerated configuration `Gen.C16Data.actCfg`), `MindsVerif.RawQueryGram` (Φ16 over the exported productions),
`MindsVerif.RawQueryLink` (structure of WF derivation trees under Φ16), `MindsVerif.MultiWord` (multi-word keyword regexes).

A token is `{type, value, src, lineno, index}`: `src` = the characters the user wrote, `value` = what the lexer action left in
`t.value` (for the live lexer `value = src`: `C16_live_cfg`).  "Verbatim up to whitespace and comments" is `verbatim toks`: the
token *sources* in order, every gap between two tokens replaced by blank material of the same length (blanks; `\n` + blanks when
the next token does not start on the line the previous one ends on).

Current state of the statements
* main, live configuration, all token lists incl. tokens that span lines: `C16`, `C16_command`; for every layout of the inner
  text: `C16_review_layout_source_live`, `C16_review_storedSpec_length`; across the layers (LR driver · grammar · actions ·
  `tokens_to_string`): `C16_link` (non-vacuous: `C16_link_nonvacuous`).
* shape theorems for any configuration: `C16_partial`, `C16_layout`, `C16_closed_form`, `C16_columns`, `C16_layout_source`.
* kernel checks on regenerated data: `phi16_mindsdb`, `phi_mindsdb`, `C16_live_cfg`, `pin_*`, `mw_parsed`, `mw_plus_kinds`.
* `sepStable_*`: decided on a listed set of sample gaps (a sample, not a ∀-statement).
* attribute level (round 5, section `attr` at the end): `C16_attr`, `C16_attr_live`, `C16_attr_iff` over `StoredAttr.Path`
  (grammar action · constructor · afterwards); kernel checks on regenerated probe rows: `glue_identity`, `ctor_identity`,
  `embed_all_probed`, `embed_prods`, `pin_storedAttrs`, `attrs_covered`, `pin_ctorForms`, `pin_attrProblems`, `pin_payloads`.
* regression / history (about code that no longer exists, named `C16_regress_*` / `C16_regression_*`): the lexer whose four
  actions rewrote `value` (`pinnedCfg`), the `tokens_to_string` body without the `line_num +=` statement; text-level rewriters
  in the constructor / action (`C16_regress_attr_*`).
Not a theorem: that re-lexing the stored text yields the same tokens / the same tree (no model of the full scanner); this is
the impl-level oracle of `tools/props/c16.py`.
-/
namespace MindsVerif.Props.C16
open MindsVerif.TokStr MindsVerif.Gen MindsVerif.LR MindsVerif.RawQueryLink

/-- what the lexer guarantees about a token list: values come from the token actions, and tokens do not
overlap in the text (a token starts at or after the end of the previous token's source, strictly after
it when `lineno` changed, since a `\n` lies in between).  Decidable. -/
def LexInv (c : ActCfg) (toks : List Tok) : Prop :=
  (∀ t ∈ toks, t.value = action c t.type t.src) ∧ WfBy (·.src) toks = true

/-- **Full statement** (model level): whatever token list the lexer hands to an embedding command, the stored
text is the user's characters with only the gaps blanked.  `c` says which token actions rewrite `value`.
TRUE for the live lexer (`C16 : C16_full Gen.C16Data.actCfg`, via `C16_fixed : C16_full fixedCfg`); FALSE for the
lexer before commit 5f4cdd1 (`C16_regress_pinned_full_false : ¬ C16_full pinnedCfg`, regression theorem about that old
variant). -/
def C16_full (c : ActCfg) : Prop := ∀ toks : List Tok, LexInv c toks → tokensToString toks = verbatim toks

/-- hypothesis of the partial theorem: no token of the four rewriting classes is actually changed by its action
(for QUOTE_STRING / DQUOTE_STRING: no `''`, `\'`, `\"` inside; for VARIABLE / SYSTEM_VARIABLE it never holds
on lexer output because the sigil is always stripped — i.e. no variable tokens).  Decidable. -/
def Unrewritten (c : ActCfg) (toks : List Tok) : Prop :=
  ∀ t ∈ toks, rewriting t.type = true → action c t.type t.src = t.src

/-- **T16.2 partial**: for ALL token lists satisfying the lexer invariants in which no
QUOTE_STRING / DQUOTE_STRING / VARIABLE / SYSTEM_VARIABLE token is changed by its action, the stored
text is verbatim.  Missing w.r.t. `C16_full`: exactly the token lists excluded by `Unrewritten`
(witnesses below). -/
theorem C16_partial (c : ActCfg) (toks : List Tok) (hl : LexInv c toks) (hu : Unrewritten c toks) :
    tokensToString toks = verbatim toks := by
  have hv := value_eq_src_of c toks hl.1 hu
  have hw : WfBy (·.value) toks = true := by
    rw [WfBy_congr (·.value) (·.src) toks hv]; exact hl.2
  rw [tokensToString_eq_render toks hw]
  exact layoutBy_congr _ _ toks hv

/-- **T16.1 layout, all token lists** (no position hypothesis at all): if every token still has its source
text as value then the stored text is the token sources in order, the first at column 0, the others
preceded by strings made only of `' '` and `'\n'`. -/
theorem C16_layout (t : Tok) (ts : List Tok) (hv : ∀ x ∈ t :: ts, x.value = x.src) :
    ∃ X, tokensToString (t :: ts) = t.src ++ X ∧ BlankSep (ts.map (·.src)) X := by
  obtain ⟨X, hX, hB⟩ := tokensToString_blankSep t ts
  refine ⟨X, ?_, ?_⟩
  · rw [hX, hv t (List.mem_cons_self ..)]
  · have : ts.map (·.value) = ts.map (·.src) :=
      List.map_congr_left (fun x hx => hv x (List.mem_cons_of_mem _ hx))
    rwa [this] at hB

/-- **T16.1 closed form** (what the `shift / last_pos / line` arithmetic computes): on every token list
whose tokens do not overlap (w.r.t. `index + len(value)`), the output is `render`: between two tokens of
one line exactly `index₂ - (index₁ + len value₁)` blanks; at a line change `\n` and one blank fewer.
Hence token `k` starts at offset `index_k - index_0` of the output: columns are preserved. -/
theorem C16_closed_form (toks : List Tok) (hw : WfBy (·.value) toks = true) :
    tokensToString toks = render toks := tokensToString_eq_render toks hw

/-- **columns are preserved**: on every non-overlapping token list the value of each token `t` starts at
offset `t.index - a.index` of the output (`a` = first token) — what the `shift` arithmetic is for.
(Lines: a `\n` is emitted exactly where `lineno` changes, see `render`.) -/
theorem C16_columns (a : Tok) (pre : List Tok) (t : Tok) (post : List Tok)
    (hw : WfBy (·.value) (a :: (pre ++ t :: post)) = true) :
    ∃ X Y, tokensToString (a :: (pre ++ t :: post)) = X ++ t.value ++ Y ∧ X.length + a.index = t.index := by
  rw [tokensToString_eq_render _ hw]
  exact layout_offset (·.value) pre a t post hw

/-- the separators of the closed form consist of blanks / newlines only -/
theorem C16_render_blankSep (f : Tok → Str) (a : Tok) (r : List Tok) :
    BlankSep (r.map f) (tailBy f a r) := tailBy_blankSep f r a

/-- **T16.1 for every layout of the inner text.**  Let the inner text be any sequence of lexemes, each
preceded by arbitrary ignored material `gap` (blanks, tabs, `\n+` runs, comments; `dl` = growth of `lineno`
in the gap, which needs at least one character).  If no lexeme is rewritten by its token action, then what
`tokens_to_string` returns for the lexer's tokens is the inner text with the leading gap dropped and
every other gap replaced, character for character, by blanks (first character `\n` if the line changed). -/
theorem C16_layout_source (c : ActCfg) (idx line : Nat) (s : Seg) (r : List Seg)
    (hg : ∀ x ∈ r, x.dl ≠ 0 → x.gap ≠ [])
    (hu : ∀ x ∈ s :: r, action c x.type x.src = x.src) :
    tokensToString (place c idx line (s :: r)) = storedSpec (s :: r) := by
  have hv := place_value c (s :: r) idx line hu
  have hp := place_tail c r (idx + s.gap.length + s.src.length) (line + s.dl + nl s.src)
    (lexTok c s.type s.src (line + s.dl) (idx + s.gap.length)) (by simp [lexTok]) (by simp [lexTok]) hg
  have hw : WfBy (·.value) (place c idx line (s :: r)) = true := by
    rw [WfBy_congr (·.value) (·.src) _ hv]; exact hp.2
  rw [tokensToString_eq_render _ hw]
  show layoutBy (·.value) _ = _
  rw [layoutBy_congr (·.value) (·.src) _ hv]
  simp only [place, layoutBy, storedSpec, hp.1]
  simp [lexTok]

/-- the replacement of a gap has the gap's length and consists of blanks / newlines -/
theorem C16_blank_spec (s : Seg) (h : s.dl ≠ 0 → s.gap ≠ []) :
    (blank s).length = s.gap.length ∧ ∀ c ∈ blank s, isBlank c :=
  ⟨blank_length s h, blank_blank s⟩

/-- **T16.3, action side**: the four `raw_query` actions hand `tokens_to_string` exactly the frontier of the
`raw_query` subtree, in order, and never the empty list (so `tokens[0]` cannot fail). -/
theorem C16_rawquery (q : RQ) : queryStr q = tokensToString q.yield ∧ q.value ≠ [] :=
  ⟨by rw [queryStr, RQ.value_eq_yield], RQ.value_ne_nil q⟩

/-- the partial theorem in the words of the property: `query_str` of any embedding command -/
theorem C16_partial_command (c : ActCfg) (q : RQ) (hl : LexInv c q.yield) (hu : Unrewritten c q.yield) :
    queryStr q = verbatim q.yield := by
  rw [(C16_rawquery q).1]; exact C16_partial c _ hl hu

/-- **the full statement holds for a lexer whose four token actions do not rewrite `value`** (what
`fixes/C16_1.diff` establishes; then `Gen.C16Data.actCfg = fixedCfg` and this is the theorem that applies). -/
theorem C16_fixed : C16_full fixedCfg := by
  intro toks hl
  refine C16_partial fixedCfg toks hl ?_
  intro t _ _
  cases t.type <;> rfl

/-- the live lexer (regenerated `Gen.C16Data.actCfg`) rewrites no token value (since 5f4cdd1) -/
theorem C16_live_cfg : C16Data.actCfg = fixedCfg := by decide

/-- **C16, main theorem for the live configuration** (full statement): for the token actions of the lexer as
regenerated in this run, whatever token list satisfying the lexer invariants is handed to an embedding command, the
stored text is the user's characters with only the gaps blanked.  If an action starts assigning `t.value` again,
`C16_live_cfg` (hence this theorem) no longer builds. -/
theorem C16 : C16_full C16Data.actCfg := by
  rw [C16_live_cfg]; exact C16_fixed

/-- in the words of the property: `query_str` of any embedding command, live configuration -/
theorem C16_command (q : RQ) (hl : LexInv C16Data.actCfg q.yield) : queryStr q = verbatim q.yield := by
  rw [(C16_rawquery q).1]; exact C16 _ hl

-- [review] `C16_layout_source` for the LIVE configuration: the "no lexeme is rewritten" hypothesis `hu` is discharged
-- by `C16_live_cfg`, so for every layout of the inner text (any lexemes incl. `''`, `'it''s'`, `@v`, any gaps) the
-- stored text is the inner text with the leading gap dropped and every other gap blanked.
/-- [review] T16.1 for every layout of the inner text, live lexer configuration, no hypothesis on the lexemes -/
theorem C16_review_layout_source_live (idx line : Nat) (s : Seg) (r : List Seg)
    (hg : ∀ x ∈ r, x.dl ≠ 0 → x.gap ≠ []) :
    tokensToString (place C16Data.actCfg idx line (s :: r)) = storedSpec (s :: r) :=
  C16_layout_source _ idx line s r hg (by
    intro x _; rw [C16_live_cfg]; cases x.type <;> rfl)

-- [review] the stored text is exactly as long as the inner text minus its leading gap (nothing is lost or added)
theorem C16_review_storedSpec_length (s : Seg) (r : List Seg) (hg : ∀ x ∈ r, x.dl ≠ 0 → x.gap ≠ []) :
    (storedSpec (s :: r)).length + s.gap.length = (sourceText (s :: r)).length := by
  have key : ∀ r : List Seg, (∀ x ∈ r, x.dl ≠ 0 → x.gap ≠ []) → (storedTail r).length = (sourceText r).length := by
    intro r
    induction r with
    | nil => intro _; rfl
    | cons a t ih =>
      intro h
      have h1 := blank_length a (h a (List.mem_cons_self ..))
      have h2 := ih (fun x hx => h x (List.mem_cons_of_mem _ hx))
      simp [storedTail, sourceText, h1, h2]
  simp [storedSpec, sourceText, key r hg]
  omega

/-- **Φ16** on the regenerated mindsdb grammar: `all_tokens_list = tokens \ {LPAREN, RPAREN}`; the lexer's
tokens are the grammar's terminals; every `raw_query` production has one of the four modelled shapes, one
per token of `all_tokens_list`; everywhere else `raw_query` occurs only as `LPAREN raw_query RPAREN`. -/
theorem phi16_mindsdb : RawQueryGram.phi16 C16Data.ids Tables_mindsdb.prods = true := by decide +kernel

/-- Φ16 in the form the structural lemmas use (plus: the two parenthesis terminals are different) -/
theorem phi_mindsdb : Phi C16Data.ids Tables_mindsdb.tables :=
  phi_of_phi16 phi16_mindsdb (by decide)

/-- **C16_link — one statement across the layers** (LR driver · grammar · `raw_query` actions · `tokens_to_string`).
Let the model of `Parser.parse` over the regenerated mindsdb tables ACCEPT the terminal numbers `ids` of a token list
`tks` with tree `t`.  For every node of `t` that is an instance of an embedding production (a node of a nonterminal
other than `raw_query` with a `raw_query` child `q`): the token list splits as `tpre ++ tl :: (tmid ++ tr :: tpost)`
where `tl` is that production's `LPAREN`, `tr` the `RPAREN` **matching it** (`closeIdx … = some tmid.length`), `tmid`
(not empty) is exactly the frontier of `q`; running the four modelled `raw_query` actions along `q` returns `tmid`
(`v.value = tmid`), so `query_str = tokens_to_string tmid`, and by `C16` it is the verbatim layout of those tokens. -/
theorem C16_link (mode : Mode) (bad : Bool) (ids : List Nat) (fuel : Nat) (t : PT) (log : List Nat)
    (h0 : ∀ x ∈ ids, x ≠ 0)
    (hacc : parse Tables_mindsdb.tables mode bad ids fuel = .accept t log)
    {pre post : List Nat} {p lhs : Nat} {l r : List PT} {q : PT}
    (ho : Occ t pre (.node p lhs (l ++ q :: r)) post) (hl : lhs ≠ C16Data.ids.rq) (hq : q.root = C16Data.ids.rqc)
    (tid : Tok → Nat) (tks : List Tok) (htk : tks.map tid = ids) :
    ∃ (tpre : List Tok) (tl : Tok) (tmid : List Tok) (tr : Tok) (tpost : List Tok) (v : RQ),
      tks = tpre ++ tl :: (tmid ++ tr :: tpost) ∧ tid tl = C16Data.ids.lparen ∧ tid tr = C16Data.ids.rparen ∧
      tmid.map tid = q.yield ∧ tmid ≠ [] ∧
      closeIdx C16Data.ids 0 ((tmid ++ tr :: tpost).map tid) = some tmid.length ∧
      toRQ (size q) q (tmid ++ tr :: tpost) = some (v, tr :: tpost) ∧ v.value = tmid ∧
      queryStr v = tokensToString tmid ∧
      (LexInv C16Data.actCfg tmid → queryStr v = verbatim tmid) := by
  have hg := parse_good Tables_mindsdb.valid mode bad ids h0 fuel
  rw [hacc] at hg
  obtain ⟨hwf, _, hyield, _, _⟩ := hg
  obtain ⟨tpre, tl, tmid, tr, tpost, v, h1, h2, h3, h4, h5, h6, h7, h8, h9⟩ :=
    embed_tokens phi_mindsdb hwf ho hl hq tid tks (by rw [htk, hyield])
  exact ⟨tpre, tl, tmid, tr, tpost, v, h1, h2, h3, h4, h5, h6, h7, h8, h9, fun hl => by rw [h9]; exact C16 _ hl⟩

/-- non-vacuity of `C16_link`: the driver accepts the tokens of
`CREATE VIEW v FROM db (select a, f(1) from t where b = '' and (c > 2))` and the tree has an embedding node,
i.e. all hypotheses of `C16_link` are met -/
theorem C16_link_nonvacuous : ∃ t log, parse Tables_mindsdb.tables .drain false C16Data.embedSample 10000 = .accept t log ∧
    (∀ x ∈ C16Data.embedSample, x ≠ 0) ∧
    ∃ pre post p lhs l q r, Occ t pre (.node p lhs (l ++ q :: r)) post ∧ lhs ≠ C16Data.ids.rq ∧
      q.root = C16Data.ids.rqc := by
  have h : (match parse Tables_mindsdb.tables .drain false C16Data.embedSample 10000 with
    | .accept t _ => hasEmbed C16Data.ids t
    | _ => false) = true := by decide +kernel
  cases hp : parse Tables_mindsdb.tables .drain false C16Data.embedSample 10000 with
  | accept t log =>
    rw [hp] at h
    exact ⟨t, log, rfl, by decide, hasEmbed_occ _ _ t (Nat.le_refl _) h⟩
  | _ => rw [hp] at h; simp at h

/-! ## sepStable: which multi-word keyword tokens are sensitive to a comment being blanked

`tokens_to_string` replaces a comment between two tokens by blanks.  For the multi-word keyword tokens of the live
lexer (regex sources regenerated in `Gen.C16Data.multiWordRe`, parsed by `MultiWord.parseMW`, matched by
`MultiWord.mwMatch`) this changes the token sequence exactly for the four `[\s]+` keywords: `W1 /*c*/ W2` is two
tokens, the stored `W1       W2` is one.  The others (single blank, `[_|\s]`) are stable on every gap tried, because a
blanked comment is at least two characters long. -/
section sepStable
open MindsVerif.MultiWord

def mwTable : List (String × Option MW) := C16Data.multiWordRe.map (fun x => (x.1, parseMW x.2.toList))

/-- every multi-word keyword regex of the live lexer has one of the three modelled forms -/
theorem mw_parsed : mwTable.all (fun x => x.2.isSome) = true := by decide

def mwOfSep (p : Sep → Bool) : List (String × MW) :=
  mwTable.filterMap (fun x => match x.2 with | some k => if p k.sep then some (x.1, k) else none | none => none)

/-- the `[\s]+` keywords -/
theorem mw_plus_kinds : (mwOfSep (· == .plus)).map (·.1) = ["IS_NOT", "NOT_EXISTS", "NOT_IN", "NOT_LIKE"] := by decide

/-- comment gaps (with: does `lineno` change inside) -/
def commentGaps : List (Str × Bool) :=
  [(" /*c*/ ".toList, false), ("/**/".toList, false), (" -- c\n".toList, true), ("--\n".toList, true),
   ("/* a\nb */".toList, true), ("\n/*c*/\n ".toList, true), ("\t/*c*/\t".toList, false), ("\t--\t\n\t".toList, true)]

/-- witnesses (not stable): for each `[\s]+` keyword and each comment gap, `W1<gap>W2` is NOT the keyword token but the
stored text `W1<blanks>W2` IS -/
theorem sepStable_witness_plus : (mwOfSep (· == .plus)).all (fun x => commentGaps.all (fun g =>
    (mwMatch x.2 none (sample x.2 g.1)).isNone && (mwMatch x.2 none (sample x.2 (blanked g.1 g.2))).isSome)) = true := by
  decide

/-- the other multi-word keywords are stable on all these gaps (and the keyword is recognised with its own separator) -/
theorem sepStable_others : (mwOfSep (· != .plus)).all (fun x => commentGaps.all (fun g => stableOn x.2 g.1 g.2)
    && (mwMatch x.2 none (sample x.2 " ".toList)).isSome) = true := by decide

end sepStable

/-! pins of what the hand model of the token actions assumes about the live lexer -/
/-- the token types that have an action function AND are not ignored are exactly these seven; QUOTE_STRING,
DQUOTE_STRING, VARIABLE, SYSTEM_VARIABLE are modelled by `action`; ID, FLOAT, INTEGER are `return t` (checked on every
token of the correspondence stream).  Action functions of *ignored* tokens (`newline`, since 582d86b also
`multi_comment`) yield no token — SLY drops a token whose function returns nothing or whose type is in
`_ignored_tokens` — they only do `lineno` bookkeeping, which the theorems leave arbitrary (`Seg.dl`, any `lineno`s). -/
theorem pin_tokenFuncs : C16Data.tokenFuncs.filter (fun f => !C16Data.ignoredTokens.contains f) =
    ["DQUOTE_STRING","FLOAT","ID","INTEGER","QUOTE_STRING","SYSTEM_VARIABLE","VARIABLE"] := by decide
/-- no other token action assigns to `t.value` (ID, FLOAT, INTEGER, newline are `return t` / bookkeeping) -/
theorem pin_rewriting : C16Data.rewritingFuncs.all
    (fun f => ["DQUOTE_STRING","QUOTE_STRING","SYSTEM_VARIABLE","VARIABLE"].contains f) = true := by decide
theorem pin_ignored : C16Data.ignoredTokens = ["line_comment","multi_comment","newline"] ∧
    C16Data.ignoreChars = " \t\r" ∧ C16Data.reNewline = "(\\n+)" := by decide

/-! ## regression / history: with the token actions of the tree before 5f4cdd1 (`pinnedCfg`, all four actions
rewrite `value`) the full statement is false — kept so that the excluded classes stay documented and decided -/

def otherTy : TT := .other 0
/-- `name = ''` -/
def w1 : List Tok := [lexTok pinnedCfg otherTy "name".toList 1 0, lexTok pinnedCfg otherTy "=".toList 1 5, lexTok pinnedCfg .quote "''".toList 1 7]
/-- `x = 'it''s' y` -/
def w2 : List Tok := [lexTok pinnedCfg otherTy "x".toList 1 0, lexTok pinnedCfg otherTy "=".toList 1 2,
  lexTok pinnedCfg .quote "'it''s'".toList 1 4, lexTok pinnedCfg otherTy "y".toList 1 12]
/-- `select "a\"b"` -/
def w3 : List Tok := [lexTok pinnedCfg otherTy "select".toList 1 0, lexTok pinnedCfg .dquote "\"a\\\"b\"".toList 1 7]
/-- `select @v, @@sys` -/
def w4 : List Tok := [lexTok pinnedCfg otherTy "select".toList 1 0, lexTok pinnedCfg .var "@v".toList 1 7,
  lexTok pinnedCfg otherTy ",".toList 1 9, lexTok pinnedCfg .sysvar "@@sys".toList 1 11]
/-- `select '\''` (backslash escape) -/
def w5 : List Tok := [lexTok pinnedCfg otherTy "select".toList 1 0, lexTok pinnedCfg .quote "'\\''".toList 1 7]

instance (c : ActCfg) (toks : List Tok) : Decidable (LexInv c toks) := by unfold LexInv; infer_instance

theorem C16_regress_pinned_1 : LexInv pinnedCfg w1 ∧ tokensToString w1 = "name = '".toList ∧ verbatim w1 = "name = ''".toList := by decide
theorem C16_regress_pinned_2 : LexInv pinnedCfg w2 ∧ tokensToString w2 = "x = 'it's'  y".toList ∧ verbatim w2 = "x = 'it''s' y".toList := by decide
theorem C16_regress_pinned_3 : LexInv pinnedCfg w3 ∧ tokensToString w3 = "select \"a\"b\"".toList ∧ verbatim w3 = "select \"a\\\"b\"".toList := by decide
theorem C16_regress_pinned_4 : LexInv pinnedCfg w4 ∧ tokensToString w4 = "select v , sys".toList ∧ verbatim w4 = "select @v, @@sys".toList := by decide
theorem C16_regress_pinned_5 : LexInv pinnedCfg w5 ∧ tokensToString w5 = "select ''".toList ∧ verbatim w5 = "select '\\''".toList := by decide

theorem C16_regress_pinned_full_false : ¬ C16_full pinnedCfg := by
  intro h
  have := h w1 C16_regress_pinned_1.1
  rw [C16_regress_pinned_1.2.1, C16_regress_pinned_1.2.2] at this
  exact absurd this (by decide)

/-! ## multi-line tokens (string literals, quoted names, `IS\nNOT`): covered since bd184d7; the function before that
commit is kept as a regression example -/

/-- `select 'a⏎b'||name AS g`: every token carries the line it STARTS on (`MindsDBLexer.tokenize` override) -/
def ml1 : List Tok := [lexTok fixedCfg otherTy "select".toList 1 0, lexTok fixedCfg .quote "'a\nb'".toList 1 7,
  lexTok fixedCfg otherTy "||".toList 2 12, lexTok fixedCfg otherTy "name".toList 2 14,
  lexTok fixedCfg otherTy "AS".toList 2 19, lexTok fixedCfg otherTy "g".toList 2 22]

/-- the repaired function stores the text verbatim; the function before bd184d7 (no `line_num += …`), fed the same
tokens, started a new line after the literal and lost the blank before `AS` -/
theorem C16_regression_multiline : LexInv fixedCfg ml1 ∧
    tokensToString ml1 = "select 'a\nb'||name AS g".toList ∧ tokensToString ml1 = verbatim ml1 ∧
    tokensToStringOld ml1 = "select 'a\nb'\n||nameAS g".toList := by decide

/-- a layout with a literal spanning lines, glued to its neighbours, then a real line change -/
def mlSegs : List Seg := [⟨"  ".toList, 0, .quote, "'x\ny'".toList⟩, ⟨[], 0, otherTy, "||".toList⟩,
  ⟨" /*c*/".toList, 0, otherTy, "z".toList⟩, ⟨" \n\n ".toList, 2, otherTy, "is\nnot".toList⟩, ⟨" ".toList, 0, otherTy, "w".toList⟩]
example : tokensToString (place fixedCfg 5 3 mlSegs) = "'x\ny'||      z\n   is\nnot w".toList := by decide
example : storedSpec mlSegs = "'x\ny'||      z\n   is\nnot w".toList := by decide

/-! ## non-vacuity -/

/-- `select 'a', "b"` / newline / `  from t` -/
def ok1 : List Tok := [lexTok pinnedCfg otherTy "select".toList 1 0, lexTok pinnedCfg .quote "'a'".toList 1 7, lexTok pinnedCfg otherTy ",".toList 1 10,
  lexTok pinnedCfg .dquote "\"b\"".toList 1 12, lexTok pinnedCfg otherTy "from".toList 2 18, lexTok pinnedCfg otherTy "t".toList 2 23]
example : LexInv pinnedCfg ok1 := by decide
example : ∀ t ∈ ok1, rewriting t.type = true → action pinnedCfg t.type t.src = t.src := by decide
example : tokensToString ok1 = "select 'a', \"b\"\n  from t".toList := by decide
/-- a layout with a comment and a run of newlines: `select /*c*/ 1` / / `from t` -/
def okSegs : List Seg := [⟨" ".toList, 0, otherTy, "select".toList⟩, ⟨" /*c*/ ".toList, 0, otherTy, "1".toList⟩,
  ⟨"\n\n".toList, 2, otherTy, "from".toList⟩, ⟨"\t".toList, 0, otherTy, "t".toList⟩]
example : sourceText okSegs = " select /*c*/ 1\n\nfrom\tt".toList := by decide
example : tokensToString (place pinnedCfg 23 1 okSegs) = "select       1\n from t".toList := by decide
example : storedSpec okSegs = "select       1\n from t".toList := by decide
/-- the `raw_query` tree of `f ( ) ( a )` -/
def okRQ : RQ := .cat (.call (.tok (lexTok pinnedCfg otherTy "f".toList 1 0)) (lexTok pinnedCfg otherTy "(".toList 1 1) (lexTok pinnedCfg otherTy ")".toList 1 2))
  (.paren (lexTok pinnedCfg otherTy "(".toList 1 4) (.tok (lexTok pinnedCfg otherTy "a".toList 1 5)) (lexTok pinnedCfg otherTy ")".toList 1 6))
example : queryStr okRQ = "f() (a)".toList := by decide

-- [review] non-vacuity of the main theorem `C16` for the LIVE configuration, on tokens of the formerly failing classes
-- (`'it''s'`, `''`, `@v`) over two lines: `LexInv C16Data.actCfg` holds and the stored text keeps quotes / sigil.
def live1 : List Tok := [lexTok C16Data.actCfg otherTy "name".toList 1 0, lexTok C16Data.actCfg otherTy "=".toList 1 5,
  lexTok C16Data.actCfg .quote "'it''s'".toList 1 7, lexTok C16Data.actCfg otherTy ",".toList 1 14,
  lexTok C16Data.actCfg .var "@v".toList 2 20, lexTok C16Data.actCfg .quote "''".toList 2 23]
example : LexInv C16Data.actCfg live1 := by decide  -- [review]
example : tokensToString live1 = "name = 'it''s',\n    @v ''".toList := by decide  -- [review]
example : tokensToString live1 = verbatim live1 := C16 live1 (by decide)  -- [review]

/-! ## round 5 — the attribute level: from the result of `tokens_to_string` to what the user reads

`C16` / `C16_command` end at `queryStr q`, the string `tokens_to_string` returns.  The attribute (`query_str`, `if_query_str`,
`NativeQuery.query`) is `p.stored (queryStr q)` for the way `p : Path` that string takes through the grammar action, the
constructor and whatever touches the node afterwards.  `C16_attr_iff`: at the model level the attribute-level statement holds
for a way **iff** the way hands every text on unchanged — no weaker condition on the action / constructor suffices, which is
why the obligations below pin the identity.  The code's way is tied to `Path.id` by data regenerated on every run
(`tools/extract/c16_attr.py`): `glue_identity` (whole way, `tokens_to_string` replaced by a sentinel text, read at the
discovered access path, one sentence per embedding production: `embed_all_probed` over the production trie C05 is proved
about), `ctor_identity` (constructor alone), `pin_ctorForms` (`self.<attr> = <param>` read off the class's `ast`),
`pin_storedAttrs` (the classes / attributes a text was found in).  The payloads are template-like and regex-bait contents
(`{{ x }}`, `${x}`, `%s`, `{0}`, backslashes, doubled blanks, comment markers, `;`, keywords, …) in every literal kind.
That the rows are a *sample* of texts (not all texts) is the gap between these obligations and `Path.Transparent`; the
syntactic form `pin_ctorForms` closes it for the constructor, the per-case glue comparison of the check run
(`corr:tokstr`, stored = what `tokens_to_string` returned) covers the action on every generated input. -/
section attr
open MindsVerif.StoredAttr

/-- **attribute level**: along a way that hands texts on unchanged, the attribute of every embedding command holds the user's
characters with only the gaps blanked (live lexer configuration, any `raw_query` derivation) -/
theorem C16_attr (p : Path) (hp : p.Transparent) (q : RQ) (hl : LexInv C16Data.actCfg q.yield) :
    p.stored (queryStr q) = verbatim q.yield := by
  rw [hp]; exact C16_command q hl

/-- the code as it stands (`query_str = tokens_to_string(p.raw_query)`; `self.query_str = query_str`) -/
theorem C16_attr_live (q : RQ) (hl : LexInv C16Data.actCfg q.yield) :
    Path.id.stored (queryStr q) = verbatim q.yield := C16_attr _ Path.id_transparent q hl

/-- **the identity is necessary**: the attribute-level statement (all token lists the lexer invariants allow) holds for a
way iff the way is transparent.  (`→`: every text is the output of `tokens_to_string` on a one-token list.) -/
theorem C16_attr_iff (p : Path) :
    (∀ toks, LexInv C16Data.actCfg toks → p.stored (tokensToString toks) = verbatim toks) ↔ p.Transparent := by
  constructor
  · intro h s
    let t : Tok := ⟨.other 0, s, s, 1, 0⟩
    have hl : LexInv C16Data.actCfg [t] := by
      refine ⟨?_, rfl⟩
      intro x hx
      rw [List.mem_singleton] at hx
      subst hx
      rfl
    have h1 := h [t] hl
    rw [C16 [t] hl] at h1
    have hv : verbatim [t] = s := by simp [verbatim, layoutBy, tailBy, t]
    rw [hv] at h1
    exact h1
  · intro h toks hl
    rw [h]; exact C16 toks hl

/-- whole way: every payload passed as the result of `tokens_to_string` of every probed sentence is read back unchanged at
every place of the tree the text ends up in, and every payload was tried on every way -/
theorem glue_identity : allIdentity C16Data.texts C16Data.nPayloads C16Data.glueRows = true := by decide +kernel

/-- constructor alone: `Class(param = payload).attr = payload` for every stored-text attribute and every payload -/
theorem ctor_identity : allIdentity C16Data.texts C16Data.nPayloads C16Data.ctorRows = true := by decide +kernel

/-- every embedding production of the exported grammar (the object C05 / `C16_link` are about) was reduced by a probed
sentence whose embedded queries were all found in the tree -/
theorem embed_all_probed : embedCovered C16Data.ids Tables_mindsdb.prods C16Data.embedProbed = true := by decide +kernel

/-- the embedding productions of the exported grammar are exactly the probed ones -/
theorem embed_prods : embedProds C16Data.ids 1 0 Tables_mindsdb.prods = C16Data.embedProbed ∨
    (embedProds C16Data.ids 1 0 Tables_mindsdb.prods).all (C16Data.embedProbed.contains ·) = true := by
  right; decide +kernel

/-- where the text of an embedded query is stored -/
theorem pin_storedAttrs : C16Data.storedAttrs =
    [("CreateAnomalyDetectionModel", "query_str"), ("CreateJob", "if_query_str"), ("CreateJob", "query_str"),
     ("CreatePredictor", "query_str"), ("CreateTrigger", "query_str"), ("CreateView", "query_str"), ("Evaluate", "query_str"),
     ("FinetunePredictor", "query_str"), ("NativeQuery", "query"), ("RetrainPredictor", "query_str")] := by decide

/-- each of them has a constructor row and an assignment form; every whole-way row ends in one of them -/
theorem attrs_covered : attrsCovered C16Data.storedAttrs C16Data.ctorRows C16Data.ctorForms = true ∧
    rowsInAttrs C16Data.storedAttrs C16Data.glueRows = true := by decide +kernel

/-- every stored-text attribute is assigned as `self.<attr> = <parameter>` in `__init__` (parameter not re-bound, no other
assignment in the class hierarchy, no descriptor, no `__setattr__` / `__getattr__` / `__getattribute__`) -/
theorem pin_ctorForms : C16Data.ctorForms.all formOK = true := by decide +kernel

/-- the translator found a sentence for every embedding production and the text of every embedded query in the tree -/
theorem pin_attrProblems : C16Data.attrProblems = [] := by decide

/-- the payload families; each payload is an inner text the lexer accepts and `tokens_to_string` reproduces as written -/
theorem pin_payloads : C16Data.payloadNames = ["jinja", "shell", "printf", "format", "backslash", "control", "spaces", "comment",
    "semicolon", "keyword", "brackets", "unicode", "numbers", "long", "surrogate", "ctrlchars", "astral", "quotes", "outside"] ∧
    C16Data.payloadsPlain.all id = true ∧ C16Data.payloadsPlain.length = C16Data.nPayloads := by decide

/-- [round 6] the probed payloads span the code-point range of a Python `str` (decoded from the text codes by the kernel): lone
surrogates, NUL, C0 / C1 controls, U+FEFF, U+2028 / U+2029, non-characters, astral code points up to U+10FFFF, combining marks,
bidi controls, Unicode blanks -/
theorem pin_payload_range :
    allSeen [fun c => isSurrogate c, (· == 0), (· == 0x1f), (· == 0x7f), (· == 0x85), (· == 0x9f), (· == 0xFEFF), (· == 0x2028),
       (· == 0x2029), (· == 0xFFFE), (· == 0xFFFF), (· == 0x10FFFF), (· == 0x1F600), (· == 0x301), (· == 0x202E), (· == 0xA0),
       (· == 0x3000), (· == 0x200D)] 1000
      (((C16Data.payloadNames.zip C16Data.texts).filter
        (fun x => ["surrogate", "ctrlchars", "astral"].contains x.1)).map (·.2)) = true := by decide +kernel

/-! regression witnesses: a way that rewrites the text is not transparent, and the stored attribute is not verbatim -/

/-- `body = '{{ draft }}'` -/
def av1 : List Tok := [lexTok C16Data.actCfg otherTy "body".toList 1 0, lexTok C16Data.actCfg otherTy "=".toList 1 5,
  lexTok C16Data.actCfg .quote "'{{ draft }}'".toList 1 7]

/-- a constructor that canonicalises job variables on the text (`re.sub(r'\{\{\s*(\w+)\s*\}\}', r'{{\1}}', …)`) changes the
contents of a string literal -/
theorem C16_regress_attr_canonvars : LexInv C16Data.actCfg av1 ∧ verbatim av1 = "body = '{{ draft }}'".toList ∧
    (Path.mk (fun s => s) canonVars (fun s => s)).stored (tokensToString av1) = "body = '{{draft}}'".toList := by
  decide +kernel

/-- `select 'a  b'` -/
def av2 : List Tok := [lexTok C16Data.actCfg otherTy "select".toList 1 0, lexTok C16Data.actCfg .quote "'a  b'".toList 1 7]

/-- a grammar action that collapses runs of blanks on the text changes the contents of a string literal -/
theorem C16_regress_attr_collapse : LexInv C16Data.actCfg av2 ∧ verbatim av2 = "select 'a  b'".toList ∧
    (Path.mk collapseBlanks (fun s => s) (fun s => s)).stored (tokensToString av2) = "select 'a b'".toList := by
  decide +kernel

theorem C16_regress_attr_not_transparent : ¬ (Path.mk (fun s => s) canonVars (fun s => s)).Transparent ∧
    ¬ (Path.mk collapseBlanks (fun s => s) (fun s => s)).Transparent := by
  constructor
  · intro h
    have := h "'{{ x }}'".toList
    revert this; decide +kernel
  · intro h
    have := h "a  b".toList
    revert this; decide +kernel

end attr

/-! ## round 6 — characters are opaque: the full code-point range inside literals and quoted names

`C16` quantifies over all `List Char`; Lean's `Char` is a Unicode scalar value, a Python `str` may also hold lone surrogates.
`C16_opaque`: the function commutes with every renaming of characters that keeps exactly `'\n'` a newline and `' '` a blank —
it never looks at, let alone changes, any other character.  This is what lets the correspondence streams carry lone
surrogates (renamed per case to unused characters, harness side) and it is the model-level statement a text-level
"hardening" such as `content.encode('utf-8', 'replace').decode('utf-8')` contradicts (`C16_regress_encode_replace`). -/
section opaqueChars
open MindsVerif.StoredAttr

/-- **characters are opaque** (all token lists, no position hypothesis) -/
theorem C16_opaque (ρ : Char → Char) (h : Opaque ρ) (toks : List Tok) :
    tokensToString (toks.map (Tok.rename ρ)) = (tokensToString toks).map ρ := tokensToString_rename h toks

/-- so is the specification, hence `C16` transfers along every opaque renaming -/
theorem C16_opaque_verbatim (ρ : Char → Char) (h : Opaque ρ) (toks : List Tok) :
    verbatim (toks.map (Tok.rename ρ)) = (verbatim toks).map ρ := verbatim_rename h toks

/-- the source-layout model under the live lexer configuration: renaming the characters of gaps and lexemes renames the
tokens, the source text and the stored-text specification -/
theorem C16_opaque_layout (ρ : Char → Char) (h : Opaque ρ) (idx line : Nat) (r : List Seg) :
    place C16Data.actCfg idx line (r.map (Seg.rename ρ)) = (place C16Data.actCfg idx line r).map (Tok.rename ρ) ∧
    storedSpec (r.map (Seg.rename ρ)) = (storedSpec r).map ρ ∧
    sourceText (r.map (Seg.rename ρ)) = (sourceText r).map ρ := by
  rw [C16_live_cfg]
  exact ⟨place_rename h r idx line, storedSpec_rename h r, sourceText_rename r⟩

/-- non-vacuity: swapping two letters (and every renaming that moves only characters other than newline and blank) is opaque -/
example : Opaque (fun c => if c = 'a' then 'b' else if c = 'b' then 'a' else c) := by
  constructor
  · intro c
    by_cases ha : c = 'a'
    · subst ha; decide
    · by_cases hb : c = 'b'
      · subst hb; decide
      · simp [ha, hb]
  · decide

/-- `encode('utf-8', 'replace').decode('utf-8')` is the identity exactly on the texts without a lone surrogate -/
theorem C16_encode_replace_iff (s : List Nat) : encReplace s = s ↔ ∀ c ∈ s, isSurrogate c = false := by
  induction s with
  | nil => simp [encReplace]
  | cons c r ih =>
    have ih' : List.map (fun c => if isSurrogate c = true then 63 else c) r = r ↔ ∀ c ∈ r, isSurrogate c = false := ih
    simp only [encReplace, List.map_cons, List.cons.injEq, List.mem_cons, forall_eq_or_imp, ih']
    constructor
    · rintro ⟨h1, h2⟩
      refine ⟨?_, h2⟩
      cases hs : isSurrogate c with
      | false => rfl
      | true =>
        rw [hs] at h1
        simp at h1
        subst h1
        revert hs; decide
    · rintro ⟨h1, h2⟩
      exact ⟨by simp [h1], h2⟩

/-- regression witness (seed of round 6): the code points of `'caf\udce9'` through such a hardening come back as `'caf?'` -/
theorem C16_regress_encode_replace :
    encReplace [39, 99, 97, 102, 0xDCE9, 39] = [39, 99, 97, 102, 63, 39] ∧ encReplace [39, 99, 97, 102, 0xDCE9, 39] ≠ [39, 99, 97, 102, 0xDCE9, 39] := by
  decide

end opaqueChars

end MindsVerif.Props.C16
