import MindsVerif.Props.C16
import MindsVerif.Lemmas.SlyLexSound
import MindsVerif.Gen.LexRe_mindsdb
/-!
# C16 ← the lexer model: the hypothesis `LexInv` is what the lexer produces

`C16` / `C16_command` are stated for every token list with `LexInv c toks` ("values come from the token actions, tokens
do not overlap, a line change between two tokens costs at least one character").  Here the token list is the output of
the regex-level lexer model (`SlyLex.lex` over the live master regex), decorated the way `MindsDBLexer.tokenize`
decorates it (`src` = `text[index:end]`, `value` = the token action applied to it, `lineno` = one plus the newlines
before `index`): `lexed_LexInv` proves `LexInv` for it, for every text and every action configuration; `LexInv` is
inherited by every contiguous part of the list (`lexInv_infix`), i.e. by the tokens of any embedded raw query.
Tie of the decoration: stream `slylex` (C02) + stream `tokstr` (C16: real `t.value` = `action`).
-/
namespace MindsVerif.Props.C16Lex
open MindsVerif.Re MindsVerif.SlyLex MindsVerif.TokStr MindsVerif.Props.C16

def chars (s : List Nat) : Str := s.map Char.ofNat

def ttOf (n : String) : TT :=
  if n == "QUOTE_STRING" then .quote else if n == "DQUOTE_STRING" then .dquote
  else if n == "VARIABLE" then .var else if n == "SYSTEM_VARIABLE" then .sysvar else .other 0

def toTok (c : ActCfg) (cs : Str) (x : String × Nat × Nat) : Tok :=
  lexTok c (ttOf x.1) ((cs.drop x.2.1).take (x.2.2 - x.2.1)) (1 + nl (cs.take x.2.1)) x.2.1

theorem nl_take_split (cs : Str) (a b : Nat) (h : a ≤ b) :
    nl (cs.take b) = nl (cs.take a) + nl ((cs.drop a).take (b - a)) := by
  have : cs.take b = cs.take a ++ (cs.drop a).take (b - a) := by
    have := List.take_add (l := cs) (i := a) (j := b - a)
    rw [Nat.add_sub_cancel' h] at this
    exact this
  rw [this]
  simp [nl, List.count_append]

theorem nl_take_mono_eq (cs : Str) (a : Nat) : nl (cs.take a) = nl (cs.take a) := rfl

/-- the step condition of `wfBy` between two lexer tokens -/
theorem step_ok (c : ActCfg) (cs : Str) (n1 n2 : String) (a1 b1 a2 b2 : Nat)
    (h1 : a1 < b1) (h2 : b1 ≤ cs.length) (h3 : b1 ≤ a2) :
    let t1 := toTok c cs (n1, a1, b1)
    let t2 := toTok c cs (n2, a2, b2)
    t1.index + t1.src.length + (if t2.lineno ≠ t1.lineno + nl t1.src then 1 else 0) ≤ t2.index := by
  intro t1 t2
  have hlen : ((cs.drop a1).take (b1 - a1)).length = b1 - a1 := by
    simp only [List.length_take, List.length_drop]; omega
  have e1 : t1.index = a1 := rfl
  have e2 : t2.index = a2 := rfl
  have e3 : t1.src = (cs.drop a1).take (b1 - a1) := rfl
  have e4 : t1.lineno = 1 + nl (cs.take a1) := rfl
  have e5 : t2.lineno = 1 + nl (cs.take a2) := rfl
  rw [e1, e2, e3, e4, e5, hlen]
  by_cases hb : b1 = a2
  · subst hb
    have := nl_take_split cs a1 b1 (Nat.le_of_lt h1)
    have hcond : ¬ (1 + nl (cs.take b1) ≠ 1 + nl (cs.take a1) + nl ((cs.drop a1).take (b1 - a1))) := by
      intro hne; apply hne; omega
    simp only [hcond, if_false]
    omega
  · split <;> omega

theorem chain_wfBy (c : ActCfg) (cs : Str) : ∀ (toks : List (String × Nat × Nat)) (n : String) (a b : Nat),
    a < b → b ≤ cs.length → Chain cs.length b toks →
    wfBy (·.src) (toTok c cs (n, a, b)) (toks.map (toTok c cs)) = true := by
  intro toks
  induction toks with
  | nil => intro n a b _ _ _; simp [wfBy]
  | cons x r ih =>
    obtain ⟨n2, a2, b2⟩ := x
    intro n a b hab hb hc
    obtain ⟨c1, c2, c3, c4⟩ := hc
    simp only [List.map_cons, wfBy, Bool.and_eq_true, decide_eq_true_eq]
    exact ⟨step_ok c cs n n2 a b a2 b2 hab hb c1, ih n2 a2 b2 c2 c3 c4⟩

theorem chain_WfBy (c : ActCfg) (cs : Str) (toks : List (String × Nat × Nat)) (e : Nat)
    (h : Chain cs.length e toks) : WfBy (·.src) (toks.map (toTok c cs)) = true := by
  cases toks with
  | nil => rfl
  | cons x r =>
    obtain ⟨n, a, b⟩ := x
    obtain ⟨_, c2, c3, c4⟩ := h
    exact chain_wfBy c cs r n a b c2 c3 c4

/-- **the lexer model's output satisfies `LexInv`** — every rule list, every action configuration, every text -/
theorem lexed_LexInv (cfg : SlyLex.Cfg) (c : ActCfg) (s : List Nat) (segs : List SlyLex.Seg) (h : lex cfg s = .ok segs) :
    LexInv c ((tokensFrom 0 segs).map (toTok c (chars s))) := by
  constructor
  · intro t ht
    obtain ⟨x, _, rfl⟩ := List.mem_map.mp ht
    rfl
  · have h1 := tokensFrom_chain segs 0 (lex_ok_tokNonempty cfg s segs h)
    rw [lex_ok_tiles cfg s segs h] at h1
    have : Chain (chars s).length 0 (tokensFrom 0 segs) := by simpa [chars] using h1
    exact chain_WfBy c (chars s) _ 0 this

/-- `wfBy` / `WfBy` pass to tails and prefixes, hence to every contiguous part: the tokens of an embedded raw query -/
theorem wfBy_tail (f : Tok → Str) : ∀ (a : Tok) (l : List Tok), wfBy f a l = true → WfBy f l = true := by
  intro a l h
  cases l with
  | nil => rfl
  | cons b r => simp only [wfBy, Bool.and_eq_true] at h; exact h.2

theorem WfBy_drop (f : Tok → Str) : ∀ (k : Nat) (l : List Tok), WfBy f l = true → WfBy f (l.drop k) = true := by
  intro k
  induction k with
  | zero => intro l h; simpa using h
  | succ k ih =>
    intro l h
    cases l with
    | nil => simp [WfBy]
    | cons a r => simp only [List.drop_succ_cons]; exact ih r (wfBy_tail f a r h)

theorem wfBy_take (f : Tok → Str) : ∀ (k : Nat) (a : Tok) (l : List Tok), wfBy f a l = true → wfBy f a (l.take k) = true := by
  intro k
  induction k with
  | zero => intro a l _; simp [wfBy]
  | succ k ih =>
    intro a l h
    cases l with
    | nil => simp [wfBy]
    | cons b r =>
      simp only [wfBy, Bool.and_eq_true] at h
      simp only [List.take_succ_cons, wfBy, Bool.and_eq_true]
      exact ⟨h.1, ih b r h.2⟩

theorem WfBy_take (f : Tok → Str) (k : Nat) (l : List Tok) (h : WfBy f l = true) : WfBy f (l.take k) = true := by
  cases l with
  | nil => simp [WfBy]
  | cons a r =>
    cases k with
    | zero => simp [WfBy]
    | succ k => simp only [List.take_succ_cons]; exact wfBy_take f k a r h

theorem lexInv_infix (c : ActCfg) (toks : List Tok) (i k : Nat) (h : LexInv c toks) :
    LexInv c ((toks.drop i).take k) := by
  obtain ⟨h1, h2⟩ := h
  constructor
  · intro t ht
    exact h1 t (List.mem_of_mem_drop (List.mem_of_mem_take ht))
  · exact WfBy_take _ k _ (WfBy_drop _ i _ h2)

/-- with `C16`: whatever contiguous part of the lexer model's token list an embedding command hands to
`tokens_to_string`, the stored text is the user's characters with only the gaps blanked (live action configuration) -/
theorem C16_lexed (cfg : SlyLex.Cfg) (s : List Nat) (segs : List SlyLex.Seg) (h : lex cfg s = .ok segs) (i k : Nat) :
    let toks := (((tokensFrom 0 segs).map (toTok MindsVerif.Gen.C16Data.actCfg (chars s))).drop i).take k
    tokensToString toks = verbatim toks := by
  intro toks
  exact C16 toks (lexInv_infix _ _ i k (lexed_LexInv cfg _ s segs h))

-- [review] `chars` is total through `Char.ofNat`: a lone surrogate (a legal element of a Python `str`, and of the texts the
-- lexer theorems range over) and every number ≥ 0x110000 become NUL.  The theorems of this file therefore speak about the
-- text with its surrogates REPLACED BY NUL; newline counting and lengths are not affected (10 ↦ '\n' only), values are.
example : chars [55296, 97] = chars [0, 97] := by decide

end MindsVerif.Props.C16Lex
