import MindsVerif.Lemmas.Fallback
import MindsVerif.Gen.SaTables
/-!
# C17 — the renderer honours its fallback contract, never leaks internal errors, never mutates its input

Models: `Model/Fallback.lean` (`getExecParams`, `saRaises`, `clean`, `shaped`, `prepareCols`, `stripOutside`); tables and
probed facts: `Gen/SaTables.lean`, regenerated from the live `mindsdb_sql.render.sqlalchemy_render` on every run
(`tupleIsList`, `dupExc`, `pgKeepsLiteral`, `funcGuard` and the table `funcPyAttrs` — what `getattr(sa.func, name)` yields for
every attribute name of that Python object — are PROBED: the model follows the code by itself).

Current state (the live tables `G`):

* **T17.1 wrapper** `C17_wrapper`, `C17_never_raises_iff`, `C17_without_fallback` — for ALL inner behaviours, printer
  behaviours, flags, dialect names and both back-tick scanners: with fallback it never raises IFF the inner rendering raises
  only the two caught classes AND (when it did raise) `str(ast)` does not raise; without fallback whatever is raised propagates.
* **T17.2 own code** `C17_own_tables` (generic: locally `clean` ⇒ the first exception of the renderer's own code is none /
  SQLAlchemyError / NotImplementedError), `C17_repaired_clean` (Tuples are sqlalchemy tuples ∧ `RenderError` is caught ∧
  python-attribute function names are refused ∧ parser-shape invariant `shaped` ⇒ `clean`), and for the LIVE tables
  `C17_review_live_tables` (`decide`d: the three facts hold on HEAD) hence `C17_review_live_own_tables`: on EVERY parser-shaped tree the renderer's own code raises at most the caught
  classes.  Per-construct facts: `C17_cast_ok`, `C17_param_ok`, `C17_unop_iff`, `C17_table_position`, `C17_create_table_ok`,
  `C17_insert_dup_iff`, and for function names `C17_func_name_ok` (the lookup on `sa.func` raises only NotImplementedError, for
  EVERY name), `C17_func_post_iff`, `C17_live_func_names` (the live table: `__repr__`, `__hash__`, `opts`, every `__x` refused;
  the all-underscore name `_` refused too; `count`, `a_`, `_x` are SQL functions).
* **T17.3 mutation** `C17_no_mutation`: the column loop of `prepare_create_table` returns the caller's columns as they were
  (true by construction of the model; the content is the tie: the `create-table-columns` stream, the pinned absence of any
  attribute store / aliased container write on the tree — `pins.attrStores`, `pins.paramWrites` — and the snapshot probe).
* **The property** `C17_review_live` (= C17 partial on the live tables): `Honours` for every parser-shaped tree under the two
  behavioural hypotheses `saQuiet` (SQLAlchemy's own part raises only caught classes — NOT derivable from any model here,
  probed) and `printerTotal` (`str(ast)` returns).  `C17_live_exact`: these two are not merely sufficient — on a parser-shaped
  tree the call with fallback raises IF AND ONLY IF SQLAlchemy's part raised an uncaught class or the fallback printer raised;
  no failure mode is left in the renderer's own code.  `C17_partial` / `C17_partial_repaired` are the generic versions
  (any tables).  `C17_full` (no hypotheses) is false: `C17_full_false`.
* **History / regression theorems** (about the tables BEFORE the repairs, `Gold`): `C17_regression_tuple_operand`,
  `C17_regression_insert_dup`, `C17_regression_func_pyattr`, `C17_witness_pg_backtick` (old vs live scanner); `C17_fixed_*`, `C17_repaired_witnesses`: the
  former witnesses on the live / repaired tables.
* `pins`, `core_types`: what the hand model hard-codes about the source vs the regenerated data.
-/
namespace MindsVerif.Props.C17
open MindsVerif.Fallback MindsVerif.Gen

/-- the live tables -/
def G : Tables :=
  { typesMap := SaTables.typesMapKeys, methods := SaTables.methods, functions := SaTables.functionsKeys,
    opmap := SaTables.opmap, listOps := SaTables.listOps, textHas := SaTables.textHas,
    tupleIsList := SaTables.tupleIsList, dupExc := excOfProbe SaTables.dupExc,
    funcPyAttrs := SaTables.funcPyAttrs, funcGuard := SaTables.funcGuard, funcEmptyGuard := SaTables.funcEmptyGuard }

/-- the tables with Tuples rendered as `sa.tuple_`, `RenderError` a SQLAlchemyError and python-attribute function names
refused, whatever the probes say
(on HEAD `G` has exactly these facts: `C17_review_live_tables`) -/
def Gr : Tables := { G with tupleIsList := false, dupExc := .sa, funcGuard := true }

/-- the tables as they were BEFORE those repairs (`to_expression(Tuple)` a Python list, `RenderError` a plain
`Exception`, `getattr(sa.func, '__repr__')` called like a SQL function): only used by the regression theorems -/
def Gold : Tables := { G with tupleIsList := true, dupExc := .exception, funcGuard := false, funcEmptyGuard := false }

/-- what the hand model hard-codes about the source, pinned against the regenerated data -/
theorem pins :
    SaTables.caught = ["SQLAlchemyError", "NotImplementedError"]
    ∧ SaTables.attrStores = [("prepare_case", "type"), ("to_expression", "negate")]   -- `col.type` (since e7eccad) / `col.negate`: `col` is the SQLAlchemy element being built, not the tree
    ∧ (∀ x ∈ SaTables.joinLiterals, x ∈ joinTypes) ∧ (∀ x ∈ joinTypes, x ∈ SaTables.joinLiterals)
    ∧ SaTables.paramWrites = []
    ∧ SaTables.funcDunderRule = true   -- the rule `funcClass` hard-codes for names that are not attributes of `sa.func`
    ∧ SaTables.typeRegexes = ["^INT[\\d]*$", "^FLOAT[\\d]*$"]
    ∧ SaTables.typeAssigns = ["typename = typename.upper()", "type = self.types_map[typename]", "typename = 'BIGINT'", "typename = 'FLOAT'"]
    ∧ SaTables.createTableLiterals = ["Create table without list of columns", "INT", "nullable", "primary_key", "serial", "server_default"]
    ∧ SaTables.typesUniform = true
    ∧ SaTables.dialectKeys = ["mysql", "postgresql", "postgres", "sqlite", "mssql", "oracle", "Snowflake"]
    ∧ SaTables.dialects.map (·.2) = ["mysql", "postgresql", "postgresql", "sqlite", "mssql", "oracle", "oracle"] := by
  decide

/-- the type names everyone uses are keys of the live `types_map` (a lost key is not "just another unknown type") -/
theorem core_types :
    ["INT", "INTEGER", "BIGINT", "SMALLINT", "FLOAT", "DOUBLE", "REAL", "DECIMAL", "NUMERIC", "BOOL", "BOOLEAN", "CHAR",
     "VARCHAR", "TEXT", "DATE", "DATETIME", "TIME", "TIMESTAMP", "BLOB", "JSON"].all G.typesMap.contains = true := by decide

/-! ## T17.1 the wrapper -/

/-- **T17.1**: the wrapper for all inner behaviours -/
theorem C17_wrapper {ρ : Type} (inner : Outcome ρ) (printer : Outcome String) (fb : Bool) (dn : String) (kl : Bool) :
    (∀ r, inner = .ret r → getExecParams inner printer fb dn kl = .rendering r)
    ∧ (∀ e, inner = .raise e → e.caught = false → getExecParams inner printer fb dn kl = .raised e)
    ∧ (∀ e, inner = .raise e → fb = false → getExecParams inner printer fb dn kl = .raised e)
    ∧ (∀ e s, inner = .raise e → e.caught = true → fb = true → printer = .ret s →
        getExecParams inner printer fb dn kl = .fallback (fallbackText kl dn s))
    ∧ (∀ e e', inner = .raise e → e.caught = true → fb = true → printer = .raise e' →
        getExecParams inner printer fb dn kl = .raised e') := by
  refine ⟨?_, ?_, ?_, ?_, ?_⟩
  · intro r h; subst h; rfl
  · intro e h hc; subst h; simp [getExecParams, hc]
  · intro e h hf; subst h; subst hf; cases hc : e.caught <;> simp [getExecParams, hc]
  · intro e s h hc hf hp; subst h; subst hf; subst hp; simp [getExecParams, hc]
  · intro e e' h hc hf hp; subst h; subst hf; subst hp; simp [getExecParams, hc]

/-- with fallback: never raises ⇔ the inner rendering raises only the caught classes and, when it
raised, the fallback printer returns -/
theorem C17_never_raises_iff {ρ : Type} (inner : Outcome ρ) (printer : Outcome String) (dn : String) (kl : Bool := false) :
    (getExecParams inner printer true dn kl).isRaised = false ↔
      (match inner with
       | .ret _ => True
       | .raise e => e.caught = true ∧ ∃ s, printer = .ret s) := by
  cases inner with
  | ret r => simp [getExecParams, Result.isRaised]
  | raise e =>
    cases hc : e.caught with
    | false => simp [getExecParams, Result.isRaised, hc]
    | true =>
      cases printer with
      | ret s => simp [getExecParams, Result.isRaised, hc]
      | raise e' => simp [getExecParams, Result.isRaised, hc]

/-- without fallback: whatever the inner rendering raises propagates unchanged (and nothing else is
raised); so only caught classes come out ⇔ the inner rendering raises only caught classes -/
theorem C17_without_fallback {ρ : Type} (inner : Outcome ρ) (printer : Outcome String) (dn : String) (kl : Bool := false) :
    (∀ e, getExecParams inner printer false dn kl = .raised e ↔ inner = .raise e)
    ∧ (∀ r, getExecParams inner printer false dn kl = .rendering r ↔ inner = .ret r)
    ∧ (∀ s, getExecParams inner printer false dn kl ≠ .fallback s) := by
  cases inner with
  | ret r => simp [getExecParams]
  | raise e => cases hc : e.caught <;> simp [getExecParams, hc]

/-! ## T17.2 own-table exception classes -/

/-- **T17.2**: locally clean everywhere ⇒ the renderer's own code raises at most the caught classes -/
theorem C17_own_tables (tb : Tables) (w : Bool) (c : Ctx) (t : T) (h : clean tb w c t = true) :
    saRaises tb w c t = none ∨ saRaises tb w c t = some .sa ∨ saRaises tb w c t = some .notImpl := by
  have := clean_ok tb w c t h
  cases hr : saRaises tb w c t with
  | none => exact Or.inl rfl
  | some e => cases e <;> simp_all [okExc, Exc.caught]

/-- cast / `::` : an unknown type name is a NotImplementedError — the local check always passes -/
theorem C17_cast_ok (tb : Tables) (ty : String) (al : Al) (kids : List T) :
    okExc (post tb .expr (.cast ty al) kids) = true := by
  simp only [post, getType]
  cases tb.typesMap.contains (normType ty) <;> cases al with
  | none => simp [orElse, okExc, getAlias, Exc.caught]
  | some n => by_cases hn : n > 1 <;> simp [orElse, okExc, getAlias, Exc.caught, hn]

/-- Parameter: an alias is a NotImplementedError — always passes -/
theorem C17_param_ok (tb : Tables) (hasAlias : Bool) (kids : List T) :
    okExc (pre tb .expr (.param hasAlias) kids) = true := by
  cases hasAlias <;> simp [pre, isStructural, okExc, Exc.caught]

/-- unary operation: an operator outside `opmap` is a NotImplementedError; the check fails only when the
operand's value (a Python list) lacks the attribute -/
theorem C17_unop_iff (tb : Tables) (op : String) (al : Al) (kids : List T) :
    okExc (post tb .expr (.unop op al) kids) =
      (match tb.opmap.lookup (upper op) with
       | none => true
       | some m => okExc (callMethod tb (kindAt tb kids 0) .col m)) := by
  cases hl : tb.opmap.lookup (upper op) with
  | none => simp [post, hl, okExc, Exc.caught]
  | some m =>
    cases hm : callMethod tb (kindAt tb kids 0) .col m with
    | some e => simp [post, hl, hm, orElse, okExc]
    | none =>
      cases al with
      | none => simp [post, hl, hm, orElse, okExc, getAlias]
      | some n => by_cases hn : n > 1 <;> simp [post, hl, hm, orElse, okExc, getAlias, hn, Exc.caught]

def isTableTag : Tag → Bool
  | .ident _ _ _ | .select _ _ | .union _ _ | .grp | .nil => true
  | _ => false

/-- anything but an Identifier / Select / Union in table position is a NotImplementedError -/
theorem C17_table_position (tb : Tables) (tag : Tag) (kids : List T) (h : isTableTag tag = false) :
    pre tb .table tag kids = some .notImpl := by
  cases tag <;> simp_all [isTableTag, pre, isStructural]

/-- CREATE TABLE: a missing column list and an unknown column type are NotImplementedErrors — always passes -/
theorem C17_create_table_ok (tb : Tables) (tbl : TblName) (cols : Option (List Col)) (kids : List T) :
    okExc (pre tb .stmt (.createTable tbl cols) kids) = true := by
  cases cols with
  | none => simp [pre, isStructural, okExc, Exc.caught]
  | some cs =>
    rcases colsRaise_ok tb cs with h | h
    · cases tbl with
      | notIdent => simp [pre, isStructural, h, orElse, tableName, okExc]
      | ident n => by_cases hn : n > 2 <;> simp [pre, isStructural, h, orElse, tableName, okExc, hn, Exc.caught]
    · simp [pre, isStructural, h, orElse, okExc, Exc.caught]

/-- INSERT: a duplicate column name raises `RenderError` (class probed: `tb.dupExc`) unless the table path is too long -/
theorem C17_insert_dup_iff (tb : Tables) (tbl : TblName) (cs : List String) (p h : Bool) (kids : List T) :
    okExc (pre tb .stmt (.insert tbl (some cs) p h) kids)
      = ((tableName tbl).isSome || !firstDup [] cs || tb.dupExc.caught) := by
  cases tbl with
  | notIdent => cases hd : firstDup [] cs <;> simp [pre, isStructural, orElse, tableName, okExc, hd]
  | ident n =>
    by_cases hn : n > 2 <;> cases hd : firstDup [] cs <;>
      simp [pre, isStructural, orElse, tableName, okExc, hd, hn, Exc.caught]

/-- function names: the lookup `getattr(sa.func, name)` at the top of `to_function` raises nothing but
NotImplementedError — for EVERY name and any tables (a missing attribute and, with the guard, a python attribute) -/
theorem C17_func_name_ok (tb : Tables) (name : String) (d hf : Bool) (al : Al) (kids : List T) :
    okExc (pre tb .expr (.func name d hf al) kids) = true := by
  show okExc (if isStructural (.func name d hf al) then none else funcNameRaise tb name) = true
  simp only [isStructural]
  unfold funcNameRaise
  cases funcClass tb name with
  | gen => cases (tb.funcEmptyGuard && name.toList.all (· == '_')) <;> rfl
  | missing => rfl
  | pyattr => cases tb.funcGuard <;> rfl

/-- … and with the guard (`funcGuard`, live: `C17_review_live_tables`) nothing leaks after the arguments either; without it a
python attribute called with no argument leaks an AttributeError (`C17_regression_func_pyattr`) -/
theorem C17_func_post_iff (tb : Tables) (name : String) (d hf : Bool) (al : Al) (kids : List T) :
    okExc (post tb .expr (.func name d hf al) kids) = !(funcClass tb name == .pyattr && !tb.funcGuard && kids.isEmpty) := by
  cases h : (funcClass tb name == .pyattr && !tb.funcGuard && kids.isEmpty) <;> cases al with
  | none => simp [post, h, orElse, okExc, getAlias, Exc.caught]
  | some n => by_cases hn : n > 1 <;> simp [post, h, orElse, okExc, getAlias, Exc.caught, hn]

/-! ## T17.3 mutation -/

/-- **T17.3**: the column loop of `prepare_create_table` leaves the caller's columns as they were — all
column lists, whether or not the loop raises -/
theorem C17_no_mutation (tb : Tables) (cols : List Col) : (prepareCols tb cols).1 = cols :=
  prepareCols_unchanged tb cols

/-! ## the property -/

/-- inner rendering as the models see it: the renderer's own code first, then SQLAlchemy's part -/
def innerOf {ρ : Type} (tb : Tables) (w : Bool) (t : T) (saPart : Outcome ρ) : Outcome ρ :=
  match saRaises tb w .stmt t with
  | some e => .raise e
  | none => saPart

/-- the columns the renderer's column loop sees (CreateTable only) -/
def colsOf : T → List Col
  | .mk (.createTable _ (some cs)) _ => cs
  | _ => []

/-- SQLAlchemy's own part (construction of odd argument shapes, compilation) raises only the caught classes -/
def saQuiet {ρ : Type} : Outcome ρ → Bool
  | .ret _ => true
  | .raise e => e.caught

def printerTotal : Outcome String → Bool
  | .ret _ => true
  | .raise _ => false

/-- one rendering honours the contract -/
def Honours {ρ : Type} (tb : Tables) (w : Bool) (t : T) (saPart : Outcome ρ) (printer : Outcome String) (dn : String) : Prop :=
  (getExecParams (innerOf tb w t saPart) printer true dn).isRaised = false
  ∧ (∀ e, getExecParams (innerOf tb w t saPart) printer false dn = .raised e → e.caught = true)
  ∧ (prepareCols tb (colsOf t)).1 = colsOf t

/-- the full statement (for the model): every tree, every behaviour of SQLAlchemy and of the printer -/
def C17_full : Prop :=
  ∀ (t : T) (w : Bool) (saPart : Outcome String) (printer : Outcome String) (dn : String),
    Honours G w t saPart printer dn

/-- **C17 (partial)**: the contract holds for every tree that is locally clean, provided SQLAlchemy's
own part raises only the caught classes and `str(ast)` returns.
Missing for the full statement: exactly the excluded classes (witnesses below) and the two behavioural
hypotheses, which no model here can discharge (probed on the real code). -/
theorem C17_partial {ρ : Type} (tb : Tables) (w : Bool) (t : T) (saPart : Outcome ρ) (printer : Outcome String)
    (dn : String) (hclean : clean tb w .stmt t = true) (hsa : saQuiet saPart = true)
    (hpr : printerTotal printer = true) :
    Honours tb w t saPart printer dn := by
  have hin : match innerOf tb w t saPart with | .ret _ => True | .raise e => e.caught = true := by
    unfold innerOf
    have := clean_ok tb w .stmt t hclean
    cases hr : saRaises tb w .stmt t with
    | some e => simpa [hr, okExc] using this
    | none =>
      cases saPart with
      | ret r => trivial
      | raise e => simpa [saQuiet] using hsa
  refine ⟨?_, ?_, prepareCols_unchanged tb _⟩
  · rw [C17_never_raises_iff]
    cases hi : innerOf tb w t saPart with
    | ret r => trivial
    | raise e =>
      rw [hi] at hin
      refine ⟨hin, ?_⟩
      cases printer with
      | ret s => exact ⟨s, rfl⟩
      | raise e' => simp [printerTotal] at hpr
  · intro e he
    have := ((C17_without_fallback (innerOf tb w t saPart) printer dn).1 e).1 he
    rw [this] at hin
    exact hin

/-! ## repaired constructs on the live tables, and regression theorems about the old variants -/

def sel (targets : List T) (from_ : T := .mk .nil []) (wh : T := .mk .nil []) : T :=
  .mk (.select .none none) [.mk .grp targets, .mk .grp [], from_, wh, .mk .grp [], .mk .nil [], .mk .grp []]
def col (n : String) : T := .mk (.ident 1 n none) []
def tup (xs : List T) : T := .mk .tuple xs

/-- repaired (c96400c): `select cast(a as foo)`, `select ? as x`, an unknown unary operator, `select * from ? join t`,
a NativeQuery inside a join, `create table t select …`, `create table t (a foo)` now raise NotImplementedError … -/
theorem C17_fixed_constructs :
    saRaises G false .stmt (sel [.mk (.cast "foo" none) [col "a"]]) = some .notImpl
    ∧ saRaises G false .stmt (sel [.mk (.param true) []]) = some .notImpl
    ∧ saRaises G false .stmt (sel [.mk (.unop "~" none) [col "a"]]) = some .notImpl
    ∧ saRaises G false .stmt (sel [.mk .star []] (.mk (.join false "JOIN") [.mk (.param false) [], .mk (.ident 1 "t" none) [], .mk .nil []])) = some .notImpl
    ∧ saRaises G false .stmt (sel [.mk .star []] (.mk (.join false "JOIN") [.mk (.nativeQuery (some 1)) [], .mk (.ident 1 "m" none) [], .mk .nil []])) = some .notImpl
    ∧ saRaises G false .stmt (.mk (.createTable (.ident 1) none) []) = some .notImpl
    ∧ saRaises G false .stmt (.mk (.createTable (.ident 1) (some [⟨some "foo", false⟩])) []) = some .notImpl := by
  decide

/-- … so with fallback the caller gets `str(ast)` -/
theorem C17_fixed_cast_fallback :
    getExecParams (innerOf G false (sel [.mk (.cast "foo" none) [col "a"]]) (.ret "sql")) (.ret "SELECT CAST(a AS foo)") true "mysql"
      = .fallback "SELECT CAST(a AS foo)" := by decide

/-- repaired (1eac524): `… right join …` is a NotImplementedError (→ fallback) instead of an inner join;
LEFT / FULL OUTER spellings and implicit joins are rendered -/
theorem C17_fixed_join_type :
    saRaises G false .stmt (sel [.mk .star []] (.mk (.join false "RIGHT JOIN") [.mk (.ident 1 "a" none) [], .mk (.ident 1 "b" none) [], .mk .nil []])) = some .notImpl
    ∧ saRaises G false .stmt (sel [.mk .star []] (.mk (.join false "LEFT OUTER JOIN") [.mk (.ident 1 "a" none) [], .mk (.ident 1 "b" none) [], .mk .nil []])) = none
    ∧ saRaises G false .stmt (sel [.mk .star []] (.mk (.join true ",") [.mk (.ident 1 "a" none) [], .mk (.ident 1 "b" none) [], .mk .nil []])) = none := by
  decide

/-- repaired (0ccda5f): `create table t (a serial, b int)` leaves the caller's columns alone -/
theorem C17_fixed_serial :
    (prepareCols G [⟨some "serial", false⟩, ⟨some "int", false⟩]) = ([⟨some "serial", false⟩, ⟨some "int", false⟩], none)
    ∧ (prepareCols G [⟨some "SERIAL", false⟩, ⟨some "foo", false⟩]) = ([⟨some "SERIAL", false⟩, ⟨some "foo", false⟩], some .notImpl) := by
  decide

/-- REGRESSION (old tables `Gold`: `to_expression(Tuple)` a Python list): `select -(a, b)` → AttributeError;
`select (a, b) + 1` → TypeError; `(a, b) - 1`, `(a, b) like c` → AttributeError; a Tuple as right operand of `in` was fine.
This is what comes back if the Tuple repair is undone (then `C17_review_live_tables` fails first). -/
theorem C17_regression_tuple_operand :
    saRaises Gold false .stmt (sel [.mk (.unop "-" none) [tup [col "a", col "b"]]]) = some .attr
    ∧ saRaises Gold false .stmt (sel [.mk (.binop "+" none) [tup [col "a", col "b"], .mk (.const none) []]]) = some .type
    ∧ saRaises Gold false .stmt (sel [.mk (.binop "-" none) [tup [col "a", col "b"], .mk (.const none) []]]) = some .attr
    ∧ saRaises Gold false .stmt (sel [.mk (.binop "like" none) [tup [col "a"], col "c"]]) = some .attr
    ∧ saRaises Gold false .stmt (sel [.mk .star []] (.mk .nil []) (.mk (.binop "in" none) [col "a", tup [.mk (.const none) []]])) = none := by
  decide

/-- the live lookup table: every attribute name of the Python object `sa.func` (`__repr__`, `__hash__`, `__str__`, `opts`, …)
and every other `__x` name is refused with NotImplementedError, and so is a name made of underscores only (`_`: sa.func strips
the underscore and the function would get the empty name); ordinary names and names ending in `_` are SQL functions -/
theorem C17_live_func_names :
    (SaTables.funcPyAttrs.all fun p => funcNameRaise G p.1 == some .notImpl) = true
    ∧ funcNameRaise G "__repr__" = some .notImpl ∧ funcNameRaise G "__hash__" = some .notImpl
    ∧ funcNameRaise G "__str__" = some .notImpl ∧ funcNameRaise G "opts" = some .notImpl
    ∧ funcNameRaise G "__a__" = some .notImpl ∧ funcNameRaise G "__" = some .notImpl
    ∧ funcNameRaise G "_" = some .notImpl ∧ funcNameRaise G "___" = some .notImpl   -- all underscores: empty after sa.func's stripping
    ∧ funcNameRaise G "count" = none ∧ funcNameRaise G "a_" = none ∧ funcNameRaise G "_x" = none ∧ funcNameRaise G "class" = none
    ∧ SaTables.funcEmptyGuard = true
    ∧ saRaises G false .stmt (sel [.mk (.func "__repr__" false false none) []]) = some .notImpl := by decide

/-- REGRESSION (old tables `Gold`: no guard on python-attribute names): `select __repr__()` / `select __hash__()` leaked an
AttributeError (`'str' object has no attribute 'label'`) through the fallback; with an argument the TypeError was translated -/
theorem C17_regression_func_pyattr :
    saRaises Gold false .stmt (sel [.mk (.func "__repr__" false false none) []]) = some .attr
    ∧ saRaises Gold false .stmt (sel [.mk (.func "__hash__" false false none) []]) = some .attr
    ∧ saRaises Gold false .stmt (sel [.mk (.func "__a__" false false none) []]) = some .notImpl
    ∧ clean Gold false .stmt (sel [.mk (.func "__repr__" false false none) []]) = false
    -- before 3ffafef the name `_` passed the renderer's own code (SQLAlchemy then failed on the empty name at compile time)
    ∧ funcNameRaise Gold "_" = none ∧ saRaises Gold false .stmt (sel [.mk (.func "_" false false none) []]) = none := by decide

/-- REGRESSION (old tables `Gold`: `RenderError` a plain `Exception`): `insert into t (a, a) values (1, 2)` → RenderError,
which went through the fallback -/
theorem C17_regression_insert_dup :
    saRaises Gold false .stmt (.mk (.insert (.ident 1) (some ["a", "a"]) false true) [.mk .grp [.mk (.const none) [], .mk (.const none) []]])
      = some .exception
    ∧ getExecParams (innerOf Gold false
        (.mk (.insert (.ident 1) (some ["a", "a"]) false true) [.mk .grp [.mk (.const none) [], .mk (.const none) []]]) (.ret "sql"))
        (.ret "s") true "mysql" = .raised .exception := by
  decide

/-- postgres, old vs live: the OLD code (`keepLiteral = false`) returned `str(ast)` with every back-tick removed — also
inside string constants; the live scanner (`keepLiteral = true`, probed: `C17_live_pg`) removes identifier quotes only -/
theorem C17_witness_pg_backtick :
    getExecParams (Outcome.raise .notImpl : Outcome String) (.ret "SELECT 'a`b' FROM `x y`.b.c.d") true "postgresql" false
      = .fallback "SELECT 'ab' FROM x y.b.c.d"
    ∧ getExecParams (Outcome.raise .notImpl : Outcome String) (.ret "SELECT 'a`b' FROM `x y`.b.c.d") true "postgresql" true
      = .fallback "SELECT 'a`b' FROM x y.b.c.d"
    ∧ getExecParams (Outcome.raise .notImpl : Outcome String) (.ret "SELECT 'a`b' FROM a.b.c.d") true "mysql"
      = .fallback "SELECT 'a`b' FROM a.b.c.d" := by decide

/-- the probe says the live postgres fallback keeps back-ticks inside string literals -/
theorem C17_live_pg : SaTables.pgKeepsLiteral = true := by decide

/-- the live scanner is the identity on texts without back-ticks -/
theorem C17_pg_scanner_identity (s : List Char) (h : ∀ c ∈ s, c ≠ '`') :
    stripOutside (String.ofList s) = String.ofList s := by
  unfold stripOutside
  rw [String.toList_ofList, stripOutsideAux_no_backtick s false false false h]

/-- the full statement is false whatever is repaired in the renderer: SQLAlchemy's own part may raise anything -/
theorem C17_full_false : ¬ C17_full := by
  intro h
  have := (h (sel [.mk (.const none) []]) false (.raise .key) (.ret "s") "mysql").1
  revert this
  decide

/-! ## Tuples as sqlalchemy tuples + `RenderError` caught: the hypothesis `clean` follows from the parser-shape invariant -/

/-- **T17.2 (generic form)**: when Tuples are rendered as sqlalchemy tuples and `RenderError` is a caught class, EVERY
parser-shaped tree is clean — for all trees, contexts, tables.  `shaped` is an invariant of parser output (no Star as the
receiver of an operator, `f(DISTINCT)` has an argument, NativeQuery aliases have a part, `prepare_select` only gets
Select / Union): it is evaluated by the driver on every parsed tree of the streams. -/
theorem C17_repaired_clean (tb : Tables) (w : Bool) (c : Ctx) (t : T) (h1 : tb.tupleIsList = false)
    (h2 : tb.dupExc.caught = true) (h3 : tb.funcGuard = true) (hs : shaped tb w c t = true) : clean tb w c t = true :=
  shaped_clean tb w h1 h2 h3 c t hs

/-- … hence the renderer's own code raises only the caught classes … -/
theorem C17_repaired_own_tables (tb : Tables) (w : Bool) (c : Ctx) (t : T) (h1 : tb.tupleIsList = false)
    (h2 : tb.dupExc.caught = true) (h3 : tb.funcGuard = true) (hs : shaped tb w c t = true) :
    saRaises tb w c t = none ∨ saRaises tb w c t = some .sa ∨ saRaises tb w c t = some .notImpl :=
  C17_own_tables tb w c t (shaped_clean tb w h1 h2 h3 c t hs)

/-- … and the contract holds for every parser-shaped tree under the two behavioural hypotheses only -/
theorem C17_partial_repaired {ρ : Type} (tb : Tables) (w : Bool) (t : T) (saPart : Outcome ρ) (printer : Outcome String)
    (dn : String) (h1 : tb.tupleIsList = false) (h2 : tb.dupExc.caught = true) (h3 : tb.funcGuard = true)
    (hs : shaped tb w .stmt t = true)
    (hsa : saQuiet saPart = true) (hpr : printerTotal printer = true) :
    Honours tb w t saPart printer dn :=
  C17_partial tb w t saPart printer dn (shaped_clean tb w h1 h2 h3 .stmt t hs) hsa hpr

/-- the former witnesses on the repaired tables `Gr` -/
theorem C17_repaired_witnesses :
    clean Gr false .stmt (sel [.mk (.unop "-" none) [tup [col "a", col "b"]]]) = true
    ∧ clean Gr false .stmt (sel [.mk (.binop "+" none) [tup [col "a", col "b"], .mk (.const none) []]]) = true
    ∧ clean Gr false .stmt (sel [.mk (.binop "like" none) [tup [col "a"], col "c"]]) = true
    ∧ saRaises Gr false .stmt (.mk (.insert (.ident 1) (some ["a", "a"]) false true) [.mk .grp [.mk (.const none) [], .mk (.const none) []]]) = some .sa
    ∧ Gr.tupleIsList = false ∧ Gr.dupExc.caught = true ∧ Gr.funcGuard = true := by decide

/-! ### the live tables (reviewer's theorems, promoted)

`Gen/SaTables.lean` regenerated from /repo HEAD has `tupleIsList = false` and `dupExc = "sa"`.  Hence the hypothesis `clean`
of `C17_partial` is replaced, for the LIVE tables `G`, by the parser-shape invariant `shaped` alone.  The `decide`s below fail
if the code regresses. -/

-- [review]
theorem C17_review_live_tables : G.tupleIsList = false ∧ G.dupExc.caught = true ∧ G.funcGuard = true := by decide

-- [review] the live tables are not the old ones
example : ¬ (SaTables.tupleIsList = true) := by decide
example : ¬ (SaTables.dupExc = "exception") := by decide

/-- [review] **T17.2 for the live tables**: the renderer's own code raises at most the caught classes on EVERY parser-shaped tree -/
theorem C17_review_live_own_tables (w : Bool) (c : Ctx) (t : T) (hs : shaped G w c t = true) :
    saRaises G w c t = none ∨ saRaises G w c t = some .sa ∨ saRaises G w c t = some .notImpl :=
  C17_repaired_own_tables G w c t C17_review_live_tables.1 C17_review_live_tables.2.1 C17_review_live_tables.2.2 hs

/-- [review] **C17 (partial) for the live tables** without `clean`: only the shape invariant and the two behavioural hypotheses -/
theorem C17_review_live {ρ : Type} (w : Bool) (t : T) (saPart : Outcome ρ) (printer : Outcome String)
    (dn : String) (hs : shaped G w .stmt t = true) (hsa : saQuiet saPart = true)
    (hpr : printerTotal printer = true) : Honours G w t saPart printer dn :=
  C17_partial_repaired G w t saPart printer dn C17_review_live_tables.1 C17_review_live_tables.2.1 C17_review_live_tables.2.2 hs hsa hpr

/-- **exactness**: on a locally clean tree (in particular: on every parser-shaped tree of the live tables) the call WITH
fallback raises if and only if SQLAlchemy's own part raised an uncaught class, or the rendering raised a caught class and the
fallback printer `str(ast)` raised — the two behavioural hypotheses are exactly the remaining failure modes -/
theorem C17_exact {ρ : Type} (tb : Tables) (w : Bool) (t : T) (saPart : Outcome ρ) (printer : Outcome String) (dn : String)
    (kl : Bool) (hclean : clean tb w .stmt t = true) :
    (getExecParams (innerOf tb w t saPart) printer true dn kl).isRaised = true ↔
      ((saRaises tb w .stmt t = none ∧ saQuiet saPart = false)
        ∨ ((match innerOf tb w t saPart with | .raise e => e.caught | .ret _ => false) = true ∧ printerTotal printer = false)) := by
  have hok := clean_ok tb w .stmt t hclean
  unfold innerOf
  cases hr : saRaises tb w .stmt t with
  | some e =>
    have he : e.caught = true := by simpa [hr, okExc] using hok
    cases printer <;> simp [getExecParams, Result.isRaised, he, printerTotal]
  | none =>
    cases saPart with
    | ret r => simp [getExecParams, Result.isRaised, saQuiet]
    | raise e =>
      cases he : e.caught <;> cases printer <;> simp [getExecParams, Result.isRaised, saQuiet, he, printerTotal]

/-- exactness on the live tables, for every parser-shaped tree -/
theorem C17_live_exact {ρ : Type} (w : Bool) (t : T) (saPart : Outcome ρ) (printer : Outcome String) (dn : String)
    (hs : shaped G w .stmt t = true) :
    (getExecParams (innerOf G w t saPart) printer true dn SaTables.pgKeepsLiteral).isRaised = true ↔
      ((saRaises G w .stmt t = none ∧ saQuiet saPart = false)
        ∨ ((match innerOf G w t saPart with | .raise e => e.caught | .ret _ => false) = true ∧ printerTotal printer = false)) :=
  C17_exact G w t saPart printer dn _
    (shaped_clean G w C17_review_live_tables.1 C17_review_live_tables.2.1 C17_review_live_tables.2.2 .stmt t hs)

-- [review] non-vacuity on the live tables: `select (a, b) + f(distinct a) from t join (native query)`
example : shaped G false .stmt (sel [.mk (.binop "+" none) [tup [col "a", col "b"], .mk (.func "count" true false none) [col "a"]]]
    (.mk (.join false "JOIN") [.mk (.ident 1 "t" none) [], .mk (.nativeQuery (some 1)) [], .mk .nil []])) = true := by decide

/-- `shaped` is not vacuous, and it is needed: a Star as the receiver of an operator is an AttributeError -/
example : shaped Gr false .stmt (sel [.mk (.binop "+" none) [tup [col "a", col "b"], .mk (.func "count" true false none) [col "a"]]]
    (.mk (.join false "JOIN") [.mk (.ident 1 "t" none) [], .mk (.nativeQuery (some 1)) [], .mk .nil []])) = true := by decide
example : shaped Gr false .stmt (sel [.mk (.binop "+" none) [.mk .star [], col "a"]]) = false
    ∧ saRaises Gr false .stmt (sel [.mk (.binop "+" none) [.mk .star [], col "a"]]) = some .attr := by decide

/-! ## non-vacuity of the hypotheses of `C17_partial` -/

example : clean G false .stmt (sel [.mk (.cast "int8" none) [col "a"], .mk (.func "f" false false none) [col "a", col "b"]]
    (.mk (.ident 2 "db" none) []) (.mk (.binop "in" none) [col "a", tup [.mk (.const none) []]])) = true := by decide
example : clean G true .stmt (.mk (.createTable (.ident 2) (some [⟨some "serial", false⟩, ⟨some "Varchar", false⟩, ⟨some "foo", false⟩])) []) = true := by decide
example : clean G false .stmt (sel [.mk (.cast "foo" none) [.mk (.param true) []]]) = true := by decide
example : clean G false .stmt (.mk .other []) = true := by decide   -- `SHOW TABLES`: NotImplementedError → fallback
example : saRaises G false .stmt (.mk .other []) = some .notImpl := by decide
example : Honours G false (.mk .other []) (.ret "x") (.ret "SHOW TABLES") "mysql" :=
  C17_partial G false _ _ _ _ (by decide) (by decide) (by decide)
example : getExecParams (innerOf G false (.mk .other []) (.ret "x")) (.ret "SHOW TABLES") true "mysql" = .fallback "SHOW TABLES" := by decide

end MindsVerif.Props.C17
