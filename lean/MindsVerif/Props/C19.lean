import MindsVerif.Lemmas.ErrLoc
import MindsVerif.Lemmas.ErrSrc
import MindsVerif.Lemmas.ErrSuggest
import MindsVerif.Lemmas.ErrPrefix
import MindsVerif.Lemmas.ErrDet
import MindsVerif.Lemmas.ErrKeys
import MindsVerif.Lemmas.ErrLine
import MindsVerif.Gen.Keys_mindsdb
import MindsVerif.Props.C05
import MindsVerif.Gen.ErrLex
/-!
# C19 — syntax errors point at the offending token and suggestions really help (mindsdb)

Property theorems only.  Models: `MindsVerif.Err` (`ErrorHandling.error_location` in its live,
part-by-part variant `errorLocationV true`, `make_suggestion`, `process`, `MindsDBLexer.error`),
`MindsVerif.LR.parse` (which token is the bad token, what is expected) and `LR.canTake` /
`LR.keptExpected` (`MindsDBParser._can_take`).  Strings are `List Char`.  The lexer is not modelled:
its semantics is the hypothesis `SrcChain src 0 toks` (value = source slice, `lineno` = 1 + newlines
before `index`, tokens in text order), checked on every token list of the streams and pinned by the
extractor flags `ErrLex.splitValues`, `ErrLex.uniformLineno`.

**Full statement** `C19_full T nT` = `C19_full_caret ∧ C19_full_bad_token T ∧ C19_full_suggestion T nT`
(caret span = source span of the offending token and line display; the offending token is the first one
the GRAMMAR cannot continue; every suggestion can be continued to a sentence after insertion).

**Proved** `C19_partial`:
* clause 1 in full — `C19_full_caret_holds` (from `C19_caret_uniform`, `C19_review_caret_uniform_line`,
  `C19_eof_caret_uniform`): for every source text and every token list the lexer semantics allows, the
  carets cover exactly the source characters of (the first line of) the bad token, every token of that
  line is shown at its offset with its source text, at end of input the caret stands one past the last
  token.  Not stated: the content of the ≤ 2 context lines, and that comments / gaps appear as blanks.
* clause 2 at PARSER level — `C19_parser_bad_token_holds` (`C19_bad_token_prefix`,
  `C19_bad_token_deterministic`, `C19_no_accepted_continuation`): the stack at the error is a valid
  automaton path whose frontier is exactly the tokens before the bad one, and every token list with the
  same first k+1 tokens is rejected at the same token.  The GRAMMAR-level clause is NOT proved and is false
  on the pinned tree for inputs that hit an LALR conflict resolved as shift (open finding KF-C19-3,
  established by the Earley search oracle, not in Lean).
* clause 3 at PARSER level — `C19_review_suggestion_extends` (with `C19_kept_token_extends`,
  `C19_review_kept_expected_extends`): every suggestion of every branch is the display value of a token
  type the automaton can shift right after the tokens before the bad one.  `C19_suggestions_checked` /
  `C19_suggestions_sentence_mindsdb`: in the checked branch the synthesised list that passed is a sentence.
  Not proved: completability of `toks[:k] ++ [ty]` to a sentence, that the display value lexes to `ty`,
  and the "substitute" half (the code replaces the token BEFORE the bad one: `C19_witness_replace_previous`).
* `C19_lexer_caret` — `MindsDBLexer.error` line / column arithmetic.
* round 5, the lexer-error path over TEXTS (any characters, in particular every line-separator character of
  `str.splitlines`; lines are the `'\n'`-separated pieces as in the code): `C19_full_lexer_caret_holds`
  (`C19_lexer_caret_text`, `C19_lexer_line_unique`): the complete `LexError` message is the header naming the
  offending character, at most one context line (the previous piece), the piece that contains the offending
  offset, and a caret at the column of that offset in it.  `C19_partial_r5` = `C19_partial` + this clause.
  `C19_regress_splitlines_*`: the same loop over `str.splitlines()` misplaces the caret / echoes the wrong line
  (CRLF, a separator as the offending character).  Which offset the lexer reports is an input (lexer not modelled).
* Φ19 data: `C19_key_classification`, `C19_shift_key_extends`, `C19_key_totals_mindsdb` (translation
  cross-check of the generated tables).
* History / necessity of hypotheses (about the OLD one-piece variant `errorLocation`, reachable only through
  `errorLocationV_true_eq`): `C19_caret_partial`, `C19_caret_source`, `C19_eof_caret`, `C19_variant_agrees`,
  `C19_caret_partial_v`, `C19_eof_caret_v`, and the regression theorems `C19_regress_*`.
-/
namespace MindsVerif.Props.C19
open MindsVerif MindsVerif.Err MindsVerif.LR MindsVerif.Gen

/-! ### the full statement -/

/-- a token list is a viable prefix of the grammar: some sentence starts with it -/
def ViablePrefix (T : Tables) (p : List Nat) : Prop := ∃ rest, C05.Sentence T (p ++ rest)

/-- **Full statement, clause 1 (location)**, over a source-text model: for every text `src`, every token
list the lexer semantics allows for it (`SrcChain`) and every bad token `b` in it, the message is the
header, ≤ 2 context lines, the `>` line on which `b` starts and `c+1` dashes followed by `n` carets, where
`n` is DETERMINED BY THE SOURCE: the length of the first line of `b`'s text (the whole token when it has no
newline); the `n` characters under the carets are `src[index : index+n]`; every token that starts on that
line is shown at its own offset with (the first line of) its source text.  At end of input one caret
stands one column past the shown last line, which ends where the last token (part) ends. -/
def C19_full_caret : Prop :=
  (∀ (src : List Char) (toks : List Tok) (b : Tok), SrcChain src 0 toks → b ∈ toks →
    ∃ (ctx : List (List Char)) (shown : List Char) (shift c n : Nat),
      errorLocationV true toks (some b) = hdrUnknown :: (ctx ++ ['>' :: shown,
          List.replicate (c + 1) '-' ++ List.replicate n '^']) ∧ ctx.length ≤ 2 ∧
      n = ((splitLines b.value).headD []).length ∧ ('\n' ∉ b.value → n = b.value.length) ∧
      c + shift = b.index ∧ (shown.drop c).take n = (src.drop b.index).take n ∧
      (∀ t ∈ toks, t.lineno = b.lineno → shift ≤ t.index ∧
        (shown.drop (t.index - shift)).take (headPart t).value.length =
          (src.drop t.index).take (headPart t).value.length)) ∧
  (∀ (src : List Char) (toks : List Tok) (l : Tok), SrcChain src 0 toks → (virt toks).getLast? = some l →
    ∃ (ctx : List (List Char)) (shown : List Char) (shift : Nat),
      errorLocationV true toks none = hdrEof :: (ctx ++ ['>' :: shown,
          List.replicate (shown.length + 1) '-' ++ ['^']]) ∧
      ctx.length ≤ 2 ∧ shift + shown.length = l.index + l.value.length)

/-- **Full statement, clause 2 (which token), GRAMMAR level**: the reported bad token is the first one the
grammar cannot accept — the tokens before it start some sentence, the tokens up to and including it do not.
NOT proved; false on the pinned tree where an LALR conflict is resolved as shift (KF-C19-3). -/
def C19_full_bad_token (T : Tables) : Prop :=
  ∀ (toks : List Nat) (fuel k s : Nat) (log : List Nat), (∀ x ∈ toks, x ≠ 0) →
    parse T .drain false toks fuel = .none_ (some ⟨some k, s⟩) log →
      ViablePrefix T (toks.take k) ∧ ¬ ViablePrefix T (toks.take (k + 1))

/-- clause 2 at PARSER level (this is what `C19_partial` proves): the error stack is a valid automaton path
whose frontier is exactly `toks[:k]`, in the reported state, without an action on `toks[k]`; and every
token list with the same first `k+1` tokens gets the same verdict (or runs out of fuel). -/
def C19_parser_bad_token (T : Tables) : Prop :=
  ∀ (pre rest rest' : List Nat) (fuel fuel' k s : Nat) (log : List Nat),
    (∀ x ∈ pre ++ rest, x ≠ 0) → (∀ x ∈ pre ++ rest', x ≠ 0) → k < pre.length →
    parse T .drain false (pre ++ rest) fuel = .none_ (some ⟨some k, s⟩) log →
      ErrAt T (pre ++ rest) ⟨some k, s⟩ ∧
      (parse T .drain false (pre ++ rest') fuel' = .none_ (some ⟨some k, s⟩) log ∨
       parse T .drain false (pre ++ rest') fuel' = .fuel)

/-- **Full statement, clause 3 (suggestions), GRAMMAR level**: every suggestion printed for the stored
`expected_tokens` is the display value of a token type `ty` such that the tokens before the bad one
followed by `ty` start some sentence.  NOT proved (needs completability of automaton paths). -/
def C19_full_suggestion (T : Tables) (nT : Nat) : Prop :=
  ∀ (valid : List Nat → Bool) (nm : Names) (attr : Nat → Option (List Char)) (types : List Nat)
    (badIdx : Option Nat), (∀ x ∈ types, x ≠ 0) →
    ∀ s ∈ makeSuggestion valid nm attr types badIdx (keptExpected T nT types),
      ∃ ty, (s, ty) ∈ buildExpected nm attr (sortIds (keptExpected T nT types)) [] ∧
        ∀ fuel e log, parse T .drain false types fuel = .none_ (some e) log →
          ViablePrefix T ((match e.bad with | some k => types.take k | none => types) ++ [ty])

/-- clause 3 at PARSER level (proved): … the automaton has a valid path spelling the tokens before the bad
one followed by `ty` (or `ty` is `$end` on the accepting state) -/
def C19_parser_suggestion (T : Tables) (nT : Nat) : Prop :=
  ∀ (valid : List Nat → Bool) (nm : Names) (attr : Nat → Option (List Char)) (types : List Nat)
    (badIdx : Option Nat), (∀ x ∈ types, x ≠ 0) →
    ∀ s ∈ makeSuggestion valid nm attr types badIdx (keptExpected T nT types),
      ∃ ty, (s, ty) ∈ buildExpected nm attr (sortIds (keptExpected T nT types)) [] ∧
        ∀ fuel e log, parse T .drain false types fuel = .none_ (some e) log →
          (∃ st' s', Path T ((s', .leaf ty) :: st') ∧
            yieldStack ((s', .leaf ty) :: st') =
              (match e.bad with | some k => types.take k | none => types) ++ [ty]) ∨ ty = 0

/-- **the full statement of C19** -/
def C19_full (T : Tables) (nT : Nat) : Prop :=
  C19_full_caret ∧ C19_full_bad_token T ∧ C19_full_suggestion T nT

/-! ### T19.1 for the one-piece variant (history: the code before repo 2c1674c; the live variant is reduced
to it by `errorLocationV_true_eq` over virtual tokens) -/

/-- **T19.1** caret arithmetic, any number of lines, any layout satisfying the lexer invariants:
the message is the header, at most two context lines, the `>`-prefixed line of the bad token and
the caret line `'-'*(c+1) ++ '^'*len(value)`; in the shown line the bad token's value sits at
columns `[c, c+len)` (so under the carets, after the `>`), `c + shift = index` where `shift` is
what was cut off the front, and every token of that line sits at its own offset. -/
theorem C19_caret_partial (toks : List Tok) (b : Tok) (hl : layoutOK toks = true) (hb : b ∈ toks) :
    ∃ (ctx : List (List Char)) (shown : List Char) (shift c : Nat),
      errorLocation toks (some b) = hdrUnknown :: (ctx ++ ['>' :: shown,
          List.replicate (c + 1) '-' ++ List.replicate b.value.length '^']) ∧
      ctx.length ≤ 2 ∧ c + shift = b.index ∧
      (shown.drop c).take b.value.length = b.value ∧
      (∀ t ∈ toks, t.lineno = b.lineno → shift ≤ t.index ∧
          (shown.drop (t.index - shift)).take t.value.length = t.value) := by
  have hspec : DS (build toks) (endOf 0 0 toks).1 (endOf 0 0 toks).2 ∧
      (∀ u, Placed [] u → Placed (build toks) u) ∧ (∀ u ∈ toks, Placed (build toks) u) :=
    foldl_addTok_spec toks [] 0 0 ⟨by simp [keys], Or.inl rfl⟩ hl
  obtain ⟨hfin, _, hpl⟩ := hspec
  have hP := hpl b hb
  have hnd := nodup_of_sorted hfin.sorted
  obtain ⟨hidx, ctx, hctx, hshape⟩ :=
    location_shape (build toks) b.lineno (b.index : Int) hP.mem hnd
  have hsh := hP.shift
  refine ⟨ctx, (Dict.get (build toks) b.lineno).drop (prevLen 0 (build toks) b.lineno),
    prevLen 0 (build toks) b.lineno, b.index - prevLen 0 (build toks) b.lineno, ?_, hctx,
    by omega, ?_, ?_⟩
  · unfold errorLocation
    simp only at hshape hidx ⊢
    rw [hshape, hidx]
    have : ((b.index : Int) - (prevLen 0 (build toks) b.lineno : Nat) + 1).toNat =
        b.index - prevLen 0 (build toks) b.lineno + 1 := by omega
    simp [caretLine, this]
  · rw [List.drop_drop]
    have : prevLen 0 (build toks) b.lineno + (b.index - prevLen 0 (build toks) b.lineno) = b.index := by omega
    rw [this]; exact hP.val.slice
  · intro t ht hln
    have hT := hpl t ht
    have h1 := hT.shift
    have h2 := hT.val
    rw [hln] at h1 h2
    refine ⟨h1, ?_⟩
    rw [List.drop_drop]
    have : prevLen 0 (build toks) b.lineno + (t.index - prevLen 0 (build toks) b.lineno) = t.index := by omega
    rw [this]; exact h2.slice

/-- corollary in the words of the property: when every token's value is its source text
(`src[index : index+len] = value`), the characters under the carets are exactly the source
characters of the bad token.  Since repo 5f4cdd1 no mindsdb lexer action rewrites `token.value`, so
`hsrc` holds for every token list the real lexer produces; the lexer is not modelled, hence it stays a
hypothesis, checked on every token list of the stream (obligation `probe:value-is-source`). -/
theorem C19_caret_source (src : List Char) (toks : List Tok) (b : Tok) (hl : layoutOK toks = true)
    (hb : b ∈ toks) (hsrc : ∀ t ∈ toks, (src.drop t.index).take t.value.length = t.value) :
    ∃ (ctx : List (List Char)) (shown : List Char) (c : Nat),
      errorLocation toks (some b) = hdrUnknown :: (ctx ++ ['>' :: shown,
          List.replicate (c + 1) '-' ++ List.replicate b.value.length '^']) ∧
      (shown.drop c).take b.value.length = (src.drop b.index).take b.value.length := by
  obtain ⟨ctx, shown, _, c, h1, _, _, h2, _⟩ := C19_caret_partial toks b hl hb
  exact ⟨ctx, shown, c, h1, by rw [h2, hsrc b hb]⟩

/-- **T19.1, end of input**: the caret (one `^`) stands one column past the end of the shown last
line, and that line ends where the last token ends. -/
theorem C19_eof_caret (toks : List Tok) (l : Tok) (hl : layoutOK toks = true)
    (hlast : toks.getLast? = some l) :
    ∃ (ctx : List (List Char)) (shown : List Char) (shift : Nat),
      errorLocation toks none = hdrEof :: (ctx ++ ['>' :: shown,
          List.replicate (shown.length + 1) '-' ++ ['^']]) ∧
      ctx.length ≤ 2 ∧ shift + shown.length = l.index + l.value.length ∧
      (∀ t ∈ toks, t.lineno = l.lineno → shift ≤ t.index ∧
          (shown.drop (t.index - shift)).take t.value.length = t.value) := by
  have hspec : DS (build toks) (endOf 0 0 toks).1 (endOf 0 0 toks).2 ∧
      (∀ u, Placed [] u → Placed (build toks) u) ∧ (∀ u ∈ toks, Placed (build toks) u) :=
    foldl_addTok_spec toks [] 0 0 ⟨by simp [keys], Or.inl rfl⟩ hl
  obtain ⟨hfin, _, hpl⟩ := hspec
  rw [endOf_getLast toks 0 0 l hlast] at hfin
  have hlm : l ∈ toks := List.mem_of_getLast? hlast
  have hP := hpl l hlm
  have hnd := nodup_of_sorted hfin.sorted
  rcases hfin.last with h0 | ⟨d0, L, hd, hL, hprev⟩
  · have := hP.mem; rw [h0] at this; simp [keys] at this
  · simp only at hd hL hprev
    have hs := hfin.sorted
    rw [hd, keys_append, List.pairwise_append] at hs
    have hnot : l.lineno ∉ keys d0 :=
      not_mem_keys_of_lt (fun x hx => hs.2.2 x hx l.lineno (by simp [keys]))
    have hlk : (build toks).lastKey = l.lineno := by rw [hd]; simp [Dict.lastKey]
    have hget : Dict.get (build toks) l.lineno = L := by
      rw [hd, get_append_absent hnot]; simp [Dict.get]
    have hprevLen : prevLen 0 (build toks) l.lineno = lastLen 0 d0 := by
      rw [hd, prevLen_append_absent hnot]; simp [prevLen]
    obtain ⟨hidx, ctx, hctx, hshape⟩ :=
      location_shape (build toks) l.lineno ((Dict.get (build toks) l.lineno).length : Nat) hP.mem hnd
    refine ⟨ctx, L.drop (lastLen 0 d0), lastLen 0 d0, ?_, hctx, by simp; omega, ?_⟩
    · unfold errorLocation
      simp only [hlk] at hshape hidx ⊢
      rw [hshape, hidx, hget, hprevLen]
      have : (((L.length : Nat) : Int) - (lastLen 0 d0 : Nat) + 1).toNat = L.length - lastLen 0 d0 + 1 := by omega
      simp [caretLine, this]
    · intro t ht hln
      have hT := hpl t ht
      have h1 := hT.shift
      have h2 := hT.val
      rw [hln, hprevLen] at h1
      rw [hln, hget] at h2
      refine ⟨h1, ?_⟩
      rw [List.drop_drop]
      have : lastLen 0 d0 + (t.index - lastLen 0 d0) = t.index := by omega
      rw [this]; exact h2.slice

/-- **T19.1 carried over to the part-by-part variant** (`fixes/C19_6.diff`; the flag
`Gen.ErrLex.splitValues` tells which variant the live code is): when no value contains a newline the
two variants print the same message, hence `C19_caret_partial`, `C19_caret_source` and
`C19_eof_caret` hold for `errorLocationV split` under that extra (decidable) hypothesis.
(For values WITH a newline the repaired variant is only tied by correspondence and the examples below.) -/
theorem C19_variant_agrees (split : Bool) (toks : List Tok) (bad : Option Tok)
    (h : ∀ t ∈ toks, '\n' ∉ t.value) (hb : ∀ b, bad = some b → '\n' ∉ b.value) :
    errorLocationV split toks bad = errorLocation toks bad :=
  errorLocationV_eq split toks bad h hb

theorem C19_caret_partial_v (split : Bool) (toks : List Tok) (b : Tok) (hl : layoutOK toks = true)
    (hb : b ∈ toks) (hnl : ∀ t ∈ toks, '\n' ∉ t.value) :
    ∃ (ctx : List (List Char)) (shown : List Char) (shift c : Nat),
      errorLocationV split toks (some b) = hdrUnknown :: (ctx ++ ['>' :: shown,
          List.replicate (c + 1) '-' ++ List.replicate b.value.length '^']) ∧
      ctx.length ≤ 2 ∧ c + shift = b.index ∧
      (shown.drop c).take b.value.length = b.value ∧
      (∀ t ∈ toks, t.lineno = b.lineno → shift ≤ t.index ∧
          (shown.drop (t.index - shift)).take t.value.length = t.value) := by
  rw [C19_variant_agrees split toks (some b) hnl (fun b' hb' => by cases hb'; exact hnl b hb)]
  exact C19_caret_partial toks b hl hb

theorem C19_eof_caret_v (split : Bool) (toks : List Tok) (l : Tok) (hl : layoutOK toks = true)
    (hlast : toks.getLast? = some l) (hnl : ∀ t ∈ toks, '\n' ∉ t.value) :
    ∃ (ctx : List (List Char)) (shown : List Char) (shift : Nat),
      errorLocationV split toks none = hdrEof :: (ctx ++ ['>' :: shown,
          List.replicate (shown.length + 1) '-' ++ ['^']]) ∧
      ctx.length ≤ 2 ∧ shift + shown.length = l.index + l.value.length ∧
      (∀ t ∈ toks, t.lineno = l.lineno → shift ≤ t.index ∧
          (shown.drop (t.index - shift)).take t.value.length = t.value) := by
  rw [C19_variant_agrees split toks none hnl (fun _ h => by cases h)]
  exact C19_eof_caret toks l hl hlast

/-- **T19.1 for the repaired code, no hypothesis about newlines inside values** (repo 2c1674c +
bd184d7).  The part-by-part `error_location` is the one-piece loop over the "virtual tokens"
(`virt`: one per `'\n'`-separated part of a value, part `n` on line `lineno + n`), so under the
position hypothesis on the virtual tokens the message is header, ≤ 2 context lines, the `>` line of
the line on which the bad token STARTS and `'-'*(c+1) ++ '^'*len(first part)`; the first part of the
bad value sits at `shown[c : c+len)`, and every part of every token on that line at its own offset. -/
theorem C19_caret_split (toks : List Tok) (b : Tok) (hl : layoutOK (virt toks) = true) (hb : b ∈ toks) :
    ∃ (ctx : List (List Char)) (shown : List Char) (shift c : Nat),
      errorLocationV true toks (some b) = hdrUnknown :: (ctx ++ ['>' :: shown,
          List.replicate (c + 1) '-' ++ List.replicate (headPart b).value.length '^']) ∧
      ctx.length ≤ 2 ∧ c + shift = b.index ∧
      (shown.drop c).take (headPart b).value.length = (headPart b).value ∧
      (∀ t ∈ virt toks, t.lineno = b.lineno → shift ≤ t.index ∧
          (shown.drop (t.index - shift)).take t.value.length = t.value) := by
  rw [errorLocationV_true_eq]
  exact C19_caret_partial (virt toks) (headPart b) hl (headPart_mem hb)

/-- … and with the UNIFORM LEXER SEMANTICS of bd184d7 as the only hypothesis (`SrcChain src 0 toks`:
every value is its source slice, `lineno = 1 +` newlines before `index`, tokens in text order without
overlap — checked on every real token list of the stream, obligations `probe:value-is-source`,
`probe:lineno-uniform`, `probe:layout-invariant`): the carets cover exactly the source characters of
the bad token on the line where it starts. -/
theorem C19_caret_uniform (src : List Char) (toks : List Tok) (b : Tok) (h : SrcChain src 0 toks)
    (hb : b ∈ toks) :
    ∃ (ctx : List (List Char)) (shown : List Char) (shift c : Nat),
      errorLocationV true toks (some b) = hdrUnknown :: (ctx ++ ['>' :: shown,
          List.replicate (c + 1) '-' ++ List.replicate (headPart b).value.length '^']) ∧
      ctx.length ≤ 2 ∧ c + shift = b.index ∧
      (shown.drop c).take (headPart b).value.length =
        (src.drop b.index).take (headPart b).value.length := by
  have hl : layoutOK (virt toks) = true := layout_of_src src toks 0 0 h (Nat.zero_le _)
  obtain ⟨ctx, shown, shift, c, h1, h2, h3, h4, _⟩ := C19_caret_split toks b hl hb
  exact ⟨ctx, shown, shift, c, h1, h2, h3, by rw [h4]; exact headPart_slice (srcTok_of_chain h hb)⟩

-- [review] non-vacuity of `SrcChain` on a REALISTIC layout (leading whitespace, a multi-line comment, a
-- string token containing a newline, a trailing `--` comment, error on the 4th line).  Token records and
-- message are those of the real lexer / `parse_sql` on this text (checked by hand against /repo).
def rvSrc : List Char := "  select /* c\n x */ a,\n   'p\nq' from from -- t".toList  -- [review]
def rvToks : List Tok :=  -- [review]
  [⟨0, "select".toList, 1, 2⟩, ⟨1, "a".toList, 2, 20⟩, ⟨2, ",".toList, 2, 21⟩, ⟨3, "'p\nq'".toList, 3, 26⟩,
   ⟨4, "from".toList, 4, 32⟩, ⟨4, "from".toList, 4, 37⟩]
theorem C19_review_srcChain_example : SrcChain rvSrc 0 rvToks := by  -- [review]
  refine ⟨by decide, ⟨by decide, by decide⟩, by decide, ⟨by decide, by decide⟩, by decide, ⟨by decide, by decide⟩,
    by decide, ⟨by decide, by decide⟩, by decide, ⟨by decide, by decide⟩, by decide, ⟨by decide, by decide⟩, trivial⟩
-- [review] the model's message on it = the real message (the comment is blanked, the string is split)
example : (errorLocationV true rvToks (some ⟨4, "from".toList, 4, 37⟩)).map String.ofList =
    ["Syntax error, unknown input:", ">            a,", ">    'p", "> q' from from", "----------^^^^"] := by decide
-- [review] … and `C19_caret_uniform` instantiated on it: 4 carets over `src[37:41]`
example : ∃ (ctx : List (List Char)) (shown : List Char) (shift c : Nat),
      errorLocationV true rvToks (some ⟨4, "from".toList, 4, 37⟩) = hdrUnknown :: (ctx ++ ['>' :: shown,
          List.replicate (c + 1) '-' ++ List.replicate 4 '^']) ∧
      ctx.length ≤ 2 ∧ c + shift = 37 ∧ (shown.drop c).take 4 = (rvSrc.drop 37).take 4 :=
  C19_caret_uniform rvSrc rvToks ⟨4, "from".toList, 4, 37⟩ C19_review_srcChain_example (by decide)

/-- [review] `C19_caret_uniform` with the conjunct it drops from `C19_caret_split` restated on the SOURCE:
every token that starts on the line of the bad token is shown at its own offset with (the first line of)
its source text, and the caret count is the full token length when the token has no newline.
(Still NOT stated: what the ≤ 2 context lines `ctx` contain, and what stands between the tokens — in the
real message: blanks, also where the source has a comment; the first shown line keeps the absolute offset
of its first token as leading blanks.) -/
theorem C19_review_caret_uniform_line (src : List Char) (toks : List Tok) (b : Tok)
    (h : SrcChain src 0 toks) (hb : b ∈ toks) :
    ∃ (ctx : List (List Char)) (shown : List Char) (shift c : Nat),
      errorLocationV true toks (some b) = hdrUnknown :: (ctx ++ ['>' :: shown,
          List.replicate (c + 1) '-' ++ List.replicate (headPart b).value.length '^']) ∧
      ctx.length ≤ 2 ∧ c + shift = b.index ∧
      (shown.drop c).take (headPart b).value.length =
        (src.drop b.index).take (headPart b).value.length ∧
      (∀ t ∈ toks, t.lineno = b.lineno → shift ≤ t.index ∧
        (shown.drop (t.index - shift)).take (headPart t).value.length =
          (src.drop t.index).take (headPart t).value.length) ∧
      ('\n' ∉ b.value → (headPart b).value.length = b.value.length) := by
  have hl : layoutOK (virt toks) = true := layout_of_src src toks 0 0 h (Nat.zero_le _)
  obtain ⟨ctx, shown, shift, c, h1, h2, h3, h4, h5⟩ := C19_caret_split toks b hl hb
  refine ⟨ctx, shown, shift, c, h1, h2, h3, by rw [h4]; exact headPart_slice (srcTok_of_chain h hb), ?_, ?_⟩
  · intro t ht hln
    obtain ⟨g1, g2⟩ := h5 (headPart t) (headPart_mem ht) hln
    exact ⟨g1, by
      have : (headPart t).index = t.index := rfl
      rw [this] at g2
      rw [g2]; exact headPart_slice (srcTok_of_chain h ht)⟩
  · intro hnl
    show ((splitLines b.value).headD []).length = _
    rw [splitLines_no_nl _ hnl]; rfl

/-- [review] the caret clause of the property stated over a SOURCE-TEXT model (now part of `C19_full_caret`,
which adds the line-display and end-of-input conjuncts; kept under the reviewer's name): for every text `src` and every token list the uniform lexer semantics allows for it,
and every bad token in it, the last line of the message is `c+1` dashes and `n` carets, `n` = length of the
first line of the token's text (= the whole token when it has no newline), and the `n` characters of the shown
line under the carets are the source characters `src[index : index+n]`. -/
def C19_review_full_caret : Prop :=
  ∀ (src : List Char) (toks : List Tok) (b : Tok), SrcChain src 0 toks → b ∈ toks →
    ∃ (ctx : List (List Char)) (shown : List Char) (c n : Nat),
      errorLocationV true toks (some b) = hdrUnknown :: (ctx ++ ['>' :: shown,
          List.replicate (c + 1) '-' ++ List.replicate n '^']) ∧ ctx.length ≤ 2 ∧
      n = ((splitLines b.value).headD []).length ∧ ('\n' ∉ b.value → n = b.value.length) ∧
      (shown.drop c).take n = (src.drop b.index).take n

/-- [review] … and it HOLDS for the model of the live variant (lexer semantics = hypothesis `SrcChain`) -/
theorem C19_review_full_caret_holds : C19_review_full_caret := by
  intro src toks b h hb
  obtain ⟨ctx, shown, _, c, h1, h2, _, h4, _, h6⟩ := C19_review_caret_uniform_line src toks b h hb
  exact ⟨ctx, shown, c, _, h1, h2, rfl, h6, h4⟩

/-- end of input, repaired code, uniform lexer semantics: one `^` one column past the shown last line -/
theorem C19_eof_caret_uniform (src : List Char) (toks : List Tok) (l : Tok) (h : SrcChain src 0 toks)
    (hlast : (virt toks).getLast? = some l) :
    ∃ (ctx : List (List Char)) (shown : List Char) (shift : Nat),
      errorLocationV true toks none = hdrEof :: (ctx ++ ['>' :: shown,
          List.replicate (shown.length + 1) '-' ++ ['^']]) ∧
      ctx.length ≤ 2 ∧ shift + shown.length = l.index + l.value.length := by
  have hl : layoutOK (virt toks) = true := layout_of_src src toks 0 0 h (Nat.zero_le _)
  rw [errorLocationV_true_eq]
  obtain ⟨ctx, shown, shift, h1, h2, h3, _⟩ := C19_eof_caret (virt toks) l hl hlast
  exact ⟨ctx, shown, shift, h1, h2, h3⟩

-- [review] non-vacuity for the end-of-input theorem on a realistic layout: the text starts with an empty
-- line, has leading blanks and a `--` comment; records / message as produced by the real code.  NOTE the
-- first shown line: 3 leading blanks for the source line `  select a -- c` (absolute offset 3 of `select`
-- incl. the first newline, comment dropped) — "reproduces the source line" holds up to blanks only.
def rvSrc2 : List Char := "\n  select a -- c\n  from".toList  -- [review]
def rvToks2 : List Tok := [⟨0, "select".toList, 2, 3⟩, ⟨1, "a".toList, 2, 10⟩, ⟨2, "from".toList, 3, 19⟩]  -- [review]
theorem C19_review_srcChain_example2 : SrcChain rvSrc2 0 rvToks2 := by  -- [review]
  refine ⟨by decide, ⟨by decide, by decide⟩, by decide, ⟨by decide, by decide⟩, by decide, ⟨by decide, by decide⟩, trivial⟩
example : (errorLocationV true rvToks2 none).map String.ofList =  -- [review]
    ["Syntax error, unexpected end of query:", ">   select a", ">        from", "-------------^"] := by decide
example : ∃ (ctx : List (List Char)) (shown : List Char) (shift : Nat),  -- [review]
      errorLocationV true rvToks2 none = hdrEof :: (ctx ++ ['>' :: shown,
          List.replicate (shown.length + 1) '-' ++ ['^']]) ∧
      ctx.length ≤ 2 ∧ shift + shown.length = 19 + 4 :=
  C19_eof_caret_uniform rvSrc2 rvToks2 ⟨2, "from".toList, 3, 19⟩ C19_review_srcChain_example2 (by decide)

/-- **clause 1 of the full statement holds** (lexer semantics = hypothesis `SrcChain`) -/
theorem C19_full_caret_holds : C19_full_caret := by
  refine ⟨?_, ?_⟩
  · intro src toks b h hb
    obtain ⟨ctx, shown, shift, c, h1, h2, h3, h4, h5, h6⟩ := C19_review_caret_uniform_line src toks b h hb
    exact ⟨ctx, shown, shift, c, _, h1, h2, rfl, h6, h3, h4, h5⟩
  · intro src toks l h hl
    exact C19_eof_caret_uniform src toks l h hl

/-! ### T19.3 suggestions -/

/-- **T19.3**: in the `1 < n < 20` branch with a bad token, every suggestion shown has passed a
full re-parse of the list with the synthesised token inserted BEFORE the bad token, or of the list
in which it REPLACES THE TOKEN BEFORE the bad one (`tokens[:k-1] + [tok] + tokens[k:]`, literally). -/
theorem C19_suggestions_checked (valid : List Nat → Bool) (nm : Names)
    (attr : Nat → Option (List Char)) (types : List Nat) (k : Nat) (expected : List Nat)
    (hn : 1 < (buildExpected nm attr (sortIds expected) []).length) :
    ∀ s ∈ makeSuggestion valid nm attr types (some k) expected,
      ∃ ty, (s, ty) ∈ buildExpected nm attr (sortIds expected) [] ∧
        (valid (insList types k ty) = true ∨ valid (repList types k ty) = true) := by
  intro s hs
  unfold makeSuggestion at hs
  split at hs
  · simp at hs
  · simp only at hs
    have h1 : ¬ (buildExpected nm attr (sortIds expected) []).length = 1 := by omega
    simp only [h1, if_false] at hs
    split at hs
    · exact trySuggest_mem valid types k _ s hs
    · simp at hs

/-- with the real mindsdb tables and whatever the semantic actions do (`raises`): the list that
passed is a sentence of the grammar (by C05) -/
theorem C19_suggestions_sentence_mindsdb (raises : List Nat → Bool) (nm : Names)
    (attr : Nat → Option (List Char))
    (types : List Nat) (k : Nat) (expected : List Nat) (h0 : ∀ x ∈ types, x ≠ 0)
    (hn : 1 < (buildExpected nm attr (sortIds expected) []).length) :
    ∀ s ∈ makeSuggestion (queryIsValid Tables_mindsdb.tables raises) nm attr types (some k) expected,
      ∃ ty, (s, ty) ∈ buildExpected nm attr (sortIds expected) [] ∧ (ty ≠ 0 →
        (C05.Sentence Tables_mindsdb.tables (insList types k ty) ∨
         C05.Sentence Tables_mindsdb.tables (repList types k ty))) := by
  intro s hs
  obtain ⟨ty, hm, hv⟩ := C19_suggestions_checked _ nm attr types k expected hn s hs
  refine ⟨ty, hm, fun hty => ?_⟩
  have key : ∀ l : List Nat, (∀ x ∈ l, x ≠ 0) → queryIsValid Tables_mindsdb.tables raises l = true →
      C05.Sentence Tables_mindsdb.tables l := by
    intro l hl hv
    unfold queryIsValid at hv
    simp only [Bool.and_eq_true] at hv
    have hv := hv.1
    unfold lrValid at hv
    split at hv
    · next t log hp => exact C05.C05_sentence _ Tables_mindsdb.valid _ _ _ _ t log hl hp
    · simp at hv
  rcases hv with hv | hv
  · left; apply key _ _ hv
    intro x hx
    simp only [insList, List.mem_append, List.mem_singleton] at hx
    rcases hx with (hx | hx) | hx
    · exact h0 x (List.mem_of_mem_take hx)
    · subst hx; exact hty
    · exact h0 x (List.mem_of_mem_drop hx)
  · right; apply key _ _ hv
    intro x hx
    simp only [repList, List.mem_append, List.mem_singleton] at hx
    rcases hx with (hx | hx) | hx
    · exact h0 x (mem_pyTake hx)
    · subst hx; exact hty
    · exact h0 x (List.mem_of_mem_drop hx)

/-! ### T19.4 the lexer's message -/

/-- **T19.4**: if the illegal character is at column `col` of line number `pre.length` (0-based)
of `text.split('\n')`, the loop finds exactly that line and column: the message shows at most one
context line (the previous source line), then the offending line, then `'-'*(col+1) ++ '^'`. -/
theorem C19_lexer_caret (pre post : List (List Char)) (line : List Char) (col : Nat)
    (hc : col < line.length) :
    let index := offs pre + col
    ∃ ctx : List (List Char), ctx.length ≤ 1 ∧ ctx = pre.drop (pre.length - 1) ∧
      lexErrorOn (pre ++ line :: post) index =
        ctx.map (fun l => '>' :: l) ++ ['>' :: line, List.replicate (col + 1) '-' ++ ['^']] := by
  intro index
  have := lexLoop_spec index col line post pre ⟨0, 0, 0, 0⟩ (by simp [index]) hc
  refine ⟨pre.drop (pre.length - 1), by simp; omega, rfl, ?_⟩
  unfold lexErrorOn
  simp only at this ⊢
  rw [this.1, this.2]
  have h1 : (pre ++ line :: post).take (0 + pre.length + 1) = pre ++ [line] := by
    have : pre ++ line :: post = (pre ++ [line]) ++ post := by simp
    rw [this, List.take_left' (by simp)]
  rw [h1, List.drop_append_of_le_length (by omega)]
  simp

/-! ### T19.2 which token is the bad one -/

/-- **T19.2a**: when the driver (valid tables, real terminals, mindsdb error mode) returns `None`
with recorded `error_info = (bad, state)`, then at the moment of the error the parse stack was a
valid path of the automaton whose frontier is EXACTLY the tokens before the bad one (`toks[:k]`:
every earlier token was shifted, none skipped; all of `toks` at end of input), its top is the
reported state, that state has no default reduction and no action on the bad token (resp. `$end`),
and `k` is inside the list.  So the carets mark the first token the *parser* cannot take.
(NOT proved: that the GRAMMAR can still continue `toks[:k]` — false in general, KF-C19-3.) -/
theorem C19_bad_token_prefix (T : Tables) (hv : T.valid = true) (toks : List Nat)
    (h0 : ∀ x ∈ toks, x ≠ 0) (fuel : Nat) (e : ErrInfo) (log : List Nat)
    (h : parse T .drain false toks fuel = .none_ (some e) log) : ErrAt T toks e :=
  parse_errAt hv toks h0 fuel e log h

theorem C19_bad_token_prefix_mindsdb (toks : List Nat) (h0 : ∀ x ∈ toks, x ≠ 0) (fuel : Nat)
    (e : ErrInfo) (log : List Nat)
    (h : parse Tables_mindsdb.tables .drain false toks fuel = .none_ (some e) log) :
    ErrAt Tables_mindsdb.tables toks e :=
  C19_bad_token_prefix _ Tables_mindsdb.valid toks h0 fuel e log h

/-- non-vacuity: the sample sentence with its first token doubled is rejected at token 1 -/
example : (match parse Tables_mindsdb.tables .drain false
      (Tables_mindsdb.sample.head! :: Tables_mindsdb.sample) 10000 with
    | .none_ (some e) _ => e.bad | _ => none) = some 1 := by decide +kernel

/-- **T19.2b** determinism in the prefix (valid tables, real terminals): if the driver rejects
`pre ++ rest` at bad-token index `k` inside `pre`, then EVERY token list `pre ++ rest'` (same first
`|pre| ≥ k+1` tokens, any continuation, any fuel) is rejected too — at the same token `k`, in the
same state, after the same reductions — or the run is out of fuel. -/
theorem C19_bad_token_deterministic (T : Tables) (hv : T.valid = true) (pre rest rest' : List Nat)
    (h0 : ∀ x ∈ pre ++ rest, x ≠ 0) (h0' : ∀ x ∈ pre ++ rest', x ≠ 0)
    (fuel fuel' k s : Nat) (log : List Nat) (hk : k < pre.length)
    (h : parse T .drain false (pre ++ rest) fuel = .none_ (some ⟨some k, s⟩) log) :
    parse T .drain false (pre ++ rest') fuel' = .none_ (some ⟨some k, s⟩) log ∨
    parse T .drain false (pre ++ rest') fuel' = .fuel :=
  parse_prefix_det hv pre rest rest' h0 h0' fuel fuel' k s log hk h

/-- … in particular no continuation of `toks[:k+1]` is accepted -/
theorem C19_no_accepted_continuation (T : Tables) (hv : T.valid = true) (pre rest rest' : List Nat)
    (h0 : ∀ x ∈ pre ++ rest, x ≠ 0) (h0' : ∀ x ∈ pre ++ rest', x ≠ 0)
    (fuel fuel' k s : Nat) (log : List Nat) (hk : k < pre.length)
    (h : parse T .drain false (pre ++ rest) fuel = .none_ (some ⟨some k, s⟩) log) :
    ∀ t log', parse T .drain false (pre ++ rest') fuel' ≠ .accept t log' := by
  intro t log' hacc
  rcases C19_bad_token_deterministic T hv pre rest rest' h0 h0' fuel fuel' k s log hk h with h1 | h1 <;>
    rw [hacc] at h1 <;> cases h1

theorem C19_bad_token_deterministic_mindsdb (pre rest rest' : List Nat)
    (h0 : ∀ x ∈ pre ++ rest, x ≠ 0) (h0' : ∀ x ∈ pre ++ rest', x ≠ 0)
    (fuel fuel' k s : Nat) (log : List Nat) (hk : k < pre.length)
    (h : parse Tables_mindsdb.tables .drain false (pre ++ rest) fuel = .none_ (some ⟨some k, s⟩) log) :
    parse Tables_mindsdb.tables .drain false (pre ++ rest') fuel' = .none_ (some ⟨some k, s⟩) log ∨
    parse Tables_mindsdb.tables .drain false (pre ++ rest') fuel' = .fuel :=
  C19_bad_token_deterministic _ Tables_mindsdb.valid pre rest rest' h0 h0' fuel fuel' k s log hk h

/-! ### Φ19 what a suggested action-row key is worth -/

/-- every suggestion, in every branch, is the display value of a token name taken from
`expected_tokens` (= the keys of the action row of the error state) -/
theorem C19_suggestion_is_row_key (valid : List Nat → Bool) (nm : Names)
    (attr : Nat → Option (List Char)) (types : List Nat) (badIdx : Option Nat) (expected : List Nat) :
    ∀ s ∈ makeSuggestion valid nm attr types badIdx expected,
      ∃ ty ∈ expected, (s, ty) ∈ buildExpected nm attr (sortIds expected) [] :=
  makeSuggestion_key valid nm attr types badIdx expected

/-- the two lists `shiftKeys` / `redKeys` of a row (computed on its bit masks) are exactly the
terminals on which `Row.action` shifts / reduces: the classification of a key is decidable data -/
theorem C19_key_classification (r : Row) (nT t : Nat) :
    (t ∈ r.shiftKeys nT ↔ t < nT ∧ ∃ s', r.action t = .shift s') ∧
    (t ∈ r.redKeys nT ↔ t < nT ∧ ∃ p, r.action t = .reduce p) :=
  ⟨mem_shiftKeys r nT t, mem_redKeys r nT t⟩

/-- **Φ19, shift keys** (this is what the unchecked `n = 1` and end-of-query branches guarantee): if
the suggested key `t` is a SHIFT key of the reported error state, the automaton has a valid path
that spells the tokens before the bad one followed by `t` — the parser, where it stands, takes `t`.
For a reduce look-ahead key there is no such statement (KF-C19-4): the reduction may lead to a
state without an action on `t`. -/
theorem C19_shift_key_extends (T : Tables) (toks : List Nat) (st : Stack) (e : ErrInfo)
    (h : ErrAtSt T toks st e) (row : Row) (hrow : T.rows.get? e.state = some row) (t s' : Nat)
    (hs : row.action t = .shift s') :
    Path T ((s', .leaf t) :: st) ∧
    yieldStack ((s', .leaf t) :: st) =
      (match e.bad with | some k => toks.take k | none => toks) ++ [t] := by
  obtain ⟨hp, hy⟩ := shift_key_extends h hrow hs
  refine ⟨hp, ?_⟩
  rw [hy]
  obtain ⟨_, _, _, _, _, hb⟩ := h
  cases hbad : e.bad with
  | some k => rw [hbad] at hb; simp only at hb ⊢; rw [hb.2.1]
  | none => rw [hbad] at hb; simp only at hb ⊢; rw [hb.1]

/-- **Φ19 for ALL unchecked suggestions (repo 4227339)**: `MindsDBParser.error` stores only the keys
that `_can_take` keeps (`LR.canTake`, `LR.keptExpected`; tied by the `can-take` correspondence).
Every kept key `t` is — after reductions that leave the frontier unchanged — a shift key: the
automaton has a valid path spelling the tokens before the bad one followed by `t` (or `t` is `$end`
on the accepting state).  So `C19_shift_key_extends` now applies to every suggestion of the `n = 1`
and end-of-query branches, whether its key was a shift key or a reduce look-ahead of the error state. -/
theorem C19_kept_token_extends (T : Tables) (hv : T.valid = true) (toks : List Nat) (st : Stack)
    (e : ErrInfo) (h : ErrAtSt T toks st e) (t fuel : Nat) (hk : canTake T t fuel st = true) :
    (∃ st' s', Path T ((s', .leaf t) :: st') ∧
      yieldStack ((s', .leaf t) :: st') =
        (match e.bad with | some k => toks.take k | none => toks) ++ [t]) ∨ t = 0 := by
  obtain ⟨row0, hp, _, _, _, hb⟩ := h
  obtain ⟨st', row, hp', hy, hr, hact⟩ := canTake_sound (valid_of_eq hv) t fuel st hp hk
  rcases hact with ⟨s', hs⟩ | hacc
  · left
    refine ⟨st', s', ?_, ?_⟩
    · refine Path.cons hp' hr ?_
      unfold Row.target
      have h1 : ((PT.leaf t).root % 2 == 0) = true := by simp [PT.root]
      have h2 : (PT.leaf t).root / 2 = t := by simp [PT.root]
      simp only [h1, cond_true, h2]
      exact action_shift hs
    · rw [yieldStack_cons, hy]
      simp only [PT.yield]
      cases hbad : e.bad with
      | some k => rw [hbad] at hb; simp only at hb ⊢; rw [hb.2.1]
      | none => rw [hbad] at hb; simp only at hb ⊢; rw [hb.1]
  · exact Or.inr (action_accept hacc).2

/-! #### [review] composition: `C19_kept_token_extends` takes the error stack `st` and `ErrAtSt … st e` as
HYPOTHESES and `C19_suggestion_is_row_key` is about an arbitrary list `expected`; nothing above says that
the stack `_can_take` replays on is the stack of the reported error, nor that the suggestions printed for
the stored `expected_tokens` are shiftable.  The three theorems below close that gap inside the model. -/

/-- [review] the stack `errStack` (used by `keptExpected`) returns is the stack of the very error that
`run` / `parse` reports: `ErrAtSt` holds for it with the reported `ErrInfo`. -/
theorem C19_review_errStack_errAtSt {T : Tables} (hv : Valid T) (toks : List Nat) :
    ∀ (fuel : Nat) (c : Cfg), Clean T toks false c → ∀ st, errStack T fuel c = some st →
      (∃ e, ErrAtSt T toks st e) ∧
      ∀ fuel' e log, run T .drain false fuel' c = .none_ (some e) log → ErrAtSt T toks st e := by
  intro fuel
  induction fuel with
  | zero => intro c _ st h; simp [errStack] at h
  | succ n ih =>
    intro c hc st h
    have hs1 := step_clean hv .drain hc
    have hs2 := clean_step_err hv hc
    unfold errStack at h
    cases hs : step T .drain false c with
    | inl c' =>
      rw [hs] at h hs1 hs2
      simp only at h hs1 hs2
      rcases hs2 with h0 | ⟨e0, he0, hE⟩
      · rw [h0] at h
        simp only [Option.isSome_none, Bool.and_false, Bool.false_eq_true, if_false] at h
        rcases hs1 with hcl | ⟨_, _, hpost⟩
        · obtain ⟨i1, i2⟩ := ih c' hcl st h
          refine ⟨i1, ?_⟩
          intro fuel' e log hr
          cases fuel' with
          | zero => simp [run] at hr
          | succ m =>
            unfold run at hr
            rw [hs] at hr
            exact i2 m e log hr
        · exact absurd h0 hpost.err
      · rw [he0, hc.noerr] at h
        simp at h
        subst h
        refine ⟨⟨e0, hE⟩, ?_⟩
        intro fuel' e log hr
        cases fuel' with
        | zero => simp [run] at hr
        | succ m =>
          unfold run at hr
          rw [hs] at hr
          simp only at hr
          rcases hs1 with hcl | ⟨_, _, hpost⟩
          · have := hcl.noerr; rw [he0] at this; cases this
          · have := run_post_err hv m c' hpost _ _ hr
            rw [he0] at this; cases this; exact hE
    | inr o =>
      rw [hs] at h hs2
      cases o with
      | none_ e lg =>
        cases e with
        | none => simp at h
        | some e' =>
          simp only [hc.noerr, Option.isNone_none, if_true] at h
          cases h
          refine ⟨⟨e', hs2 e' rfl⟩, ?_⟩
          intro fuel' e log hr
          cases fuel' with
          | zero => simp [run] at hr
          | succ m =>
            unfold run at hr
            rw [hs] at hr
            simp only at hr
            cases hr
            exact hs2 _ rfl
      | _ => simp at h

/-- [review] **Φ19 composed, all token lists**: every key of the `expected_tokens` that
`MindsDBParser.error` stores (`keptExpected`, tied by the `can-take` stream) can be SHIFTED by the
automaton right after the tokens before the bad one (after frontier-preserving reductions), the bad index
being the one `parse` reports (or the key is `$end` on the accepting state). -/
theorem C19_review_kept_expected_extends (T : Tables) (hv : T.valid = true) (nT : Nat) (toks : List Nat)
    (h0 : ∀ x ∈ toks, x ≠ 0) (t : Nat) (ht : t ∈ keptExpected T nT toks) :
    (∃ e, ErrAt T toks e) ∧
    ∀ fuel e log, parse T .drain false toks fuel = .none_ (some e) log →
      (∃ st' s', Path T ((s', .leaf t) :: st') ∧
        yieldStack ((s', .leaf t) :: st') =
          (match e.bad with | some k => toks.take k | none => toks) ++ [t]) ∨ t = 0 := by
  unfold keptExpected at ht
  split at ht
  · simp at ht
  · next st hst =>
    split at ht
    · simp at ht
    · next row hrow =>
      rw [List.mem_filter] at ht
      obtain ⟨⟨e1, hE1⟩, hall⟩ := C19_review_errStack_errAtSt (valid_of_eq hv) toks _ _
        (clean_init toks false h0) st hst
      refine ⟨⟨e1, st, hE1⟩, ?_⟩
      intro fuel e log hp
      exact C19_kept_token_extends T hv toks st e (hall fuel e log hp) t 1000 ht.2

/-- [review] **the suggestion clause, insert half, at parser level, for ALL inputs and ALL branches**
(n = 1, end of query, checked): every suggestion `make_suggestion` prints when it is given the stored
`expected_tokens` is the display value of a token type `ty` such that the automaton has a valid path
spelling `toks[:k] ++ [ty]` — inserting it before the offending token, the parser shifts it, i.e. parsing
proceeds past that position.  (Not covered, search only: that the display value LEXES to `ty` — cf.
KF-C19-8 — and the "substitute" half, which the code does not implement: `repList`.) -/
theorem C19_review_suggestion_extends (T : Tables) (hv : T.valid = true) (nT : Nat)
    (valid : List Nat → Bool) (nm : Names) (attr : Nat → Option (List Char)) (types : List Nat)
    (h0 : ∀ x ∈ types, x ≠ 0) (badIdx : Option Nat) :
    ∀ s ∈ makeSuggestion valid nm attr types badIdx (keptExpected T nT types),
      ∃ ty, (s, ty) ∈ buildExpected nm attr (sortIds (keptExpected T nT types)) [] ∧
        ∀ fuel e log, parse T .drain false types fuel = .none_ (some e) log →
          (∃ st' s', Path T ((s', .leaf ty) :: st') ∧
            yieldStack ((s', .leaf ty) :: st') =
              (match e.bad with | some k => types.take k | none => types) ++ [ty]) ∨ ty = 0 := by
  intro s hs
  obtain ⟨ty, hty, hmem⟩ := C19_suggestion_is_row_key valid nm attr types badIdx _ s hs
  exact ⟨ty, hmem, (C19_review_kept_expected_extends T hv nT types h0 ty hty).2⟩

-- [review] non-vacuity on the real tables (kernel): `select a from t limit 1 1` — the kept keys, the
-- checked branch (13 display values, `1 < n < 20`), and the suggestions of the LR model alone.  The real
-- message shows only "," and "OFFSET": the other five are rejected by SEMANTIC ACTIONS of the re-parse
-- (keyword order), which the model does not predict — they reach it as the input `raises`.
def rvNm : Names := ⟨ErrLex.idTok, ErrLex.floatTok, ErrLex.integerTok, ErrLex.dquoteTok, ErrLex.quoteTok⟩  -- [review]
def rvAttr (t : Nat) : Option (List Char) := (ErrLex.attrs.getD t none).map String.toList  -- [review]
def rvLimit : List Nat := [168, 74, 63, 74, 106, 81, 81]  -- [review]
example : keptExpected Tables_mindsdb.tables Tables_mindsdb.nTerms rvLimit =  -- [review]
    [0, 23, 54, 62, 63, 69, 71, 84, 106, 127, 132, 193, 196, 204] := by decide +kernel
example : 1 < (buildExpected rvNm rvAttr  -- [review] hypothesis `hn` of `C19_suggestions_checked`
    (sortIds (keptExpected Tables_mindsdb.tables Tables_mindsdb.nTerms rvLimit)) []).length := by decide +kernel
example : (makeSuggestion (queryIsValid Tables_mindsdb.tables (fun _ => false)) rvNm rvAttr rvLimit (some 6)  -- [review]
    (keptExpected Tables_mindsdb.tables Tables_mindsdb.nTerms rvLimit)).map String.ofList =
    [",", "GROUP BY", "HAVING", "LIMIT", "OFFSET", "ORDER BY", "WHERE"] := by decide +kernel
-- [review] unchecked branches: the doubled first token of the sample sentence (n = 1: `[identifier]`),
-- and `select a from t where` (end of query) keep a non-empty key list
example : ErrLex.idTok ∈ keptExpected Tables_mindsdb.tables Tables_mindsdb.nTerms
    (Tables_mindsdb.sample.head! :: Tables_mindsdb.sample) := by decide +kernel
example : keptExpected Tables_mindsdb.tables Tables_mindsdb.nTerms [168, 74, 63, 74, 204] ≠ [] := by decide +kernel

/-! ### what is proved of the full statement -/

theorem C19_parser_bad_token_holds (T : Tables) (hv : T.valid = true) : C19_parser_bad_token T := by
  intro pre rest rest' fuel fuel' k s log h0 h0' hk h
  exact ⟨C19_bad_token_prefix T hv _ h0 fuel _ log h,
    C19_bad_token_deterministic T hv pre rest rest' h0 h0' fuel fuel' k s log hk h⟩

theorem C19_parser_suggestion_holds (T : Tables) (hv : T.valid = true) (nT : Nat) :
    C19_parser_suggestion T nT := by
  intro valid nm attr types badIdx h0 s hs
  exact C19_review_suggestion_extends T hv nT valid nm attr types h0 badIdx s hs

/-- **C19, the part that is proved**: clause 1 of `C19_full` in full; clauses 2 and 3 with "the grammar
can continue" replaced by "the LALR automaton has a valid path" (the parser's own notion of acceptability).
The gap to `C19_full` is grammar-level completability / completeness of the conflict-resolved tables:
search only (Earley oracle), and clause 2 is false there today (KF-C19-3). -/
theorem C19_partial (T : Tables) (hv : T.valid = true) (nT : Nat) :
    C19_full_caret ∧ C19_parser_bad_token T ∧ C19_parser_suggestion T nT :=
  ⟨C19_full_caret_holds, C19_parser_bad_token_holds T hv, C19_parser_suggestion_holds T hv nT⟩

theorem C19_partial_mindsdb :
    C19_full_caret ∧ C19_parser_bad_token Tables_mindsdb.tables ∧
      C19_parser_suggestion Tables_mindsdb.tables Tables_mindsdb.nTerms :=
  C19_partial _ Tables_mindsdb.valid _

/-- the one direction between the two levels that does hold (by C05): a continuation the PARSER accepts is
a sentence, so a prefix that is not viable in the grammar is never accepted; the converse (every sentence
is accepted) is what conflict resolution breaks. -/
theorem C19_accepted_is_viable (T : Tables) (hv : T.valid = true) (p rest : List Nat) (fuel : Nat)
    (t : PT) (log : List Nat) (h0 : ∀ x ∈ p ++ rest, x ≠ 0)
    (h : parse T .drain false (p ++ rest) fuel = .accept t log) : ViablePrefix T p :=
  ⟨rest, C05.C05_sentence T hv .drain false _ fuel t log h0 h⟩

/-- **Φ19 as a kernel-evaluated obligation on the generated mindsdb tables**: over all states that can
be an error state (no default reduction, T19.2a) the kernel counts the shift keys and the reduce
look-ahead keys of the action rows (chunk evaluations `Gen/K_mindsdb_*`) and finds exactly the totals the
translator computed from the live `lr_action` / `defaulted_states`.  This is a translation cross-check of
the tables (Lean recount = Python count); it states nothing about suggestions by itself. -/
theorem C19_key_totals_mindsdb :
    unpackTotals (Trie.sumIdx (Row.keyCount Tables_mindsdb.nTerms) Tables_mindsdb.tables.rows) =
      (Tables_mindsdb.nErrStates, Tables_mindsdb.nShiftKeys, Tables_mindsdb.nRedKeys) :=
  Tables_mindsdb.keyTotals

/-- non-vacuity: possible error states do have reduce look-ahead keys (the class of KF-C19-4) -/
example : Tables_mindsdb.nRedKeys > 0 ∧ Tables_mindsdb.nShiftKeys > 0 := by decide

/-! ### pins of what the hand model assumes about the live lexer / grammar -/

/-- `sorted(expected_tokens)` by name = sorting the canonical terminal ids -/
example : sortedNames ErrLex.terms = true := by decide +kernel
example : ErrLex.ignoreChars = " \t\r" := by decide
example : ErrLex.attrs.length = Tables_mindsdb.nTerms := by decide +kernel
example : ErrLex.attrs.getD ErrLex.idTok (some "") = none := by decide +kernel

/-! ### regression theorems about the OLD one-piece variant, and necessity of the hypotheses
(none of these describes the live code any more: the defects were repaired by repo 5f4cdd1, 2c1674c, bd184d7) -/

def tk (ty : Nat) (v : String) (ln ix : Nat) : Tok := ⟨ty, v.toList, ln, ix⟩
def msg (toks : List Tok) (bad : Option Tok) : List String := (errorLocation toks bad).map String.ofList

/-- REGRESSION (old lexer, before 5f4cdd1, which stripped the `@` of `select @aa @bb`): when a value is
not its source text the carets are shorter than the source token — why `SrcChain` demands value = slice. -/
def wShort : List Tok := [tk 0 "select" 1 0, tk 1 "aa" 1 7, tk 1 "bb" 1 11]
theorem C19_regress_rewritten_value_short_caret :
    layoutOK wShort = true ∧
    msg wShort (some (tk 1 "bb" 1 11)) = ["Syntax error, unknown input:", ">select aa  bb", "------------^^"] := by
  decide

/-- REGRESSION (one-piece `errorLocation` + per-rule `lineno`, before 2c1674c / bd184d7) on
`select 'a\nb' from from`: the shown "line" contains a raw newline and the caret line does not line up
with the last printed line.  The live variant on the same text: see the example below. -/
def wNl : List Tok := [tk 0 "select" 1 0, tk 2 "'a\nb'" 1 7, tk 3 "from" 1 13, tk 3 "from" 1 18]
theorem C19_regress_onepiece_newline_in_token :
    layoutOK wNl = true ∧
    msg wNl (some (tk 3 "from" 1 18)) =
      ["Syntax error, unknown input:", ">select 'a\nb' from from", "-------------------^^^^"] := by
  decide

/-- necessity of `layoutOK` for the one-piece theorems (a value longer than the gap to the next token, not
producible by the lexer): the earlier text is truncated -/
theorem C19_outside_layout_truncation :
    layoutOK [tk 0 "abcdef" 1 0, tk 1 "x" 1 3] = false ∧
    msg [tk 0 "abcdef" 1 0, tk 1 "x" 1 3] (some (tk 1 "x" 1 3)) =
      ["Syntax error, unknown input:", ">abcx", "----^"] := by
  decide

/-! ### witnesses about the LIVE code -/

/-- (model level, artificial `valid`) the "replace" attempt of the live `make_suggestion` replaces the token
BEFORE the bad one — `tokens[:error_index - 1] + [token] + tokens[error_index:]`: with `valid` = "is `[1, 9, 3]`"
the value for type 9 is suggested at bad index 2 of `[1, 2, 3]` although neither inserting it before
token 2 nor substituting it for token 2 gives that list. -/
def wNames : Names := ⟨100, 101, 102, 103, 104⟩
def wAttr : Nat → Option (List Char) := fun t => if t = 9 then some "X".toList else if t = 8 then some "Y".toList else none
theorem C19_witness_replace_previous :
    repList [1, 2, 3] 2 9 = [1, 9, 3] ∧
    makeSuggestion (fun l => l == [1, 9, 3]) wNames wAttr [1, 2, 3] (some 2) [8, 9] = ["X".toList] ∧
    insList [1, 2, 3] 2 9 ≠ [1, 9, 3] ∧ ([1, 2].take 2 ++ [9] ++ [1, 2, 3].drop 3) ≠ [1, 9, 3] := by
  decide
/-- and for bad index 0 the slice is `tokens[:-1]`: the LAST-BUT-ONE prefix is kept -/
theorem C19_witness_replace_index0 : repList [1, 2, 3] 0 9 = [1, 2, 9, 1, 2, 3] := by decide

/-- regression pins of two repaired defects (former KF-C19-5 / KF-C19-7): an illegal character on
the first line of a multi-line text shows its line; a regex source with `\\s` or `|` gives no display value -/
example : (lexError "select #\nfrom t".toList 7).map String.ofList = [">select #", "--------^"] ∧
    (lexError "select a\nfrom t #".toList 16).map String.ofList = [">select a", ">from t #", "--------^"] := by
  decide
example : buildExpected wNames (fun t => if t = 1 then some "\\bNOT[\\s]+EXISTS\\b".toList
      else if t = 2 then some "\\bIF\\b".toList else if t = 3 then some "\\|\\|".toList else none) [1, 2, 3] [] =
    [("IF".toList, 2)] := by decide

/-- the repaired variant on `select 'a\nb' from from` (tokens after the string now on line 2): the
string is shown on two lines and the carets sit under the second `from` of the last printed line -/
example : (errorLocationV true
      [tk 0 "select" 1 0, tk 2 "'a\nb'" 1 7, tk 3 "from" 2 13, tk 3 "from" 2 18]
      (some (tk 3 "from" 2 18))).map String.ofList =
    ["Syntax error, unknown input:", ">select 'a", "> b' from from", "----------^^^^"] := by decide
/-- pins of the repaired variant (a regression of either breaks this obligation, and the probe then finds
the concrete input): `error_location` places a value part by part (2c1674c) and the lexer numbers every
token by the line on which it starts (bd184d7) — the hypotheses of `C19_caret_uniform` -/
example : ErrLex.splitValues = true ∧ ErrLex.uniformLineno = true := by decide
/-- `select a IS\nNOT null null`: the keyword split over two lines, the error on the second line -/
example : (errorLocationV true
      [tk 0 "select" 1 0, tk 1 "a" 1 7, tk 2 "IS\nNOT" 1 9, tk 3 "null" 2 16, tk 3 "null" 2 21]
      (some (tk 3 "null" 2 21))).map String.ofList =
    ["Syntax error, unknown input:", ">select a IS", "> NOT null null", "-----------^^^^"] := by decide

/-- end of input right after a token that spans lines (`… where a IS\nNOT`): the line on which the token ENDS
is the last shown line and the caret stands one past it — the case `C19_eof_caret_uniform` covers through the
last VIRTUAL token (`l` = the part `NOT` on line 2) -/
example : (errorLocationV true
      [tk 0 "select" 1 0, tk 1 "a" 1 7, tk 2 "from" 1 9, tk 1 "t" 1 14, tk 3 "where" 1 16, tk 1 "a" 1 22,
       tk 4 "IS\nNOT" 1 24] none).map String.ofList =
    ["Syntax error, unexpected end of query:", ">select a from t where a IS", "> NOT", "-----^"] := by decide
example : (virt [tk 1 "a" 1 22, tk 4 "IS\nNOT" 1 24]).getLast? = some (tk 4 "NOT" 2 27) := by decide

/-! ### non-vacuity of the one-piece theorems (old variant) -/
example : layoutOK [tk 0 "select" 1 2, tk 1 "a" 2 13, tk 1 "b" 2 15, tk 1 "c" 2 17] = true := by decide
example : msg [tk 0 "select" 1 2, tk 1 "a" 2 13, tk 1 "b" 2 15, tk 1 "c" 2 17] (some (tk 1 "c" 2 17)) =
    ["Syntax error, unknown input:", ">  select", ">     a b c", "----------^"] := by decide
example : msg [tk 0 "select" 1 2, tk 1 "a" 2 13] none =
    ["Syntax error, unexpected end of query:", ">  select", ">     a", "-------^"] := by decide

/-! ### round 5 — the lexer-error path (`MindsDBLexer.error`) over texts, every line-separator convention -/

/-- **T19.4b**: read the text in ANY way as `'\n'`-free lines `pre`, `line`, `post` joined by `'\n'`; for an
offending offset at column `col` of `line` the report shows the previous line (if there is one), then `line`,
then `col + 1` dashes and the caret.  No hypothesis on the characters: `'\r'`, form feed, U+2028 … are ordinary
characters of a line (the code splits on `'\n'` only and advances by `len(line) + 1`). -/
theorem C19_lexer_caret_text (pre post : List (List Char)) (line : List Char) (col : Nat)
    (hnl : ∀ l ∈ pre ++ line :: post, '\n' ∉ l) (hc : col < line.length) :
    lexError (termLines pre ++ line ++ sepLines post) ((termLines pre).length + col) =
      (pre.drop (pre.length - 1)).map (fun l => '>' :: l) ++
        ['>' :: line, List.replicate (col + 1) '-' ++ ['^']] := by
  unfold lexError
  rw [splitLines_of_pieces pre line post hnl, termLines_length]
  obtain ⟨ctx, _, hctx, h⟩ := C19_lexer_caret pre post line col hc
  rw [h, hctx]

/-- the line of an offset is well defined: two readings of the same text as `'\n'`-free lines that both put
the offset inside their middle line are the same reading -/
theorem C19_lexer_line_unique (pre post pre' post' : List (List Char)) (line line' : List Char) (col col' : Nat)
    (hnl : ∀ l ∈ pre ++ line :: post, '\n' ∉ l) (hnl' : ∀ l ∈ pre' ++ line' :: post', '\n' ∉ l)
    (ht : termLines pre ++ line ++ sepLines post = termLines pre' ++ line' ++ sepLines post')
    (hc : col < line.length) (hc' : col' < line'.length)
    (hi : (termLines pre).length + col = (termLines pre').length + col') :
    pre = pre' ∧ line = line' ∧ post = post' ∧ col = col' := by
  have hs : pre ++ line :: post = pre' ++ line' :: post' := by
    rw [← splitLines_of_pieces pre line post hnl, ← splitLines_of_pieces pre' line' post' hnl', ht]
  rw [termLines_length, termLines_length] at hi
  have hpre : pre = pre' := offs_locate_unique pre pre' line line' post post' col col' hs hi hc hc'
  subst hpre
  have := List.append_cancel_left hs
  simp only [List.cons.injEq] at this
  exact ⟨rfl, this.1, this.2, by omega⟩

/-- **Full statement, lexer errors**: for every text and every offset holding a character other than `'\n'`
(the rule `ignore_newline` consumes every `'\n'`, so it is never the offending character), the text IS
`pre` (each line followed by its `'\n'`) ++ `line` ++ `post` (each preceded by its `'\n'`) with `'\n'`-free
lines, the offset lies at column `col` of `line`, `line[col]` is the offending character, and the whole
`LexError` message is: header with the `repr` of that character, the previous line if any, `line`, and
`col + 1` dashes followed by `^`. -/
def C19_full_lexer_caret : Prop :=
  ∀ (text : List Char) (index : Nat) (c : Char), text[index]? = some c → c ≠ '\n' →
    ∃ (pre : List (List Char)) (line : List Char) (post : List (List Char)) (col : Nat),
      text = termLines pre ++ line ++ sepLines post ∧ (∀ l ∈ pre ++ line :: post, '\n' ∉ l) ∧
      (termLines pre).length + col = index ∧ line[col]? = some c ∧
      lexErrorMsg text index = joinWith ['\n'] (lexHeader c ::
        ((pre.drop (pre.length - 1)).map (fun l => '>' :: l) ++
          ['>' :: line, List.replicate (col + 1) '-' ++ ['^']]))

theorem C19_full_lexer_caret_holds : C19_full_lexer_caret := by
  intro text index c hc hne
  obtain ⟨pre, line, post, col, h1, h2, h3⟩ := splitLines_locate text index c hc hne
  have hnl : ∀ l ∈ pre ++ line :: post, '\n' ∉ l := by rw [← h1]; exact splitLines_mem_no_nl text
  have ht := splitLines_text text pre line post h1
  have hcol : col < line.length := by
    rcases Nat.lt_or_ge col line.length with h | h
    · exact h
    · rw [List.getElem?_eq_none h] at h3; cases h3
  refine ⟨pre, line, post, col, ht, hnl, by rw [termLines_length]; exact h2, h3, ?_⟩
  unfold lexErrorMsg
  rw [hc]
  have := C19_lexer_caret_text pre post line col hnl hcol
  rw [← ht, termLines_length, h2] at this
  rw [this]

/-- the proved part of the statement extended by the lexer-error clause -/
theorem C19_partial_r5 (T : Tables) (hv : T.valid = true) (nT : Nat) :
    (C19_full_caret ∧ C19_parser_bad_token T ∧ C19_parser_suggestion T nT) ∧ C19_full_lexer_caret :=
  ⟨C19_partial T hv nT, C19_full_lexer_caret_holds⟩

/-- non-vacuity / reading of the statement on CRLF, CR-only and form-feed texts (messages as the real
`parse_sql` gives them) -/
example : String.ofList (lexErrorMsg "select a,\r\n  b # c\r\nfrom t".toList 15) =
    "Illegal character '#':\n>select a,\r\n>  b # c\r\n-----^" := by decide
example : String.ofList (lexErrorMsg "select a\rfrom t #".toList 16) =
    "Illegal character '#':\n>select a\rfrom t #\n-----------------^" := by decide
example : String.ofList (lexErrorMsg "select a\x0cfrom t".toList 8) =
    "Illegal character '\\x0c':\n>select a\x0cfrom t\n---------^" := by decide

/-- REGRESSION (seeded change, round 5): the same loop over `str.splitlines()` with the offset still advanced by
`len(line) + 1`.  After one CRLF the caret stands one column too far right … -/
theorem C19_regress_splitlines_crlf :
    (lexErrorSL "select a,\r\n  b # c\r\nfrom t".toList 15).map String.ofList =
      [">select a,", ">  b # c", "------^"] ∧
    (lexError "select a,\r\n  b # c\r\nfrom t".toList 15).map String.ofList =
      [">select a,\r", ">  b # c\r", "-----^"] := by decide
/-- … after two CRLFs with the character at the end of its line no line matches: the FIRST line is echoed … -/
theorem C19_regress_splitlines_wrong_line :
    (lexErrorSL "select a\r\nfrom t\r\nwhere a = 1 #".toList 30).map String.ofList = [">select a", "-^"] ∧
    (lexError "select a\r\nfrom t\r\nwhere a = 1 #".toList 30).map String.ofList =
      [">from t\r", ">where a = 1 #", "-------------^"] := by decide
/-- … and a separator that is itself the offending character (form feed) is on no line at all -/
theorem C19_regress_splitlines_separator_char :
    (lexErrorSL "select a\x0cfrom t".toList 8).map String.ofList = [">select a", "-^"] ∧
    (lexError "select a\x0cfrom t".toList 8).map String.ofList = [">select a\x0cfrom t", "---------^"] := by decide

/-- pins of what the text-level model assumes about the live `MindsDBLexer.error` (behavioural flags of the
extractor): it breaks echoed lines at `'\n'` only, and on two-line probe texts over every separator sequence
the caret column holds the offending character -/
example : ErrLex.lexLineSeps = [10] := by decide
example : ErrLex.lexCaretOnChar = true := by decide

end MindsVerif.Props.C19
