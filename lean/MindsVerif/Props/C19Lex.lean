import MindsVerif.Lemmas.ErrSrc
import MindsVerif.Lemmas.SlyLexSound
import MindsVerif.Model.TextParse
import MindsVerif.Gen.LexRe_mindsdb
/-!
# C19 ← the lexer model: the hypothesis `SrcChain` of the caret theorems is what the lexer produces

`C19_full_caret_holds` and its companions (`Props/C19.lean`) are stated for every source text and token list with
`SrcChain src 0 toks` — "the uniform lexer semantics": a token's value is its source slice, its `lineno` is one plus
the number of newlines before its `index`, tokens do not overlap.  Until now that was a hypothesis about the lexer.

Here the token list is the OUTPUT OF THE LEXER MODEL (`SlyLex.lex` over the live master regex) decorated the way
`MindsDBLexer.tokenize` decorates it (value = `text[index:end]`: no token function of the MindsDB lexer rewrites the
value; `lineno` = `lineno + text.count('\n', pos, tok.index)` accumulated = one plus the newlines before `index`):
`lexed_srcChain` proves `SrcChain` for it, for every text.  The two decoration facts are tied to the code by the
stream `slylex` (field check `value == text[index:end]`, `lineno == 1 + text.count('\n', 0, index)` on every token
of every text of the stream, MindsDB dialect).
-/
namespace MindsVerif.Props.C19Lex
open MindsVerif.Re MindsVerif.SlyLex MindsVerif.Err MindsVerif.TextParse

def chars (s : List Nat) : List Char := s.map Char.ofNat

/-- a lexer-model token as the MindsDB lexer hands it to the parser -/
def toTok (names : List String) (s : List Nat) (x : String × Nat × Nat) : Tok :=
  { type := tid names x.1
    value := chars ((s.drop x.2.1).take (x.2.2 - x.2.1))
    lineno := 1 + nlCount ((chars s).take x.2.1)
    index := x.2.1 }

theorem chain_srcChain (names : List String) (s : List Nat) :
    ∀ (toks : List (String × Nat × Nat)) (e : Nat), Chain s.length e toks →
      SrcChain (chars s) e (toks.map (toTok names s)) := by
  intro toks
  induction toks with
  | nil => intro e _; simp [SrcChain]
  | cons x r ih =>
    intro e h
    obtain ⟨n, a, b⟩ := x
    obtain ⟨h1, h2, h3, h4⟩ := h
    have hlen : ((s.drop a).take (b - a)).length = b - a := by
      simp only [List.length_take, List.length_drop]
      omega
    simp only [List.map_cons, SrcChain]
    refine ⟨h1, ⟨?_, rfl⟩, ?_⟩
    · simp only [toTok, chars, List.length_map, hlen]
      rw [← List.map_drop, ← List.map_take]
    · have : (toTok names s (n, a, b)).index + (toTok names s (n, a, b)).value.length = b := by
        simp only [toTok, chars, List.length_map, hlen]
        omega
      rw [this]
      exact ih b h4

/-- **the lexer model's output satisfies the lexer semantics the caret theorems assume** — every configuration,
every text -/
theorem lexed_srcChain (c : SlyLex.Cfg) (names : List String) (s : List Nat) (segs : List Seg)
    (h : lex c s = .ok segs) : SrcChain (chars s) 0 ((tokensFrom 0 segs).map (toTok names s)) := by
  have h1 := tokensFrom_chain segs 0 (lex_ok_tokNonempty c s segs h)
  rw [lex_ok_tiles c s segs h] at h1
  exact chain_srcChain names s _ 0 (by simpa using h1)

/-- … also for the tokens read before a `LexError` (what `error_info['tokens']` holds when the lexer raises) -/
theorem lexed_err_srcChain (c : SlyLex.Cfg) (names : List String) (s : List Nat) (i : Nat) (segs : List Seg)
    (h : lex c s = .err i segs) : SrcChain (chars s) 0 ((tokensFrom 0 segs).map (toTok names s)) := by
  have hok := lex_err_allOK c s i segs h
  have h1 := tokensFrom_chain segs 0 hok.tokNonempty
  obtain ⟨ch, t, e1, _, _, _⟩ := lex_err_spec c s i segs h
  have hle : 0 + (flat segs).length ≤ s.length := by rw [← e1]; simp
  have : Chain s.length 0 (tokensFrom 0 segs) := by
    have mono : ∀ (toks : List (String × Nat × Nat)) (e l l' : Nat), l ≤ l' → Chain l e toks → Chain l' e toks := by
      intro toks
      induction toks with
      | nil => intro _ _ _ _ _; trivial
      | cons x r ih =>
        obtain ⟨n, a, b⟩ := x
        intro e l l' hl hc
        obtain ⟨c1, c2, c3, c4⟩ := hc
        exact ⟨c1, c2, Nat.le_trans c3 hl, ih b l l' hl c4⟩
    exact mono _ 0 _ _ hle h1
  exact chain_srcChain names s _ 0 this

/-- instantiated for the live MindsDB lexer -/
theorem lexed_srcChain_mindsdb (s : List Nat) (segs : List Seg)
    (h : lex MindsVerif.Gen.LexRe_mindsdb.cfg s = .ok segs) :
    SrcChain (chars s) 0 ((tokensFrom 0 segs).map (toTok MindsVerif.Gen.LexRe_mindsdb.termNames s)) :=
  lexed_srcChain _ _ s segs h

/-- non-vacuity: a two-line text; the second token sits on line 2 -/
theorem lexed_example :
    (match lex MindsVerif.Gen.LexRe_mindsdb.cfg [115, 101, 108, 101, 99, 116, 10, 32, 49] with
     | .ok segs => ((tokensFrom 0 segs).map (toTok MindsVerif.Gen.LexRe_mindsdb.termNames
         [115, 101, 108, 101, 99, 116, 10, 32, 49])).map (fun t => (t.lineno, t.index, t.value.length))
     | _ => []) = [(1, 0, 6), (2, 8, 1)] := by
  decide +kernel

-- [review] `chars` is total through `Char.ofNat`: a lone surrogate (a legal element of a Python `str`, and of the texts the
-- lexer theorems range over) and every number ≥ 0x110000 become NUL.  The theorems of this file therefore speak about the
-- text with its surrogates REPLACED BY NUL; newline counting and lengths are not affected (10 ↦ '\n' only), values are.
example : chars [55296, 97] = chars [0, 97] := by decide

end MindsVerif.Props.C19Lex
