import MindsVerif.Lemmas.Iso
import MindsVerif.Lemmas.Reuse
import MindsVerif.Lemmas.IsoW
/-!
# C20 — calls are isolated  (logical structure)

* `C20_noninterference`: in a system whose calls step private state and only read the shared store,
  the state of call `i` after ANY schedule is the state reached by running call `i` alone for as
  many steps as the schedule gave it — whatever the other calls did, in whatever interleaving.
* `C20_result_schedule_independent`: hence two schedules that give call `i` enough steps to finish
  yield the same result for it.
* `C20_lazy_global`: a lazily filled global set returns the same *set* from every reachable state
  (history independence of `get_reserved_words`).

Partial by nature: the assumptions (per-call objects are fresh; class-level tables are never
written; CPython executes each modelled step atomically w.r.t. the private state) are checked on the
real code by the harness (identity checks, deep hashes of class-level state before/after batches,
thread stress, shuffled histories, several PYTHONHASHSEED values), not proved; byte-code level
interleavings are sampled, not enumerated.
-/
namespace MindsVerif.Props.C20
open MindsVerif.Iso

/-- **non-interference** -/
theorem C20_noninterference {Sh σ ρ : Type} (f : Sh → σ → Cell σ ρ) (sh : Sh) (i : Nat) :
    ∀ (sched : List Nat) (st : List (Cell σ ρ)),
      (runSched f sh sched st)[i]? = (st[i]?).map (iter (stepCell f sh) (sched.count i)) := by
  intro sched
  induction sched with
  | nil => intro st; simp [runSched, iter]
  | cons j js ih =>
    intro st
    have hrun : runSched f sh (j :: js) st = runSched f sh js (stepAt f sh j st) := rfl
    rw [hrun, ih]
    by_cases h : j = i
    · subst h
      rw [stepAt_self]
      cases st[j]? with
      | none => simp
      | some c => simp [List.count_cons_self, iter]
    · rw [stepAt_other f sh i j st (Ne.symm h)]
      have : (j :: js).count i = js.count i := by simp [h]
      rw [this]

/-- **schedule independence of results**: if call `i` finishes with `r` after `k` of its own steps,
then under every schedule that gives it at least `k` steps its cell is `inr r`. -/
theorem C20_result_schedule_independent {Sh σ ρ : Type} (f : Sh → σ → Cell σ ρ) (sh : Sh) (i : Nat)
    (st : List (Cell σ ρ)) (c : Cell σ ρ) (hc : st[i]? = some c) (k : Nat) (r : ρ)
    (hk : iter (stepCell f sh) k c = .inr r) (sched : List Nat) (hs : k ≤ sched.count i) :
    (runSched f sh sched st)[i]? = some (.inr r) := by
  rw [C20_noninterference, hc]
  obtain ⟨d, hd⟩ := Nat.exists_eq_add_of_le hs
  simp only [Option.map_some, hd, iter_add, hk, iter_done]

/-- **history independence of the lazily filled global**: as a set, the value returned does not
depend on how often the getter ran before. -/
theorem C20_lazy_global (w g : List Nat) (x : Nat) :
    x ∈ (lazyGet w (lazyGet w g).1).2 ↔ x ∈ (lazyGet w g).2 := by
  simp only [lazyGet, List.mem_append, List.mem_filter, Bool.not_eq_true', List.contains_eq_mem,
    decide_eq_false_iff_not]
  constructor
  · rintro (h | ⟨_, h⟩)
    · exact h
    · exact absurd (by assumption) (by intro; simp_all)
  · intro h; exact Or.inl h

/-! non-vacuity: two calls, an adversarial interleaving, same results as solo runs -/
def demoStep (sh : Nat) (s : Nat × Nat) : Cell (Nat × Nat) Nat :=
  if s.1 = 0 then .inr (s.2 + sh) else .inl (s.1 - 1, s.2 + s.1)
example : (runSched demoStep 5 [0, 1, 1, 0, 1, 0, 0, 1] [.inl (2, 0), .inl (3, 10)])
    = [.inr 8, .inr 21] := by decide
example : (runSched demoStep 5 [1, 1, 1, 1, 0, 0, 0] [.inl (2, 0), .inl (3, 10)])
    = [.inr 8, .inr 21] := by decide


/-! ## [review] additions

[review] Reading guide.  In `C20_noninterference` the shared store `sh` is a *parameter* of `runSched` (nothing can
write it) and a step of call `j` is `List.modify j`, so "call `i` is not affected by the others" is built into the
shape of the model: the theorem is the bookkeeping fact that `modify j` does not touch index `i ≠ j`.  It says
nothing about `mindsdb_sql` until the run-time checks establish that the code has that shape; every piece of
evidence about the real library for C20 is dynamic (see the header and `ASSUME`).  `C20_lazy_global` is a
single-threaded idempotence fact about a *separate* model (`lazyGet`, not connected to `runSched`, and not tied to
`identifier.py:get_reserved_words` by any correspondence stream).

The additions below connect the two: a system in which every step first runs the lazy getter — which WRITES the
shared set, as `get_reserved_words()` does (`reserved = RESERVED_KEYWORDS; reserved.add(word)`) — and then reads the
set only through membership.  From every partially filled state `g0 ⊆ g ⊆ g0 ∪ w` (e.g. another thread is in the
middle of its fill loop) and under every schedule, call `i` ends exactly where it ends when run alone against the
completely filled set.  The hypothesis that makes a written shared store harmless is explicit here: the write is
monotone and idempotent and readers only observe the store *after* their own getter call, and only as a set.
This is realistic for `RESERVED_KEYWORDS`; it is NOT established for SQLAlchemy's memoised attributes / compiled
caches (the class-state digest of `tools/props/c20.py` skips `memoized_property` & co.). -/

-- [review]
/-- the set returned from ANY state `g` of the global is `g ∪ w` (not only from states left by a complete earlier call, as in `C20_lazy_global`) -/
theorem C20_review_lazy_global_any_state (w g : List Nat) (x : Nat) :
    x ∈ (lazyGet w g).2 ↔ (x ∈ g ∨ x ∈ w) := by
  simp only [lazyGet, List.mem_append, List.mem_filter, Bool.not_eq_true', List.contains_eq_mem,
    decide_eq_false_iff_not]
  constructor
  · rintro (h | ⟨h, _⟩)
    · exact Or.inl h
    · exact Or.inr h
  · rintro (h | h)
    · exact Or.inl h
    · by_cases hg : x ∈ g
      · exact Or.inl hg
      · exact Or.inr ⟨h, hg⟩

-- [review]
theorem C20_review_lazy_global_interleaved (w g0 g : List Nat)
    (hlo : ∀ x, x ∈ g0 → x ∈ g) (hhi : ∀ x, x ∈ g → x ∈ g0 ∨ x ∈ w) (x : Nat) :
    x ∈ (lazyGet w g).2 ↔ x ∈ (lazyGet w g0).2 := by
  rw [C20_review_lazy_global_any_state, C20_review_lazy_global_any_state]
  constructor
  · rintro (h | h)
    · exact hhi x h
    · exact Or.inr h
  · rintro (h | h)
    · exact Or.inl (hlo x h)
    · exact Or.inr h

-- [review]
/-- one step of call `i` in a system whose shared store IS written -/
def stepAtG {σ ρ : Type} (w : List Nat) (f : (Nat → Bool) → σ → Cell σ ρ) (i : Nat)
    (p : List Nat × List (Cell σ ρ)) : List Nat × List (Cell σ ρ) :=
  let g' := (lazyGet w p.1).1
  (g', stepAt f (fun x => g'.contains x) i p.2)

-- [review]
def runSchedG {σ ρ : Type} (w : List Nat) (f : (Nat → Bool) → σ → Cell σ ρ) (sched : List Nat)
    (p : List Nat × List (Cell σ ρ)) : List Nat × List (Cell σ ρ) :=
  sched.foldl (fun p i => stepAtG w f i p) p

-- [review]
theorem runSchedG_eq {σ ρ : Type} (w g0 : List Nat) (f : (Nat → Bool) → σ → Cell σ ρ) :
    ∀ (sched : List Nat) (g : List Nat) (st : List (Cell σ ρ)),
      (∀ x, (x ∈ g ∨ x ∈ w) ↔ (x ∈ g0 ∨ x ∈ w)) →
      (runSchedG w f sched (g, st)).2 = runSched f (fun x => (g0 ++ w).contains x) sched st := by
  intro sched
  induction sched with
  | nil => intro g st _; rfl
  | cons j js ih =>
    intro g st hinv
    have hmem : ∀ x, x ∈ (lazyGet w g).1 ↔ (x ∈ g ∨ x ∈ w) := C20_review_lazy_global_any_state w g
    have hpred : (fun x => (lazyGet w g).1.contains x) = (fun x => (g0 ++ w).contains x) := by
      funext x
      have h1 := hmem x
      have h2 := hinv x
      by_cases hx : x ∈ (lazyGet w g).1
      · have : x ∈ g0 ++ w := by simpa using h2.mp (h1.mp hx)
        simp [List.contains_eq_mem, hx, this]
      · have : ¬ x ∈ g0 ++ w := by
          intro hc; exact hx (h1.mpr (h2.mpr (by simpa using hc)))
        simp [List.contains_eq_mem, hx, this]
    have hstep : runSchedG w f (j :: js) (g, st)
        = runSchedG w f js ((lazyGet w g).1, stepAt f (fun x => (lazyGet w g).1.contains x) j st) := rfl
    rw [hstep, hpred]
    have hrun : runSched f (fun x => (g0 ++ w).contains x) (j :: js) st
        = runSched f (fun x => (g0 ++ w).contains x) js (stepAt f (fun x => (g0 ++ w).contains x) j st) := rfl
    rw [hrun]
    apply ih
    intro x
    rw [hmem x]
    constructor
    · rintro (h | h)
      · exact (hinv x).mp h
      · exact Or.inr h
    · intro h
      exact Or.inl ((hinv x).mpr h)

-- [review]
theorem C20_review_noninterference_lazy_write {σ ρ : Type} (w g0 g : List Nat)
    (f : (Nat → Bool) → σ → Cell σ ρ) (i : Nat) (sched : List Nat) (st : List (Cell σ ρ))
    (hlo : ∀ x, x ∈ g0 → x ∈ g) (hhi : ∀ x, x ∈ g → x ∈ g0 ∨ x ∈ w) :
    (runSchedG w f sched (g, st)).2[i]? =
      (st[i]?).map (iter (stepCell f (fun x => (g0 ++ w).contains x)) (sched.count i)) := by
  rw [runSchedG_eq w g0 f sched g st, C20_noninterference]
  intro x
  constructor
  · rintro (h | h)
    · exact hhi x h
    · exact Or.inr h
  · rintro (h | h)
    · exact Or.inl (hlo x h)
    · exact Or.inr h

-- [review]
def demoStepG (memb : Nat → Bool) (s : Nat × Nat) : Cell (Nat × Nat) Nat :=
  if s.1 = 0 then .inr s.2 else .inl (s.1 - 1, s.2 + (if memb s.1 then 100 else 1))

-- [review]
example : runSchedG [1, 2, 3] demoStepG [0, 1, 1, 0, 1, 0, 0, 1] ([7], [.inl (2, 0), .inl (3, 10)])
    = ([7, 1, 2, 3], [.inr 200, .inr 310]) := by decide
-- [review]
example : runSchedG [1, 2, 3] demoStepG [1, 1, 1, 1, 0, 0, 0] ([7, 2], [.inl (2, 0), .inl (3, 10)])
    = ([7, 2, 1, 3], [.inr 200, .inr 310]) := by decide
-- a reader that looks at the global WITHOUT running the getter first would see the difference
-- [review]
example : (demoStepG (fun x => [7].contains x) (2, 0), demoStepG (fun x => [7, 1, 2, 3].contains x) (2, 0))
    = (.inl (1, 1), .inl (1, 100)) := by decide

/-! ## Round 5 — REUSED objects

The theorems above give every call a fresh private cell.  `SqlalchemyRender`, `QueryPlanner` and the lexer / parser
pairs of `get_lexer_parser` are objects a caller may keep and call again; seed C20_10 hoisted the `sa.MetaData()` of
CREATE / DROP TABLE into the renderer, so that what a renderer returns depended on what it had rendered before —
invisible to every stream that builds a new object per call.

`Model/Reuse.lean`: an object is a store of attributes; a call has a footprint (exposed reads, net writes).
* `C20_reuse_history_independent`: if the call semantics respects the footprints and the call reads nothing that a
  call of the history may have written (`frameOkFor`, decidable on a finite footprint table), the result after ANY
  history is the result on the object as constructed.
* `C20_reuse_any_two_histories`, `C20_reuse_table_history_independent`: the same for two histories, and for a
  generated table (`tableOk`; calls = rows).
* `C20_reuse_memo_transparent`: attributes that are memo tables of a pure function (filled by calls, consulted
  through look-up only, consistent at the start) do not count: with them the result is still the memo-free one.
* `C20_witness_reuse_*`: the registry object (`Reg`) violates the frame condition and IS history dependent
  (CREATE after CREATE, CREATE after DROP, SELECT after a statement with a CTE of that name); the repaired object
  satisfies the condition.
What ties this to the code: `tools/extract/x_footprint.py` probes the footprint table on the live objects on every
run (`Gen/Footprint.lean`), `Props/C20B.lean` decides the frame condition on it in the kernel, and the `reuse-*`
streams of `tools/props/c20.py` compare every call of random sessions on ONE reused object with the same call on a
fresh object in a pristine process.  `Respects` itself (the trace sees every dependence) is assumed, not proved. -/

section Reuse
open MindsVerif.Reuse

/-- **history independence of a reused object** -/
theorem C20_reuse_history_independent {κ V C R : Type} [BEq κ] [LawfulBEq κ]
    (run : C → Obj κ V → Obj κ V × R) (fp : C → Foot κ) (hr : Respects run fp)
    (h : List C) (c : C) (hok : frameOkFor fp h c = true) (s : Obj κ V) :
    (run c (runHist run h s)).2 = (run c s).2 := by
  apply hr.reads_only
  intro k hk
  exact runHist_untouched run fp hr k h s (fun c' hc' => frameOkFor_spec fp h c hok c' hc' k hk)

/-- any two histories over entry points that satisfy the pairwise frame condition give the same result -/
theorem C20_reuse_any_two_histories {κ V C R : Type} [BEq κ] [LawfulBEq κ]
    (run : C → Obj κ V → Obj κ V × R) (fp : C → Foot κ) (hr : Respects run fp) (calls : List C)
    (hok : frameOk fp calls = true) (h₁ h₂ : List C) (c : C) (hc : c ∈ calls)
    (hh₁ : ∀ c', c' ∈ h₁ → c' ∈ calls) (hh₂ : ∀ c', c' ∈ h₂ → c' ∈ calls) (s : Obj κ V) :
    (run c (runHist run h₁ s)).2 = (run c (runHist run h₂ s)).2 := by
  rw [C20_reuse_history_independent run fp hr h₁ c (frameOk_spec fp calls h₁ c hok hc hh₁),
    C20_reuse_history_independent run fp hr h₂ c (frameOk_spec fp calls h₂ c hok hc hh₂)]

/-- the same on a footprint table as generated (calls are row numbers): this is the statement
`Props/C20B.lean` instantiates with `Gen.Footprint` -/
theorem C20_reuse_table_history_independent {V R : Type} (tbl : List Row) (hok : tableOk tbl = true)
    (run : Nat → Obj String V → Obj String V × R) (hr : Respects run (footOf tbl))
    (h : List Nat) (c : Nat) (hc : c < tbl.length) (hh : ∀ c', c' ∈ h → c' < tbl.length) (s : Obj String V) :
    (run c (runHist run h s)).2 = (run c s).2 := by
  apply C20_reuse_history_independent run (footOf tbl) hr h c _ s
  apply frameOk_spec (footOf tbl) (List.range tbl.length) h c hok
  · exact List.mem_range.mpr hc
  · intro c' hc'; exact List.mem_range.mpr (hh c' hc')

/-- **memo tables are transparent**: calls that consult a memo table of a pure function `g` only through look-up
and fill it with values of `g` give, after any history and from any consistent memo table, the result of the
memo-free semantics `runM c g` on the object as constructed (frame condition on the remaining attributes). -/
theorem C20_reuse_memo_transparent {κ V C R μ W : Type} [BEq κ] [LawfulBEq κ] [DecidableEq μ]
    (g : μ → W) (runM : C → (μ → W) → Obj κ V → Obj κ V × R × List μ) (fp : C → Foot κ)
    (hr : Respects (fun c s => ((runM c g s).1, (runM c g s).2.1)) fp)
    (h : List C) (c : C) (hok : frameOkFor fp h c = true) (s : Obj κ V) (m : μ → Option W)
    (hm : Consistent g m) :
    (runMemo g runM c (runHistMemo g runM h (s, m))).2 = (runM c g s).2.1 := by
  have key : ∀ (h : List C) (s : Obj κ V) (m : μ → Option W), Consistent g m →
      (runHistMemo g runM h (s, m)).1 = runHist (fun c s => ((runM c g s).1, (runM c g s).2.1)) h s ∧
      Consistent g (runHistMemo g runM h (s, m)).2 := by
    intro h
    induction h with
    | nil => intro s m hm; exact ⟨rfl, hm⟩
    | cons c h ih =>
      intro s m hm
      have hstep : runHistMemo g runM (c :: h) (s, m)
          = runHistMemo g runM h ((runM c g s).1, fill g m (runM c g s).2.2) := by
        simp only [runHistMemo, List.foldl_cons, runMemo, lookup_consistent g m hm]
      rw [hstep]
      exact ih _ _ (fill_consistent g m _ hm)
  obtain ⟨h1, h2⟩ := key h s m hm
  have hres : (runMemo g runM c (runHistMemo g runM h (s, m))).2
      = (runM c g (runHistMemo g runM h (s, m)).1).2.1 := by
    simp only [runMemo, lookup_consistent g _ h2]
  rw [hres, h1]
  exact C20_reuse_history_independent (fun c s => ((runM c g s).1, (runM c g s).2.1)) fp hr h c hok s

/-! ### witnesses: the registry object (seed C20_10's `self.metadata`; the planner's `cte_results`) -/

/-- the registry object respects its footprints … -/
theorem regRun_respects : Respects regRun regFoot := by
  constructor
  · intro c s s' hs
    cases c with
    | define n => rfl
    | use n => simp only [regRun]; rw [hs () (by simp [regFoot])]
    | create n => simp only [regRun]; rw [hs () (by simp [regFoot])]
  · intro c s k hk
    cases c with
    | define n => exact absurd (by simp [regFoot]) hk
    | use n => rfl
    | create n => exact absurd (by simp [regFoot]) hk

/-- … but violates the frame condition (kernel-decided, like the obligation on the generated table) -/
theorem C20_witness_reuse_frame_broken :
    frameOk regFoot [.create 1, .define 1, .use 1] = false := by decide

/-- CREATE TABLE 1 rendered a second time by the same object differs from the first time (seed C20_10) -/
theorem C20_witness_reuse_create_twice :
    (regRun (.create 1) (runHist regRun [.create 1] (fun _ => []))).2 ≠ (regRun (.create 1) (fun _ => [])).2 := by
  decide

/-- DROP TABLE 1 then CREATE TABLE 1 (seed C20_10), and: a statement that plans CTE 1, then SELECT … FROM 1 on the
same planner (KF-C20-r5-1, `QueryPlanner.cte_results`); other names are not affected -/
theorem C20_witness_reuse_define_then_use :
    (regRun (.create 1) (runHist regRun [.define 1] (fun _ => []))).2 ≠ (regRun (.create 1) (fun _ => [])).2 ∧
    (regRun (.use 1) (runHist regRun [.define 1] (fun _ => []))).2 ≠ (regRun (.use 1) (fun _ => [])).2 ∧
    (regRun (.use 2) (runHist regRun [.define 1, .create 3] (fun _ => []))).2 = (regRun (.use 2) (fun _ => [])).2 := by
  decide

/-- the repaired object (registry emptied at the start of every call) respects footprints without exposed reads,
satisfies the frame condition for every set of calls, hence is history independent -/
theorem regRunFixed_respects : Respects regRunFixed regFootFixed := by
  constructor
  · intro c s s' _; rfl
  · intro c s k hk
    cases c <;> exact absurd (by simp [regFootFixed]) hk

theorem C20_witness_reuse_fixed (h : List RegCall) (c : RegCall) (s : Obj Unit (List Nat)) :
    (regRunFixed c (runHist regRunFixed h s)).2 = (regRunFixed c s).2 := by
  apply C20_reuse_history_independent regRunFixed regFootFixed regRunFixed_respects h c _ s
  simp only [frameOkFor, List.all_eq_true]
  intro c' _ k hk
  cases c <;> simp [regFootFixed] at hk

/-! non-vacuity of the table form: a two-row table (a renderer whose calls read `dialect`, `types_map` and write a
memo path below `dialect`) is not ok as it stands, ok once the memo path is stripped; hoisting `metadata` breaks it -/
def demoTbl : List Row :=
  [⟨"get_string", ["dialect", "types_map"], [("dialect", "dialect.identifier_preparer._strings")]⟩,
   ⟨"get_exec_params", ["dialect", "types_map"], []⟩]
def demoTblSeed : List Row :=
  [⟨"get_string", ["dialect", "metadata", "types_map"],
    [("dialect", "dialect.identifier_preparer._strings"), ("metadata", "metadata.tables")]⟩,
   ⟨"get_exec_params", ["dialect", "types_map"], []⟩]
example : tableOk demoTbl = false := by decide
example : tableOk (demoTbl.map (strip ["dialect.identifier_preparer._strings"])) = true := by decide
example : tableOk (demoTblSeed.map (strip ["dialect.identifier_preparer._strings"])) = false := by decide
example : conflicts (demoTblSeed.map (strip ["dialect.identifier_preparer._strings"]))
    = [("get_string", "get_string", "metadata.tables")] := by decide

/-- memo non-vacuity: a renderer-like call that quotes name `k` through the memo table: same answer from the empty
and from a filled consistent table; a STALE entry (seed C20_6: the rule changed after the entry was stored) shows -/
def demoQuote (k : Nat) : Bool := k % 2 == 0
def demoRunM (c : Nat) (q : Nat → Bool) (s : Obj Unit Nat) : Obj Unit Nat × Bool × List Nat := (s, q c, [c])
example : (runMemo demoQuote demoRunM 4 (runHistMemo demoQuote demoRunM [4, 3, 4] (fun _ => 0, fun _ => none))).2
    = true := by decide
example : (runMemo demoQuote demoRunM 4 (fun _ => 0, fun k => if k = 4 then some false else none)).2 = false := by
  decide

end Reuse

/-! ## Round 6 — error texts across hash seeds; shared state written for the duration of a call

**C20_11** lists, in a planner error message, the content of `QueryPlanner.databases` — a list that is partly
`list(<set of str>)`, so its ORDER differs between processes with different `PYTHONHASHSEED`.  As long as such a
collection is only asked for membership the order cannot show (`C20_order_blind`); printing it makes it show
(`C20_witness_order_observed`).  Tie: `hash_order_stream` of `tools/props/c20.py` finds the attributes of a new planner
whose order differs between the hash-seed subprocesses and permutes them in-process before planning (all results, error
texts included, must stay the same); the hash-seed subprocesses themselves now plan — mostly failing — statements over
generated catalogs with several projects / integrations / predictor namespaces and no default namespace.

**C20_12** switches a module-level variable for the duration of a call and restores it.  `runSchedW` (`Model/IsoW.lean`)
threads the shared store through the schedule, one step = the stretch of a call between two entries into library
functions.  If every step leaves the store as it found it, the system IS the read-only system of `C20_noninterference`
(`C20_quiet_steps_noninterference`); a call that is quiet only as a WHOLE is invisible to sequential callers but not
to a call scheduled in between, and two of them can leave the store changed for good (`C20_witness_transient_*`).
Tie: `tools/harness/interleave.py` compares, at every entry into a library function during a call, all data attributes
of the `mindsdb_sql` modules and their classes with their values at the start of the call (`Gen.Footprint.moduleWrites`,
decided empty-up-to-the-lazy-global by `C20B_module_quiet`) and runs other calls AT those boundaries — each a legal
two-thread schedule, executed deterministically. -/

section Round6

/-- a collection that is only asked for membership cannot show its order -/
theorem C20_order_blind {α β : Type} [BEq α] [LawfulBEq α] (g : (α → Bool) → β) (l l' : List α)
    (h : l.Perm l') : g (fun x => l.contains x) = g (fun x => l'.contains x) := by
  congr 1
  funext x
  simp only [List.contains_eq_mem]
  exact decide_eq_decide.mpr h.mem_iff

/-- … joining it into a message does (seed C20_11: `", ".join(self.databases)`) -/
theorem C20_witness_order_observed :
    ", ".intercalate ["hr_project", "mindsdb"] ≠ ", ".intercalate ["mindsdb", "hr_project"] := by decide

/-- **quiet steps ⇒ the read-only system**: if every step leaves the shared store as it found it, running any schedule
in the system whose steps may write the store is running it in the system of `C20_noninterference` -/
theorem C20_quiet_steps_noninterference {Sh σ ρ : Type} (f : Sh → σ → Cell σ ρ × Sh)
    (hq : ∀ sh s, (f sh s).2 = sh) (sh : Sh) (sched : List Nat) (st : List (Cell σ ρ)) (i : Nat) :
    (runSchedW f sched (sh, st)).1 = sh ∧
    (runSchedW f sched (sh, st)).2[i]? =
      (st[i]?).map (iter (stepCell (fun sh s => (f sh s).1) sh) (sched.count i)) := by
  rw [runSchedW_quiet f hq sh sched st]
  exact ⟨rfl, C20_noninterference (fun sh s => (f sh s).1) sh i sched st⟩

/-- call 0 switches the store to 1 while it prints and restores it; call 1 is a plain print.  One after the other:
call 1 sees the original store, the store ends as it started — what every sequential test sees -/
theorem C20_witness_transient_sequential_invisible :
    runSchedW quoteStep [0, 0, 0, 1, 1, 1] (0, [.inl (0, some 1, 0, 0), .inl (0, none, 0, 0)])
      = (0, [.inr 1, .inr 0]) ∧
    runSchedW quoteStep [1, 1, 1, 0, 0, 0] (0, [.inl (0, some 1, 0, 0), .inl (0, none, 0, 0)])
      = (0, [.inr 1, .inr 0]) := ⟨by decide, by decide⟩

/-- call 1 scheduled between the switch and the restore of call 0 prints with the switched value (seed C20_12) -/
theorem C20_witness_transient_interleaved :
    runSchedW quoteStep [0, 1, 1, 1, 0, 0] (0, [.inl (0, some 1, 0, 0), .inl (0, none, 0, 0)])
      = (0, [.inr 1, .inr 1]) := by decide

/-- two switching calls that overlap restore in the wrong order: the second prints with the ORIGINAL value and the
store stays switched for good -/
theorem C20_witness_transient_left_behind :
    runSchedW quoteStep [0, 1, 0, 0, 1, 1] (0, [.inl (0, some 1, 0, 0), .inl (0, some 1, 0, 0)])
      = (1, [.inr 1, .inr 0]) := by decide

/-- `quoteStep` is not step-quiet (so `C20_quiet_steps_noninterference` does not apply), a plain print is -/
example : (quoteStep 0 (0, some 1, 0, 0)).2 ≠ 0 := by decide
example : ∀ sh : Fin 3, (quoteStep sh.val (0, none, 0, 0)).2 = sh.val := by decide

end Round6

end MindsVerif.Props.C20
