import MindsVerif.Lemmas.Iso
/-!
# C20 — calls are isolated  (logical structure)

* `C20_noninterference`: in a system whose calls step private state and only read the shared store,
  the state of call `i` after ANY schedule is the state reached by running call `i` alone for as
  many steps as the schedule gave it — whatever the other calls did, in whatever interleaving.
* `C20_result_schedule_independent`: hence two schedules that give call `i` enough steps to finish
  yield the same result for it.
* `C20_lazy_global`: a lazily filled global set returns the same *set* from every reachable state
  (history independence of `get_reserved_words`).

Partial by nature: the assumptions (per-call objects are fresh; class-level tables are never
written; CPython executes each modelled step atomically w.r.t. the private state) are checked on the
real code by the harness (identity checks, deep hashes of class-level state before/after batches,
thread stress, shuffled histories, several PYTHONHASHSEED values), not proved; byte-code level
interleavings are sampled, not enumerated.
-/
namespace MindsVerif.Props.C20
open MindsVerif.Iso

/-- **non-interference** -/
theorem C20_noninterference {Sh σ ρ : Type} (f : Sh → σ → Cell σ ρ) (sh : Sh) (i : Nat) :
    ∀ (sched : List Nat) (st : List (Cell σ ρ)),
      (runSched f sh sched st)[i]? = (st[i]?).map (iter (stepCell f sh) (sched.count i)) := by
  intro sched
  induction sched with
  | nil => intro st; simp [runSched, iter]
  | cons j js ih =>
    intro st
    have hrun : runSched f sh (j :: js) st = runSched f sh js (stepAt f sh j st) := rfl
    rw [hrun, ih]
    by_cases h : j = i
    · subst h
      rw [stepAt_self]
      cases st[j]? with
      | none => simp
      | some c => simp [List.count_cons_self, iter]
    · rw [stepAt_other f sh i j st (Ne.symm h)]
      have : (j :: js).count i = js.count i := by simp [h]
      rw [this]

/-- **schedule independence of results**: if call `i` finishes with `r` after `k` of its own steps,
then under every schedule that gives it at least `k` steps its cell is `inr r`. -/
theorem C20_result_schedule_independent {Sh σ ρ : Type} (f : Sh → σ → Cell σ ρ) (sh : Sh) (i : Nat)
    (st : List (Cell σ ρ)) (c : Cell σ ρ) (hc : st[i]? = some c) (k : Nat) (r : ρ)
    (hk : iter (stepCell f sh) k c = .inr r) (sched : List Nat) (hs : k ≤ sched.count i) :
    (runSched f sh sched st)[i]? = some (.inr r) := by
  rw [C20_noninterference, hc]
  obtain ⟨d, hd⟩ := Nat.exists_eq_add_of_le hs
  simp only [Option.map_some, hd, iter_add, hk, iter_done]

/-- **history independence of the lazily filled global**: as a set, the value returned does not
depend on how often the getter ran before. -/
theorem C20_lazy_global (w g : List Nat) (x : Nat) :
    x ∈ (lazyGet w (lazyGet w g).1).2 ↔ x ∈ (lazyGet w g).2 := by
  simp only [lazyGet, List.mem_append, List.mem_filter, Bool.not_eq_true', List.contains_eq_mem,
    decide_eq_false_iff_not]
  constructor
  · rintro (h | ⟨_, h⟩)
    · exact h
    · exact absurd (by assumption) (by intro; simp_all)
  · intro h; exact Or.inl h

/-! non-vacuity: two calls, an adversarial interleaving, same results as solo runs -/
def demoStep (sh : Nat) (s : Nat × Nat) : Cell (Nat × Nat) Nat :=
  if s.1 = 0 then .inr (s.2 + sh) else .inl (s.1 - 1, s.2 + s.1)
example : (runSched demoStep 5 [0, 1, 1, 0, 1, 0, 0, 1] [.inl (2, 0), .inl (3, 10)])
    = [.inr 8, .inr 21] := by decide
example : (runSched demoStep 5 [1, 1, 1, 1, 0, 0, 0] [.inl (2, 0), .inl (3, 10)])
    = [.inr 8, .inr 21] := by decide

end MindsVerif.Props.C20
