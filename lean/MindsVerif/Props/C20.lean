import MindsVerif.Lemmas.Iso
/-!
# C20 — calls are isolated  (logical structure)

* `C20_noninterference`: in a system whose calls step private state and only read the shared store,
  the state of call `i` after ANY schedule is the state reached by running call `i` alone for as
  many steps as the schedule gave it — whatever the other calls did, in whatever interleaving.
* `C20_result_schedule_independent`: hence two schedules that give call `i` enough steps to finish
  yield the same result for it.
* `C20_lazy_global`: a lazily filled global set returns the same *set* from every reachable state
  (history independence of `get_reserved_words`).

Partial by nature: the assumptions (per-call objects are fresh; class-level tables are never
written; CPython executes each modelled step atomically w.r.t. the private state) are checked on the
real code by the harness (identity checks, deep hashes of class-level state before/after batches,
thread stress, shuffled histories, several PYTHONHASHSEED values), not proved; byte-code level
interleavings are sampled, not enumerated.
-/
namespace MindsVerif.Props.C20
open MindsVerif.Iso

/-- **non-interference** -/
theorem C20_noninterference {Sh σ ρ : Type} (f : Sh → σ → Cell σ ρ) (sh : Sh) (i : Nat) :
    ∀ (sched : List Nat) (st : List (Cell σ ρ)),
      (runSched f sh sched st)[i]? = (st[i]?).map (iter (stepCell f sh) (sched.count i)) := by
  intro sched
  induction sched with
  | nil => intro st; simp [runSched, iter]
  | cons j js ih =>
    intro st
    have hrun : runSched f sh (j :: js) st = runSched f sh js (stepAt f sh j st) := rfl
    rw [hrun, ih]
    by_cases h : j = i
    · subst h
      rw [stepAt_self]
      cases st[j]? with
      | none => simp
      | some c => simp [List.count_cons_self, iter]
    · rw [stepAt_other f sh i j st (Ne.symm h)]
      have : (j :: js).count i = js.count i := by simp [h]
      rw [this]

/-- **schedule independence of results**: if call `i` finishes with `r` after `k` of its own steps,
then under every schedule that gives it at least `k` steps its cell is `inr r`. -/
theorem C20_result_schedule_independent {Sh σ ρ : Type} (f : Sh → σ → Cell σ ρ) (sh : Sh) (i : Nat)
    (st : List (Cell σ ρ)) (c : Cell σ ρ) (hc : st[i]? = some c) (k : Nat) (r : ρ)
    (hk : iter (stepCell f sh) k c = .inr r) (sched : List Nat) (hs : k ≤ sched.count i) :
    (runSched f sh sched st)[i]? = some (.inr r) := by
  rw [C20_noninterference, hc]
  obtain ⟨d, hd⟩ := Nat.exists_eq_add_of_le hs
  simp only [Option.map_some, hd, iter_add, hk, iter_done]

/-- **history independence of the lazily filled global**: as a set, the value returned does not
depend on how often the getter ran before. -/
theorem C20_lazy_global (w g : List Nat) (x : Nat) :
    x ∈ (lazyGet w (lazyGet w g).1).2 ↔ x ∈ (lazyGet w g).2 := by
  simp only [lazyGet, List.mem_append, List.mem_filter, Bool.not_eq_true', List.contains_eq_mem,
    decide_eq_false_iff_not]
  constructor
  · rintro (h | ⟨_, h⟩)
    · exact h
    · exact absurd (by assumption) (by intro; simp_all)
  · intro h; exact Or.inl h

/-! non-vacuity: two calls, an adversarial interleaving, same results as solo runs -/
def demoStep (sh : Nat) (s : Nat × Nat) : Cell (Nat × Nat) Nat :=
  if s.1 = 0 then .inr (s.2 + sh) else .inl (s.1 - 1, s.2 + s.1)
example : (runSched demoStep 5 [0, 1, 1, 0, 1, 0, 0, 1] [.inl (2, 0), .inl (3, 10)])
    = [.inr 8, .inr 21] := by decide
example : (runSched demoStep 5 [1, 1, 1, 1, 0, 0, 0] [.inl (2, 0), .inl (3, 10)])
    = [.inr 8, .inr 21] := by decide


/-! ## [review] additions

[review] Reading guide.  In `C20_noninterference` the shared store `sh` is a *parameter* of `runSched` (nothing can
write it) and a step of call `j` is `List.modify j`, so "call `i` is not affected by the others" is built into the
shape of the model: the theorem is the bookkeeping fact that `modify j` does not touch index `i ≠ j`.  It says
nothing about `mindsdb_sql` until the run-time checks establish that the code has that shape; every piece of
evidence about the real library for C20 is dynamic (see the header and `ASSUME`).  `C20_lazy_global` is a
single-threaded idempotence fact about a *separate* model (`lazyGet`, not connected to `runSched`, and not tied to
`identifier.py:get_reserved_words` by any correspondence stream).

The additions below connect the two: a system in which every step first runs the lazy getter — which WRITES the
shared set, as `get_reserved_words()` does (`reserved = RESERVED_KEYWORDS; reserved.add(word)`) — and then reads the
set only through membership.  From every partially filled state `g0 ⊆ g ⊆ g0 ∪ w` (e.g. another thread is in the
middle of its fill loop) and under every schedule, call `i` ends exactly where it ends when run alone against the
completely filled set.  The hypothesis that makes a written shared store harmless is explicit here: the write is
monotone and idempotent and readers only observe the store *after* their own getter call, and only as a set.
This is realistic for `RESERVED_KEYWORDS`; it is NOT established for SQLAlchemy's memoised attributes / compiled
caches (the class-state digest of `tools/props/c20.py` skips `memoized_property` & co.). -/

-- [review]
/-- the set returned from ANY state `g` of the global is `g ∪ w` (not only from states left by a complete earlier call, as in `C20_lazy_global`) -/
theorem C20_review_lazy_global_any_state (w g : List Nat) (x : Nat) :
    x ∈ (lazyGet w g).2 ↔ (x ∈ g ∨ x ∈ w) := by
  simp only [lazyGet, List.mem_append, List.mem_filter, Bool.not_eq_true', List.contains_eq_mem,
    decide_eq_false_iff_not]
  constructor
  · rintro (h | ⟨h, _⟩)
    · exact Or.inl h
    · exact Or.inr h
  · rintro (h | h)
    · exact Or.inl h
    · by_cases hg : x ∈ g
      · exact Or.inl hg
      · exact Or.inr ⟨h, hg⟩

-- [review]
theorem C20_review_lazy_global_interleaved (w g0 g : List Nat)
    (hlo : ∀ x, x ∈ g0 → x ∈ g) (hhi : ∀ x, x ∈ g → x ∈ g0 ∨ x ∈ w) (x : Nat) :
    x ∈ (lazyGet w g).2 ↔ x ∈ (lazyGet w g0).2 := by
  rw [C20_review_lazy_global_any_state, C20_review_lazy_global_any_state]
  constructor
  · rintro (h | h)
    · exact hhi x h
    · exact Or.inr h
  · rintro (h | h)
    · exact Or.inl (hlo x h)
    · exact Or.inr h

-- [review]
/-- one step of call `i` in a system whose shared store IS written -/
def stepAtG {σ ρ : Type} (w : List Nat) (f : (Nat → Bool) → σ → Cell σ ρ) (i : Nat)
    (p : List Nat × List (Cell σ ρ)) : List Nat × List (Cell σ ρ) :=
  let g' := (lazyGet w p.1).1
  (g', stepAt f (fun x => g'.contains x) i p.2)

-- [review]
def runSchedG {σ ρ : Type} (w : List Nat) (f : (Nat → Bool) → σ → Cell σ ρ) (sched : List Nat)
    (p : List Nat × List (Cell σ ρ)) : List Nat × List (Cell σ ρ) :=
  sched.foldl (fun p i => stepAtG w f i p) p

-- [review]
theorem runSchedG_eq {σ ρ : Type} (w g0 : List Nat) (f : (Nat → Bool) → σ → Cell σ ρ) :
    ∀ (sched : List Nat) (g : List Nat) (st : List (Cell σ ρ)),
      (∀ x, (x ∈ g ∨ x ∈ w) ↔ (x ∈ g0 ∨ x ∈ w)) →
      (runSchedG w f sched (g, st)).2 = runSched f (fun x => (g0 ++ w).contains x) sched st := by
  intro sched
  induction sched with
  | nil => intro g st _; rfl
  | cons j js ih =>
    intro g st hinv
    have hmem : ∀ x, x ∈ (lazyGet w g).1 ↔ (x ∈ g ∨ x ∈ w) := C20_review_lazy_global_any_state w g
    have hpred : (fun x => (lazyGet w g).1.contains x) = (fun x => (g0 ++ w).contains x) := by
      funext x
      have h1 := hmem x
      have h2 := hinv x
      by_cases hx : x ∈ (lazyGet w g).1
      · have : x ∈ g0 ++ w := by simpa using h2.mp (h1.mp hx)
        simp [List.contains_eq_mem, hx, this]
      · have : ¬ x ∈ g0 ++ w := by
          intro hc; exact hx (h1.mpr (h2.mpr (by simpa using hc)))
        simp [List.contains_eq_mem, hx, this]
    have hstep : runSchedG w f (j :: js) (g, st)
        = runSchedG w f js ((lazyGet w g).1, stepAt f (fun x => (lazyGet w g).1.contains x) j st) := rfl
    rw [hstep, hpred]
    have hrun : runSched f (fun x => (g0 ++ w).contains x) (j :: js) st
        = runSched f (fun x => (g0 ++ w).contains x) js (stepAt f (fun x => (g0 ++ w).contains x) j st) := rfl
    rw [hrun]
    apply ih
    intro x
    rw [hmem x]
    constructor
    · rintro (h | h)
      · exact (hinv x).mp h
      · exact Or.inr h
    · intro h
      exact Or.inl ((hinv x).mpr h)

-- [review]
theorem C20_review_noninterference_lazy_write {σ ρ : Type} (w g0 g : List Nat)
    (f : (Nat → Bool) → σ → Cell σ ρ) (i : Nat) (sched : List Nat) (st : List (Cell σ ρ))
    (hlo : ∀ x, x ∈ g0 → x ∈ g) (hhi : ∀ x, x ∈ g → x ∈ g0 ∨ x ∈ w) :
    (runSchedG w f sched (g, st)).2[i]? =
      (st[i]?).map (iter (stepCell f (fun x => (g0 ++ w).contains x)) (sched.count i)) := by
  rw [runSchedG_eq w g0 f sched g st, C20_noninterference]
  intro x
  constructor
  · rintro (h | h)
    · exact hhi x h
    · exact Or.inr h
  · rintro (h | h)
    · exact Or.inl (hlo x h)
    · exact Or.inr h

-- [review]
def demoStepG (memb : Nat → Bool) (s : Nat × Nat) : Cell (Nat × Nat) Nat :=
  if s.1 = 0 then .inr s.2 else .inl (s.1 - 1, s.2 + (if memb s.1 then 100 else 1))

-- [review]
example : runSchedG [1, 2, 3] demoStepG [0, 1, 1, 0, 1, 0, 0, 1] ([7], [.inl (2, 0), .inl (3, 10)])
    = ([7, 1, 2, 3], [.inr 200, .inr 310]) := by decide
-- [review]
example : runSchedG [1, 2, 3] demoStepG [1, 1, 1, 1, 0, 0, 0] ([7, 2], [.inl (2, 0), .inl (3, 10)])
    = ([7, 2, 1, 3], [.inr 200, .inr 310]) := by decide
-- a reader that looks at the global WITHOUT running the getter first would see the difference
-- [review]
example : (demoStepG (fun x => [7].contains x) (2, 0), demoStepG (fun x => [7, 1, 2, 3].contains x) (2, 0))
    = (.inl (1, 1), .inl (1, 100)) := by decide

end MindsVerif.Props.C20
