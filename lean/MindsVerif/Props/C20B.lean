import MindsVerif.Props.C20
import MindsVerif.Gen.Footprint
/-!
# C20 (round 5) — the frame condition on the PROBED footprint table

`Gen/Footprint.lean` is regenerated on every run from live `SqlalchemyRender`, `QueryPlanner`, lexer and parser
objects (`tools/extract/x_footprint.py`: get / set trace + deep attribute snapshots before and after each call of a
fixed probe set).  Here the kernel decides that no entry point reads an attribute that an entry point of the same
class writes — apart from the write paths listed below, each with its reason.  A change that hoists per-call state
into the object (seed C20_10: `self.metadata`, read and filled by `prepare_create_table` / `prepare_drop_table`)
produces a new conflict and this module stops compiling; the `reuse-*` streams of `tools/props/c20.py` then find the
history on the real code.

With the condition decided, `C20_reuse_table_history_independent` applies to every class of the table
(`C20B_history_independent`): every call semantics that respects the probed footprints returns, after any history
of calls on the same object, what it returns on a new object.  Trusted: that the real methods respect the probed
footprints (the trace sees instance attributes only; module / class level state is the business of the digests in
`tools/props/c20.py`), and the reasons given for the exemptions.
-/
namespace MindsVerif.Props.C20B
open MindsVerif.Reuse MindsVerif.Gen MindsVerif.Props.C20

/-- memo tables of pure functions inside the SQLAlchemy dialect object the renderer keeps (`Dialect._type_memos`:
type ↦ implementation type; `IdentifierPreparer._strings`: identifier ↦ quoted identifier): filled by calls,
consulted through look-up only — `C20_reuse_memo_transparent`; that the entries stay consistent is what the
class-state digests and the `reuse-*` streams check -/
def memoPaths : List String :=
  ["dialect._type_memos", "dialect._type_memos.data", "dialect.identifier_preparer._strings"]

/-- write-only logs: SLY's `Parser.parse` stores `id(value) ↦ position` for every reduced value and creates the two
tables once per parser object; only `Parser.line_position` / `index_position` read them and nothing in the library
calls those (`Gen.Footprint.positionReaders = []`, pinned below) -/
def logPaths : List String := ["_index_positions", "_line_positions"]

/-- (round 5 listed `cte_results` here for the then open finding KF-C20-r5-1; with the repair aa84a47 `from_query`
rebinds the attribute before reading it, the path is no exposed read any more and nothing is exempt for the planner) -/
def knownPaths : List String := []

def exemptFor (cls : String) : List String :=
  if cls == "SqlalchemyRender" then memoPaths
  else if cls == "QueryPlanner" then knownPaths
  else if cls == "MindsDBParser" || cls == "MySQLParser" || cls == "SQLParser" then logPaths
  else []

/-- what the table is about: every class with an object a caller can keep, every entry point (episode) -/
example : Footprint.classes.map (fun c => (c.1, c.2.map (·.call))) =
    [("MindsDBLexer", ["parse", "tokenize"]), ("MindsDBParser", ["parse", "tokenize"]),
     ("MySQLLexer", ["parse", "tokenize"]), ("MySQLParser", ["parse", "tokenize"]),
     ("QueryPlanner", ["from_query", "prepare_abandon", "prepare_info", "prepared"]),
     ("SQLLexer", ["parse", "tokenize"]), ("SQLParser", ["parse", "tokenize"]),
     ("SqlalchemyRender", ["get_exec_params", "get_string"])] := by decide

/-- the probe is not blind: it sees the renderer read its dialect object and type map, the planner read its
catalog attributes and rebind `plan` / `statement` / `query`, the parser rebind its stacks, the lexer its text -/
example : Footprint.SqlalchemyRender.all (fun r => r.reads.contains "dialect" && r.reads.contains "types_map") = true := by
  decide
example : (Footprint.QueryPlanner.filter (fun r => r.call == "from_query" || r.call == "prepared")).all
    (fun r => r.reads.contains "integrations" && r.reads.contains "predictor_info" && r.writes.contains ("plan", "plan")) = true := by
  decide
example : (Footprint.QueryPlanner.filter (fun r => r.call != "from_query")).all
    (fun r => r.writes.contains ("statement", "statement") && r.writes.contains ("query", "query")) = true := by decide
example : (Footprint.MindsDBParser.filter (fun r => r.call == "parse")).all
    (fun r => r.writes.contains ("statestack", "statestack") && r.writes.contains ("error_info", "error_info")) = true := by
  decide
example : Footprint.MindsDBLexer.all (fun r => r.writes.contains ("text", "text")) = true := by decide

/-- nothing in the library reads SLY's position tables (reason for `logPaths`) -/
example : Footprint.positionReaders = [] := by decide

/-- **the obligation**: for every class, with the exempt paths stripped, no entry point reads what an entry point
writes -/
theorem C20B_frame_ok :
    Footprint.classes.all (fun c => tableOk (c.2.map (strip (exemptFor c.1)))) = true := by decide

/-- the same per class, as a list of conflicts (readable when it breaks) -/
example : conflicts (Footprint.SqlalchemyRender.map (strip memoPaths)) = [] := by decide
example : conflicts (Footprint.QueryPlanner.map (strip knownPaths)) = [] := by decide
example : conflicts (Footprint.MindsDBParser.map (strip logPaths)) = [] := by decide
example : conflicts Footprint.MindsDBLexer = [] := by decide

/-- no exemption is a blanket one: only the listed paths are taken out, for the listed classes -/
example : exemptFor "SQLLexer" = [] ∧ exemptFor "QueryPlanner" = [] := by decide

/-- **history independence of every probed class**: a call semantics over the rows of the class's table that
respects the (stripped) footprints gives, after any history of calls on the same object, the result of the call
on the object as constructed. -/
theorem C20B_history_independent {V R : Type} (cls : String) (rows : List Row)
    (hmem : (cls, rows) ∈ Footprint.classes)
    (run : Nat → Obj String V → Obj String V × R)
    (hr : Respects run (footOf (rows.map (strip (exemptFor cls)))))
    (h : List Nat) (c : Nat) (hc : c < rows.length) (hh : ∀ c', c' ∈ h → c' < rows.length) (s : Obj String V) :
    (run c (runHist run h s)).2 = (run c s).2 := by
  have hok := List.all_eq_true.mp C20B_frame_ok (cls, rows) hmem
  exact C20_reuse_table_history_independent (rows.map (strip (exemptFor cls))) hok run hr h c
    (by simpa using hc) (by simpa using hh) s

/-! ## Round 6 — module / class level state during a call

`Footprint.moduleWrites` lists every data attribute of a `mindsdb_sql` module or of a class defined there that, at some
entry into a library function DURING a call of the probe (every public entry point; the fallback paths of all seven
renderer dialect names), differs from its value at the start of that call.  Seed C20_12 (`IDENTIFIER_QUOTE` switched
around `str(ast_query)` in the postgres fallback and restored) produces the row
`("render_fallback", "mindsdb_sql.parser.ast.select.identifier", "IDENTIFIER_QUOTE", "transient")`.
With the list decided empty (up to the lazily filled global, whose write is monotone and idempotent —
`C20_review_noninterference_lazy_write`) every probed step is quiet, which is the hypothesis of
`C20_quiet_steps_noninterference`. -/

/-- globals that may be written for good by the first call that needs them (monotone idempotent fill) -/
def lazyGlobals : List (String × String) :=
  [("mindsdb_sql.parser.ast.select.identifier", "RESERVED_KEYWORDS")]

/-- **the obligation**: no call of the probe changes module / class level state of the library for its duration; only
the lazy global may be left changed -/
theorem C20B_module_quiet :
    Footprint.moduleWrites.all
      (fun w => w.2.2.2 == "persistent" && lazyGlobals.contains (w.2.1, w.2.2.1)) = true := by decide

/-- the probe is not blind: it covers these entry kinds, watched > 100 attributes at > 1000 boundaries, watches the
lazy global, and reports a sentinel attribute that is switched around a nested library call and restored -/
example : Footprint.moduleEntries = ["parse", "plan", "render", "render_exec", "render_fallback", "render_strict"] := by
  decide
example : (Footprint.moduleProbeWide && Footprint.moduleWatchesReserved && Footprint.moduleProbeSelfTest) = true := by
  decide

end MindsVerif.Props.C20B
