#!/bin/bash
# usage: tools/applyfix.sh <diff> "<commit message starting with fix:>"  -- apply to /repo, run the suite, commit if 688 passed else revert
d=$(readlink -f $1); msg=$2
cd /repo || exit 2
[ -z "$(git status --porcelain)" ] || { echo "repo dirty"; exit 2; }
git apply --check $d || { echo "NOAPPLY $d"; exit 1; }
git apply $d
out=$(/venv/bin/python -m pytest -q -p no:cacheprovider --timeout=900 2>&1 | tail -1)
echo "$out"
if echo "$out" | grep -q "^688 passed"; then git add -A; git commit -qm "$msg"; git log --oneline | head -1; else git checkout -- .; git clean -fdq; echo REVERTED; exit 1; fi
