#!/venv/bin/python
"""entry point:  /venv/bin/python tools/check.py Cxx --tier quick|thorough"""
import argparse, importlib, os, sys, traceback
ROOT = os.path.dirname(os.path.dirname(os.path.abspath(__file__)))
sys.path.insert(0, ROOT)
os.environ.setdefault('PYTHONHASHSEED', '0')


def main():
    ap = argparse.ArgumentParser()
    ap.add_argument('pid')
    ap.add_argument('--tier', default=os.environ.get('VERIF_TIER', 'quick'))
    ap.add_argument('--replay')
    a = ap.parse_args()
    seed = int(os.environ.get('VERIF_SEED', '0'))
    from tools import framework
    mod = importlib.import_module('tools.props.' + a.pid.lower())
    if a.replay:
        return mod.replay(a.replay)
    chk = framework.Check(a.pid, a.tier, seed)
    # theorems of the regex-level lexer model that belong to a property whose check module is owned by a package
    # (tools/props/extra_targets.json): built and audited with the module's own targets
    import json
    ex = {}
    xp = os.path.join(ROOT, 'tools', 'props', 'extra_targets.json')
    if os.path.exists(xp):
        ex = json.load(open(xp)).get(a.pid, {})
    mod.TARGETS = list(mod.TARGETS) + [t for t in ex.get('targets', []) if t not in mod.TARGETS]
    mod.THEOREMS = list(mod.THEOREMS) + [t for t in ex.get('theorems', []) if t not in mod.THEOREMS]
    try:
        with framework.Lock():
            ok = chk.extract()
            ok = chk.build(mod.TARGETS) and ok
            if ok:
                chk.audit(mod.THEOREMS, [t for t in mod.TARGETS if '.Props.' in t])
                if a.tier == 'thorough':
                    chk.leanchecker([t for t in mod.TARGETS if '.Props.' in t])
        if a.pid != 'C20':
            # every check drives the real lexers: one that stops advancing must end the run (C02 reports it as a violation,
            # elsewhere it is an infrastructure failure), never stall it.  C20 digests class state and runs without the wrapper.
            from tools.harness import common
            common.install_lexer_guard()
        return mod.run(chk)
    except BaseException as e:
        if isinstance(e, (KeyboardInterrupt, SystemExit)):
            raise
        traceback.print_exc()
        print('INFRASTRUCTURE-ERROR property=%s' % a.pid)
        return 2


if __name__ == '__main__':
    sys.exit(main())
