"""C16, attribute-level link (round 5): everything between the return value of `tokens_to_string` and the attribute the user
reads — the grammar action, the AST constructor, wrappers that touch the node afterwards, `parse_sql` itself — must hand the
text on unchanged.  This module probes that path on the live code; `x_c16.py` turns the observations into Lean data.

* `templates(parser, can)`: one sentence (plus variants) for EVERY production of the live grammar that has `raw_query` in its
  right-hand side (left-hand side other than `raw_query`), built from the production itself; which production a sentence
  reduces is observed, not assumed.
* `discover`: `tokens_to_string` is replaced (harness side) by a function returning a unique sentinel per call; the tree is
  searched for it -> access path, owning class, attribute.
* `probe`: the same with every PAYLOAD as return value; what the user reads at the discovered path is recorded.
* `ctor_probe` / `ctor_form`: the constructor alone (sentinel argument -> attribute) and the syntactic form of the assignment
  in `__init__` (`param:<name>` when the right-hand side is the bare, not re-assigned parameter).
"""
import ast as pyast
import inspect, re, textwrap

# ---------------------------------------------------------------------------------------------------- payloads
# contents of literals / quoted names: template-like and regex-bait texts.  Every content is put into all literal kinds.
FAMILIES = [
    ('jinja', ['{{ a }}', '{{b }}', '{{ c}}', '{{\td\t}}', '{{START_DATE }}', '{{ PREVIOUS_START_DATE }}', '{%  if x  %}', '{{  }}']),
    ('shell', ['${x}', '$x', '${ y }', '$1', '$$', '$(z)']),
    ('printf', ['%s', '%(a)s', '%d%%', '100%', '%%', '% s', '%-5s']),
    ('format', ['{0}', '{}', '{a}', '{a!r}', '{ 0 }', '{{', '}}', '{x:>4}']),
    ('backslash', ['a\\nb', 'a\\tb', '\\d+', '\\1', '\\g<1>', '\\\\', 'C:\\dir']),
    ('control', ['a\nb', 'a\n\nb', '\nlead', 'trail\n', 'a\tb', 'a\r\nb', '\t']),
    ('spaces', ['a  b', '  lead', 'trail  ', ' ', '   ', 'a   b  c']),
    ('comment', ['--', '-- c', 'a -- b', '/*', '/* c */', '*/', '#', '# c', 'a /* b', '//']),
    ('semicolon', [';', 'a;b', 'x;', '; ', ';;', 'a ; b ;']),
    ('keyword', ['SELECT', 'select', 'From', 'where a AND b', 'null', 'NULL', 'True', 'Is  Not', 'group  by', 'NOT  IN']),
    ('brackets', ['(', ')', '()', '((', '[', ']', '( a', 'b )']),
    ('unicode', ['É', 'ß', 'İ', 'ǅ', 'ＡＢ', 'e\u0301', 'a\u00a0b', '\u200b', 'ﬁ']),
    ('numbers', ['1.50', '007', '1e5', '0x1F', '+1', '1,000', '.5']),
    ('long', ['x' * 300, ('ab ' * 90).strip()]),
    # round 6: the FULL code-point range of a Python str (written with escapes: this file stays ASCII-clean where it matters)
    ('surrogate', ['caf\udce9', '\ud800', '\udfff', '\udc00\ud800', 'a\udc80b\udcffc', '\ud83d', '\ufffe', '\uffff', '\ufdd0',
                   '\U0010ffff', '\U0001fffe']),
    ('ctrlchars', ['\x00', 'a\x00b', '\x01', '\x08', '\x1b[0m', '\x1f', '\x7f', '\x80', '\x85', '\x9f', '\ufeff', '\ufeffa', '\u2028',
                 '\u2029', 'a\u2028b', '\x0b', '\x0c', '\x1c', '\xa0', '\u2003', '\u3000', '\u200b\u200c\u200d', '\xad']),
    ('astral', ['\U0001f600', '\U0001f468\u200d\U0001f469\u200d\U0001f467', '\U00020000', '\U000e0041', 'a\u0300\u0301', '\u0301',
                'e\u0301\u0323', '\u1100\u1161\u11a8', '\u202e', 'a\u202eb\u202c', '\u200f', '\u2066x\u2069', '\u061c',
                '\ud55c', '\u0130', '\u1e9e', '\ufb01\ufb02']),
]
COMPACT = ('surrogate', 'ctrlchars', 'astral')
KINDS = [("'", "'", ''), ('"', '"', ''), ('`', '`', ''), ("@'", "'", 'v'), ('@`', '`', 'v'), ('@@"', '"', 'v')]


def literal(kind, content):
    """`content` as a literal of kind k; None if that kind cannot hold it"""
    op, cl, lead = KINDS[kind]
    if cl in content or (kind < 2 and '\\' in content and content.endswith('\\') and not content.endswith('\\\\')):
        return None
    if kind == 2 and content == '':
        return None
    return op + lead + content + cl


def payload_texts():
    """[(name, text)]: single-spaced one-statement inner texts (newlines only inside literals)"""
    out = []
    for fam, contents in FAMILIES:
        lits = []
        for i, c in enumerate(contents):
            for k in range(len(KINDS)):
                if k >= 3 and (i + k) % 3:      # every content in '…' "…" `…`; the variable kinds take every third
                    continue
                if fam in COMPACT and k != i % 3 and (k < 3 or (i + k) % 6):
                    continue                    # code-point families: one of '…' "…" `…` per content (rotating), fewer variables
                l = literal(k, c)
                if l is not None:
                    lits.append(l)
        half = (len(lits) + 1) // 2
        out.append((fam, 'select %s from t where a = %s' % (', '.join(lits[:half]), ' or b = '.join(lits[half:]))))
    # quoting: doubled / escaped delimiters (source text must survive as written)
    out.append(('quotes', "select 'it''s', '', \"\", 'a\\'b', \"a\\\"b\", '''', 'x''{{ y }}''z', `a``b` from t where c = '\\\\'"))
    # bait between tokens (only white space may change there), trailing semicolons, keyword case
    out.append(('outside', "SeLeCt a , {{ x }} , b FROM t WHERE c = {{y}} AnD d IS NOT NULL ; select 2 ;"))
    return out


PAYLOADS = payload_texts()

# ---------------------------------------------------------------------------------------------------- templates
NT_TEXT = {
    'identifier': ['m', 'db', 'p.tbl', 'x'],
    'result_columns': ['y'], 'column_list': ['a, b'], 'kw_parameter_list': ['a=1'],
    'job_schedule': ["START 'now' EVERY 2 hours", 'EVERY hour'],
    'if_not_exists_or_empty': ['', 'IF NOT EXISTS'], 'replace_or_empty': ['', 'OR REPLACE'],
    'create_view_from_table_or_nothing': ['', 'FROM db'],
}
CONTEXT = {   # sentential contexts of left-hand sides that are not statements
    'from_table': ['SELECT * FROM {}', 'SELECT * FROM {} AS t JOIN m', 'SELECT a FROM {} WHERE a = 1 LIMIT 3',
                   'SELECT * FROM m JOIN {} AS u', 'INSERT INTO db.t2 SELECT * FROM {}', 'SELECT * FROM (SELECT * FROM {}) AS s',
                   'CREATE TABLE db.t3 (SELECT * FROM {})'],
}
SUFFIX = {    # wrappers that touch the finished node
    'create_predictor': ['', ' USING a=1', ' ORDER BY o WINDOW 5 HORIZON 2 USING a=1'],
    'create_anomaly_detection_model': ['', ' USING a=1'],
}


def terminal_text(lexer_cls, name):
    cands = [name, name.replace('_', ' ')]
    v = getattr(lexer_cls, name, None)
    if isinstance(v, str):
        cands.append(re.sub(r'\\(.)', r'\1', v.replace('\\b', '')))
    for c in cands:
        try:
            toks = list(lexer_cls().tokenize(c))
        except Exception:
            continue
        if len(toks) == 1 and toks[0].type == name:
            return c
    return None


def templates(lexer_cls, parser, can):
    """-> (embedding productions [(canonical number, lhs, rhs, action name)], templates [dict(name, prod, text, nq)], problems)"""
    g = parser._grammar
    embed, out, problems = [], [], []
    for p in g.Productions:
        if 'raw_query' not in p.prod or p.name == 'raw_query':
            continue
        num = can['pid'][p.number]
        embed.append((num, p.name, list(p.prod), getattr(p.func, '__name__', '?')))
        nvar = 2
        for variant in range(nvar):
            parts, nq, seen, ok = [], 0, {}, True
            for s in p.prod:
                if s == 'raw_query':
                    parts.append('{q}' if nq == 0 else '{q%d}' % (nq + 1))
                    nq += 1
                elif s in g.Terminals:
                    t = terminal_text(lexer_cls, s)
                    ok = ok and t is not None
                    parts.append(t or s)
                elif s in NT_TEXT:
                    alts = NT_TEXT[s]
                    k = seen.get(s, 0)
                    seen[s] = k + 1
                    parts.append(alts[(k if s == 'identifier' else variant) % len(alts)])
                else:
                    ok = False
                    parts.append('<%s>' % s)
            if not ok:
                problems.append('no sentence for production %d (%s -> %s)' % (num, p.name, ' '.join(p.prod)))
                break
            body = re.sub(r'\( \{', '({', re.sub(r'\} \)', '})', ' '.join(x for x in parts if x != '')))
            for ci, ctx in enumerate(CONTEXT.get(p.name, ['{}'])):
                for si, suf in enumerate(SUFFIX.get(p.name, [''])):
                    if variant and (ci or si):
                        continue
                    text = ctx.replace('{}', body) + suf
                    out.append(dict(name='p%d_%d%d%d' % (num, variant, ci, si), prod=num, lhs=p.name, text=text, nq=nq,
                                    action=getattr(p.func, '__name__', '?')))
    seen_t, uniq = set(), []
    for t in out:
        if t['text'] not in seen_t:
            seen_t.add(t['text'])
            uniq.append(t)
    return sorted(embed), uniq, problems


def fill(text, qs):
    return text.replace('{q}', qs[0]).replace('{q2}', qs[1] if len(qs) > 1 else '')


# ---------------------------------------------------------------------------------------------------- probing
class Patched:
    """`tokens_to_string` of the parser module replaced by `fn(call number, tokens)`; the productions of `watch` log their
    reduction.  Restores everything on exit (other harness wrappers stay in place)."""

    def __init__(self, pmod, parser, can, fn):
        self.pmod, self.parser, self.can, self.fn = pmod, parser, can, fn
        self.reduced, self.calls = [], 0

    def __enter__(self):
        self.orig = self.pmod.tokens_to_string
        me = self

        def fake(tokens):
            k = me.calls
            me.calls += 1
            return me.fn(k, tokens)
        self.pmod.tokens_to_string = fake
        self.saved = []
        for p in self.parser._grammar.Productions:
            if 'raw_query' in p.prod and p.name != 'raw_query' and p.func is not None:
                self.saved.append((p, p.func))

                def mk(f, num):
                    def w(slf, pslice):
                        me.reduced.append(num)
                        return f(slf, pslice)
                    w.__name__ = getattr(f, '__name__', 'w')
                    return w
                p.func = mk(p.func, self.can['pid'][p.number])
        return self

    def reset(self):
        self.reduced, self.calls = [], 0

    def __exit__(self, *a):
        self.pmod.tokens_to_string = self.orig
        for p, f in self.saved:
            p.func = f


def walk(obj, hit, path=(), seen=None, depth=0, out=None):
    """every (path, owner class, attribute, value) where `hit(value)`; follows __dict__, properties, lists, tuples, dicts"""
    if out is None:
        out, seen = [], set()
    if depth > 12 or id(obj) in seen:
        return out
    if isinstance(obj, (list, tuple)):
        seen.add(id(obj))
        for i, v in enumerate(obj):
            if isinstance(v, str):
                if hit(v):
                    out.append((path + (i,), type(obj).__name__, str(i), v))
            else:
                walk(v, hit, path + (i,), seen, depth + 1, out)
        return out
    if isinstance(obj, dict):
        seen.add(id(obj))
        for k, v in obj.items():
            if isinstance(v, str):
                if hit(v):
                    out.append((path + (k,), 'dict', str(k), v))
            else:
                walk(v, hit, path + (k,), seen, depth + 1, out)
        return out
    if not hasattr(obj, '__dict__') or isinstance(obj, type) or inspect.isroutine(obj) or inspect.ismodule(obj):
        return out
    seen.add(id(obj))
    names = list(vars(obj))
    for k, v in inspect.getmembers(type(obj), lambda x: isinstance(x, property)):
        if k not in names:
            names.append(k)
    for k in names:
        try:
            v = getattr(obj, k)
        except Exception:
            continue
        if isinstance(v, str):
            if hit(v):
                out.append((path + (k,), type(obj).__name__, k, v))
        elif not k.startswith('__'):
            walk(v, hit, path + (k,), seen, depth + 1, out)
    return out


def follow(obj, path):
    for k in path:
        obj = obj[k] if isinstance(obj, (list, tuple, dict)) else getattr(obj, k)
    return obj


def show(v):
    return v if isinstance(v, str) else '<%s %r>' % (type(v).__name__, v)


def discover(parse_sql, P, tmpl):
    """where do the texts of the embedded queries end up?  -> dict(status, reduced, slots=[[(path, cls, attr)] per query])"""
    sent = ['select C16SENTINEL%dQ from t' % k for k in range(tmpl['nq'])]
    P.reset()
    P.fn = lambda k, toks: sent[k] if k < len(sent) else 'select C16SENTINELXQ'
    try:
        tree = parse_sql(fill(tmpl['text'], ['select 1 from t', 'select 2 from t2']), 'mindsdb')
    except Exception as e:
        return dict(status='rejected: %s' % str(e)[:80].replace('\n', '|'), reduced=list(P.reduced), slots=[])
    slots = []
    for k in range(tmpl['nq']):
        core = 'C16SENTINEL%dQ' % k
        found = walk(tree, lambda v: core in v)
        slots.append([(list(p), c, a) for p, c, a, v in found])
    return dict(status='ok', reduced=list(P.reduced), calls=P.calls, slots=slots)


def probe(parse_sql, P, tmpl, slots, payloads):
    """rows (template, query number, path, class, attribute, payload name, passed, stored)"""
    rows = []
    n = len(payloads)
    for i in range(n):
        passed = [payloads[(i + k) % n] for k in range(tmpl['nq'])]     # the second query gets the next payload: a swap shows
        P.reset()
        P.fn = lambda k, toks: passed[k][1] if k < len(passed) else '?'
        try:
            tree = parse_sql(fill(tmpl['text'], ['select 1 from t', 'select 2 from t2']), 'mindsdb')
        except Exception as e:
            for k in range(tmpl['nq']):
                rows.append(dict(template=tmpl['name'], prod=tmpl['prod'], q=k, path='?', cls='?', attr='?', payload=passed[k][0],
                                 passed=passed[k][1], stored='<raised %s>' % type(e).__name__))
            continue
        for k in range(tmpl['nq']):
            for path, cls, attr in slots[k]:
                try:
                    v = follow(tree, path)
                except Exception as e:
                    v = '<unreachable %s>' % type(e).__name__
                rows.append(dict(template=tmpl['name'], prod=tmpl['prod'], q=k, path='.'.join(map(str, path)), cls=cls, attr=attr,
                                 payload=passed[k][0], passed=passed[k][1], stored=show(v)))
    return rows


# ---------------------------------------------------------------------------------------------------- constructors
def find_class(name):
    import mindsdb_sql.parser.ast as A
    import mindsdb_sql.parser.dialects.mindsdb as M
    for mod in (M, A):
        c = getattr(mod, name, None)
        if isinstance(c, type):
            return c
    import gc
    for c in gc.get_objects():
        if isinstance(c, type) and c.__name__ == name and c.__module__.startswith('mindsdb_sql'):
            return c
    return None


def ctor_params(cls):
    """named constructor parameters along the MRO (a class whose `__init__` only has *args / **kwargs hands them up)"""
    out = {}
    for k in cls.__mro__[:-1]:
        init = k.__dict__.get('__init__')
        if init is None:
            continue
        sig = inspect.signature(init)
        forwards = False
        for n, p in list(sig.parameters.items())[1:]:
            if p.kind in (p.VAR_POSITIONAL, p.VAR_KEYWORD):
                forwards = True
            elif n not in out:
                out[n] = p
        if not forwards:
            break
    return out


def ctor_build(cls, param, value):
    from mindsdb_sql.parser.ast import Identifier
    params = ctor_params(cls)
    last = None
    for dummy in (lambda: None, lambda: Identifier('x')):
        kw = {}
        for n, p in params.items():
            if n == param:
                kw[n] = value
            elif p.default is p.empty:
                kw[n] = dummy()
        try:
            return cls(**kw)
        except Exception as e:
            last = e
    raise last


def ctor_param(cls, attr):
    """the constructor parameter that ends up in `attr` (same name first, else found by sentinel)"""
    names = list(ctor_params(cls))
    for n in ([attr] if attr in names else []) + names:
        try:
            o = ctor_build(cls, n, 'C16CTORSENTINEL')
            if isinstance(getattr(o, attr, None), str) and 'C16CTORSENTINEL' in getattr(o, attr):
                return n
        except Exception:
            continue
    return None


def ctor_probe(cls, attr, param, payloads):
    rows = []
    for name, text in payloads:
        try:
            v = show(getattr(ctor_build(cls, param, text), attr))
        except Exception as e:
            v = '<raised %s>' % type(e).__name__
        rows.append(dict(cls=cls.__name__, attr=attr, param=param, payload=name, passed=text, stored=v))
    return rows


def ctor_form(cls, attr, param):
    """syntactic transcription of how `attr` gets its value: `param:<p>` iff some class of the MRO assigns
    `self.<attr> = <p>` in `__init__`, `<p>` is a parameter that is not re-bound anywhere in that body, nothing else in the
    class hierarchy assigns `self.<attr>`, and `attr` is not a descriptor / there is no `__setattr__` / `__getattribute__` /
    `__getattr__` override; otherwise a description of what was found"""
    for k in cls.__mro__[:-1]:
        d = k.__dict__
        if attr in d:
            return 'descriptor:%s.%s' % (k.__name__, attr)
        for hook in ('__setattr__', '__getattribute__', '__getattr__'):
            if hook in d:
                return 'hook:%s.%s' % (k.__name__, hook)
    assigns = []
    for k in cls.__mro__[:-1]:
        try:
            tree = pyast.parse(textwrap.dedent(inspect.getsource(k)))
        except (OSError, TypeError):
            continue
        for fn in pyast.walk(tree):
            if not isinstance(fn, (pyast.FunctionDef, pyast.AsyncFunctionDef)):
                continue
            params = [a.arg for a in fn.args.posonlyargs + fn.args.args + fn.args.kwonlyargs]
            rebound = set()
            for n in pyast.walk(fn):
                tg = n.targets if isinstance(n, pyast.Assign) else [n.target] if isinstance(
                    n, (pyast.AugAssign, pyast.AnnAssign, pyast.For, pyast.NamedExpr)) else []
                for t in tg:
                    for x in pyast.walk(t):
                        if isinstance(x, pyast.Name):
                            rebound.add(x.id)
            for n in pyast.walk(fn):
                tg = n.targets if isinstance(n, pyast.Assign) else [n.target] if isinstance(n, (pyast.AugAssign, pyast.AnnAssign)) else []
                for t in tg:
                    for x in pyast.walk(t):
                        if isinstance(x, pyast.Attribute) and x.attr == attr and isinstance(x.value, pyast.Name) \
                                and params and x.value.id == params[0]:
                            val = getattr(n, 'value', None)
                            if isinstance(n, pyast.Assign) and isinstance(val, pyast.Name) and val.id in params \
                                    and val.id not in rebound and fn.name == '__init__' and len(n.targets) == 1 \
                                    and isinstance(t, pyast.Attribute):
                                assigns.append('param:%s' % val.id)
                            else:
                                assigns.append('expr:%s.%s: %s' % (k.__name__, fn.name, pyast.unparse(n)[:120]))
    if assigns == ['param:%s' % param]:
        return assigns[0]
    return ' | '.join(assigns) if assigns else 'no-assignment-found'


# ---------------------------------------------------------------------------------------------------- all together
def attr_probe(lexer, parser, pmod, can):
    from mindsdb_sql import parse_sql
    L = type(lexer)
    embed, tmpls, problems = templates(L, parser, can)
    payloads = PAYLOADS
    lexable = []
    for name, text in payloads:
        try:
            toks = list(L().tokenize(text))
            lexable.append(bool(toks) and tokens_plain(pmod, toks) == text)
        except Exception:
            lexable.append(False)
    glue, probed, attrs, tinfo = [], set(), {}, []
    with Patched(pmod, parser, can, lambda k, t: '') as P:
        for t in tmpls:
            d = discover(parse_sql, P, t)
            t['status'] = d['status']
            t['slots'] = d.get('slots', [])
            t['reduced'] = d.get('reduced', [])
            good = d['status'] == 'ok' and t['prod'] in d['reduced'] and d.get('calls') == t['nq'] \
                and len(t['slots']) == t['nq'] and all(t['slots'])
            t['good'] = good
            if not good:
                if d['status'] == 'ok':
                    problems.append('template %s (%s): reduced %s, tokens_to_string calls %s, slots %s' % (
                        t['name'], t['text'], d['reduced'], d.get('calls'), [len(s) for s in t['slots']]))
                continue
            rows = probe(parse_sql, P, t, t['slots'], payloads)
            glue += rows
            probed.add(t['prod'])
            for k, sl in enumerate(t['slots']):
                for path, cls, attr in sl:
                    attrs.setdefault((cls, attr), set()).add(t['action'])
    ctor_rows, forms = [], []
    for (cname, attr) in sorted(attrs):
        cls = find_class(cname)
        if cls is None:
            forms.append(dict(cls=cname, attr=attr, param='?', form='class-not-found'))
            continue
        param = ctor_param(cls, attr)
        if param is None:
            forms.append(dict(cls=cname, attr=attr, param='?', form='no-parameter-reaches-the-attribute'))
            continue
        forms.append(dict(cls=cname, attr=attr, param=param, form=ctor_form(cls, attr, param)))
        ctor_rows += ctor_probe(cls, attr, param, payloads)
    return dict(embed=embed, templates=tmpls, problems=problems, glue=glue, probed=sorted(probed),
                attrs=[[c, a] for c, a in sorted(attrs)], ctor=ctor_rows, forms=forms,
                payloads=[dict(name=n, text=t, plain=ok) for (n, t), ok in zip(payloads, lexable)])


def tokens_plain(pmod, toks):
    fn = getattr(pmod.tokens_to_string, '_c16_orig', pmod.tokens_to_string)
    return fn(toks)
