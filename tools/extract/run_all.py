"""run every translator; files are rewritten only when their content changes"""
import os, sys
ROOT = os.path.dirname(os.path.dirname(os.path.dirname(os.path.abspath(__file__))))
if ROOT not in sys.path:
    sys.path.insert(0, ROOT)


def main():
    from tools.extract import tables
    gen_lean = os.path.join(ROOT, 'lean', 'MindsVerif', 'Gen')
    gen_json = os.path.join(ROOT, 'gen')
    info = {'tables': tables.main(gen_lean, gen_json)}
    try:
        from tools.extract import more
    except ImportError:
        more = None
    if more is not None:
        info.update(more.main(gen_lean, gen_json))
    # property packages register translators as tools/extract/x_<name>.py with main(gen_lean, gen_json)
    import importlib
    here = os.path.dirname(os.path.abspath(__file__))
    for f in sorted(os.listdir(here)):
        if f.startswith('x_') and f.endswith('.py'):
            m = importlib.import_module('tools.extract.' + f[:-3])
            info.update(m.main(gen_lean, gen_json) or {})
    return info


if __name__ == '__main__':
    import json
    print(json.dumps(main()))
