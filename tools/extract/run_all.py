"""run every translator; files are rewritten only when their content changes"""
import os, sys
ROOT = os.path.dirname(os.path.dirname(os.path.dirname(os.path.abspath(__file__))))
if ROOT not in sys.path:
    sys.path.insert(0, ROOT)


def main():
    from tools.extract import tables
    gen_lean = os.path.join(ROOT, 'lean', 'MindsVerif', 'Gen')
    gen_json = os.path.join(ROOT, 'gen')
    info = {'tables': tables.main(gen_lean, gen_json)}
    try:
        from tools.extract import more
    except ImportError:
        more = None
    if more is not None:
        info.update(more.main(gen_lean, gen_json))
    # property packages register translators as tools/extract/x_<name>.py with main(gen_lean, gen_json)
    import importlib
    here = os.path.dirname(os.path.abspath(__file__))
    # every translator runs even when an earlier one fails (a lexer that hangs on an exemplar statement must not keep the
    # lexer tables from being regenerated); the failures are raised together at the end
    failed = []
    for f in sorted(os.listdir(here)):
        if f.startswith('x_') and f.endswith('.py'):
            try:
                m = importlib.import_module('tools.extract.' + f[:-3])
                info.update(m.main(gen_lean, gen_json) or {})
            except KeyboardInterrupt:
                raise
            except BaseException as e:
                import traceback
                failed.append('%s: %s' % (f, traceback.format_exc()[-600:]))
    if failed:
        raise RuntimeError('translators failed: ' + ' || '.join(failed))
    return info


if __name__ == '__main__':
    import json
    print(json.dumps(main()))
