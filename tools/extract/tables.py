"""Tie A translator: live SLY LR tables -> canonical Lean data (Gen/Tables_<dialect>.lean)
and a JSON side file used by the harness to translate token / production numbers.

The translator only transcribes.  The certificates it computes (past / pst / gdom) are
re-checked by the Lean kernel (`Tables.valid`); a wrong certificate fails the build.
"""
import json, os, sys
from collections import deque

REPO = os.environ.get('VERIF_REPO', '/repo')
if REPO not in sys.path:
    sys.path.insert(0, REPO)


def load(dialect):
    from mindsdb_sql import get_lexer_parser
    lexer, parser = get_lexer_parser(dialect)
    return lexer, parser


def canonical(parser):
    g = parser._grammar
    t = parser._lrtable
    prods = g.Productions
    terms = ['$end', 'error'] + sorted(x for x in g.Terminals if x not in ('$end', 'error'))
    nts = sorted(set(g.Nonterminals) | {prods[0].name})
    tid = {n: i for i, n in enumerate(terms)}
    nid = {n: i for i, n in enumerate(nts)}

    def symcode(name):
        return 2 * tid[name] if name in tid else 2 * nid[name] + 1

    # productions: 0 stays, others sorted by (lhs, rhs)
    order = [0] + sorted(range(1, len(prods)), key=lambda i: (prods[i].name, tuple(prods[i].prod), i))
    pid = {old: new for new, old in enumerate(order)}

    # states: BFS from 0, edges sorted by symbol name
    def edges(s):
        out = []
        for name, v in t.lr_action[s].items():
            if v is not None and v > 0:
                out.append((name, v))
        for name, v in t.lr_goto.get(s, {}).items():
            out.append((name, v))
        out.sort(key=lambda e: (e[0], e[1]))
        return out

    sid = {0: 0}
    q = deque([0])
    while q:
        s = q.popleft()
        for _, v in edges(s):
            if v not in sid:
                sid[v] = len(sid)
                q.append(v)
    unreachable = [s for s in t.lr_action if s not in sid]
    for s in sorted(unreachable):
        sid[s] = len(sid)
    return dict(terms=terms, nts=nts, tid=tid, nid=nid, pid=pid, sid=sid, symcode=symcode,
                edges=edges, order=order)


def build(dialect):
    lexer, parser = load(dialect)
    g = parser._grammar
    t = parser._lrtable
    prods = g.Productions
    c = canonical(parser)
    tid, nid, pid, sid, symcode = c['tid'], c['nid'], c['pid'], c['sid'], c['symcode']
    inv_sid = {v: k for k, v in sid.items()}
    n_states = len(sid)

    cprods = [None] * len(prods)
    for old, new in pid.items():
        p = prods[old]
        cprods[new] = dict(lhs=nid[p.name], rhs=[symcode(x) for x in p.prod], name=p.name,
                           rhs_names=list(p.prod), prec=list(p.prec) if p.prec else None, old=old)

    # canonical rows
    rows = []
    for cs in range(n_states):
        s = inv_sid[cs]
        shifts, reds, nones, acc = [], {}, 0, False
        for name, v in t.lr_action[s].items():
            if v is None:
                nones |= 1 << tid[name]
            elif v > 0:
                shifts.append((tid[name], sid[v]))
            elif v < 0:
                reds.setdefault(pid[-v], 0)
                reds[pid[-v]] |= 1 << tid[name]
            else:
                assert name == '$end'
                acc = True
        gotos = [(nid[name], sid[v]) for name, v in t.lr_goto.get(s, {}).items()]
        dflt = t.defaulted_states.get(s)
        rows.append(dict(shifts=sorted(shifts), reds=sorted(reds.items()), nones=nones, acc=acc,
                         gotos=sorted(gotos), dflt=(pid[-dflt] if dflt is not None else None)))

    # ---- certificates -------------------------------------------------
    maxlen = max(len(p['rhs']) for p in cprods)
    succ = [[] for _ in range(n_states)]
    for cs, r in enumerate(rows):
        for (tt, v) in r['shifts']:
            succ[cs].append((2 * tt, v))
        for (nn, v) in r['gotos']:
            succ[cs].append((2 * nn + 1, v))
    # past: longest common prefix over incoming edges
    past = [None] * n_states
    past[0] = []
    changed = True
    while changed:
        changed = False
        for s in range(n_states):
            if past[s] is None:
                continue
            for (X, v) in succ[s]:
                cand = ([X] + past[s])[:maxlen]
                if past[v] is None:
                    new = cand
                else:
                    new = []
                    for a, b in zip(past[v], cand):
                        if a != b:
                            break
                        new.append(a)
                if new != past[v]:
                    past[v] = new
                    changed = True
    for s in range(n_states):
        if past[s] is None:
            past[s] = []
    # need: how many depth levels each state must know
    need = [0] * n_states
    for s, r in enumerate(rows):
        for (p, _) in r['reds']:
            need[s] = max(need[s], len(cprods[p]['rhs']))
        if r['acc']:
            need[s] = max(need[s], 1)
    changed = True
    while changed:
        changed = False
        for s in range(n_states):
            for (_, v) in succ[s]:
                if need[v] - 1 > need[s]:
                    need[s] = need[v] - 1
                    changed = True
    depth = [[1 << s] for s in range(n_states)]   # depth[s][k] = mask at depth k
    for k in range(1, max(need) + 1):
        nxt = [0] * n_states
        for s in range(n_states):
            if len(depth[s]) >= k:   # has level k-1
                for (_, v) in succ[s]:
                    if need[v] >= k:
                        nxt[v] |= depth[s][k - 1]
        for v in range(n_states):
            if need[v] >= k:
                depth[v].append(nxt[v])
    for s, r in enumerate(rows):
        r['past'] = past[s]
        r['pst'] = depth[s][1:]
    gdom = [0] * len(c['nts'])
    for s, r in enumerate(rows):
        for (nn, _) in r['gotos']:
            gdom[nn] |= 1 << s

    start = nid[prods[0].prod[0]]
    sample_sql = 'select a, b from t where c = 1 and d > 2 order by a limit 5'
    sample = [tid[tok.type] for tok in lexer.tokenize(sample_sql)]
    return dict(sample=sample, dialect=dialect, terms=c['terms'], nts=c['nts'], prods=cprods, rows=rows, gdom=gdom,
                start=start, n_states=n_states,
                pid={str(k): v for k, v in pid.items()}, sid={str(k): v for k, v in sid.items()},
                precedence={k: list(v) for k, v in g.Precedence.items()})


# ---------------------------------------------------------------- Lean emission

def hexn(n):
    return hex(n) if n > 9 else str(n)


def lean_list(xs):
    return '[' + ','.join(xs) + ']'


def trie(items, emit):
    """items: dict index -> value; heap-numbered radix trie term"""
    def go(sub):
        if not sub:
            return '.nil'
        here = sub.get(0)
        left = {(i - 1) // 2: v for i, v in sub.items() if i > 0 and (i - 1) % 2 == 0}
        right = {(i - 1) // 2: v for i, v in sub.items() if i > 0 and (i - 1) % 2 == 1}
        v = '(some ' + emit(here) + ')' if here is not None else 'none'
        return '(.node ' + v + ' ' + go(left) + ' ' + go(right) + ')'
    return go(dict(items))


def emit_row(r):
    return ('⟨' + lean_list([str(t * 4096 + v) for t, v in r['shifts']]) + ','
            + lean_list(['(%d,%s)' % (p, hexn(m)) for p, m in r['reds']]) + ','
            + hexn(r['nones']) + ',' + ('true' if r['acc'] else 'false') + ','
            + lean_list([str(n * 4096 + v) for n, v in r['gotos']]) + ','
            + ('none' if r['dflt'] is None else 'some %d' % r['dflt']) + ','
            + lean_list([str(x) for x in r['past']]) + ','
            + lean_list([hexn(x) for x in r['pst']]) + '⟩')


def emit_prod(p):
    return '⟨%d,%s⟩' % (p['lhs'], lean_list([str(x) for x in p['rhs']]))


def subtries(items, depth):
    """split index->value dict into the 2^depth sub-tries below `depth` levels plus the top part.
    returns (top: dict index->value for indices < 2^depth - 1, subs: list of (a, b, dict)) where an
    entry with sub-index j of sub-trie (a, b) has global index a*j+b."""
    top = {i: v for i, v in items.items() if i < (1 << depth) - 1}
    subs = []

    def go(a, b, d, sub):
        if d == 0:
            subs.append((a, b, sub))
            return
        left = {(i - 1) // 2: v for i, v in sub.items() if i > 0 and (i - 1) % 2 == 0}
        right = {(i - 1) // 2: v for i, v in sub.items() if i > 0 and (i - 1) % 2 == 1}
        go(2 * a, a + b, d - 1, left)
        go(2 * a, 2 * a + b, d - 1, right)
    go(1, 0, depth, dict(items))
    return top, subs


CHUNK_DEPTH = 4


def emit_lean(tb, ns):
    """returns {filename: text}"""
    d = tb['dialect']
    rows = {i: r for i, r in enumerate(tb['rows'])}
    top, subs = subtries(rows, CHUNK_DEPTH)
    out = []
    out.append('-- GENERATED by tools/extract/tables.py from the live %s parser. Do not edit.' % d)
    out.append('import MindsVerif.Model.LR')
    out.append('set_option maxRecDepth 1000000')
    out.append('namespace %s' % ns)
    out.append('open MindsVerif.LR')
    for k, (a, b, sub) in enumerate(subs):
        out.append('def rows_%d : Trie Row := %s' % (k, trie(sub, emit_row)))

    # top part: explicit nodes down to CHUNK_DEPTH, leaves are rows_k
    counter = [0]

    def top_term(idx, dleft):
        if dleft == 0:
            k = counter[0]
            counter[0] += 1
            return 'rows_%d' % k
        here = top.get(idx)
        v = '(some ' + emit_row(here) + ')' if here is not None else 'none'
        l = top_term(2 * idx + 1, dleft - 1)
        r = top_term(2 * idx + 2, dleft - 1)
        return '(.node ' + v + ' ' + l + ' ' + r + ')'
    # NOTE: heap numbering of *global* indices: the element at global index i has children 2i+1, 2i+2
    # only in the classic heap layout; our trie consumes low bits first, so recompute by (a, b).
    def top_term2(a, b, dleft):
        if dleft == 0:
            k = counter[0]
            counter[0] += 1
            assert subs[k][0] == a and subs[k][1] == b
            return 'rows_%d' % k
        here = rows.get(b)
        v = '(some ' + emit_row(here) + ')' if here is not None else 'none'
        l = top_term2(2 * a, a + b, dleft - 1)
        r = top_term2(2 * a, 2 * a + b, dleft - 1)
        return '(.node ' + v + ' ' + l + ' ' + r + ')'
    out.append('def rows : Trie Row := %s' % top_term2(1, 0, CHUNK_DEPTH))
    out.append('def prods : Trie Prod := %s' % trie({i: p for i, p in enumerate(tb['prods'])}, emit_prod))
    out.append('def gdom : List Nat := %s' % lean_list([hexn(x) for x in tb['gdom']]))
    out.append('def tables : Tables := ⟨rows, prods, gdom, %d, %d⟩' % (tb['start'], tb['n_states']))
    out.append('/-- token ids of `select a, b from t where c = 1 and d > 2 order by a limit 5` (non-vacuity witness) -/')
    out.append('def sample : List Nat := %s' % lean_list([str(x) for x in tb['sample']]))
    out.append('def nTerms : Nat := %d' % len(tb['terms']))
    out.append('def nProds : Nat := %d' % len(tb['prods']))
    out.append('def chunkParams : List (Nat × Nat) := %s' % lean_list(['(%d,%d)' % (a, b) for a, b, _ in subs]))
    out.append('end %s' % ns)
    return '\n'.join(out) + '\n'


def emit_valid(tb, d):
    """chunk modules (one kernel evaluation each, built in parallel by lake) and the module
    that assembles `tables.valid = true` from them."""
    ns = 'MindsVerif.Gen.Tables_%s' % d
    rows = {i: r for i, r in enumerate(tb['rows'])}
    top, subs = subtries(rows, CHUNK_DEPTH)
    files = {}
    for k, (a, b, sub) in enumerate(subs):
        files['V_%s_%d.lean' % (d, k)] = (
            '-- GENERATED. kernel-evaluated validity of one sixteenth of the %s automaton\n'
            'import MindsVerif.Gen.Tables_%s\n'
            'open MindsVerif.LR\n'
            'namespace %s\n'
            'theorem chunk_%d : Trie.allIdx (rowOK tables) %d %d rows_%d = true := by decide +kernel\n'
            'end %s\n' % (d, d, ns, k, a, b, k, ns))
    counter = [0]

    def term(dleft):
        if dleft == 0:
            k = counter[0]
            counter[0] += 1
            return 'chunk_%d' % k
        l = term(dleft - 1)
        r = term(dleft - 1)
        return '(Trie.allIdx_node (by decide +kernel) %s %s)' % (l, r)
    body = term(CHUNK_DEPTH)
    out = ['-- GENERATED. assembles the validity theorem of the %s tables from its chunks' % d,
           'import MindsVerif.Lemmas.LRBasic']
    out += ['import MindsVerif.Gen.V_%s_%d' % (d, k) for k in range(len(subs))]
    out += ['open MindsVerif.LR', 'namespace %s' % ns,
            'theorem allRows : Trie.allIdx (rowOK tables) 1 0 rows = true :=', '  ' + body,
            'theorem valid : tables.valid = true := by',
            '  unfold Tables.valid',
            '  have h : Trie.allIdx (rowOK tables) 1 0 tables.rows = true := allRows',
            '  rw [h]',
            '  decide +kernel',
            'end %s' % ns]
    files['Valid_%s.lean' % d] = '\n'.join(out) + '\n'
    return files


def write_if_changed(path, text):
    try:
        with open(path, encoding='utf-8') as f:
            if f.read() == text:
                return False
    except FileNotFoundError:
        pass
    os.makedirs(os.path.dirname(path), exist_ok=True)
    with open(path, 'w', encoding='utf-8') as f:
        f.write(text)
    return True


def main(outdir_lean, outdir_json, dialects=('sqlite', 'mysql', 'mindsdb')):
    res = {}
    for d in dialects:
        tb = build(d)
        ns = 'MindsVerif.Gen.Tables_%s' % d
        txt = emit_lean(tb, ns)
        ch = write_if_changed(os.path.join(outdir_lean, 'Tables_%s.lean' % d), txt)
        for fn, t2 in emit_valid(tb, d).items():
            write_if_changed(os.path.join(outdir_lean, fn), t2)
        side = dict(dialect=d, terms=tb['terms'], nts=tb['nts'],
                    prods=[dict(lhs=p['name'], rhs=p['rhs_names'], prec=p['prec']) for p in tb['prods']],
                    n_states=tb['n_states'], start=tb['start'])
        write_if_changed(os.path.join(outdir_json, 'tables_%s.json' % d), json.dumps(side, sort_keys=True))
        res[d] = dict(changed=ch, states=tb['n_states'], prods=len(tb['prods']), terms=len(tb['terms']),
                      bytes=len(txt))
    return res


if __name__ == '__main__':
    here = os.path.dirname(os.path.abspath(__file__))
    root = os.path.dirname(os.path.dirname(here))
    print(json.dumps(main(os.path.join(root, 'lean/MindsVerif/Gen'), os.path.join(root, 'gen'))))
