"""C14 translator: the join-type spellings of the LIVE mindsdb grammar and what the LIVE planner does with each.

1. `spellings()`: every way the grammars (mindsdb, mysql, sqlite dialect) join two `FROM` operands.  Nothing is listed by hand: a production whose
   right-hand side has a symbol between two operand symbols (`from_table_aliased X from_table_aliased`, or the
   left-recursive `join_tables X from_table_aliased`) names a connector `X`; a terminal connector (the comma) is one
   spelling, a non-terminal connector (`join_clause`) is expanded to all its terminal strings.  Each spelling is then
   parsed by the real parser inside `SELECT * FROM a <spelling> b`, and the `Join.join_type` STRING and the `implicit`
   flag of the resulting node are recorded: that string is what the planner classifies.
2. `observe(jt)`: the push-down decisions of the real planner for a join of that type, read off the plan steps of four
   fixed probe queries (Tie B, as tools/extract/x_c15.py):
     keepsRight  - nothing of the ON clause reaches the fetch of the right table (no `col = const`, no `IN :Result`)
     padsRight   - `right.col IS NULL` of WHERE is NOT applied in the fetch of the right table
     padsLeft    - `left.col IS NULL` of WHERE is NOT applied in the fetch of the left table
     limitLeft   - the query's LIMIT is taken over by the fetch of the left table when a third table follows
                   (`a <J> b JOIN c`: check_use_limit looks at the type of the join in front of a table)

Writes Gen/JoinSpellings.lean (`spellings`, `observed`) and gen/join_spellings.json (same data for the harness).
`Props/C14Join.lean` decides in the kernel, on this data, that (a) the hand model `ModelJoin` classifies every string
exactly as observed and (b) the classification respects the semantics class of every spelling.
"""
import json, os, re, sys

REPO = os.environ.get('VERIF_REPO', '/repo')
if REPO not in sys.path:
    sys.path.insert(0, REPO)

OPERAND = 'from_table_aliased'
MAX_EXPANSIONS = 200

_CACHE = {}


def _token_text(lexer_cls, name):
    """the text a keyword / punctuation token stands for, from the lexer's own regex"""
    rx = getattr(lexer_cls, name, None)
    if isinstance(rx, str):
        t = rx.replace(r'\b', '')
        if re.fullmatch(r'[A-Za-z_]+', t):
            return t
        try:
            if len(t) <= 3 and re.fullmatch(rx, t.replace('\\', '')):
                return t.replace('\\', '')
        except re.error:
            pass
    return name


def _expand(g, sym, lexer_cls, depth=0):
    """all terminal strings of a (non-recursive) connector symbol"""
    if sym in g.Terminals:
        return [[_token_text(lexer_cls, sym)]]
    if depth > 4:
        raise ValueError('join connector %s is recursive' % sym)
    out = []
    for p in g.Productions:
        if p.name != sym:
            continue
        seqs = [[]]
        for s in p.prod:
            seqs = [a + b for a in seqs for b in _expand(g, s, lexer_cls, depth + 1)]
            if len(seqs) > MAX_EXPANSIONS:
                raise ValueError('too many expansions of %s' % sym)
        out += seqs
    return out


DIALECTS = ('mindsdb', 'mysql', 'sqlite')


def _dialect_spellings(dialect):
    from mindsdb_sql import get_lexer_parser, parse_sql
    from mindsdb_sql.parser import ast
    lexer, parser = get_lexer_parser(dialect)
    g = parser._grammar
    # a non-terminal N is a join of operands when it has a production `operand X operand ...`; its connectors are the
    # X of those productions and of the left-recursive ones `N X operand ...`
    joins = set()
    for p in g.Productions:
        rhs = list(p.prod)
        if len(rhs) >= 3 and rhs[0] == OPERAND and rhs[2] == OPERAND and rhs[1] != OPERAND:
            joins.add(p.name)
    connectors = []
    for p in g.Productions:
        rhs = list(p.prod)
        if p.name in joins and len(rhs) >= 3 and rhs[2] == OPERAND and rhs[0] in (OPERAND, p.name) and rhs[1] != OPERAND:
            if rhs[1] not in connectors:
                connectors.append(rhs[1])
    texts = []
    for c in connectors:
        for seq in _expand(g, c, type(lexer)):
            t = ' '.join(seq)
            if t not in texts:
                texts.append(t)
    out = []
    for t in texts:
        sql = 'SELECT * FROM a %s b' % t
        try:
            q = parse_sql(sql, dialect)
        except Exception as e:                      # a production the parser itself can not reach
            out.append(dict(sql=t, jtype=None, implicit=False, error=type(e).__name__))
            continue
        j = q.from_table
        if not isinstance(j, ast.Join):
            out.append(dict(sql=t, jtype=None, implicit=False, error='not-a-join'))
            continue
        out.append(dict(sql=t, jtype=j.join_type, implicit=bool(j.implicit)))
    return out


def spellings():
    """-> sorted list of dict(sql=<as written>, jtype=<Join.join_type the parser produces>, implicit=<bool>,
    dialects=[...]) over the grammars of all three dialects (the planner takes ASTs of any of them)"""
    if 'sp' in _CACHE:
        return _CACHE['sp']
    out = []
    for d in DIALECTS:
        for sp in _dialect_spellings(d):
            for o in out:
                if (o['sql'], o['jtype'], o['implicit']) == (sp['sql'], sp['jtype'], sp['implicit']):
                    o['dialects'].append(d)
                    break
            else:
                out.append(dict(sp, dialects=[d]))
    out.sort(key=lambda d: (d['sql'] == ',', d['sql'], str(d['jtype'])))
    _CACHE['sp'] = out
    return out


CATALOG = dict(integrations=['int1', 'int2'],
               predictor_metadata=[{'name': 'pred', 'integration_name': 'mindsdb'}],
               default_namespace='mindsdb')


def _plan(sp, on, tail, third=False):
    """`a <spelling> b [ON on] [JOIN int1.t3 c] JOIN model m <tail>` (an implicit join chain has no ON and can not be
    mixed with JOIN clauses: every connector is the comma)"""
    import copy
    from mindsdb_sql import parse_sql
    from mindsdb_sql.planner import plan_query
    if sp['implicit']:
        c = sp['sql']
        sql = 'SELECT * FROM int1.t1 AS a %s int2.t2 AS b %s%s mindsdb.pred AS m%s' % (
            c, c, ' int1.t3 AS c %s' % c if third else '', tail)
    else:
        sql = 'SELECT * FROM int1.t1 AS a %s int2.t2 AS b%s%s JOIN mindsdb.pred AS m%s' % (
            sp['sql'], ' ON ' + on if on else '', ' JOIN int1.t3 AS c' if third else '', tail)
    return plan_query(parse_sql(sql, 'mindsdb'), **copy.deepcopy(CATALOG)).steps


def _fetch(steps, table):
    from mindsdb_sql.planner.steps import FetchDataframeStep
    for s in steps:
        if isinstance(s, FetchDataframeStep) and getattr(s.query.from_table, 'parts', [None])[-1] == table:
            return s.query
    raise ValueError('no fetch of %s' % table)


def _conjuncts(e):
    from mindsdb_sql.parser import ast
    if e is None:
        return []
    if isinstance(e, ast.BinaryOperation) and e.op.lower() == 'and':
        return _conjuncts(e.args[0]) + _conjuncts(e.args[1])
    return [e]


def observe_string(jt):
    """the four decisions of the live planner for a Join whose join_type is exactly `jt`: the string is put on the parsed
    AST of `a JOIN b ...`, so any string (other dialects' parsers, hand-built ASTs) reaches `PlanJoinTablesQuery`"""
    import copy
    from mindsdb_sql import parse_sql
    from mindsdb_sql.planner import plan_query

    def plan(on, tail, third=False):
        q = parse_sql('select * from int1.t1 as a join int2.t2 as b on %s%s join mindsdb.pred as m%s' % (
            on, ' join int1.t3 as c' if third else '', tail), 'mindsdb')
        node = q.from_table.left.left if third else q.from_table.left
        node.join_type = jt
        return plan_query(q, **copy.deepcopy(CATALOG)).steps

    keeps = len(_conjuncts(_fetch(plan('a.id = b.id and b.k = 1', ''), 't2').where)) == 0
    st = plan('a.id > b.id', ' where b.z is null and a.z is null')
    pads_r = not any(str(c) == 'z IS NULL' for c in _conjuncts(_fetch(st, 't2').where))
    pads_l = not any(str(c) == 'z IS NULL' for c in _conjuncts(_fetch(st, 't1').where))
    lim = _fetch(plan('a.id > b.id', ' limit 3', third=True), 't1').limit is not None
    return dict(keepsRight=keeps, padsRight=pads_r, padsLeft=pads_l, limitLeft=lim)


def observe(sp):
    """the four decisions of the live planner for this spelling (keepsRight None where the grammar has no ON: comma),
    through the mindsdb parser when that dialect has the spelling, else through `observe_string`"""
    if 'mindsdb' not in sp.get('dialects', ['mindsdb']):
        return observe_string(sp['jtype'])
    has_on = not sp['implicit']
    keeps = None
    if has_on:
        q = _fetch(_plan(sp, 'a.id = b.id AND b.k = 1', ''), 't2')
        keeps = len(_conjuncts(q.where)) == 0
    on = 'a.id > b.id'          # no ON-derived filter for any join type: only the WHERE-derived ones remain
    st = _plan(sp, on, ' WHERE b.z IS NULL AND a.z IS NULL')
    pads_r = not any(str(c) == 'z IS NULL' for c in _conjuncts(_fetch(st, 't2').where))
    pads_l = not any(str(c) == 'z IS NULL' for c in _conjuncts(_fetch(st, 't1').where))
    # check_use_limit looks at the type of the join BEFORE a table: a third table is needed to see it
    st = _plan(sp, on, ' LIMIT 3', third=True)
    lim = _fetch(st, 't1').limit is not None
    return dict(keepsRight=keeps, padsRight=pads_r, padsLeft=pads_l, limitLeft=lim)


def lean_str(s):
    return '"' + s.replace('\\', '\\\\').replace('"', '\\"') + '"'


def main(gen_lean, gen_json):
    failed = []
    try:
        sps = spellings()
    except Exception as e:      # the grammar can not be read as expected: C14's obligations fail, other translators go on
        sps = []
        failed.append('spellings: %s: %s' % (type(e).__name__, str(e)[:200]))
    rows = []
    seen = set()
    for sp in sps:
        if sp['jtype'] is None:
            continue
        key = (sp['jtype'], sp['implicit'])
        try:
            ob = observe(sp)
        except Exception as e:      # the planner raises on a probe query: recorded, decided false in Lean, never fatal here
            failed.append('%s: %s' % (sp['sql'], type(e).__name__))
            continue
        sp['observed'] = ob
        if key in seen:
            continue
        seen.add(key)
        rows.append((sp['jtype'], sp['implicit'], ob))
    b = lambda x: 'true' if x else 'false'
    ob_opt = lambda x: 'none' if x is None else 'some ' + b(x)
    text = ['/-! generated by tools/extract/x_c14join.py from the live mindsdb grammar and the live planner -/',
            'namespace MindsVerif.Gen.JoinSpellings', '',
            '/-- (spelling as written between two FROM operands, `Join.join_type` the parser produces, `implicit`) -/',
            'def spellings : List (String × String × Bool) := [']
    text.append(',\n'.join('  (%s, %s, %s)' % (lean_str(sp['sql']), lean_str(sp['jtype']), b(sp['implicit']))
                           for sp in sps if sp['jtype'] is not None))
    text += ['  ]', '',
             '/-- spellings of the grammar the parser itself rejects (expected: none) -/',
             'def unparsable : List String := [%s]' % ', '.join(lean_str(sp['sql']) for sp in sps if sp['jtype'] is None), '',
             '/-- what the live planner does for a join of that type: (join_type, implicit, keepsRight (none: the grammar',
             'has no ON for it), padsRight, padsLeft, limitLeft) - see the translator for the probe queries -/',
             'def observed : List (String × Bool × Option Bool × Bool × Bool × Bool) := [']
    text.append(',\n'.join('  (%s, %s, %s, %s, %s, %s)' % (lean_str(jt), b(im), ob_opt(ob['keepsRight']), b(ob['padsRight']),
                                                          b(ob['padsLeft']), b(ob['limitLeft']))
                           for jt, im, ob in rows))
    text += ['  ]', '',
             '/-- spellings for which a probe query made the planner raise (expected: none) -/',
             'def failedProbes : List String := [%s]' % ', '.join(lean_str(x) for x in failed), '',
             'end MindsVerif.Gen.JoinSpellings', '']
    text = '\n'.join(text)
    path = os.path.join(gen_lean, 'JoinSpellings.lean')
    old = open(path, encoding='utf-8').read() if os.path.exists(path) else None
    if old != text:
        open(path, 'w', encoding='utf-8').write(text)
    os.makedirs(gen_json, exist_ok=True)
    jpath = os.path.join(gen_json, 'join_spellings.json')
    jtxt = json.dumps(sps, indent=1, sort_keys=True)
    if not os.path.exists(jpath) or open(jpath).read() != jtxt:
        open(jpath, 'w').write(jtxt)
    return {'c14_join_spellings': [sp['sql'] for sp in sps], 'c14_join_failed_probes': failed}


if __name__ == '__main__':
    here = os.path.dirname(os.path.dirname(os.path.dirname(os.path.abspath(__file__))))
    print(json.dumps(main(os.path.join(here, 'lean', 'MindsVerif', 'Gen'), os.path.join(here, 'gen')), indent=1))
