"""C16 translator: symbol numbers and token sets for Φ16 (raw_query productions / all_tokens_list), the lexer's
action table and ignore set (pins for the hand model of the token actions), from the live mindsdb lexer/parser.

Round 5 — the path from `tokens_to_string`'s result to the attribute the user reads (grammar action · constructor ·
whatever runs afterwards): `attr_probe` derives one sentence per embedding production of the live grammar (every production
with `raw_query` in its right-hand side), finds by sentinel where the text ends up in the tree (stored-text attributes),
and probes the whole path and every constructor alone with the PAYLOADS (template-like / regex-bait texts inside literals).
The rows go to `Gen/C16Data.lean` (`glueRows`, `ctorRows`, `ctorForms`, `embedProbed`, `storedAttrs`) and are decided by
the kernel in Props/C16."""
import json, os, sys
from . import tables as T


def lean_str(s):
    return json.dumps(s, ensure_ascii=False)


def assigns_value(func):
    """syntactic transcription: does the token action assign to `<token parameter>.value`?"""
    import ast, inspect, textwrap
    fn = ast.parse(textwrap.dedent(inspect.getsource(func))).body[0]
    arg = fn.args.args[1].arg
    for n in ast.walk(fn):
        targets = n.targets if isinstance(n, ast.Assign) else [n.target] if isinstance(n, (ast.AugAssign, ast.AnnAssign)) else []
        for t in targets:
            for x in ast.walk(t):
                if isinstance(x, ast.Attribute) and isinstance(x.value, ast.Name) and x.value.id == arg and x.attr == 'value':
                    return True
    return False


def code(s):
    """a text as one Lean `Nat` literal: its CODE POINTS, six hex digits each, behind 0x01 (a Python str is a list of code
    points and may hold lone surrogates, which have no UTF-8 encoding)"""
    return '0x01' + ''.join('%06x' % ord(c) for c in s)


def comment_safe(s, n=110):
    """for a Lean comment: printable, no comment delimiters, anything unusual as \\u{…} (the file is written as UTF-8: a lone
    surrogate cannot be written raw)"""
    s = s.replace('\n', '⏎').replace('\t', '⇥').replace('\r', '␍').replace('-/', '-∕').replace('/-', '∕-')
    out = []
    for c in s[:n]:
        o = ord(c)
        if o < 32 or 0x7f <= o < 0xa1 or 0xd800 <= o <= 0xdfff or o in (0xad, 0x2028, 0x2029, 0xfeff, 0xfffe, 0xffff) \
                or 0x200b <= o <= 0x200f or 0x202a <= o <= 0x202e or 0x2066 <= o <= 0x2069 or o > 0xffff or 0xfdd0 <= o <= 0xfdef \
                or 0x300 <= o < 0x370 or o == 0x61c:
            out.append('\\u{%x}' % o)
        else:
            out.append(c)
    return ''.join(out) + ('…' if len(s) > n else '')


def attr_data(lexer, parser, pmod, can):
    """round 5: probe the way from `tokens_to_string`'s result to the attribute (see c16_attr.py) -> (Lean lines, side dict)"""
    from . import c16_attr as A
    r = A.attr_probe(lexer, parser, pmod, can)
    texts, index = [], {}

    def ix(t):
        if t not in index:
            index[t] = len(texts)
            texts.append(t)
        return index[t]
    for pl in r['payloads']:
        ix(pl['text'])

    def group(rows, key, mk):
        out, order = {}, []
        for g in rows:
            k = key(g)
            if k not in out:
                out[k] = (mk(g), [])
                order.append(k)
            out[k][1].append('(%d,%d)' % (ix(g['passed']), ix(g['stored'])))
        return ['⟨%s, [%s]⟩' % (out[k][0], ','.join(out[k][1])) for k in order]
    tmpl_text = {t['name']: t['text'] for t in r['templates']}
    glue = group(r['glue'], lambda g: (g['template'], g['q'], g['path']),
                 lambda g: '%s, %d, %d, %s, %s, %s' % (lean_str(tmpl_text[g['template']]), g['prod'], g['q'], lean_str(g['cls']),
                                                       lean_str(g['attr']), lean_str(g['path'])))
    ctor = group(r['ctor'], lambda g: (g['cls'], g['attr']),
                 lambda g: '%s, 0, 0, %s, %s, %s' % (lean_str('%s(%s=·)' % (g['cls'], g['param'])), lean_str(g['cls']),
                                                     lean_str(g['attr']), lean_str(g['attr'])))
    forms = []
    for f in r['forms']:
        kind, _, detail = f['form'].partition(':')
        forms.append('(%s, %s, %s, %s, %s)' % tuple(lean_str(x) for x in (f['cls'], f['attr'], f['param'], kind, detail)))
    out = ['/-! ## round 5: from the result of `tokens_to_string` to the attribute the user reads (probed, see c16_attr.py) -/',
           '/-- the texts of the probe rows, each as one number (code points, six hex digits each, behind 0x01); the first `nPayloads` are',
           'the payloads (template-like / regex-bait contents in every literal kind):']
    out += ['  %d %s: %s' % (i, pl['name'], comment_safe(pl['text'])) for i, pl in enumerate(r['payloads'])]
    out += ['  %d (read back, differs from what was passed): %s' % (i, comment_safe(t)) for i, t in enumerate(texts)
            if i >= len(r['payloads'])]
    out += ['-/',
            'def texts : List Nat := %s' % T.lean_list(code(t) for t in texts),
            'def nPayloads : Nat := %d' % len(r['payloads']),
            'def payloadNames : List String := %s' % T.lean_list(lean_str(pl['name']) for pl in r['payloads']),
            '/-- payloads that are inner texts the lexer accepts and `tokens_to_string` reproduces character by character -/',
            'def payloadsPlain : List Bool := %s' % T.lean_list('true' if pl['plain'] else 'false' for pl in r['payloads']),
            '/-- the whole way: a sentence of the embedding production parsed with `tokens_to_string` replaced by a function that',
            'returns the payload; read at the discovered access path -/',
            'def glueRows : List Probe := %s' % T.lean_list(glue),
            '/-- the constructor alone -/',
            'def ctorRows : List Probe := %s' % T.lean_list(ctor),
            '/-- (class, attribute, parameter, kind, detail) of the assignment to the attribute in `__init__` -/',
            'def ctorForms : List (String × String × String × String × String) := %s' % T.lean_list(forms),
            '/-- (class, attribute) pairs in which the text of an embedded query was found -/',
            'def storedAttrs : List (String × String) := %s' % T.lean_list(
                '(%s, %s)' % (lean_str(c), lean_str(a)) for c, a in r['attrs']),
            '/-- embedding productions a probed sentence was seen to reduce, with every embedded query found in the tree -/',
            'def embedProbed : List Nat := %s' % T.lean_list(map(str, r['probed'])),
            '/-- what the translator could not do (no sentence for a production, text not found in the tree, …) -/',
            'def attrProblems : List String := %s' % T.lean_list(lean_str(x) for x in r['problems'])]
    bad = [g for g in r['glue'] if g['passed'] != g['stored']]
    badc = [g for g in r['ctor'] if g['passed'] != g['stored']]
    side = dict(embed=r['embed'], probed=r['probed'], attrs=r['attrs'], forms=r['forms'], problems=r['problems'],
                payloads=r['payloads'],
                templates=[dict(name=t['name'], prod=t['prod'], text=t['text'], nq=t['nq'], good=t.get('good', False), action=t.get('action'),
                                paths=[[s[0] for s in sl] for sl in t.get('slots', [])]) for t in r['templates']],
                glue_bad=bad[:40], ctor_bad=badc[:40], n_glue=len(r['glue']), n_ctor=len(r['ctor']))
    return out, side


def main(gen_lean, gen_json):
    lexer, parser = T.load('mindsdb')
    import importlib
    pmod = importlib.import_module(type(parser).__module__)
    L = type(lexer)
    can = T.canonical(parser)
    tid, nid = can['tid'], can['nid']
    lex_tokens = sorted(tid[t] for t in L.tokens)
    all_tokens = sorted(tid[t] for t in pmod.all_tokens_list)
    funcs = sorted(L._token_funcs.keys())
    rewriting = sorted(k for k, f in L._token_funcs.items() if assigns_value(f))
    cfg = ['true' if k in rewriting else 'false' for k in ('QUOTE_STRING', 'DQUOTE_STRING', 'VARIABLE', 'SYSTEM_VARIABLE')]
    ignored = sorted(L._ignored_tokens)
    rules = {k: (v if isinstance(v, str) else getattr(v, 'pattern', '')) for k, v in L._rules}
    names = {k: tid[k] for k in ('QUOTE_STRING', 'DQUOTE_STRING', 'VARIABLE', 'SYSTEM_VARIABLE', 'LPAREN', 'RPAREN')}
    sample_text = "CREATE VIEW v FROM db (select a, f(1) from t where b = '' and (c > 2))"
    sample = [tid[t.type] for t in L().tokenize(sample_text)]
    multiword = sorted(k for k, v in rules.items() if k in L.tokens and ('\\s' in v or ' ' in v))
    ns = 'MindsVerif.Gen.C16Data'
    attr_lines, attr_side = attr_data(lexer, parser, pmod, can)
    out = ['-- GENERATED by tools/extract/x_c16.py from the live mindsdb lexer / parser module. Do not edit.',
           'import MindsVerif.Model.RawQueryGram', 'import MindsVerif.Model.TokStr', 'import MindsVerif.Model.StoredAttr',
           'set_option maxRecDepth 100000', 'namespace %s' % ns, 'open MindsVerif.RawQueryGram MindsVerif.StoredAttr',
           'def ids : Ids where',
           '  rq := %d' % nid['raw_query'], '  lparen := %d' % tid['LPAREN'], '  rparen := %d' % tid['RPAREN'],
           '  nTerms := %d' % len(can['terms']),
           '  lexTokens := %s' % T.lean_list(map(str, lex_tokens)),
           '  allTokens := %s' % T.lean_list(map(str, all_tokens)),
           '/-- token types that have an action function (`Lexer._token_funcs`) -/',
           'def tokenFuncs : List String := %s' % T.lean_list(lean_str(x) for x in funcs),
           '/-- token actions whose function body assigns to `t.value` -/',
           'def rewritingFuncs : List String := %s' % T.lean_list(lean_str(x) for x in rewriting),
           '/-- the same as flags for QUOTE_STRING, DQUOTE_STRING, VARIABLE, SYSTEM_VARIABLE -/',
           'def actCfg : MindsVerif.TokStr.ActCfg := ⟨%s⟩' % ', '.join(cfg),
           '/-- terminal numbers of the tokens of: %s -/' % sample_text,
           'def embedSample : List Nat := %s' % T.lean_list(map(str, sample)),
           '/-- regex sources of the multi-word keyword tokens (patterns containing a blank or `\\s`) -/',
           'def multiWordRe : List (String × String) := %s' % T.lean_list(
               '(%s, %s)' % (lean_str(k), lean_str(rules[k])) for k in multiword),
           '/-- `Lexer._ignored_tokens` and `Lexer.ignore` -/',
           'def ignoredTokens : List String := %s' % T.lean_list(lean_str(x) for x in ignored),
           'def ignoreChars : String := %s' % lean_str(L.ignore),
           'def reNewline : String := %s' % lean_str(rules.get('ignore_newline', ''))] + attr_lines + [
           'end %s' % ns]
    T.write_if_changed(os.path.join(gen_lean, 'C16Data.lean'), '\n'.join(out) + '\n')
    side = dict(tid=names, funcs=funcs, rewriting=rewriting, ignored=ignored, ignore=L.ignore, n_all=len(all_tokens),
                multiword=multiword, multiword_re={k: rules[k] for k in multiword}, attr=attr_side)
    T.write_if_changed(os.path.join(gen_json, 'c16.json'), json.dumps(side, sort_keys=True))
    return {'c16': dict(all_tokens=len(all_tokens), lex_tokens=len(lex_tokens), funcs=funcs,
                        embed_productions=len(attr_side['embed']), probed=len(attr_side['probed']), glue_rows=attr_side['n_glue'],
                        ctor_rows=attr_side['n_ctor'], glue_bad=len(attr_side['glue_bad']), ctor_bad=len(attr_side['ctor_bad']))}
