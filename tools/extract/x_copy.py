"""Tie B for C18: probe the copy behaviour of every AST class on exemplars taken from parser output
and emit lean/MindsVerif/Gen/CopyRows.lean:
  rows         per (class, attribute): which of atom | fresh | shared | dropped | changed | added were seen
               when an instance was deep-copied, and the class names of the shared objects
  identHook    which Identifier.__deepcopy__ the tree has (off | pinned | fixed | unknown), by behaviour
  customCopy   classes that customise the copy protocol (the hand model assumes: only Identifier)
  eqDefs       classes that define __eq__ / __ne__ / __hash__ themselves (the hand model transcribes these)
  planEqOnEqual, resultHashOk   which variant of QueryPlan.__eq__ / Result.__hash__ the tree has, by behaviour
"""
import copy, json, os, sys
from . import tables as T

HAND_SQL = [
    ('mindsdb', "select t.* from t"), ('mindsdb', "select * from (select a from b) as s"),
    ('mindsdb', "select case when a then b else c end from t"),
    ('mindsdb', "select cast(a as int), f(x), count(distinct y) from t group by 1 having z order by q limit 1 offset 2"),
    ('mysql', "select a from t1 join t2 on t1.x = t2.x where a in (1, 2) and b between 1 and 2"),
    ('mindsdb', "select 1 except select 2"), ('mindsdb', "select 1 intersect select 2"),
    ('mindsdb', "select * from t where exists (select 1 from u)"), ('mindsdb', "select * from t where not exists (select 1 from u)"),
    ('mindsdb', "select interval '1 day' from t"), ('mindsdb', "show index from t"),
]


def exemplar_trees():
    from mindsdb_sql import parse_sql
    from tools.harness import corpus
    out = []
    for d, s in HAND_SQL:
        try:
            out.append(parse_sql(s, d))
        except Exception:
            pass
    for s in corpus.load():
        for d in ('mindsdb', 'mysql', 'sqlite'):
            try:
                out.append(parse_sql(s, d))
                break
            except Exception:
                continue
    return out


def classify(o, n):
    """status set and shared class names for one attribute value (o original, n copy); stops at objects"""
    from tools.harness import heap as H
    st, sh = set(), set()

    def go(o, n, depth):
        if H.is_atom(o):
            st.add('atom' if (n is o or n == o) and H.is_atom(n) else 'changed')
            return
        if n is o:
            st.add('shared')
            sh.add(type(o).__name__)
            return
        if type(n) is not type(o):
            st.add('changed')
            return
        if isinstance(o, (list, tuple)):
            st.add('fresh')
            if len(o) != len(n):
                st.add('changed')
                return
            for a, b in zip(o, n):
                go(a, b, depth + 1)
        elif isinstance(o, dict):
            st.add('fresh')
            if list(o) != list(n):
                st.add('changed')
                return
            for k in o:
                go(o[k], n[k], depth + 1)
        else:
            st.add('fresh')      # a distinct object of the same class: its own row describes its attributes
    go(o, n, 0)
    return st, sh


def probe_rows(trees):
    from tools.harness import heap as H
    rows, counts = {}, {}
    for t in trees:
        try:
            objs = H.walk(t)
        except H.Opaque:
            continue
        for x in objs:
            if isinstance(x, (list, dict, tuple, set)):
                continue
            cls = type(x).__name__
            counts[cls] = counts.get(cls, 0) + 1
            if counts[cls] > 40:
                continue
            c = copy.deepcopy(x)
            if type(c) is not type(x):
                rows.setdefault((cls, '<class>'), [set(), set()])[0].add('changed')
                continue
            vo, vc = vars(x), vars(c)
            for k, v in vo.items():
                r = rows.setdefault((cls, k), [set(), set()])
                if k not in vc:
                    r[0].add('dropped')
                    continue
                st, sh = classify(v, vc[k])
                r[0] |= st
                r[1] |= sh
            for k in vc:
                if k not in vo:
                    rows.setdefault((cls, k), [set(), set()])[0].add('added')
    return rows, counts


def probe_hook():
    from mindsdb_sql.parser.ast import Identifier, Star, Select
    if not any('__deepcopy__' in vars(c) for c in Identifier.__mro__):
        return 'off'
    try:
        s = Star()
        al = Identifier(parts=['x'])
        sub = Select(targets=[Star()])
        i = Identifier(parts=['a', s])
        i.alias = al
        i.sub_select = sub
        i.zz_extra = [1]
        c = copy.deepcopy(i)
        base = (type(c) is Identifier and c.parts is not i.parts and c.parts[0] == 'a' and len(c.parts) == 2
                and type(c.parts[1]) is Star
                and c.alias is not al and c.alias.parts == ['x'] and c.sub_select is not sub
                and c.sub_select.targets[0] is not sub.targets[0] and not hasattr(c, 'zz_extra')
                and c.parentheses is i.parentheses)
        if not base:
            return 'unknown'
        return 'pinned' if c.parts[1] is s else 'fixed'
    except Exception:
        return 'unknown'


COPY_PROTOCOL = ('__deepcopy__', '__copy__', '__reduce__', '__reduce_ex__', '__getstate__', '__setstate__',
                 '__slots__', '__getnewargs__', '__getnewargs_ex__', '__new__')


def all_subclasses(c):
    out = []
    for s in c.__subclasses__():
        out.append(s)
        out += all_subclasses(s)
    return out


def class_universe():
    import mindsdb_sql.parser.ast, mindsdb_sql.parser.dialects.mindsdb  # noqa: load every node class
    import mindsdb_sql.planner  # noqa
    from mindsdb_sql.parser.ast.base import ASTNode
    from mindsdb_sql.parser.ast.create import TableColumn
    from mindsdb_sql.planner.steps import PlanStep
    from mindsdb_sql.planner.query_plan import QueryPlan
    from mindsdb_sql.planner.step_result import Result
    cl = [ASTNode, TableColumn, PlanStep, QueryPlan, Result] + all_subclasses(ASTNode) + all_subclasses(PlanStep)
    seen, out = set(), []
    for c in cl:
        if c not in seen and c.__module__.startswith('mindsdb_sql'):
            seen.add(c)
            out.append(c)
    return out


def every_class():
    """every class defined in any importable module of the mindsdb_sql package (introspection), so that a
    new or moved `__eq__` / `__hash__` / copy hook cannot stay outside the probed list"""
    import importlib, inspect, pkgutil
    import mindsdb_sql
    out, seen = [], set()
    for mi in pkgutil.walk_packages(mindsdb_sql.__path__, 'mindsdb_sql.'):
        try:
            mod = importlib.import_module(mi.name)
        except Exception:
            continue
        for _, c in inspect.getmembers(mod, inspect.isclass):
            if getattr(c, '__module__', '').startswith('mindsdb_sql') and c not in seen:
                seen.add(c)
                out.append(c)
    return out


def call_eq(a, b):
    try:
        r = a.__eq__(b)
    except Exception:
        return 'raises'
    return {True: 'true', False: 'false', None: 'none'}.get(r, 'raises') if isinstance(r, (bool, type(None))) else 'raises'


def probe_eq_rows():
    """fixed battery of plan / step pairs on the real classes -> rows for the Lean obligations planRowsOk / stepRowsOk.
    plans: step tokens s (and an equal fresh copy), t, u; steps: attribute values are token lists (scalar = one token)"""
    from mindsdb_sql.parser.ast import Identifier
    from mindsdb_sql.planner.query_plan import QueryPlan
    from mindsdb_sql.planner.step_result import Result
    from mindsdb_sql.planner.steps import ProjectStep, FetchDataframeStep, MultipleSteps
    mk = {'s': lambda: ProjectStep(columns=[Identifier('a')], dataframe=Result(0), step_num=0),
          't': lambda: FetchDataframeStep(integration='int1', query=None, step_num=1),
          'u': lambda: ProjectStep(columns=[Identifier('b')], dataframe=Result(0), step_num=0)}

    def plan(toks):
        p = QueryPlan()
        p.steps = [mk[x]() for x in toks]
        return p
    cases = [('', ''), ('', 's'), ('s', ''), ('s', 's'), ('s', 'u'), ('s', 'st'), ('st', 's'), ('st', 'st'), ('st', 'ts'),
             ('st', 'su'), ('sts', 'st'), ('', 'st'), ('t', 'st')]
    plan_rows = [(list(a), list(b), True, call_eq(plan(a), plan(b))) for a, b in cases]
    plan_rows += [(list('s'), [], False, call_eq(plan('s'), [mk['s']()])), ([], [], False, call_eq(plan(''), None))]

    def ms(toks, reduce=None):
        return MultipleSteps(steps=[mk[x]() for x in toks], reduce=reduce, step_num=3)
    step_rows = []
    for a, b in [('', ''), ('', 's'), ('s', ''), ('s', 's'), ('s', 'st'), ('st', 's'), ('st', 'ts'), ('st', 'st'), ('su', 'st')]:
        row = lambda x: [('step_num', ['3']), ('steps', list(x)), ('reduce', ['None'])]
        step_rows.append(('MultipleSteps', row(a), 'MultipleSteps', row(b), call_eq(ms(a), ms(b))))
    step_rows.append(('MultipleSteps', [('step_num', ['3']), ('steps', ['s']), ('reduce', ['None'])],
                      'ProjectStep', [('step_num', ['0']), ('columns', ['a']), ('dataframe', ['r0']), ('ignore_doubles', ['False'])],
                      call_eq(ms('s'), mk['s']())))
    return plan_rows, step_rows


def probe_eq():
    from mindsdb_sql.planner.query_plan import QueryPlan
    from mindsdb_sql.planner.step_result import Result
    from mindsdb_sql.planner.steps import ProjectStep
    try:
        r = QueryPlan(steps=[ProjectStep(columns=[], dataframe=Result(0))]).__eq__(
            QueryPlan(steps=[ProjectStep(columns=[], dataframe=Result(0))]))
        plan = {True: 'true', False: 'false', None: 'none'}.get(r, 'raises') if isinstance(r, (bool, type(None))) else 'raises'
    except Exception:
        plan = 'raises'
    try:
        ok = isinstance(hash(Result(1)), int) and hash(Result(1)) == hash(Result(1))
    except Exception:
        ok = False
    return plan, ok


def lstr(xs):
    return T.lean_list(json.dumps(x, ensure_ascii=False) for x in xs)


def main(gen_lean, gen_json):
    trees = exemplar_trees()
    rows, counts = probe_rows(trees)
    hook = probe_hook()
    uni = class_universe()
    custom = sorted(c.__name__ for c in list(dict.fromkeys(uni + every_class())) if any(m in vars(c) for m in COPY_PROTOCOL))
    uni_all = list(dict.fromkeys(uni + every_class()))
    import dataclasses

    def eq_tag(c, m):
        # a dataclass-generated __eq__ (field-tuple comparison of the standard library) is marked as such
        gen = dataclasses.is_dataclass(c) and m == '__eq__' and getattr(c, '__dataclass_params__', None) is not None \
            and c.__dataclass_params__.eq and '__eq__' in vars(c)
        return m + '@dataclass' if gen else m
    eqdefs = sorted((c.__name__, sorted(eq_tag(c, m) for m in ('__eq__', '__ne__', '__hash__') if m in vars(c) and vars(c)[m] is not None))
                    for c in uni_all if any(m in vars(c) and vars(c)[m] is not None for m in ('__eq__', '__ne__', '__hash__')))
    from mindsdb_sql.parser.ast.base import ASTNode
    node_classes = sorted(c.__name__ for c in uni if issubclass(c, ASTNode))
    uncovered = sorted(set(node_classes) - set(counts))
    plan, hash_ok = probe_eq()
    plan_rows, step_rows = probe_eq_rows()
    from mindsdb_sql.parser.utils import to_single_line
    sl_probe = [to_single_line(x) for x in (" a  `b  c`\n d ", "'x  y'", '"p\tq"  r')]
    sl_variant = {('a `b c` d', "'x y'", '"p q" r'): 'pinned', ('a `b  c` d', "'x  y'", '"p\tq" r'): 'fixed'}.get(tuple(sl_probe), 'unknown')
    from tools.harness import heap as H
    orders = set()
    for t in trees:
        try:
            for x in H.walk(t):
                if type(x).__name__ == 'Identifier':
                    orders.add(tuple(vars(x)))
        except H.Opaque:
            pass
    orders = sorted(orders)
    order = ['atom', 'fresh', 'shared', 'dropped', 'changed', 'added']
    out = ['-- GENERATED by tools/extract/x_copy.py by deep-copying exemplar instances of every class in parser output. Do not edit.',
           'import MindsVerif.Model.CopyRow', 'namespace MindsVerif.Gen.CopyRows', 'open MindsVerif.Heap MindsVerif.CopyRow MindsVerif.PyEq',
           'def rows : List Row := [']
    items = []
    for (cls, k) in sorted(rows):
        st, sh = rows[(cls, k)]
        items.append('  ⟨%s, %s, [%s], %s⟩' % (json.dumps(cls), json.dumps(k),
                                               ', '.join('.' + s for s in order if s in st), lstr(sorted(sh))))
    out.append(',\n'.join(items) + ']')
    out += ['def identHook : Hook := .%s' % hook,
            'def customCopy : List String := %s' % lstr(custom),
            'def eqDefs : List (String × List String) := %s' % T.lean_list('(%s, %s)' % (json.dumps(c), lstr(m)) for c, m in eqdefs),
            'def identKeyOrders : List (List String) := %s' % T.lean_list(lstr(o) for o in orders),
            'def singleLineVariant : String := %s' % json.dumps(sl_variant),
            'def planEqOnEqual : R := .%s' % plan,
            '/-- QueryPlan.__eq__ on a fixed battery of real plans: (step tokens a, step tokens b, same type, result) -/',
            'def planEqRows : List (List String × List String × Bool × R) := %s' % T.lean_list(
                '(%s, %s, %s, .%s)' % (lstr(a), lstr(b), 'true' if st else 'false', r) for a, b, st, r in plan_rows),
            '/-- PlanStep.__eq__ on a fixed battery of real steps with a list-valued attribute (values as token lists) -/',
            'def stepEqRows : List (Step (List String) × Step (List String) × R) := %s' % T.lean_list(
                '(⟨%s, %s⟩, ⟨%s, %s⟩, .%s)' % (json.dumps(ta), T.lean_list('(%s, %s)' % (json.dumps(k), lstr(v)) for k, v in ra),
                                             json.dumps(tb), T.lean_list('(%s, %s)' % (json.dumps(k), lstr(v)) for k, v in rb), r)
                for ta, ra, tb, rb, r in step_rows),
            'def resultHashOk : Bool := %s' % ('true' if hash_ok else 'false'),
            '/-- node classes no exemplar was found for (not produced by the parsers on the corpus) -/',
            'def uncovered : List String := %s' % lstr(uncovered),
            'end MindsVerif.Gen.CopyRows']
    T.write_if_changed(os.path.join(gen_lean, 'CopyRows.lean'), '\n'.join(out) + '\n')
    side = dict(sl_variant=sl_variant, hook=hook, custom=custom, eqdefs=eqdefs, plan=plan, hash_ok=hash_ok, uncovered=uncovered,
                classes=len(counts), rows=len(rows))
    T.write_if_changed(os.path.join(gen_json, 'copyrows.json'), json.dumps(side, sort_keys=True))
    return {'copyrows': dict(classes=len(counts), rows=len(rows), hook=hook, uncovered=len(uncovered))}
