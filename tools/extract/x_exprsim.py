"""Level-B translator: the expression-simulation certificate (Gen/ExprSim_<d>.lean).

For every dialect the certificate names, by canonical state / production / terminal number,
  * the productions of the C03 fragment (`expr -> expr OP expr`, `expr -> OP expr`,
    `expr -> expr BETWEEN expr AND expr`, `expr -> LPAREN expr RPAREN`) and the chain of unit
    productions that turns an `ID` token into an `expr`,
  * the *expression-start states* (states with a goto on `expr` from which the whole fragment behaves
    as an operator-precedence machine), each with its ROLE (`Kind`: which production is pending below
    it) and the mask of non-operator terminals that may close an expression started there.

The certificate is only *guessed* here (greatest fixpoint of the local conditions, mirrored by
`check_entry` below so that we never emit something the kernel will reject); its correctness comes
from `ExprSim.certOK … = true := by decide +kernel` in the generated file.
"""
import json, os
from . import tables as T
from . import more as M

ASSOC = M.ASSOC


def resolve(prec, lvl):
    assoc, level = prec
    if lvl < level:
        return 'reduce'
    if lvl == level:
        return {'left': 'reduce', 'right': 'shift', 'nonassoc': 'error'}[assoc]
    return 'shift'


class Dialect:
    def __init__(self, d):
        self.d = d
        self.lexer, self.parser = T.load(d)
        self.tb = T.build(d)
        tb = self.tb
        self.terms, self.nts, self.prods, self.rows = tb['terms'], tb['nts'], tb['prods'], tb['rows']
        self.tid = {n: i for i, n in enumerate(self.terms)}
        self.nid = {n: i for i, n in enumerate(self.nts)}
        self.E = self.nid['expr']
        g = self.parser._grammar
        prec = g.Precedence
        tid = self.tid
        self.tok_level, self.bin_prec, self.pre_prec = {}, {}, {}
        self.bin_no, self.pre_no = {}, {}
        self.btw_no = self.par_no = None
        self.btw_prec = ('right', 0)
        self.excluded = []
        self.op_term, self.op_rest = {}, {}
        for n, p in enumerate(self.prods):
            if p['name'] != 'expr':
                continue
            r = tuple(p['rhs_names'])
            pp = tuple(p['prec']) if p['prec'] else ('right', 0)
            if len(r) == 3 and r[0] == 'expr' and r[2] == 'expr' and r[1] in M.STRAT_BIN:
                o = tid[r[1]]
                self.bin_no[o] = n
                self.bin_prec[o] = pp
                self.tok_level[o] = prec.get(r[1], ('right', 0))[1]
                self.op_term[o] = o
            elif len(r) == 4 and r[0] == 'expr' and r[3] == 'expr' and (r[1], r[2]) in M.SPLIT:
                # a two-token operator (`NOT IN`, `IS NOT` …): numbered as in Gen/Prec_<d>.lean, announced by its first terminal
                o = M.split_id(tid, r[1], r[2])
                self.bin_no[o] = n
                self.bin_prec[o] = pp
                self.tok_level[o] = prec.get(r[1], ('right', 0))[1]
                self.op_term[o] = tid[r[1]]
                self.op_rest[o] = tid[r[2]]
            elif len(r) == 2 and r[1] == 'expr' and r[0] in M.STRAT_PRE:
                o = tid[r[0]]
                self.pre_no[o] = n
                self.pre_prec[o] = pp
            elif r == ('expr', 'BETWEEN', 'expr', 'AND', 'expr'):
                self.btw_no = n
                self.btw_prec = pp
            elif r == ('LPAREN', 'expr', 'RPAREN'):
                self.par_no = n
        self.btw = tid['BETWEEN']
        self.and_ = tid['AND']
        self.tok_level[self.btw] = prec.get('BETWEEN', ('right', 0))[1]
        self.bins = sorted(self.bin_no)
        self.pres = sorted(self.pre_no)
        self.ops = self.bins + [self.btw]
        self.op_term[self.btw] = self.btw
        self.ops_mask = 0
        for o in self.ops:
            self.ops_mask |= 1 << self.op_term[o]
        self.ID, self.LP, self.RP = tid['ID'], tid['LPAREN'], tid['RPAREN']

    # ---- table access (mirrors LR.Row.action / goto) ----
    def action(self, s, t):
        r = self.rows[s]
        for (tt, v) in r['shifts']:
            if tt == t:
                return ('s', v)
        for (p, m) in r['reds']:
            if m >> t & 1:
                return ('r', p)
        return None

    def goto(self, s, A):
        for (n, v) in self.rows[s]['gotos']:
            if n == A:
                return v
        return None

    def acts_reduce(self, s, mask, p):
        r = self.rows[s]
        if r['dflt'] is not None:
            return False
        if any(mask >> tt & 1 for (tt, _) in r['shifts']):
            return False
        for (q, m) in r['reds']:
            if q == p and mask & m == mask:
                return True
            if m & mask:
                return False
        return False

    def red_mask(self, s, p):
        """all lookaheads on which state s reduces p (0 if defaulted)"""
        r = self.rows[s]
        if r['dflt'] is not None:
            return 0
        for (q, m) in r['reds']:
            if q == p:
                return m
        return 0

    # ---- the atom chain ----
    def find_chain(self):
        """unit productions ID -> ... -> expr, found by running from any start state"""
        E, ID = self.E, self.ID
        for u in range(len(self.rows)):
            if self.goto(u, E) is None:
                continue
            a = self.action(u, ID)
            if not a or a[0] != 's':
                continue
            s, seq = a[1], []
            for _ in range(8):
                reds = self.rows[s]['reds']
                units = [p for (p, m) in reds if len(self.prods[p]['rhs']) == 1 and (m >> self.RP & 1 or m & 1)]
                if len(units) != 1:
                    break
                p = units[0]
                seq.append(p)
                if self.prods[p]['lhs'] == E:
                    return seq
                s = self.goto(u, self.prods[p]['lhs'])
                if s is None:
                    break
        raise RuntimeError('no atom chain found')

    def chain_mask(self, u, chain):
        """mask of lookaheads for which the atom chain runs from u, and the state reached"""
        a = self.action(u, self.ID)
        if self.rows[u]['dflt'] is not None or not a or a[0] != 's':
            return 0
        s, mask = a[1], None
        for p in chain:
            m = self.red_mask(s, p)
            # shifts have priority in Row.action
            for (tt, _) in self.rows[s]['shifts']:
                m &= ~(1 << tt)
            # an earlier reduce group wins in findRed
            for (q, mm) in self.rows[s]['reds']:
                if q == p:
                    break
                m &= ~mm
            mask = m if mask is None else mask & m
            s = self.goto(u, self.prods[p]['lhs'])
            if s is None:
                return 0
        if s != self.goto(u, self.E):
            return 0
        return mask & ~2

    # ---- roles ----
    def kind_after(self, k, o):
        if o == self.btw:
            return ('btw',)
        if k == ('btw',) and o == self.and_:
            return ('band',)
        return ('opr', o)

    def dec(self, k, o):
        lvl = self.tok_level[o]
        if k[0] == 'opr':
            return resolve(self.bin_prec[k[1]], lvl)
        if k[0] == 'pre':
            return resolve(self.pre_prec[k[1]], lvl)
        if k[0] == 'band':
            return resolve(self.btw_prec, lvl)
        return 'shift'

    def prod_of(self, k):
        if k[0] == 'opr':
            return self.bin_no[k[1]]
        if k[0] == 'pre':
            return self.pre_no[k[1]]
        if k[0] == 'band':
            return self.btw_no
        return None

    def compute(self):
        E = self.E
        chain = self.find_chain()
        self.chain = chain
        # candidate kinds from the `past` certificate of the tables
        code = lambda name: 2 * self.tid[name] if name in self.tid else 2 * self.nid[name] + 1
        EC = 2 * E + 1
        ent = {}
        two = {(2 * t2, 2 * self.op_term[o]): o for o, t2 in self.op_rest.items()}
        for u, r in enumerate(self.rows):
            if self.goto(u, E) is None or r['dflt'] is not None:
                continue
            past = r['past']
            k = ('top',)
            if len(past) >= 3 and past[2] == EC and (past[0], past[1]) in two:
                k = ('opr', two[(past[0], past[1])])
            elif len(past) >= 4 and past[0] == 2 * self.and_ and past[1] == EC and past[2] == 2 * self.btw and past[3] == EC:
                k = ('band',)
            elif len(past) >= 2 and past[1] == EC and past[0] % 2 == 0 and past[0] // 2 in self.bin_no:
                k = ('opr', past[0] // 2)
            elif len(past) >= 2 and past[1] == EC and past[0] == 2 * self.btw:
                k = ('btw',)
            elif len(past) >= 1 and past[0] % 2 == 0 and past[0] // 2 in self.pre_no and not (len(past) >= 2 and past[1] == EC):
                k = ('pre', past[0] // 2)
            cl = self.chain_mask(u, chain) & ~self.ops_mask
            ent[u] = [k, cl]
        # (role, prefix operator) pairs the start state of that role does not open; only for roles with a
        # pending frame — a statement / parenthesis context without a prefix operator is dropped instead.
        # Whether the banned positions matter for the SQL grouping is decided in Lean (`preCompat`).
        self.ban = set()
        # greatest fixpoint
        changed = True
        while changed:
            changed = False
            for u in sorted(ent):
                res = self.refine(u, ent)
                if res is None:
                    del ent[u]
                    changed = True
                elif res != ent[u][1]:
                    ent[u][1] = res
                    changed = True
        self.ent = ent
        return ent

    def refine(self, u, ent):
        """None: drop the entry; otherwise the (possibly smaller) closer mask"""
        k, cl = ent[u]
        E = self.E
        v = self.goto(u, E)
        rv = self.rows[v]
        if rv['dflt'] is not None:
            return None
        full = cl | self.ops_mask
        if self.chain_mask(u, self.chain) & full != full:
            cl &= self.chain_mask(u, self.chain)
            full = cl | self.ops_mask
            if self.chain_mask(u, self.chain) & full != full:
                return None
        # LPAREN
        a = self.action(u, self.LP)
        if not a or a[0] != 's' or a[1] not in ent or ent[a[1]][0] != ('top',):
            return None
        u1 = a[1]
        if not ent[u1][1] >> self.RP & 1:
            return None
        v1 = self.goto(u1, E)
        a = self.action(v1, self.RP)
        if not a or a[0] != 's':
            return None
        w = a[1]
        m = self.red_mask(w, self.par_no)
        for (tt, _) in self.rows[w]['shifts']:
            m &= ~(1 << tt)
        if m & self.ops_mask != self.ops_mask:
            return None
        cl &= m
        # prefix operators
        for o in self.pres:
            if (k, o) in self.ban:
                continue
            a = self.action(u, o)
            if not a or a[0] != 's' or a[1] not in ent or ent[a[1]][0] != ('pre', o):
                if k == ('top',):
                    return None
                self.ban.add((k, o))
                continue
            cl &= ent[a[1]][1]
        # the state after the expression
        for o in self.ops:
            dcs = self.dec(k, o)
            a = self.action(v, self.op_term[o])
            if dcs == 'shift':
                if not a or a[0] != 's':
                    return None
                if o in self.op_rest:
                    if self.rows[a[1]]['dflt'] is not None:
                        return None
                    a = self.action(a[1], self.op_rest[o])
                    if not a or a[0] != 's':
                        return None
                if a[1] not in ent or ent[a[1]][0] != self.kind_after(k, o):
                    return None
                cl &= ent[a[1]][1]
            elif dcs == 'reduce':
                if a != ('r', self.prod_of(k)):
                    return None
        p = self.prod_of(k)
        if p is not None:
            m = self.red_mask(v, p)
            for (tt, _) in self.rows[v]['shifts']:
                m &= ~(1 << tt)
            cl &= m
            if not self.acts_reduce(v, cl, p):
                return None
        return cl

    def context_state(self, sql_prefix):
        """state on top of the stack after the driver has shifted the last token of `sql_prefix`
        (None if the prefix is not viable in this dialect)"""
        try:
            toks = [self.tid[t.type] for t in self.lexer.tokenize(sql_prefix)]
        except Exception:
            return None
        st = [0]
        for t in toks:
            for _ in range(100):
                r = self.rows[st[-1]]
                a = ('r', r['dflt']) if r['dflt'] is not None else self.action(st[-1], t)
                if not a:
                    return None
                if a[0] == 's':
                    st.append(a[1])
                    break
                p = self.prods[a[1]]
                if p['rhs']:
                    del st[-len(p['rhs']):]
                g = self.goto(st[-1], p['lhs'])
                if g is None:
                    return None
                st.append(g)
            else:
                return None
        return st[-1]

    def describe(self, u):
        past = self.rows[u]['past']
        return ' '.join((self.terms[x // 2] if x % 2 == 0 else self.nts[x // 2]) for x in reversed(past))


CONTEXT_PREFIX = [
    ('select', 'SELECT'),
    ('where', 'SELECT * FROM t WHERE'),
    ('on', 'SELECT * FROM t1 JOIN t2 ON'),
    ('having', 'SELECT c0 FROM t GROUP BY c0 HAVING'),
    ('funcarg', 'SELECT f('),
    ('case', 'SELECT CASE WHEN c0 THEN'),
    ('paren', 'SELECT ('),
]


def kind_term(k):
    if k[0] == 'top':
        return '.top'
    if k[0] == 'btw':
        return '.btw'
    if k[0] == 'band':
        return '.band'
    return '(.%s %d)' % (k[0], k[1])


def emit(D):
    d = D.d
    ns = 'MindsVerif.Gen.ExprSim_%s' % d
    ent = D.ent
    fun = M.fun
    two = {o: t for o, t in D.op_term.items() if t != o}
    chain = [(p, D.prods[p]['lhs']) for p in D.chain]
    ctxs = []
    for name, prefix in CONTEXT_PREFIX:
        u = D.context_state(prefix)
        if u is not None and u in ent:
            ctxs.append((name, u))
    sel = dict(ctxs).get('select', 0)
    tid = D.tid
    o = lambda nm: tid[nm]
    ex1 = '.bin %d (.atom 0) (.bin %d (.atom 1) (.atom 2))' % (o('PLUS'), o('STAR'))
    ex2 = ('.bin %d (.bin %d (.atom 0) (.atom 1)) (.pre %d (.btw (.atom 2) (.bin %d (.atom 3) (.atom 4)) '
           '(.bin %d (.pre %d (.atom 5)) (.bin %d (.atom 6) (.atom 7)))))'
           % (o('AND'), o('OR'), o('NOT'), o('EQUALS'), o('STAR'), o('MINUS'), o('PLUS')))
    notin = [x for x in sorted(D.op_rest) if x // 4096 == M.SPLIT[('NOT', 'IN')]] or [o('IN')]
    isnot = [x for x in sorted(D.op_rest) if x // 4096 == M.SPLIT[('IS', 'NOT')]] or [o('IS_NOT')]
    ex4 = '.bin %d (.bin %d (.atom 0) (.bin %d (.atom 1) (.atom 2))) (.pre %d (.atom 3))' % (o('OR'), isnot[0], o('PLUS'), o('NOT'))
    ex3 = '.bin %d (.bin %d (.atom 0) (.bin %d (.atom 1) (.atom 2))) (.atom 3)' % (o('AND'), notin[0], o('PLUS'))
    starts = T.trie({u: e for u, e in ent.items()}, lambda e: '⟨%s,%s⟩' % (kind_term(e[0]), T.hexn(e[1])))
    out = ['-- GENERATED by tools/extract/x_exprsim.py from the live %s parser. Do not edit.' % d,
           'import MindsVerif.Model.ExprSim',
           'import MindsVerif.Gen.Prec_%s' % d,
           'import MindsVerif.Gen.Tables_%s' % d,
           'set_option maxRecDepth 100000',
           'namespace %s' % ns,
           'open MindsVerif.LR MindsVerif.OPM MindsVerif.ExprSim',
           '/-- the Level-B fragment (= the C03 fragment of this dialect) -/',
           'def F : Fragment := ⟨%s, %s⟩' % (T.lean_list(map(str, D.bins)), T.lean_list(map(str, D.pres))),
           'def cert : Cert where',
           '  exprNt := %d' % D.E,
           '  atomTok := %d' % D.ID,
           '  lpar := %d' % D.LP,
           '  rpar := %d' % D.RP,
           '  opTerm := %s' % (fun({o: str(t) for o, t in two.items()}, 'n') if two else 'fun n => n'),
           '  opRest := %s' % fun({o: 'some %d' % t for o, t in D.op_rest.items()}, 'none'),
           '  binNo := %s' % fun({o: str(n) for o, n in D.bin_no.items()}, '0'),
           '  preNo := %s' % fun({o: str(n) for o, n in D.pre_no.items()}, '0'),
           '  btwNo := %d' % D.btw_no,
           '  parNo := %d' % D.par_no,
           '  chain := %s' % T.lean_list('(%d,%d)' % c for c in chain),
           '  opsMask := %s' % T.hexn(D.ops_mask),
           '  preBan := %s' % T.lean_list('(%s,%d)' % (kind_term(k), o) for k, o in sorted(D.ban)),
           '  starts := %s' % starts,
           '/-- the expression-start states, for documentation: (state, symbols below it) -/',
           'def startDoc : List (Nat × String) := %s' % T.lean_list(
               '(%d,%s)' % (u, json.dumps(D.describe(u))) for u in sorted(ent)),
           '/-- the expression contexts of the C03 correspondence stream that exist in this dialect: the state',
           'on top of the stack when the first token of the expression is read -/',
           'def contexts : List (String × Nat) := %s' % T.lean_list('(%s,%d)' % (json.dumps(n), u) for n, u in ctxs),
           '/-- state after `SELECT`; terminal ids of `SELECT`, `FROM` -/',
           'def selectStart : Nat := %d' % sel,
           'def tokSELECT : Nat := %d' % tid['SELECT'],
           'def tokFROM : Nat := %d' % tid['FROM'],
           '/-- `a + b * c` -/',
           'def ex1 : Expr := %s' % ex1,
           '/-- `(a OR b) AND NOT c BETWEEN (d = e) AND - f * (g + h)` as a tree without its parentheses -/',
           'def ex2 : Expr := %s' % ex2,
           '/-- `a NOT IN b + c AND d` (`a IN …` where NOT IN is one token) -/',
           'def ex3 : Expr := %s' % ex3,
           '/-- `a IS NOT b + c OR NOT d` (the two-token `IS NOT` where the grammar has that rule, else the one-token operator) -/',
           'def ex4 : Expr := %s' % ex4,
           'theorem cert_ok : certOK Tables_%s.tables Prec_%s.P F cert = true := by decide +kernel' % (d, d),
           'end %s' % ns]
    return '\n'.join(out) + '\n'


def main(gen_lean, gen_json):
    info = {}
    for d in ('sqlite', 'mysql', 'mindsdb'):
        D = Dialect(d)
        D.compute()
        T.write_if_changed(os.path.join(gen_lean, 'ExprSim_%s.lean' % d), emit(D))
        side = dict(starts={str(u): dict(kind=list(e[0]), closers=[D.terms[i] for i in range(len(D.terms)) if e[1] >> i & 1],
                                         below=D.describe(u)) for u, e in D.ent.items()},
                    chain=D.chain, excluded=D.excluded, bins=D.bins, pres=D.pres,
                    pre_ban=[[list(k), o] for k, o in sorted(D.ban)])
        T.write_if_changed(os.path.join(gen_json, 'exprsim_%s.json' % d), json.dumps(side, sort_keys=True))
        info['exprsim_' + d] = dict(starts=len(D.ent), chain=D.chain, excluded=D.excluded,
                                    pre_ban=[[list(k), D.terms[o]] for k, o in sorted(D.ban)],
                                    contexts=[n for n, _ in CONTEXT_PREFIX if D.context_state(dict(CONTEXT_PREFIX)[n]) in D.ent])
    return info


if __name__ == '__main__':
    import sys
    for d in sys.argv[1:] or ('sqlite', 'mysql', 'mindsdb'):
        D = Dialect(d)
        ent = D.compute()
        print(d, 'chain', [(p, D.prods[p]['name'], D.prods[p]['rhs_names']) for p in D.chain], 'excluded', D.excluded)
        allstarts = [u for u in range(len(D.rows)) if D.goto(u, D.E) is not None]
        print(' starts kept', len(ent), 'of', len(allstarts), 'prefix bans', sorted(D.ban))
        for u in allstarts:
            if u not in ent:
                print('  dropped', u, D.describe(u))
        for u in sorted(ent):
            k, cl = ent[u]
            print('  ', u, k, D.describe(u), '| closers', bin(cl).count('1'), [D.terms[i] for i in range(len(D.terms)) if cl >> i & 1][:8])
