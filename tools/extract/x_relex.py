"""translator for the regex-level lexer model (Model/Re.lean, Model/SlyLex.lean).

For each dialect the LIVE lexer class is taken from `get_lexer_parser`; its compiled master regex
(`cls._master_re.pattern`, flags) is parsed by Python's own `re._parser` and the parse tree is transcribed
into `Re` terms.  Every one-character atom (LITERAL / NOT_LITERAL / IN / ANY / CATEGORY under the lexer's flags)
is emitted as the exact set of code points the real `re` engine accepts for it: the atom is compiled on its own
and run over the string of all 0x110000 code points.  Nothing is analysed here that a theorem relies on without the
kernel re-checking it: `allNonNull`, `allSupported`, empty `literals` / `remapping` are decided on the
generated data by `decide`.

Output: lean/MindsVerif/Gen/LexRe_<dialect>.lean, gen/lexre_<dialect>.json (same data for the harness).
"""
import json, os, re, sys
from . import tables as T

try:
    import re._parser as sp, re._constants as sc, re._compiler as scomp
except ImportError:  # < 3.11
    import sre_parse as sp, sre_constants as sc, sre_compile as scomp

DIALECTS = ('sqlite', 'mysql', 'mindsdb')
MAXCP = 0x110000
_ALL = None


def all_chars():
    global _ALL
    if _ALL is None:
        _ALL = ''.join(map(chr, range(MAXCP)))
    return _ALL


def ranges_of(cps):
    out = []
    for c in cps:
        if out and out[-1][1] + 1 == c:
            out[-1][1] = c
        else:
            out.append([c, c])
    return [tuple(r) for r in out]


_ATOM_CACHE = {}


class Atoms:
    """exact code-point sets of one-character atoms, tabulated with the real engine"""

    def __init__(self, flags):
        self.flags = flags
        self.cache = _ATOM_CACHE.setdefault(flags, {})

    def of(self, op, av):
        key = repr((op, av))
        if key not in self.cache:
            st = sp.State()
            st.flags = self.flags
            st.str = '<atom>'
            pat = scomp.compile(sp.SubPattern(st, [(op, av)]), self.flags)
            # findall over the string of all code points; every match of a one-character atom is one character
            cps = sorted(set(ord(x) for x in pat.findall(all_chars())))
            self.cache[key] = ranges_of(cps)
        return self.cache[key]


class Tr:
    def __init__(self, flags):
        self.atoms = Atoms(flags)
        self.sets = {}          # ranges tuple -> name
        self.set_defs = []
        self.unsupported = []

    def set_name(self, rs):
        rs = tuple(rs)
        if rs not in self.sets:
            n = 's%d' % len(self.sets)
            self.sets[rs] = n
            self.set_defs.append((n, rs))
        return self.sets[rs]

    def seq(self, items):
        items = [i for i in items if i != ('eps',)]
        if not items:
            return ('eps',)
        r = items[-1]
        for i in reversed(items[:-1]):
            r = ('seq', i, r)
        return r

    def alt(self, items):
        r = items[-1]
        for i in reversed(items[:-1]):
            r = ('alt', i, r)
        return r

    def sub(self, subpat):
        return self.seq([self.node(op, av) for op, av in subpat])

    def node(self, op, av):
        if op in (sc.LITERAL, sc.NOT_LITERAL, sc.IN, sc.ANY, sc.CATEGORY):
            return ('set', self.set_name(self.atoms.of(op, av)))
        if op is sc.BRANCH:
            return self.alt([self.sub(a) for a in av[1]])
        if op is sc.SUBPATTERN:
            group, add_flags, del_flags, p = av
            if add_flags or del_flags:
                self.unsupported.append('inline flags')
                return ('fail',)
            return self.sub(p)
        if op in (sc.MAX_REPEAT, sc.MIN_REPEAT):
            lo, hi, p = av
            greedy = op is sc.MAX_REPEAT
            body = self.sub(p)
            parts = [body] * lo
            if hi is sc.MAXREPEAT:
                parts.append(('star', greedy, body))
            else:
                if hi - lo > 8 or lo > 8:
                    self.unsupported.append('large counted repeat')
                    return ('fail',)
                opt = ('eps',)
                for _ in range(hi - lo):
                    inner = self.seq([body, opt])
                    opt = ('alt', inner, ('eps',)) if greedy else ('alt', ('eps',), inner)
                parts.append(opt)
            return self.seq(parts)
        if op in (sc.ASSERT, sc.ASSERT_NOT):
            direction, p = av
            if direction != 1:
                self.unsupported.append('look-behind')
                return ('fail',)
            return ('look', op is sc.ASSERT_NOT, self.sub(p))
        if op is sc.AT:
            if av is sc.AT_BOUNDARY:
                return ('bound', False)
            if av is sc.AT_NON_BOUNDARY:
                return ('bound', True)
            self.unsupported.append('AT %s' % av)
            return ('fail',)
        self.unsupported.append(str(op))
        return ('fail',)


def lean_re(t):
    k = t[0]
    if k == 'eps':
        return '.eps'
    if k == 'fail':
        return '.fail'
    if k == 'set':
        return '(.set %s)' % t[1]
    if k == 'seq':
        return '(.seq %s %s)' % (lean_re(t[1]), lean_re(t[2]))
    if k == 'alt':
        return '(.alt %s %s)' % (lean_re(t[1]), lean_re(t[2]))
    if k == 'star':
        return '(.star %s %s)' % ('true' if t[1] else 'false', lean_re(t[2]))
    if k == 'look':
        return '(.look %s %s)' % ('true' if t[1] else 'false', lean_re(t[2]))
    if k == 'bound':
        return '(.bound %s)' % ('true' if t[1] else 'false')
    raise ValueError(k)


def json_re(t, setmap):
    k = t[0]
    if k == 'set':
        return ['set', setmap[t[1]]]
    return [k] + [json_re(x, setmap) if isinstance(x, tuple) else x for x in t[1:]]


def lean_cset(rs):
    return '[' + ', '.join('(%d, %d)' % r for r in rs) + ']'


def strip_info():
    """what parse_sql does to the text before it is lexed: the statements of its body that assign `sql`, and the
    character class of the one `re.sub(r'[class]+$', '', sql)` among them (tabulated with the real engine)"""
    import ast as pyast, inspect, textwrap
    import mindsdb_sql
    src = textwrap.dedent(inspect.getsource(mindsdb_sql.parse_sql))
    fn = pyast.parse(src).body[0]
    assigns = []
    for node in pyast.walk(fn):
        tgt = []
        if isinstance(node, pyast.Assign):
            tgt = node.targets
        elif isinstance(node, (pyast.AugAssign, pyast.AnnAssign)):
            tgt = [node.target]
        if any(isinstance(t, pyast.Name) and t.id == 'sql' for t in tgt):
            assigns.append(pyast.unparse(node))
    pats = []
    for node in pyast.walk(fn):
        if (isinstance(node, pyast.Assign) and any(isinstance(t, pyast.Name) and t.id == 'sql' for t in node.targets)
                and isinstance(node.value, pyast.Call) and pyast.unparse(node.value.func) == 're.sub'
                and len(node.value.args) == 3 and not node.value.keywords
                and isinstance(node.value.args[0], pyast.Constant) and isinstance(node.value.args[0].value, str)
                and isinstance(node.value.args[1], pyast.Constant) and node.value.args[1].value == ''
                and isinstance(node.value.args[2], pyast.Name) and node.value.args[2].id == 'sql'):
            pats.append(node.value.args[0].value)
    strip_set, shape = [], 'none'
    if len(pats) == 1:
        pat = pats[0]
        cre = re.compile(pat)
        tree = sp.parse(pat, 0)
        d = list(tree.data)
        if (len(d) == 2 and d[0][0] is sc.MAX_REPEAT and d[0][1][0] == 1 and d[0][1][1] is sc.MAXREPEAT
                and len(d[0][1][2]) == 1 and d[1] == (sc.AT, sc.AT_END)):
            op, av = d[0][1][2][0]
            strip_set = Atoms(cre.flags).of(op, av)
            shape = 'class+$'
        else:
            shape = 'other:' + pat
    # the statements of parse_sql up to the call of the parser, as written (ast.unparse): what is done to the text, which
    # object lexes it and what the parser is given
    prelude = []
    for st in fn.body:
        if isinstance(st, pyast.Expr) and isinstance(st.value, pyast.Constant):
            continue   # docstring
        prelude.append(pyast.unparse(st))
        if 'parser.parse(' in prelude[-1]:
            break
    return dict(assigns=assigns, strip_set=strip_set, shape=shape, prelude=prelude)


def term_names(parser):
    g = parser._grammar
    return ['$end', 'error'] + sorted(x for x in g.Terminals if x not in ('$end', 'error'))


def build(dialect):
    lexer, parser = T.load(dialect)
    cls = lexer if isinstance(lexer, type) else type(lexer)
    master = cls._master_re
    flags = master.flags
    tree = sp.parse(master.pattern, flags)
    tr = Tr(flags)
    # top level: one BRANCH whose alternatives are the named groups in rule order
    if len(tree.data) == 1 and tree.data[0][0] is sc.BRANCH:
        alts = tree.data[0][1][1]
    else:
        alts = [tree.data]
    names_by_index = {v: k for k, v in tree.state.groupdict.items()}
    rules = []
    for a in alts:
        name = '?'
        if len(a) == 1 and a[0][0] is sc.SUBPATTERN and a[0][1][0] in names_by_index:
            name = names_by_index[a[0][1][0]]
        else:
            tr.unsupported.append('top-level alternative is not a named group')
        rules.append((name, tr.sub(a), name in cls._ignored_tokens))
    word = tr.atoms.of(sc.IN, [(sc.CATEGORY, sc.CATEGORY_WORD)])
    ignore = ranges_of(sorted(set(ord(c) for c in cls.ignore)))
    literals = sorted(ord(c) for c in cls.literals) if all(isinstance(c, str) and len(c) == 1 for c in cls.literals) else [-1]
    remapping = sorted(k for k, v in cls._remapping.items() if v)
    funcs = sorted(cls._token_funcs.keys())
    st = strip_info()
    return dict(dialect=dialect, cls=cls.__name__, flags=int(flags), rules=rules, word=word, ignore=ignore,
                literals=literals, remapping=remapping, funcs=funcs, sets=tr.set_defs,
                unsupported=sorted(set(tr.unsupported)), rule_order=[n for n, _, _ in rules],
                terms=term_names(parser), strip=st)


def emit_lean(b):
    d = b['dialect']
    out = ['-- GENERATED by tools/extract/x_relex.py from the live %s lexer (%s). Do not edit.' % (d, b['cls']),
           'import MindsVerif.Model.SlyLex',
           'set_option maxRecDepth 100000',
           'namespace MindsVerif.Gen.LexRe_%s' % d,
           'open MindsVerif.Re MindsVerif.SlyLex',
           '/-- re flags of the master regex (32 = UNICODE, 2 = IGNORECASE) -/',
           'def flags : Nat := %d' % b['flags'],
           '/-- `\\w` under these flags -/',
           'def word : CSet := %s' % lean_cset(b['word']),
           'def ignoreSet : CSet := %s' % lean_cset(b['ignore'])]
    for n, rs in b['sets']:
        out.append('def %s : CSet := %s' % (n, lean_cset(rs)))
    for i, (name, t, ign) in enumerate(b['rules']):
        out.append('def r%d : Re := %s' % (i, lean_re(t)))
    out.append('def rules : List Rule := [')
    out.append(',\n'.join('  ⟨%s, r%d, %s⟩' % (json.dumps(name), i, 'true' if ign else 'false')
                          for i, (name, t, ign) in enumerate(b['rules'])))
    out.append(']')
    out.append('def cfg : Cfg := ⟨rules, ignoreSet, word⟩')
    out.append('/-- `Lexer.literals` (code points) -/')
    out.append('def literals : List Int := [%s]' % ', '.join(str(x) for x in b['literals']))
    out.append('/-- token types with a non-empty `_remapping` -/')
    out.append('def remapping : List String := [%s]' % ', '.join(json.dumps(x) for x in b['remapping']))
    out.append('/-- token types with a token function -/')
    out.append('def tokenFuncs : List String := [%s]' % ', '.join(json.dumps(x) for x in b['funcs']))
    out.append('/-- constructs of the master regex the translator could not transcribe -/')
    out.append('def unsupported : List String := [%s]' % ', '.join(json.dumps(x) for x in b['unsupported']))
    out.append('/-- terminal names of the grammar in the canonical numbering of Gen/Tables_%s (index = terminal id) -/' % d)
    out.append('def termNames : List String := [%s]' % ', '.join(json.dumps(x) for x in b['terms']))
    out.append('/-- the statements of parse_sql that assign `sql` (what happens to the text before it is lexed) -/')
    out.append('def sqlAssigns : List String := [%s]' % ', '.join(json.dumps(x) for x in b['strip']['assigns']))
    out.append('/-- parse_sql from its first statement to the call of the parser, statement by statement (ast.unparse) -/')
    out.append('def prelude : List String := [%s]' % ', '.join(json.dumps(x) for x in b['strip']['prelude']))
    out.append('/-- shape of the one `re.sub(<pattern>, \'\', sql)` among them: "class+$" = a trailing run of one character class -/')
    out.append('def stripShape : String := %s' % json.dumps(b['strip']['shape']))
    out.append('/-- that character class (tabulated with the real engine) -/')
    out.append('def stripSet : CSet := %s' % lean_cset(b['strip']['strip_set']))
    out.append('end MindsVerif.Gen.LexRe_%s' % d)
    return '\n'.join(out) + '\n'


def main(gen_lean, gen_json):
    info = {}
    for d in DIALECTS:
        b = build(d)
        T.write_if_changed(os.path.join(gen_lean, 'LexRe_%s.lean' % d), emit_lean(b))
        setmap = {n: [list(r) for r in rs] for n, rs in b['sets']}
        js = dict(dialect=d, cls=b['cls'], flags=b['flags'], word=[list(r) for r in b['word']],
                  ignore=[list(r) for r in b['ignore']], literals=b['literals'], remapping=b['remapping'],
                  funcs=b['funcs'], unsupported=b['unsupported'], terms=b['terms'], strip=dict(assigns=b['strip']['assigns'], prelude=b['strip']['prelude'], shape=b['strip']['shape'], strip_set=[list(r) for r in b['strip']['strip_set']]),
                  rules=[[n, json_re(t, setmap), ign] for n, t, ign in b['rules']])
        T.write_if_changed(os.path.join(gen_json, 'lexre_%s.json' % d), json.dumps(js))
        info['lexre_%s' % d] = dict(rules=len(b['rules']), sets=len(b['sets']), unsupported=b['unsupported'])
    return info


if __name__ == '__main__':
    root = os.path.dirname(os.path.dirname(os.path.dirname(os.path.abspath(__file__))))
    print(json.dumps(main(os.path.join(root, 'lean', 'MindsVerif', 'Gen'), os.path.join(root, 'gen'))))
