"""C06 translator: what the renderer hands to SQLAlchemy and how SQLAlchemy parenthesises it.

From the live objects:
* the operator tables that are literals inside `SqlalchemyRender.to_expression` (`methods`, `functions`,
  `opmap`) -- read from the function's source with `ast`,
* for every entry: the SQLAlchemy operator function the method call produces, its `_PRECEDENCE`, whether it is a
  natural self precedent (`is_natural_self_precedent`), the operator `__invert__` turns it into, and the text the
  sqlite compiler prints for it,
* the `join_clause` alternatives of the three grammars (the strings that can arrive in `Join.join_type`),
* probed: the join keyword the real renderer prints for each of them (with and without ON).
Writes lean/MindsVerif/Gen/SaPrec.lean and gen/saprec.json."""
import ast, inspect, json, os, re, textwrap, warnings

from . import tables as T

BTW_ID = 100
PRE_BASE = 200


def literal_tables():
    from mindsdb_sql.render.sqlalchemy_render import SqlalchemyRender
    src = textwrap.dedent(inspect.getsource(SqlalchemyRender.to_expression))
    tree = ast.parse(src)
    out = {}
    for node in ast.walk(tree):
        if isinstance(node, ast.Assign) and len(node.targets) == 1 and isinstance(node.targets[0], ast.Name) \
                and isinstance(node.value, ast.Dict) and node.targets[0].id in ('methods', 'functions', 'opmap'):
            keys = [ast.literal_eval(k) for k in node.value.keys]
            vals = []
            for v in node.value.values:
                try:
                    vals.append(ast.literal_eval(v))
                except Exception:
                    vals.append(ast.unparse(v))
            out[node.targets[0].id] = list(zip(keys, vals))
    return out


def join_spellings():
    sp = set()
    for d in ('sqlite', 'mysql', 'mindsdb'):
        lexer, parser = T.load(d)
        for p in parser._grammar.Productions:
            if p.name == 'join_clause':
                sp.add(' '.join(p.prod))
    return sorted(sp)


def probe_joins(spellings):
    """rendered join keyword per join_type string, asked of the real renderer on a two-table Join node"""
    from mindsdb_sql.parser import ast as A
    from mindsdb_sql.render.sqlalchemy_render import SqlalchemyRender
    R = SqlalchemyRender('sqlite')
    out = []
    for sp in spellings:
        for with_on in (True, False):
            cond = A.BinaryOperation('=', args=[A.Identifier('t.a'), A.Identifier('u.a')]) if with_on else None
            q = A.Select(targets=[A.Star()], from_table=A.Join(join_type=sp, left=A.Identifier('t'), right=A.Identifier('u'),
                                                               condition=cond))
            try:
                s = R.get_string(q, with_failback=False)
                s = re.sub(r'\s+', ' ', s)
                m = re.search(r'FROM t (.*?) u(?: ON (.*))?$', s)
                out.append((sp, with_on, m.group(1), m.group(2) or ''))
            except Exception as e:
                out.append((sp, with_on, '!' + type(e).__name__, ''))
    return out


def main(gen_lean, gen_json):
    warnings.filterwarnings('ignore')
    import sqlalchemy as sa
    from sqlalchemy.sql import operators as O
    from sqlalchemy.dialects import sqlite
    tabs = literal_tables()
    from mindsdb_sql.parser import ast as A
    from mindsdb_sql.render.sqlalchemy_render import SqlalchemyRender
    RR = SqlalchemyRender('sqlite')
    a, b = sa.column('a', is_literal=True), sa.column('b', is_literal=True)
    dia = sqlite.dialect()

    def text_of(e):
        s = str(e.compile(dialect=dia))
        m = re.fullmatch(r'\(?a (.*?) \(?b(?: \+ 0\.0\))?\)?', s)
        return m.group(1) if m else s

    bins = []
    by_fn = {}
    # ids are assigned in sorted key order, so that re-ordering the dict literals changes nothing
    for i, (key, meth) in enumerate(sorted(tabs['methods'])):
        # built through the renderer itself, so that what it does to the element (e.g. `negate`) is seen
        rhs = A.Tuple([A.Identifier('a'), A.Identifier('b')]) if key in ('in', 'not in') else A.Identifier('b')
        e = RR.to_expression(A.BinaryOperation(op=key, args=[A.Identifier('a'), rhs]))
        op = e.operator
        neg = None
        try:
            ne = ~e
            neg = getattr(ne, 'operator', None)
            if getattr(ne, 'left', None) is not e.left:     # wrapped in NOT (...) rather than flipped
                neg = None
        except Exception:
            pass
        # does the renderer group operands that rank above the operator (its own self_group calls)?
        extra, exempt_key = 0, None
        if key not in ('in', 'not in'):
            seen = {}
            for pk in ('+', '%', '*'):
                inner = A.BinaryOperation(op=pk, args=[A.Identifier('b'), A.Identifier('c')])
                pe = RR.to_expression(inner)
                rk_in = O._PRECEDENCE.get(pe.operator, getattr(pe.operator, 'precedence', -100))
                own = O._PRECEDENCE.get(op, getattr(op, 'precedence', -100))
                if key != pk and rk_in > own:
                    txt = str(RR.to_expression(A.BinaryOperation(op=key, args=[A.Identifier('a'), inner])).compile(dialect=dia))
                    seen[pk] = (rk_in, '(' in txt)
            wrapped = [rk for rk, w in seen.values() if w]
            if wrapped:
                extra = max(wrapped)
                bare = [pk for pk, (rk, w) in seen.items() if not w and rk <= extra]
                exempt_key = bare[0] if bare else None
        rec = dict(id=i + 1, key=key, method=meth, fn=getattr(op, '__name__', 'custom:' + str(getattr(op, 'opstring', '?'))),
                   extra=extra, exempt_key=exempt_key, prec=O._PRECEDENCE.get(op, getattr(op, 'precedence', -100)),
                   natural=bool(O.is_natural_self_precedent(op)), neg_fn=neg.__name__ if neg else None,
                   text=text_of(e) if key not in ('in', 'not in') else key.upper())
        bins.append(rec)
        by_fn.setdefault(op.__name__, rec['id'])
    n = len(bins)
    for j, (key, fn) in enumerate(sorted(tabs['functions'])):
        f = {'sa.and_': sa.and_, 'sa.or_': sa.or_}[fn]
        e = f(a, b)
        op = e.operator
        # and_/or_ flatten nested lists of the same operator: same printed text as a natural self precedent
        rec = dict(id=n + j + 1, key=key, method=fn, fn=op.__name__, prec=O._PRECEDENCE.get(op, -100), natural=True, extra=0,
                   neg_fn=None, text=text_of(e))
        bins.append(rec)
        by_fn.setdefault(op.__name__, rec['id'])
    for r in bins:
        r['neg'] = by_fn.get(r['neg_fn'], 0) if r['neg_fn'] else 0
        r['exempt'] = next((x['id'] for x in bins if x['key'] == r.get('exempt_key')), 0)
    pres = []
    for j, (key, meth) in enumerate(sorted(tabs['opmap'], reverse=True)):
        e = getattr(a, meth)()
        op = e.operator
        s = str(e.compile(dialect=dia))
        # does the prefix operator group a binary operand that ranks above it?  (NOT does: BinaryExpression._negate)
        hi = [x for x in (a + b, a * b) if O._PRECEDENCE[x.operator] > O._PRECEDENCE.get(op, -100)]
        wrap_all = bool(hi) and all('(' in str(getattr(x, meth)().compile(dialect=dia)) for x in hi)
        pres.append(dict(id=PRE_BASE + j + 1, key=key, method=meth, fn=op.__name__, prec=O._PRECEDENCE.get(op, -100),
                         text=s[:-1].strip(), wrap_all=wrap_all))
    btw = sa.between(a, b, b)
    nbtw = ~btw
    rk_btw = O._PRECEDENCE[btw.operator]
    spell = join_spellings()
    probe = probe_joins(spell)
    q = json.dumps
    L = T.lean_list
    lean = [
        '-- GENERATED by tools/extract/x_saprec.py from SqlalchemyRender.to_expression, sqlalchemy.sql.operators and the grammars. Do not edit.',
        'namespace MindsVerif.Gen.SaPrec',
        '/-- binary operators of `methods` / `functions`: (id, key, text printed for sqlite, `_PRECEDENCE`, natural self precedent, id `__invert__` flips it to or 0, rank the renderer itself groups the operands against or 0, id of the operator exempt from that or 0) -/',
        'def bins : List (Nat × String × String × Nat × Bool × Nat × Nat × Nat) := %s' % L(
            '(%d,%s,%s,%d,%s,%d,%d,%d)' % (r['id'], q(r['key']), q(r['text']), max(r['prec'], 0), 'true' if r['natural'] else 'false', r['neg'],
                                        r['extra'], r['exempt'])
            for r in bins),
        '/-- prefix operators of `opmap`: (id, key, text, `_PRECEDENCE`, groups every binary operand) -/',
        'def pres : List (Nat × String × String × Nat × Bool) := %s' % L(
            '(%d,%s,%s,%d,%s)' % (r['id'], q(r['key']), q(r['text']), r['prec'], 'true' if r['wrap_all'] else 'false') for r in pres),
        'def btwId : Nat := %d' % BTW_ID,
        '/-- `_PRECEDENCE[between_op]`, and what `~between` becomes -/',
        'def rkBtw : Nat := %d' % rk_btw,
        'def notBtwFn : String := %s' % q(nbtw.operator.__name__),
        '/-- SQLAlchemy version the tables were read from -/',
        'def saVersion : String := %s' % q(sa.__version__),
        '/-- every alternative of `join_clause` in the three grammars (what can arrive in `Join.join_type`) -/',
        'def joinSpellings : List String := %s' % L(q(s) for s in spell),
        '/-- probed on the real renderer: (join_type, has ON, printed join keyword, printed ON text) -/',
        'def joinProbe : List (String × Bool × String × String) := %s' % L(
            '(%s,%s,%s,%s)' % (q(s), 'true' if w else 'false', q(k), q(c)) for s, w, k, c in probe),
        'end MindsVerif.Gen.SaPrec']
    T.write_if_changed(os.path.join(gen_lean, 'SaPrec.lean'), '\n'.join(lean) + '\n')
    side = dict(bins=bins, pres=pres, rk_btw=rk_btw, btw_id=BTW_ID, join_spellings=spell, join_probe=probe, sa_version=sa.__version__)
    T.write_if_changed(os.path.join(gen_json, 'saprec.json'), json.dumps(side, sort_keys=True, indent=1))
    return {'saprec': dict(bins=len(bins), pres=len(pres), joins=len(spell))}
