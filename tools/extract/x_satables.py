"""Tie A translator for C17: the renderer's OWN tables, read from the live module
(mindsdb_sql/render/sqlalchemy_render.py) -> lean/MindsVerif/Gen/SaTables.lean + gen/satables.json.

transcribed from live objects : types_map keys (per dialect name; must agree), dialect key -> dialect.name
transcribed from the source AST: `methods` / `functions` / `opmap` dict literals of to_expression, the exception classes
                                 named in get_exec_params' `except (...)`, the regex literals of get_type, the
                                 `serial` / `INT` literals of prepare_create_table, every attribute store whose base is
                                 not `self` and every subscript store / mutator call on a (non-self) parameter
probed (Tie B)                : what `getattr([], m)(x)` does for every method name of `methods` / `opmap` when the left
                                 operand is a Python list (Tuple) and x is a ColumnClause / a list; which method names
                                 a TextClause (Star) has
Nothing here is analysed: the Lean side pins / uses the data."""
import ast, inspect, json, os, sys, warnings

REPO = os.environ.get('VERIF_REPO', '/repo')
if REPO not in sys.path:
    sys.path.insert(0, REPO)

DIALECT_NAMES = ['mysql', 'postgresql', 'postgres', 'sqlite', 'mssql', 'oracle', 'Snowflake']
MUTATORS = {'append', 'extend', 'insert', 'pop', 'remove', 'clear', 'sort', 'reverse', 'update', 'setdefault',
            'popitem', 'add', 'discard', '__setitem__', '__delitem__', '__setattr__'}


def lean_str(s):
    out = ['"']
    for ch in s:
        if ch == '"':
            out.append('\\"')
        elif ch == '\\':
            out.append('\\\\')
        elif ch == '\n':
            out.append('\\n')
        elif ch == '\t':
            out.append('\\t')
        elif ord(ch) < 32 or ord(ch) == 127:
            out.append('\\x%02x' % ord(ch))
        else:
            out.append(ch)
    out.append('"')
    return ''.join(out)


def lean_list(xs):
    return '[' + ', '.join(xs) + ']'


def pairs(xs):
    return lean_list('(%s, %s)' % (lean_str(a), lean_str(b)) for a, b in xs)


def write_if_changed(path, text):
    os.makedirs(os.path.dirname(path), exist_ok=True)
    if os.path.exists(path) and open(path, encoding='utf-8').read() == text:
        return False
    open(path, 'w', encoding='utf-8').write(text)
    return True


def base_name(node):
    while isinstance(node, (ast.Attribute, ast.Subscript, ast.Call)):
        node = node.func if isinstance(node, ast.Call) else node.value
    return node.id if isinstance(node, ast.Name) else None


VIEW_METHODS = {'items', 'values', 'keys', 'get', '__getitem__', '__iter__'}
ITER_FUNCS = {'enumerate', 'zip', 'reversed', 'iter', 'filter', 'map'}
COPY_FUNCS = {'list', 'tuple', 'sorted', 'set', 'frozenset', 'dict'}


def alias_writes(fn):
    """alias-aware scan of one function: names bound (directly, through attribute / subscript chains, dict views,
    iteration, tuple unpacking) to objects reachable from a non-self parameter are TAINTED; reports every subscript
    store, `del`, augmented store and mutator call whose receiver is tainted.  `list(x)` / `sorted(x)` … give a new
    container (not tainted) whose ELEMENTS are still the caller's objects (a for-loop over it taints its target).
    Values returned by other calls (self.to_expression(...), sa.*(...), str methods) are new objects."""
    tainted = {a.arg for a in fn.args.args + fn.args.kwonlyargs + fn.args.posonlyargs} - {'self'}
    if fn.args.vararg:
        tainted.add(fn.args.vararg.arg)
    if fn.args.kwarg:
        tainted.add(fn.args.kwarg.arg)

    def is_t(e):
        if isinstance(e, ast.Name):
            return e.id in tainted
        if isinstance(e, (ast.Attribute, ast.Subscript, ast.Starred)):
            return is_t(e.value)
        if isinstance(e, ast.Call):
            if isinstance(e.func, ast.Attribute) and e.func.attr in VIEW_METHODS:
                return is_t(e.func.value)
            if isinstance(e.func, ast.Name) and e.func.id in ITER_FUNCS:
                return any(is_t(a) for a in e.args)
            return False
        if isinstance(e, ast.IfExp):
            return is_t(e.body) or is_t(e.orelse)
        if isinstance(e, ast.BoolOp):
            return any(is_t(v) for v in e.values)
        if isinstance(e, ast.NamedExpr):
            return is_t(e.value)
        return False

    def elems_t(e):
        if is_t(e):
            return True
        if isinstance(e, ast.Call) and isinstance(e.func, ast.Name) and e.func.id in COPY_FUNCS:
            return any(is_t(a) or elems_t(a) for a in e.args)
        return False

    def bind(target):
        for n in ast.walk(target):
            if isinstance(n, ast.Name):
                tainted.add(n.id)
    for _ in range(4):      # fixpoint over the (few) assignments
        for n in ast.walk(fn):
            if isinstance(n, ast.Assign) and is_t(n.value):
                for t in n.targets:
                    if isinstance(t, (ast.Name, ast.Tuple, ast.List)):
                        bind(t)
            elif isinstance(n, ast.AnnAssign) and n.value is not None and is_t(n.value) and isinstance(n.target, ast.Name):
                bind(n.target)
            elif isinstance(n, ast.NamedExpr) and is_t(n.value):
                bind(n.target)
            elif isinstance(n, (ast.For, ast.comprehension)) and elems_t(n.iter):
                bind(n.target)
            elif isinstance(n, ast.withitem) and n.optional_vars is not None and is_t(n.context_expr):
                bind(n.optional_vars)
    out = []
    for n in ast.walk(fn):
        targets = []
        if isinstance(n, ast.Assign):
            targets = n.targets
        elif isinstance(n, (ast.AugAssign, ast.AnnAssign)):
            targets = [n.target]
        elif isinstance(n, ast.Delete):
            targets = n.targets
        flat = []
        for t in targets:
            flat += list(t.elts) if isinstance(t, (ast.Tuple, ast.List)) else [t]
        for t in flat:
            if isinstance(t, ast.Subscript) and is_t(t.value):
                out.append((fn.name, ast.unparse(t)))
            if isinstance(n, ast.AugAssign) and isinstance(t, ast.Name) and t.id in tainted:
                out.append((fn.name, ast.unparse(n)))       # `x += [...]` mutates a list in place
        if isinstance(n, ast.Call) and isinstance(n.func, ast.Attribute) and n.func.attr in MUTATORS and is_t(n.func.value):
            out.append((fn.name, ast.unparse(n.func)))
    return out


def collect():
    warnings.simplefilter('ignore')
    import sqlalchemy as sa
    from mindsdb_sql.render import sqlalchemy_render as sr
    src = inspect.getsource(sr)
    tree = ast.parse(src)
    cls = [n for n in tree.body if isinstance(n, ast.ClassDef) and n.name == 'SqlalchemyRender'][0]
    fns = {n.name: n for n in cls.body if isinstance(n, ast.FunctionDef)}

    # --- dict literals of to_expression
    dicts = {}
    for n in ast.walk(fns['to_expression']):
        if isinstance(n, ast.Assign) and len(n.targets) == 1 and isinstance(n.targets[0], ast.Name) \
                and isinstance(n.value, ast.Dict) and n.targets[0].id in ('methods', 'functions', 'opmap'):
            keys = [ast.literal_eval(k) for k in n.value.keys]
            vals = [v.value if isinstance(v, ast.Constant) else ast.unparse(v) for v in n.value.values]
            dicts[n.targets[0].id] = list(zip(keys, vals))
    # --- except clause of get_exec_params
    caught = []
    for n in ast.walk(fns['get_exec_params']):
        if isinstance(n, ast.ExceptHandler):
            t = n.type
            caught += [ast.unparse(e) for e in (t.elts if isinstance(t, ast.Tuple) else [t])] if t is not None else ['BaseException']
    # --- regex literals of get_type
    regexes = []
    for n in ast.walk(fns['get_type']):
        if isinstance(n, ast.Call) and ast.unparse(n.func) == 're.match' and isinstance(n.args[0], ast.Constant):
            regexes.append(n.args[0].value)
    type_assigns = [ast.unparse(n) for n in ast.walk(fns['get_type']) if isinstance(n, ast.Assign)]
    # --- string literals of prepare_create_table
    pct = sorted({n.value for n in ast.walk(fns['prepare_create_table']) if isinstance(n, ast.Constant) and isinstance(n.value, str)})
    join_lits = sorted({n.value for n in ast.walk(fns['prepare_select'])
                        if isinstance(n, ast.Constant) and isinstance(n.value, str) and n.value.endswith('JOIN')})
    # --- writes
    attr_stores, param_writes = [], []
    allfns = [(n.name, n) for n in ast.walk(tree) if isinstance(n, ast.FunctionDef)]
    for fname, fn in allfns:
        params = {a.arg for a in fn.args.args + fn.args.kwonlyargs} - {'self'}
        for n in ast.walk(fn):
            targets = []
            if isinstance(n, ast.Assign):
                targets = n.targets
            elif isinstance(n, (ast.AugAssign, ast.AnnAssign)):
                targets = [n.target]
            elif isinstance(n, ast.Delete):
                targets = n.targets
            elif isinstance(n, ast.For):
                targets = [n.target]
            flat = []
            for t in targets:
                flat += list(t.elts) if isinstance(t, (ast.Tuple, ast.List)) else [t]
            for t in flat:
                if isinstance(t, ast.Attribute) and base_name(t) != 'self':
                    attr_stores.append((fname, t.attr))
                pass
            if isinstance(n, ast.Call):
                if isinstance(n.func, ast.Name) and n.func.id in ('setattr', 'delattr'):
                    attr_stores.append((fname, ast.unparse(n)))
    for fname, fn in allfns:
        param_writes += alias_writes(fn)
    # --- live objects
    tm = {}
    dn = []
    for d in DIALECT_NAMES:
        r = sr.SqlalchemyRender(d)
        tm[d] = sorted(r.types_map.keys())
        dn.append((d, r.dialect.name))
    uniform = all(tm[d] == tm[DIALECT_NAMES[0]] for d in DIALECT_NAMES)
    init_dict = []
    for n in ast.walk(fns['__init__']):
        if isinstance(n, ast.Assign) and isinstance(n.value, ast.Dict) and isinstance(n.targets[0], ast.Name) \
                and n.targets[0].id == 'dialects':
            init_dict = [ast.literal_eval(k) for k in n.value.keys]
    # --- probes: list / text as left operand
    names = sorted({v for _, v in dicts.get('methods', [])} | {v for _, v in dicts.get('opmap', [])} | {'op'})
    col = sa.column('x', is_literal=True)

    def beh(recv, m, arg):
        try:
            f = getattr(recv, m)
        except AttributeError:
            return 'attr'
        try:
            f(*arg)
        except TypeError:
            return 'type'
        except Exception as e:
            return 'other:' + type(e).__name__
        return 'ok'
    list_ops = [(m, beh([col], m, (col,) if m not in ('__invert__', '__neg__') else ()),
                 beh([col], m, ([col],) if m not in ('__invert__', '__neg__') else ())) for m in names]
    text_has = [m for m in names if hasattr(sa.text('*'), m)]
    # --- probes of behaviour the repairs proposed for C17 change (the model follows the live code)
    from mindsdb_sql.parser import ast as A
    from mindsdb_sql import parse_sql
    r0 = sr.SqlalchemyRender('postgres')
    tuple_is_list = isinstance(r0.to_expression(A.Tuple([A.Constant(1)])), list)
    from sqlalchemy.exc import SQLAlchemyError
    dup_exc = 'sa' if issubclass(sr.RenderError, SQLAlchemyError) else (
        'notImpl' if issubclass(sr.RenderError, NotImplementedError) else 'exception')
    try:
        pg_text = r0.get_string(parse_sql("select 'a`b' from `x y`.b.c.d", 'mindsdb'))
    except Exception as e:
        pg_text = 'exc:' + type(e).__name__
    pg_keeps_literal = "'a`b'" in pg_text
    # --- Tie B: what `getattr(sa.func, name)` yields, by name class
    from sqlalchemy.sql import functions as F

    def func_class(n):
        try:
            v = getattr(sa.func, n)
        except AttributeError:
            return 'missing'
        return 'gen' if isinstance(v, F._FunctionGenerator) else 'pyattr'
    func_py_attrs = sorted((n, func_class(n)) for n in dir(sa.func))
    # the rule of _FunctionGenerator.__getattr__ for names that are NOT attributes: `__x` -> AttributeError, else a generator
    probes = ['__a__', '__foo', '__', '___', '__x_', 'a', 'a_', '_', '_x', 'count', 'opts_', 'x__', 'Repr', 'class', 'None']
    dunder_rule = all(func_class(n) == ('missing' if n.startswith('__') else 'gen') for n in probes if n not in dict(func_py_attrs))

    def guard_probe(name):
        try:
            v = r0.to_function(A.Function(name, []))
        except NotImplementedError:
            return True
        except Exception:
            return False
        return isinstance(v, sa.sql.ClauseElement)
    func_guard = all(guard_probe(n) for n, c in func_py_attrs if c == 'pyattr')

    def refused(name):
        try:
            r0.to_function(A.Function(name, []))
        except NotImplementedError:
            return True
        except Exception:
            return False
        return False
    # names made of underscores only that ARE generators (`_`; `__`, `___` are AttributeErrors anyway): refused?
    func_empty_guard = refused('_') and not refused('a_') and not refused('_x')
    return dict(types_map=tm[DIALECT_NAMES[0]], types_uniform=uniform, dialects=dn, dialect_keys=init_dict,
                methods=dicts.get('methods', []), functions=[k for k, _ in dicts.get('functions', [])],
                opmap=dicts.get('opmap', []), caught=caught, regexes=regexes, type_assigns=type_assigns,
                create_table_literals=pct, join_literals=join_lits, attr_stores=sorted(set(attr_stores)), param_writes=sorted(set(param_writes)),
                list_ops=list_ops, text_has=text_has, tuple_is_list=tuple_is_list, dup_exc=dup_exc,
                pg_keeps_literal=pg_keeps_literal, pg_probe=pg_text, func_py_attrs=func_py_attrs, dunder_rule=dunder_rule,
                func_guard=func_guard, func_empty_guard=func_empty_guard)


def emit(d):
    o = ['-- GENERATED by tools/extract/x_satables.py from the live mindsdb_sql.render.sqlalchemy_render. Do not edit.',
         'namespace MindsVerif.Gen.SaTables',
         '/-- keys of `SqlalchemyRender.types_map` (identical for all 7 dialect names: %s) -/' % ('true' if d['types_uniform'] else 'FALSE'),
         'def typesMapKeys : List String := ' + lean_list(lean_str(x) for x in d['types_map']),
         'def typesUniform : Bool := ' + ('true' if d['types_uniform'] else 'false'),
         '/-- `methods` of to_expression (BinaryOperation): lower-cased op -> attribute name -/',
         'def methods : List (String × String) := ' + pairs(d['methods']),
         '/-- keys of `functions` of to_expression -/',
         'def functionsKeys : List String := ' + lean_list(lean_str(x) for x in d['functions']),
         '/-- `opmap` of to_expression (UnaryOperation): upper-cased op -> attribute name -/',
         'def opmap : List (String × String) := ' + pairs(d['opmap']),
         '/-- probed: (attribute name, behaviour of `getattr([c], m)(column)`, behaviour of `getattr([c], m)([c])`) -/',
         'def listOps : List (String × String × String) := ' + lean_list('(%s, %s, %s)' % tuple(lean_str(x) for x in t) for t in d['list_ops']),
         '/-- probed: attribute names a TextClause (`sa.text("*")`, i.e. Star) has -/',
         'def textHas : List String := ' + lean_list(lean_str(x) for x in d['text_has']),
         '/-- probed: `to_expression(Tuple)` builds a Python list (else: a sqlalchemy element) -/',
         'def tupleIsList : Bool := ' + ('true' if d['tuple_is_list'] else 'false'),
         '/-- probed: class of `RenderError` as the wrapper sees it ("exception" | "sa" | "notImpl") -/',
         'def dupExc : String := ' + lean_str(d['dup_exc']),
         '/-- probed: the postgres fallback keeps a back-tick that is inside a string literal (%s) -/' % d['pg_probe'].replace('-/', ''),
         'def pgKeepsLiteral : Bool := ' + ('true' if d['pg_keeps_literal'] else 'false'),
         '/-- probed: every attribute name of the object `sa.func` and what `getattr(sa.func, name)` is ("gen" = a _FunctionGenerator, "pyattr" = a python attribute, "missing") -/',
         'def funcPyAttrs : List (String × String) := ' + pairs(d['func_py_attrs']),
         '/-- probed on sample names: a name that is NOT an attribute of `sa.func` gives AttributeError iff it starts with `__`, else a generator -/',
         'def funcDunderRule : Bool := ' + ('true' if d['dunder_rule'] else 'false'),
         '/-- probed: `to_function` on every python-attribute name raises NotImplementedError (never returns a non-SQL value) -/',
         'def funcGuard : Bool := ' + ('true' if d['func_guard'] else 'false'),
         '/-- probed: `to_function` refuses (NotImplementedError) the generator name `_`, which sa.func would turn into the EMPTY function name; `a_`, `_x` are accepted -/',
         'def funcEmptyGuard : Bool := ' + ('true' if d['func_empty_guard'] else 'false'),
         '/-- exception classes named in the `except` clause of get_exec_params -/',
         'def caught : List String := ' + lean_list(lean_str(x) for x in d['caught']),
         '/-- regex literals of get_type, in order, and its assignments -/',
         'def typeRegexes : List String := ' + lean_list(lean_str(x) for x in d['regexes']),
         'def typeAssigns : List String := ' + lean_list(lean_str(x) for x in d['type_assigns']),
         '/-- string literals of prepare_create_table -/',
         'def createTableLiterals : List String := ' + lean_list(lean_str(x) for x in d['create_table_literals']),
         '/-- string literals of prepare_select that end in JOIN -/',
         'def joinLiterals : List String := ' + lean_list(lean_str(x) for x in d['join_literals']),
         '/-- (function, attribute) of every attribute store in the module whose base object is not `self` -/',
         'def attrStores : List (String × String) := ' + pairs(d['attr_stores']),
         '/-- (function, target) of every subscript store / del / mutator call whose receiver is reachable from a non-self parameter, through local aliases (alias_writes) -/',
         'def paramWrites : List (String × String) := ' + pairs(d['param_writes']),
         '/-- dialect key accepted by SqlalchemyRender.__init__ -> `self.dialect.name` -/',
         'def dialects : List (String × String) := ' + pairs(d['dialects']),
         'def dialectKeys : List String := ' + lean_list(lean_str(x) for x in d['dialect_keys']),
         'end MindsVerif.Gen.SaTables', '']
    return '\n'.join(o)


def main(gen_lean, gen_json):
    d = collect()
    ch = write_if_changed(os.path.join(gen_lean, 'SaTables.lean'), emit(d))
    write_if_changed(os.path.join(gen_json, 'satables.json'), json.dumps(d, sort_keys=True, indent=1))
    return {'satables': dict(changed=ch, types=len(d['types_map']), methods=len(d['methods']), opmap=len(d['opmap']),
                             caught=d['caught'], attr_stores=d['attr_stores'])}


if __name__ == '__main__':
    here = os.path.dirname(os.path.abspath(__file__))
    root = os.path.dirname(os.path.dirname(here))
    print(json.dumps(main(os.path.join(root, 'lean/MindsVerif/Gen'), os.path.join(root, 'gen'))))
