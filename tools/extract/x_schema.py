"""Tie B — probing extractor for the walker (C13 / C12).

For every AST node class that the three parsers produce (instances collected from the test corpus and
from grammar-derived sentences, fixed seed) the extractor records, from *behaviour*:
  * the child-bearing attributes (slots) and their kind (specification reading: tools/harness/walkspec.py),
  * the print template: order in which the child slots appear in to_string() (children replaced by
    marker instances of a dynamic subclass of their own class: exemplar substitution),
  * the walk row of query_traversal: ordered visits of direct children (or of grand-children reached
    through an unvisited child: `via`), is_table / is_target flags, parent_query kind (self / inherit),
    what a returned replacement replaces (same / discard / outer), and calls of the callback with None.
Rows of all exemplars of a class are merged; any inconsistency between exemplars is reported in
`nonuniform` (an obligation of the check).  Output: Gen/Schema.lean (data) and gen/schema.json."""
import copy, json, os, sys

from tools.harness import common, walkspec

N_SENT = 1500
MAX_EXEMPLARS = 40          # per (class, shape signature)
MARK = '⟦%d⟧'


def collect():
    """class name -> list of exemplar instances (distinct shape signatures first)"""
    from tools.harness import streams
    from mindsdb_sql import parse_sql
    A = walkspec.astnode()
    by = {}
    sig_count = {}
    parsed = 0

    def visit(n, seen):
        if id(n) in seen:
            return
        seen.add(id(n))
        ch = walkspec.children(n)
        cn = type(n).__name__
        sig = (cn, tuple(sorted((a, len(p), type(c).__name__ in walkspec.QUERY_CLASSES) for a, p, c in ch)))
        k = sig_count.get(sig, 0)
        if k < MAX_EXEMPLARS:
            try:
                copy.deepcopy(n)        # trees that cannot be copied (constructor checks re-run) are no exemplars
            except Exception:
                k = None
        if k is not None:
            sig_count[sig] = k + 1
            if k < MAX_EXEMPLARS:
                by.setdefault(cn, []).append(n)
        for a, p, c in ch:
            visit(c, seen)
    for d in common.DIALECTS:
        rng = common.rng_for(0, 'x_schema/' + d)
        for case in streams.statement_stream(d, rng, 0, N_SENT):
            try:
                t = parse_sql(case['text'], d)
            except Exception:
                continue
            if isinstance(t, A[0]):
                parsed += 1
                visit(t, set())
    return by, parsed


_mark_cls = {}


def marker(child, text):
    """a copy of `child` whose class is a dynamic subclass printing `text` whatever method is used"""
    base = type(child)
    if base not in _mark_cls:
        def ts(self, *a, **k):
            return self._mark
        _mark_cls[base] = type(base.__name__ + 'Mark', (base,), dict(
            to_string=ts, get_string=ts, __str__=ts, parts_to_str=ts, __repr__=ts, __deepcopy__=None))
        del _mark_cls[base].__deepcopy__
    m = copy.copy(child)
    m.__class__ = _mark_cls[base]
    m._mark = text
    if base.__name__ == 'Identifier':
        m.parts = [text]
        m.alias = None
    return m


def probe_print(node):
    """order of the direct children in node.to_string(): list of child indexes (missing = not printed)"""
    try:
        node.to_string()
    except Exception:
        return None, 'skip'
    n = copy.copy(node)
    for a, v in list(vars(n).items()):
        if isinstance(v, (list, dict)):
            setattr(n, a, copy.deepcopy(v) if not _has_node(v) else _shallow(v))
    ch = walkspec.children(n)
    for i, (a, p, c) in enumerate(ch):
        walkspec.set_child(n, a, p, marker(c, MARK % i))
    try:
        s = n.to_string()
    except Exception as e:
        return None, 'print raises %s' % type(e).__name__
    pos = []
    for i in range(len(ch)):
        k = s.find(MARK % i)
        if k >= 0:
            pos.append((k, i))
    return [i for _, i in sorted(pos)], None


def _has_node(v):
    A = walkspec.astnode()
    if isinstance(v, A):
        return True
    if isinstance(v, (list, tuple)):
        return any(_has_node(x) for x in v)
    if isinstance(v, dict):
        return any(_has_node(x) for x in v.values())
    return False


def _shallow(v):
    if isinstance(v, (list, tuple)):
        return [_shallow(x) for x in v]
    if isinstance(v, dict):
        return {k: _shallow(x) for k, x in v.items()}
    return v


class Depth:
    """query_traversal calls itself through its module global: wrapping that global counts the depth
    of the call that invokes the callback (1 = the probed node, 2 = a call made by its own branch)"""
    def __enter__(self):
        from mindsdb_sql.planner import utils
        self.utils, self.orig, self.d = utils, utils.query_traversal, 0

        def qt(*a, **k):
            self.d += 1
            try:
                return self.orig(*a, **k)
            finally:
                self.d -= 1
        utils.query_traversal = qt
        self.qt = qt
        return self

    def __exit__(self, *a):
        self.utils.query_traversal = self.orig


def probe_walk(node, it=False, ig=False):
    """one plain walk of a deep copy of `node`; returns (visits, copy, kids, grand)
    visits (only those made by the node's own branch, depth 2):
    ('kid', i, flags) | ('grand', i, j, flags) | ('none', flags)"""
    n = copy.deepcopy(node)
    kids = walkspec.children(n)
    where = {}
    for i, (a, p, c) in enumerate(kids):
        where.setdefault(id(c), ('kid', i))
    grand = {}
    for i, (a, p, c) in enumerate(kids):
        g = walkspec.children(c)
        grand[i] = g
        for j, (a2, p2, c2) in enumerate(g):
            where.setdefault(id(c2), ('grand', i, j))
    PQ = object()
    visits = []

    def cb(x, is_table=None, is_target=None, parent_query=None, **kw):
        if x is n or D.d != 2:
            return None
        pq = 'self' if parent_query is n else ('inherit' if parent_query is PQ else
                                               ('none' if parent_query is None else 'other'))
        fl = (bool(is_table), bool(is_target), pq)
        if x is None:
            visits.append(('none', fl))
            return None
        w = where.get(id(x))
        if w is not None:
            visits.append(w + (fl,))
        return None
    with Depth() as D:
        D.qt(n, cb, is_table=it, is_target=ig, parent_query=PQ)
    return visits, n, kids, grand


def locate(n, obj):
    """where `obj` sits below n (depth <= 2): ('kid', attr, path) | ('grand', i, attr, path) | None"""
    for i, (a, p, c) in enumerate(walkspec.children(n)):
        if c is obj:
            return ('kid', a, p)
    for i, (a, p, c) in enumerate(walkspec.children(n)):
        for (a2, p2, c2) in walkspec.children(c):
            if c2 is obj:
                return ('grand', i, a2, p2)
    return None


_falsy_cls = []


def falsy_probe_node():
    """a node object that is falsy (`__bool__` returns False): what `query_traversal(child, …) or child` drops"""
    from mindsdb_sql.parser.ast import Constant
    if not _falsy_cls:
        _falsy_cls.append(type('FalsyProbe', (Constant,), {'__bool__': lambda self: False}))
    return _falsy_cls[0]('R')


def falsy_capable(cls):
    """the class (or a base other than object) defines `__len__` or `__bool__`: its instances can be falsy"""
    return any(k in vars(c) for c in cls.__mro__ if c is not object for k in ('__len__', '__bool__'))


def probe_replace(node, target, falsy=False):
    """target = ('kid', i) or ('grand', i, j): the callback returns a fresh node there.
    returns 'same' | 'discard' | 'outer' | 'other:<where>'"""
    from mindsdb_sql.planner.utils import query_traversal
    from mindsdb_sql.parser.ast import Constant
    n = copy.deepcopy(node)
    kids = walkspec.children(n)
    if target[0] == 'kid':
        tgt = kids[target[1]][2]
        orig = ('kid', kids[target[1]][0], kids[target[1]][1])
    else:
        g = walkspec.children(kids[target[1]][2])
        tgt = g[target[2]][2]
        orig = ('grand', target[1], g[target[2]][0], g[target[2]][1])
    R = falsy_probe_node() if falsy else Constant('R')
    others = [c for (a, p, c) in kids if c is not tgt and not (target[0] == 'grand' and c is kids[target[1]][2])]
    ts = lambda c: c.to_string() if hasattr(c, 'to_string') else repr(sorted(vars(c).items(), key=str))
    before = [ts(c) for c in others]
    after_visits = []

    def cb(x, **kw):
        if x is tgt:
            return R
        return None
    query_traversal(n, cb)
    loc = locate(n, R)
    now = walkspec.children(n)
    kept = [c for (a, p, c) in now if c is not R]
    if loc is None:
        res = 'discard'
    elif loc == orig:
        res = 'same'
    elif target[0] == 'grand' and loc == ('kid', kids[target[1]][0], kids[target[1]][1]):
        res = 'outer'
    else:
        res = 'other:%s' % (loc,)
    # frame: every other direct child is still the same object, in the same place
    ids_before = [id(c) for c in others]
    ids_after = [id(c) for c in kept if id(c) in set(ids_before)]
    if ids_before != ids_after or before != [ts(c) for c in others]:
        res += '+frame'
    return res


def merge_order(seqs):
    """merge several sequences of slot names into one total order; returns (order, conflicts)"""
    succ = {}
    items = []
    for s in seqs:
        for x in s:
            if x not in items:
                items.append(x)
        for i, x in enumerate(s):
            for y in s[i + 1:]:
                if x != y:
                    succ.setdefault(x, set()).add(y)
    conflicts = sorted((x, y) for x in succ for y in succ[x] if x in succ.get(y, ()) and x < y)
    order = []
    rest = list(items)
    while rest:
        for x in rest:
            if not any(x in succ.get(y, ()) and y != x and not (y in succ.get(x, ())) for y in rest if y != x):
                order.append(x)
                rest.remove(x)
                break
        else:
            order.append(rest.pop(0))
    return order, conflicts


def collapse(seq):
    """[a,a,b,a] -> ([a,b,a], contiguous?)  returns list without consecutive duplicates"""
    out = []
    for x in seq:
        if not out or out[-1] != x:
            out.append(x)
    return out


def full_exemplars(exemplars):
    """synthetic exemplars with as many child slots present at once as possible: a copy of a printable
    exemplar whose empty (None / []) node-valued attributes are filled from other exemplars of the class"""
    donors = {}
    for ex in exemplars:
        for a, v in vars(ex).items():
            if _has_node(v) and a not in donors:
                donors[a] = v
    out = []
    bases = sorted(exemplars, key=lambda e: -len({a for a, p, c in walkspec.children(e)}))[:3]
    for b in bases:
        n = copy.copy(b)
        try:
            n.to_string()
        except Exception:
            continue
        for a, v in donors.items():
            cur = getattr(n, a, None)
            if cur is None or (isinstance(cur, (list, dict)) and not _has_node(cur)):
                setattr(n, a, v)
                try:
                    n.to_string()
                    copy.deepcopy(n)
                except Exception:
                    setattr(n, a, cur)
        out.append(n)
    return out


def _nodes_in(v):
    A = walkspec.astnode()
    if isinstance(v, A):
        yield v
    elif isinstance(v, (list, tuple)):
        for x in v:
            yield from _nodes_in(x)
    elif isinstance(v, dict):
        for x in v.values():
            yield from _nodes_in(x)


def mixed_exemplars(exemplars, limit=24):
    """synthetic exemplars that stress the uniformity assumption: for every list- or dict-valued child attribute the
    contents of two exemplars whose elements are of different classes are concatenated, in both orders (e.g. VALUES rows
    of literals followed by rows of expressions and vice versa).  A branch whose behaviour depends on what the children
    are, or on a child's position, then disagrees with the other exemplars (`nonuniform`)."""
    by_attr = {}
    for ex in exemplars:
        for a, v in vars(ex).items():
            if isinstance(v, (list, dict)) and _has_node(v):
                sig = tuple(sorted({type(c).__name__ for c in _nodes_in(v)}))
                by_attr.setdefault(a, {}).setdefault(sig, (ex, v))
    out = []
    for a in sorted(by_attr):
        donors = [by_attr[a][k] for k in sorted(by_attr[a])][:4]
        for i, (ex_a, v_a) in enumerate(donors):
            for j, (ex_b, v_b) in enumerate(donors):
                if i == j:
                    continue
                try:
                    v_b2 = copy.deepcopy(v_b)
                except Exception:
                    continue
                if isinstance(v_a, list) and isinstance(v_b2, list):
                    mix = list(v_a) + list(v_b2)
                elif isinstance(v_a, dict) and isinstance(v_b2, dict):
                    mix = dict(v_a)
                    for k, x in v_b2.items():
                        mix[k if k not in mix else '%s_2' % k] = x
                else:
                    continue
                n = copy.copy(ex_a)
                setattr(n, a, mix)
                try:
                    n.to_string()
                    copy.deepcopy(n)
                except Exception:
                    continue
                out.append(n)
    return out[:limit]


def probe_markers(n=30):
    """`planner.utils.sort_by_text_position` orders placeholders by `text.find(marker)`.  The Lean model
    (`Params.sortByText`) replaces the search by the print-template position, which is right iff every marker is found
    where its own placeholder is rendered.  Probed here: the rendered markers of n placeholders (emitted as data; the
    kernel checks that none occurs inside another) and the behaviour of the search on adversarial arrangements."""
    from mindsdb_sql.planner import utils
    from mindsdb_sql.parser.ast import Parameter
    f = getattr(utils, 'sort_by_text_position', None)
    if f is None:
        return dict(markers=[], failures=['planner.utils.sort_by_text_position not found'])
    params = [Parameter('?') for _ in range(n)]
    seen = {}

    class Q:
        def __init__(self, order):
            self.order = order

        def to_string(self):
            seen['m'] = [p.to_string() for p in params]
            return 'SELECT ' + ', '.join(params[i].to_string() for i in self.order) + ' FROM t'
    rng = common.rng_for(0, 'x_schema/markers')
    orders = [list(range(n)), list(range(n - 1, -1, -1)), list(range(10, n)) + list(range(10)),
              list(range(1, n)) + [0]]
    for _ in range(4):
        o = list(range(n))
        rng.shuffle(o)
        orders.append(o)
    failures = []
    for order in orders:
        try:
            res = f(Q(order), list(params))
            got = [next(i for i, p in enumerate(params) if p is r) for r in res]
        except Exception as e:
            failures.append('raises %s' % type(e).__name__)
            continue
        if got != order:
            failures.append('rendered order %s, returned %s' % (order, got))
        if any(p.value != '?' for p in params):
            failures.append('placeholder values not restored')
    return dict(markers=seen.get('m', []), failures=failures[:3])


def probe_class(cn, exemplars):
    slots = []                 # attr names in vars order of first appearance
    values = {}                # attr -> set of value class names
    print_seqs, walk_seqs = [], []
    flags, repl, via, nonev = {}, {}, {}, {}
    orstyle = {}
    unprinted_seen, printed_seen = set(), set()
    nonuniform = []
    unprintable = 0
    exemplars = full_exemplars(exemplars) + list(exemplars) + mixed_exemplars(exemplars)
    for ex in exemplars:
        ch = walkspec.children(ex)
        for a, p, c in ch:
            if a not in slots:
                slots.append(a)
            values.setdefault(a, set()).add(type(c).__name__)
        # ---- print
        order, err = probe_print(ex)
        if err == 'skip':
            unprintable += 1
        elif err:
            nonuniform.append('print: %s' % err)
        else:
            seq = collapse([ch[i][0] for i in order])
            if len(seq) != len(set(seq)):
                nonuniform.append('print: slots interleave %s' % seq)
            print_seqs.append([x for k, x in enumerate(seq) if x not in seq[:k]])
            printed_seen |= set(seq)
            unprinted_seen |= {a for a, p, c in ch} - set(seq)
            # list order inside a slot
            for a in set(seq):
                idx = [i for i in order if ch[i][0] == a]
                if idx != sorted(idx):
                    nonuniform.append('print: slot %s not in list order' % a)
        # ---- walk (uniform in the incoming flags?)
        try:
            v0, n0, kids0, grand0 = probe_walk(ex)
            v1 = probe_walk(ex, True, True)[0]
        except Exception as e:
            nonuniform.append('walk raises %s: %s' % (type(e).__name__, e))
            continue
        if v0 != v1:
            nonuniform.append('walk depends on incoming flags')
        visited_kids = {v[1] for v in v0 if v[0] == 'kid'}
        seq = []
        present = {a for a, p, c in ch}
        for v in v0:
            if v[0] == 'kid':
                a = ch[v[1]][0]
                key = a
                fl = v[2]
                via.setdefault(a, set()).add(None)
            elif v[0] == 'grand':
                if v[1] in visited_kids:
                    continue            # belongs to the child's own row
                a = ch[v[1]][0]
                a2 = grand0[v[1]][v[2]][0]
                key = a
                fl = v[3]
                via.setdefault(a, set()).add(a2)
            else:
                seq.append(('none', v[1]))
                continue
            flags.setdefault(key, set()).add(fl)
            seq.append(key)
        # None visits: attribute to the slot that is absent here and sits at this row position
        seq2 = []
        for k, x in enumerate(seq):
            if isinstance(x, tuple):
                seq2.append(('none', k))
            else:
                seq2.append(x)
        walk_seqs.append((seq, present))
        # within a slot the visits must follow list order, once each
        for a in {x for x in seq if not isinstance(x, tuple)}:
            idx = [v[1] for v in v0 if v[0] in ('kid', 'grand') and ch[v[1]][0] == a and (v[0] == 'kid' or v[1] not in visited_kids)]
            want = [i for i, (a_, p, c) in enumerate(ch) if a_ == a]
            if idx != want:
                nonuniform.append('walk: slot %s visited %s, children are %s' % (a, idx, want))
        # ---- replacement (first and last child of every visited slot)
        done = set()
        for v in v0:
            if v[0] == 'none' or (v[0] == 'grand' and v[1] in visited_kids):
                continue
            a = ch[v[1]][0]
            if (a, 'first') in done and v[1] != max(i for i, (a_, p, c) in enumerate(ch) if a_ == a):
                continue
            done.add((a, 'first'))
            try:
                r = probe_replace(ex, v[:2] if v[0] == 'kid' else v[:3])
            except Exception as e:
                r = 'raises:%s' % type(e).__name__
            repl.setdefault(a, set()).add(r)
            # the same with a falsy answer: dropped by the `… or child` idiom, kept by `if … is not None`
            try:
                rf = probe_replace(ex, v[:2] if v[0] == 'kid' else v[:3], falsy=True)
            except Exception as e:
                rf = 'raises:%s' % type(e).__name__
            orstyle.setdefault(a, set()).add(rf.split('+')[0] == 'discard' and r.split('+')[0] != 'discard')
    # ---- merge
    plain = [[x for x in s if not isinstance(x, tuple)] for s, _ in walk_seqs]
    for s in plain:
        cs = collapse(s)
        if len(cs) != len(set(cs)):
            nonuniform.append('walk: slot revisited %s' % cs)
    worder, wconf = merge_order([[x for k, x in enumerate(collapse(s)) if x not in collapse(s)[:k]] for s in plain])
    porder, pconf = merge_order(print_seqs)
    if wconf:
        nonuniform.append('walk order differs between exemplars: %s' % wconf)
    if pconf:
        nonuniform.append('print order differs between exemplars: %s' % pconf)
    # None visits: the callback is called with None at a row position where an absent slot would be
    for s, present in walk_seqs:
        for k, x in enumerate(s):
            if isinstance(x, tuple):
                before = [y for y in s[:k] if not isinstance(y, tuple)]
                after = [y for y in s[k + 1:] if not isinstance(y, tuple)]
                cands = [a for a in worder if a not in present
                         and all(worder.index(b) < worder.index(a) for b in before)
                         and all(worder.index(b) > worder.index(a) for b in after)]
                if len(cands) == 1:
                    nonev.setdefault(cands[0], set()).add(x[1])
                else:
                    nonuniform.append('callback called with None, slot ambiguous %s' % cands)
    both = printed_seen & unprinted_seen
    # a slot printed in some exemplars and not in others is tolerated only for dict-valued option slots
    row = []
    for a in worder:
        fl = sorted(flags.get(a, ()))
        vi = sorted(via.get(a, ()), key=str)
        rp = sorted(repl.get(a, ()))
        if len(fl) != 1:
            nonuniform.append('flags of %s vary: %s' % (a, fl))
        if len(vi) != 1:
            nonuniform.append('via of %s varies: %s' % (a, vi))
        if len(rp) != 1:
            nonuniform.append('replacement of %s varies: %s' % (a, rp))
        if len(orstyle.get(a, ())) > 1:
            nonuniform.append('treatment of a falsy answer for %s varies' % a)
        f = fl[0] if fl else (False, False, 'none')
        row.append(dict(slot=a, via=vi[0] if vi else None, is_table=f[0], is_target=f[1], pq=f[2],
                        repl=rp[0] if rp else 'same', none_visit=a in nonev,
                        or_style=bool(orstyle.get(a)) and all(orstyle[a])))
    for a in nonev:
        if a not in worder:
            nonuniform.append('None visit for a slot that is never visited: %s' % a)
    kinds = {a: walkspec.kind_of(cn, a, values.get(a, ())) for a in slots}
    return dict(slots=slots, kinds=kinds, values={a: sorted(v) for a, v in values.items()},
                print=porder, walk=row, exemplars=len(exemplars), unprintable=unprintable, nonuniform=sorted(set(nonuniform)),
                partly_printed=sorted(both))


def deviations(cn, c):
    """(class, slot, kind) triples by which the probed row differs from an OK row
    (mirror of Walk.deviations in Lean; the Lean side is the one that counts)"""
    out = []
    req = [a for a in c['slots'] if c['kinds'][a] in walkspec.REQUIRED]
    wslots = [e['slot'] for e in c['walk']]
    for a in c['slots']:
        k = c['kinds'][a]
        if k in walkspec.REQUIRED:
            if a not in wslots:
                out.append((cn, a, 'unvisited'))
            if a not in c['print']:
                out.append((cn, a, 'unprinted'))
    for i, e in enumerate(c['walk']):
        a = e['slot']
        k = c['kinds'][a]
        if a in c['print']:
            pa = c['print'].index(a)
            if any(b['slot'] in c['print'] and c['print'].index(b['slot']) < pa for b in c['walk'][i + 1:]):
                out.append((cn, a, 'order'))
        if (e['via'] is not None) != (k == 'container'):
            out.append((cn, a, 'via'))
        if e['repl'] != 'same':
            out.append((cn, a, 'replace'))
        if e['none_visit']:
            out.append((cn, a, 'none'))
        if k != 'container' and e['via'] is None:
            if e['is_table'] != (k == 'table'):
                out.append((cn, a, 'flag_table'))
            if e['is_target'] != (k == 'target'):
                out.append((cn, a, 'flag_target'))
        if wslots.count(a) > 1 and wslots.index(a) != i:
            out.append((cn, a, 'multi'))
        if k not in walkspec.REQUIRED and k != 'container':
            out.append((cn, a, 'extra'))
    return out


KIND_ID = {k: i for i, k in enumerate(walkspec.KINDS)}
DEV_ID = {'unvisited': 0, 'order': 1, 'via': 2, 'replace': 3, 'none': 4, 'flag_table': 5, 'flag_target': 6,
          'multi': 7, 'unprinted': 8, 'extra': 9}


# real statements whose parser trees are emitted as Lean data (`Gen.Schema.sampleTrees`): the kernel checks that the
# hypothesis of the lifting theorems (`okTree`) holds for them and that the model visits them in textual order
SAMPLE_SQL = [
    "SELECT a, b AS c FROM t JOIN u ON t.x = u.x WHERE a = 1 AND b IN (1, 2) GROUP BY a HAVING count(a) > 1 ORDER BY b LIMIT 3 OFFSET 1",
    "SELECT a FROM t1 LEFT JOIN t2 ON t1.i = t2.i JOIN t3 ON t2.j = t3.j WHERE t1.a > 0",
    "WITH w AS (SELECT x FROM s WHERE y = 1) SELECT x FROM w WHERE x < 5",
    "UPDATE t SET a = 1, b = b + 1 WHERE c = 2",
    "INSERT INTO t (a, b) VALUES (1, 2), (3, 4)",
    "INSERT INTO t (a) SELECT x FROM s WHERE x > 0",
    "DELETE FROM t WHERE a BETWEEN 1 AND 2",
    "SELECT CASE a WHEN 1 THEN 'x' ELSE 'y' END, CAST(b AS int), extract(MONTH FROM d), sum(a) OVER (PARTITION BY b ORDER BY c) FROM t",
    "SELECT a FROM t UNION SELECT b FROM u",
    "SELECT * FROM (SELECT a FROM t) AS s WHERE EXISTS (SELECT 1 FROM u) AND a NOT IN (SELECT b FROM v)",
    "SELECT ?, a FROM t JOIN (SELECT ? AS k FROM u) AS q ON t.i = q.k WHERE b = ? ORDER BY ?",
    "UPDATE t SET a = ?, b = ? WHERE c = ?",
]


def sample_trees(schema):
    from mindsdb_sql import parse_sql
    out = []
    for sql in SAMPLE_SQL:
        try:
            t = parse_sql(sql, 'mindsdb')
            num = walkspec.Numbering(t)
            text, _, unknown = walkspec.rose(t, schema, num)
        except Exception as e:
            out.append(dict(sql=sql, error='%s: %s' % (type(e).__name__, e)))
            continue
        if unknown or num.shared:
            out.append(dict(sql=sql, error='unknown class / slot %s or shared sub-object' % (unknown[:2],)))
            continue
        out.append(dict(sql=sql, rose=text))
    return out


def lean_node(text):
    """'(c s t kid*)' -> Lean term"""
    toks = text.replace('(', ' ( ').replace(')', ' ) ').split()
    pos = [0]

    def rec():
        assert toks[pos[0]] == '('
        c, s_, t = toks[pos[0] + 1:pos[0] + 4]
        pos[0] += 4
        kids = []
        while toks[pos[0]] != ')':
            kids.append(rec())
        pos[0] += 1
        return '.mk %s %s %s [%s]' % (c, s_, t, ', '.join(kids))
    return rec()


def lean_str(s):
    return '"' + s.replace('\\', '\\\\').replace('"', '\\"') + '"'


def emit_lean(schema):
    L = ['-- generated by tools/extract/x_schema.py from the live classes; do not edit',
         'import MindsVerif.Model.Walk', 'namespace MindsVerif.Gen.Schema', 'open MindsVerif.Walk', '']
    names = schema['class_names']
    L.append('def classNames : List String := [%s]' % ', '.join(lean_str(n) for n in names))
    L.append('')
    L.append('def slotNames : List (List String) := [')
    rows = []
    for cn in names:
        c = schema['classes'].get(cn)
        rows.append('  [%s]' % ', '.join(lean_str(a) for a in (c['slots'] if c else [])))
    L.append(',\n'.join(rows) + ']')
    L.append('')
    L.append('def schema : Schema := [')
    rows = []
    for cn in names:
        c = schema['classes'].get(cn)
        if not c:
            rows.append('  -- %s\n  ⟨[], [], [], false⟩' % (cn or 'none'))
            continue
        sid = c['slot_id']
        kinds = ', '.join('Kind.%s' % c['kinds'][a] for a in c['slots'])
        pr = ', '.join(str(sid[a]) for a in c['print'])
        ws = []
        for e in c['walk']:
            via = 'none'
            if e['via'] is not None:
                kid_cls = [v for v in c['values'][e['slot']]]
                vid = None
                for kc in kid_cls:
                    kc_ = schema['classes'].get(kc)
                    if kc_ and e['via'] in kc_['slot_id']:
                        vid = kc_['slot_id'][e['via']]
                via = 'some %d' % (vid if vid is not None else 0)
            rp = e['repl'] if e['repl'] in ('same', 'discard', 'outer') else 'discard'
            ws.append('⟨%d, %s, %s, %s, PQ.%s, Repl.%s, %s, %s⟩' % (
                sid[e['slot']], via, str(e['is_table']).lower(), str(e['is_target']).lower(),
                'self' if e['pq'] == 'self' else 'inherit', rp, str(e['none_visit']).lower(), str(e['or_style']).lower()))
        rows.append('  -- %s: %s\n  ⟨[%s], [%s], [%s], %s⟩' % (cn, ' '.join('%d=%s' % (sid[a], a) for a in c['slots']),
                                                                kinds, pr, ', '.join(ws), str(bool(c.get('falsy'))).lower()))
    L.append(',\n'.join(rows) + ']')
    L.append('')
    L.append('/-- the markers rendered by `sort_by_text_position` for %d placeholders, as code points -/' % len(schema['markers']['markers']))
    L.append('def markers : List (List Nat) := [%s]' % ', '.join('[%s]' % ', '.join(str(ord(ch)) for ch in m) for m in schema['markers']['markers']))
    L.append('')
    L.append('/-- AST classes (all subclasses of ASTNode, and TableColumn) that define `__len__` / `__bool__`, by introspection -/')
    L.append('def falsyCapable : List String := [%s]' % ', '.join(lean_str(n) for n in schema.get('falsy_capable', [])))
    L.append('')
    ok = [x for x in schema.get('samples', []) if 'rose' in x]
    L.append('/-- parser trees of real statements (mindsdb dialect), serialised by the harness on this run -/')
    L.append('def sampleSql : List String := [%s]' % ', '.join(lean_str(x['sql']) for x in ok))
    L.append('def sampleTrees : List Node := [\n  %s]' % ',\n  '.join(lean_node(x['rose']) for x in ok))
    L.append('')
    L.append('/-- number of classes whose exemplars disagreed with each other (uniformity of the probe) -/')
    L.append('def nonuniform : Nat := %d' % sum(1 for c in schema['classes'].values() if c['nonuniform']))
    L.append('')
    L.append('end MindsVerif.Gen.Schema')
    return '\n'.join(L) + '\n'


def write_if_changed(path, text):
    if os.path.exists(path) and open(path, encoding='utf-8').read() == text:
        return False
    open(path, 'w', encoding='utf-8').write(text)
    return True


def build():
    by, parsed = collect()
    names = [''] + sorted(by)
    classes = {}
    for cn in sorted(by):
        c = probe_class(cn, by[cn])
        c['falsy'] = falsy_capable(type(by[cn][0]))
        c['slot_id'] = {a: i for i, a in enumerate(c['slots'])}
        c['deviations'] = deviations(cn, c)
        classes[cn] = c
    schema = dict(class_names=names, class_id={n: i for i, n in enumerate(names) if n}, classes=classes,
                  parsed=parsed, markers=probe_markers())
    schema['classes'] = {cn: dict(c, slot_id=c['slot_id']) for cn, c in classes.items()}
    schema['samples'] = sample_trees(schema)
    seen, todo = set(), list(walkspec.astnode())
    while todo:
        k = todo.pop()
        if k not in seen:
            seen.add(k)
            todo.extend(k.__subclasses__())
    schema['falsy_capable'] = sorted({k.__name__ for k in seen if falsy_capable(k) and not k.__name__.endswith('Mark')
                                      and k.__name__ != 'FalsyProbe'})
    return schema


def main(gen_lean, gen_json):
    schema = build()
    changed = write_if_changed(os.path.join(gen_lean, 'Schema.lean'), emit_lean(schema))
    write_if_changed(os.path.join(gen_json, 'schema.json'), json.dumps(schema, indent=1, sort_keys=True, default=list))
    devs = [d for c in schema['classes'].values() for d in c['deviations']]
    return {'schema': dict(classes=len(schema['classes']), parsed=schema['parsed'], deviations=len(devs),
                           nonuniform=sum(1 for c in schema['classes'].values() if c['nonuniform']),
                           changed=changed)}


if __name__ == '__main__':
    ROOT = common.ROOT
    print(json.dumps(main(os.path.join(ROOT, 'lean', 'MindsVerif', 'Gen'), os.path.join(ROOT, 'gen'))))
