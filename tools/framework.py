"""Check pipeline shared by all properties (DESIGN.md §3):
extract -> build -> audit -> correspondence -> impl-level probe -> known findings -> evidence."""
import fcntl, hashlib, json, os, re, subprocess, sys, time, traceback

ROOT = os.path.dirname(os.path.dirname(os.path.abspath(__file__)))
LEAN = os.path.join(ROOT, 'lean')
REPO = os.environ.get('VERIF_REPO', '/repo')
if ROOT not in sys.path:
    sys.path.insert(0, ROOT)
if REPO not in sys.path:
    sys.path.insert(0, REPO)

STD_AXIOMS = {'propext', 'Classical.choice', 'Quot.sound'}
FORBIDDEN = re.compile(r'\bsorry\b|\badmit\b|^\s*axiom\s|native_decide|bv_decide|implemented_by|\bunsafe\s|maxHeartbeats\s+0')

TRUSTED_BASE = [
    'Lean 4.33 kernel (decide +kernel is kernel evaluation, no extra axiom)',
    'axioms at most propext, Classical.choice, Quot.sound (audited by #print axioms on every run)',
    'translator tools/extract/*.py transcribes live Python objects to Lean data (certificates are re-checked by the kernel)',
    'hand-written Lean models tied to the code by the correspondence streams of this run',
]


class Lock:
    def __enter__(self):
        self.f = open(os.path.join(ROOT, '.build.lock'), 'w')
        fcntl.flock(self.f, fcntl.LOCK_EX)
        return self

    def __exit__(self, *a):
        fcntl.flock(self.f, fcntl.LOCK_UN)
        self.f.close()


def strip_comments(text):
    text = re.sub(r'/-.*?-/', '', text, flags=re.S)
    text = re.sub(r'--[^\n]*', '', text)
    return text


class Check:
    def __init__(self, pid, tier, seed):
        self.pid, self.tier, self.seed = pid, tier, seed
        self.t0 = time.time()
        self.obligations = []      # dict(name, kind, ok, detail)
        self.corr = {}             # name -> dict(cases, diverged, first, distribution)
        self.failures = []         # impl-level violations: dict(desc, input, kf)
        self.known = []            # KF lines printed
        self.samples = []
        self.evaluations = 0
        self.distinct = set()
        self.notes = []
        allkf = list(json.load(open(os.path.join(ROOT, 'known_findings.json')))['findings'])
        for f in sorted(os.listdir(ROOT)):   # proposals of a property package under development
            if f.startswith('kf_proposed_') and f.endswith('.json'):
                allkf += json.load(open(os.path.join(ROOT, f)))
        self.kf = [k for k in allkf if k['property'] == pid]
        self.deep = tier == 'thorough'

    # ------------------------------------------------------------ obligations
    def oblige(self, name, kind, ok, detail=''):
        self.obligations.append(dict(name=name, kind=kind, ok=bool(ok), detail=str(detail)[:2000]))
        return ok

    def broken(self):
        return [o for o in self.obligations if not o['ok']]

    # ------------------------------------------------------------ extract / build / audit
    def extract(self):
        from tools.extract import run_all
        from tools.harness import common
        # the translators drive the live lexers / parsers over exemplar statements: a lexer that stops advancing must
        # break the obligation (and leave the verdict to the probes), not stall the check
        common.install_lexer_guard()
        try:
            with common.time_limit(900):
                info = run_all.main()
            self.oblige('extract', 'translator', True, json.dumps(info)[:500])
            return True
        except (Exception, common.HangDetected) as e:
            self.oblige('extract', 'translator', False, traceback.format_exc()[-1500:])
            return False
        finally:
            common.remove_lexer_guard()

    def build(self, targets):
        """lake build of the given modules; every failing module becomes a broken obligation"""
        p = subprocess.run(['lake', 'build'] + targets, cwd=LEAN, capture_output=True, text=True)
        out = p.stdout + p.stderr
        failed = re.findall(r'^✖ \[\d+/\d+\] (?:Building|Built) (\S+)', out, flags=re.M)
        errs = re.findall(r'^error: (.*)$', out, flags=re.M)
        self.build_cmd = 'cd lean && lake build ' + ' '.join(targets)
        if p.returncode == 0:
            for t in targets:
                self.oblige('build:' + t, 'lake', True)
            return True
        for m in failed or ['?']:
            self.oblige('build:' + m, 'lake', False, '\n'.join(e for e in errs if m.split('.')[-1] in e)[:1500] or out[-1500:])
        return False

    def audit(self, theorems, modules):
        """#print axioms for every property theorem + forbidden-token grep over the Lean sources"""
        bad = []
        for dp, dn, fn in os.walk(os.path.join(LEAN, 'MindsVerif')):
            for f in fn:
                if f.endswith('.lean'):
                    txt = strip_comments(open(os.path.join(dp, f), encoding='utf-8').read())
                    for i, line in enumerate(txt.split('\n')):
                        if FORBIDDEN.search(line):
                            bad.append('%s:%d:%s' % (f, i + 1, line.strip()[:80]))
        self.oblige('audit:grep', 'audit', not bad, '; '.join(bad[:10]))
        src = ''.join('import %s\n' % m for m in modules) + ''.join('#print axioms %s\n' % t for t in theorems)
        path = os.path.join(LEAN, '.lake', 'audit_%s.lean' % self.pid)
        os.makedirs(os.path.dirname(path), exist_ok=True)
        open(path, 'w').write(src)
        p = subprocess.run(['lake', 'env', 'lean', path], cwd=LEAN, capture_output=True, text=True)
        out = p.stdout + p.stderr
        found = {}
        for m in re.finditer(r"'([^']+)' depends on axioms: \[([^\]]*)\]", out, flags=re.S):
            found[m.group(1)] = {a.strip() for a in m.group(2).replace('\n', ' ').split(',') if a.strip()}
        for m in re.finditer(r"'([^']+)' does not depend on any axioms", out):
            found[m.group(1)] = set()
        for t in theorems:
            ax = found.get(t)
            short = t.split('.')[-1]
            if ax is None:
                ax = found.get(short)
            ok = ax is not None and ax <= STD_AXIOMS
            self.oblige('axioms:' + short, 'audit', ok,
                        'axioms=%s' % sorted(ax) if ax is not None else 'theorem missing: ' + out[-400:])
        return all(o['ok'] for o in self.obligations if o['kind'] == 'audit')

    def leanchecker(self, modules):
        p = subprocess.run(['lake', 'env', 'leanchecker'] + modules, cwd=LEAN, capture_output=True, text=True)
        self.oblige('leanchecker', 'audit', p.returncode == 0, (p.stdout + p.stderr)[-500:])

    # ------------------------------------------------------------ correspondence / probe bookkeeping
    def corr_result(self, name, cases, diverged, first=None, distribution=None):
        self.corr[name] = dict(cases=cases, diverged=diverged, first=first, distribution=distribution or {})
        self.evaluations += cases
        self.oblige('corr:' + name, 'correspondence', diverged == 0,
                    '' if diverged == 0 else 'first divergence: %s' % json.dumps(first, default=str)[:1500])

    def count(self, key):
        self.evaluations += 1
        self.distinct.add(hashlib.md5(repr(key).encode()).digest()[:8])

    def classify(self, failure, matcher):
        """attach the id of the known finding that covers this failure (or None)"""
        for k in self.kf:
            if k.get('status') == 'open' and matcher(k, failure):
                failure['kf'] = k['id']
                return k['id']
        failure['kf'] = None
        return None

    def fail(self, failure):
        self.failures.append(failure)

    # ------------------------------------------------------------ finish
    def write_replay(self, n, data):
        d = os.path.join(ROOT, 'replays')
        os.makedirs(d, exist_ok=True)
        path = os.path.join(d, '%s-%s-%d.json' % (self.pid, self.seed, n))
        json.dump(data, open(path, 'w'), indent=1, default=str, ensure_ascii=False)
        return path

    def finish(self, level_text='', assumptions=None, extra=None):
        new = [f for f in self.failures if not f.get('kf')]
        broken = self.broken()
        lines = []
        # known findings still reproduce?
        shown = set()
        for f in self.failures:
            if f.get('kf') and f['kf'] not in shown:
                shown.add(f['kf'])
        for k in self.kf:
            if k.get('status') == 'open' and (k['id'] in shown or k.get('_reproduced')):
                lines.append('KNOWN-FINDING: property=%s %s [%s]' % (self.pid, k['what'], k['id']))
        violations = 0
        n = 0
        if new:
            # report the first few distinct new failures
            seen = set()
            for f in new:
                key = f.get('class', f['desc'])
                if key in seen:
                    continue
                seen.add(key)
                path = self.write_replay(n, dict(property=self.pid, kind='failing-input', failure=f,
                                                 broken_obligations=broken))
                lines.append('VIOLATION property=%s replay=%s' % (self.pid, path))
                n += 1
                violations += 1
                if n >= 5:
                    break
        elif broken:
            path = self.write_replay(0, dict(property=self.pid, kind='obligation-broken',
                                             broken_obligations=broken,
                                             note='no failing input was found on the implementation; the listed '
                                                  'theorem / decide obligation / correspondence no longer checks'))
            lines.append('VIOLATION property=%s replay=%s no-failing-input-found' % (self.pid, path))
            violations = 1
        ob = len(self.obligations)
        dis = sum(1 for o in self.obligations if o['ok'])
        ev = dict(
            property_id=self.pid, tier=self.tier, seed=self.seed, level='proof',
            coverage=dict(
                obligations=ob, discharged=dis,
                checker_cmd=getattr(self, 'build_cmd', 'cd lean && lake build'),
                trusted_base=TRUSTED_BASE + (assumptions or []),
                evaluations=self.evaluations, distinct_nontrivial=len(self.distinct),
                rule='correspondence and impl-level probe cases; distinct = distinct inputs by hash; '
                     'theorems carry no bound',
                samples=self.samples[:12],
                obligation_list=self.obligations,
                correspondence=self.corr,
                known_findings_reported=sorted(shown),
                new_failures=[f for f in new][:10],
                **(extra or {})),
            assumptions=(assumptions or []),
            wall_s=round(time.time() - self.t0, 2),
            violations=violations)
        os.makedirs(os.path.join(ROOT, 'evidence'), exist_ok=True)
        json.dump(ev, open(os.path.join(ROOT, 'evidence', '%s.json' % self.pid), 'w'), indent=1,
                  default=str, ensure_ascii=False)
        for l in lines:
            print(l)
        print('%s %s tier=%s seed=%s obligations=%d/%d cases=%d failures(new)=%d known=%d wall=%.1fs' % (
            'FAIL' if violations else 'OK', self.pid, self.tier, self.seed, dis, ob, self.evaluations,
            len(new), len(shown), time.time() - self.t0))
        return 1 if violations else 0
