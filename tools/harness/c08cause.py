"""Cause analysis for C08 failures: which pushdown of the real plan is responsible, and does the side condition of the
Lean soundness theorem for that pushdown fail on this plan?

A failing (query, contents) is attributed to a pushdown kind K only if *executing the same plan with the K-pushdowns
removed returns the reference result* (ablation on the real plan).  The signature is `K/<reason>` where <reason> is the
first side condition of the corresponding theorem (Props/C08.lean) that the plan shape violates; `K/unexplained` (the
theorem says the pushdown is sound here) and `None` (no ablation repairs the result) match no known finding."""
import copy

from tools.harness import planexec as px


def _ast():
    from mindsdb_sql.parser import ast
    return ast


def conjuncts(node):
    ast = _ast()
    if isinstance(node, ast.BinaryOperation) and node.op.lower() == 'and':
        return conjuncts(node.args[0]) + conjuncts(node.args[1])
    return [node] if node is not None else []


def and_all(nodes):
    ast = _ast()
    out = None
    for n in nodes:
        out = n if out is None else ast.BinaryOperation('and', args=[out, n])
    return out


def contexts(node, path=(), out=None):
    """str(comparison) -> set of boolean operators above it"""
    ast = _ast()
    if out is None:
        out = {}
    if node is None:
        return out
    if isinstance(node, ast.UnaryOperation):
        for a in node.args:
            contexts(a, path + (node.op.lower(),), out)
    elif isinstance(node, ast.BinaryOperation) and node.op.lower() in ('and', 'or'):
        for a in node.args:
            contexts(a, path + (node.op.lower(),), out)
    elif isinstance(node, (ast.BinaryOperation, ast.BetweenOperation)):
        out.setdefault(str(node), set()).update(path)
        if isinstance(node, ast.BinaryOperation):
            for a in node.args:
                if isinstance(a, (ast.BinaryOperation, ast.UnaryOperation, ast.BetweenOperation)):
                    contexts(a, path + ('nested',), out)
    return out


def norm(s):
    return str(s).replace('`', '').replace('(', '').replace(')', '').strip()


def is_semi(node, steps_by_num):
    ast = _ast()
    from mindsdb_sql.planner.step_result import Result
    from mindsdb_sql.planner import steps as S
    if isinstance(node, ast.BinaryOperation) and node.op.lower() == 'in' and isinstance(node.args[1], ast.Parameter) \
            and isinstance(node.args[1].value, Result):
        st = steps_by_num.get(node.args[1].value.step_num)
        return isinstance(st, S.SubSelectStep) and bool(st.query.distinct)
    return False


AGG = ('count', 'sum', 'min', 'max', 'avg')


def has_aggregate(q):
    ast = _ast()
    found = []

    def fn(node, parent):
        if isinstance(node, ast.Function) and node.op.lower() in AGG:
            found.append(node)
        return None
    px.map_ast(copy.deepcopy(list(q.targets)), fn)
    return bool(found) or q.group_by is not None or q.having is not None or bool(q.distinct)


def plain_targets(targets):
    """only `*` and un-aliased (or identically aliased) column names: evaluating such a list twice is harmless"""
    ast = _ast()
    for t in targets:
        if isinstance(t, ast.Star):
            continue
        if isinstance(t, ast.Identifier) and (t.alias is None or
                                             str(t.alias.parts[-1]).lower() == str(t.parts[-1]).lower()):
            continue
        return False
    return True


def is_left(jt):
    return jt.upper() in ('LEFT JOIN', 'LEFT OUTER JOIN')


def is_right_full(jt):
    return jt.upper().split()[0] in ('RIGHT', 'FULL')


class Analysis:
    def __init__(self, steps, catalog):
        from mindsdb_sql.planner import steps as S
        self.S = S
        self.steps = steps
        self.by_num = {s.step_num: s for s in steps}
        self.catalog = catalog
        self.api = {(i['name'] if isinstance(i, dict) else i).lower() for i in catalog.get('integrations', [])
                    if isinstance(i, dict) and i.get('class_type') == 'api'}
        self.join_of = {}        # step_num of an operand -> (JoinStep, 'left' | 'right')
        for s in steps:
            if isinstance(s, S.JoinStep):
                self.join_of[s.left.step_num] = (s, 'left')
                self.join_of[s.right.step_num] = (s, 'right')
        self.features = self.detect()

    def join_fetches(self):
        """operand steps of joins built by process_table / process_subselect: fetches, and sub-selects over a CTE result
        or over a planned sub-select"""
        ast = _ast()
        return [s for s in self.steps if isinstance(s, (self.S.FetchDataframeStep, self.S.SubSelectStep))
                and s.step_num in self.join_of and isinstance(getattr(s, 'query', None), ast.Select)]

    def next_query_step(self, num):
        for s in self.steps:
            if isinstance(s, self.S.QueryStep) and isinstance(s.step_num, int) and s.step_num > num:
                return s
        return None

    def detect(self):
        ast = _ast()
        S = self.S
        feats = []
        for f in self.join_fetches():
            q = f.query
            if not isinstance(q, ast.Select):
                continue
            if q.limit is not None or q.offset is not None:
                feats.append(('limit', f.step_num, None))
            for i, c in enumerate(conjuncts(q.where)):
                if is_semi(c, self.by_num):
                    feats.append(('semi', f.step_num, i))
                elif hasattr(c, '_orig_node'):
                    feats.append(('where', f.step_num, i))
                else:
                    feats.append(('onconst', f.step_num, i))
        for s in self.steps:
            if isinstance(s, S.SubSelectStep) and isinstance(self.by_num.get(s.dataframe.step_num), S.FetchDataframeStep) \
                    and self.by_num[s.dataframe.step_num].integration in self.api:
                feats.append(('api-split', s.step_num, None))
        return feats

    def kinds(self):
        out = []
        for k, _, _ in self.features:
            if k not in out:
                out.append(k)
        return out

    # ------------------------------------------------------------------ ablation
    def without(self, kinds, q):
        """deep copy of the plan with the pushdowns of the given kinds removed"""
        ast = _ast()
        S = self.S
        steps = copy.deepcopy(self.steps)
        by = {s.step_num: s for s in steps}
        for f in steps:
            if not isinstance(f, (S.FetchDataframeStep, S.SubSelectStep)) or f.step_num not in self.join_of \
                    or not isinstance(getattr(f, 'query', None), ast.Select):
                continue
            fq = f.query
            if 'limit' in kinds and (fq.limit is not None or fq.offset is not None):
                qs = None
                for s in steps:
                    if isinstance(s, S.QueryStep) and s.step_num > f.step_num:
                        qs = s
                        break
                if qs is not None and fq.offset is not None and qs.query.offset is None:
                    qs.query.offset = fq.offset
                fq.limit = fq.offset = fq.order_by = None
            keep = []
            for c in conjuncts(fq.where):
                if is_semi(c, by):
                    k = 'semi'
                elif hasattr(c, '_orig_node'):
                    k = 'where'
                else:
                    k = 'onconst'
                if k not in kinds:
                    keep.append(c)
            fq.where = and_all(keep)
        for s in steps:
            if isinstance(s, S.SubSelectStep):
                src = by.get(s.dataframe.step_num)
                if 'api-split' in kinds and isinstance(src, S.FetchDataframeStep) and src.integration in self.api:
                    src.query.targets = [ast.Star()]
                    src.query.limit = None
                    src.query.order_by = None
                    if q.limit is not None:
                        s.query.limit = ast.Constant(q.limit)
                    # the filter stays in the fetch (a top-level WHERE of a single table: sound)
        return steps

    # ------------------------------------------------------------------ reasons (negated side conditions)
    def reason(self, kind):
        ast = _ast()
        S = self.S
        feats = [f for f in self.features if f[0] == kind]
        joins = [s for s in self.steps if isinstance(s, S.JoinStep)]
        if kind == 'limit':
            f = self.by_num[feats[0][1]]
            # only the joins of the select this fetch belongs to (an operand of a set operation is planned on its own:
            # its steps lie between the previous QueryStep / UnionStep and its own outer QueryStep)
            lo = max([s.step_num for s in self.steps if isinstance(s, (S.QueryStep, S.UnionStep))
                      and isinstance(s.step_num, int) and s.step_num < f.step_num] + [-1])
            qs0 = self.next_query_step(f.step_num)
            hi = qs0.step_num if qs0 is not None else max(s.step_num for s in self.steps)
            joins = [j for j in joins if lo < j.step_num <= hi]
            if self.join_of[f.step_num][1] != 'left' or any(j.step_num < self.join_of[f.step_num][0].step_num for j in joins):
                return 'not-leftmost-operand'
            later = [j for j in joins if j.step_num > f.step_num]
            qs = self.next_query_step(f.step_num)
            # an aggregated / grouped / DISTINCT outer query never gets the pushdown on the pinned tree, whatever the join
            # kind: this reason comes first so that it is not taken for the (open) `nonleft-join` class
            if qs is not None and has_aggregate(qs.query):
                return 'aggregate'
            if any(not is_left(j.query.join_type) for j in later):
                return 'nonleft-join'
            if qs is not None and qs.query.where is not None:
                pushed = {str(c._orig_node) for c in conjuncts(f.query.where) if hasattr(c, '_orig_node')}
                if any(str(c) not in pushed for c in conjuncts(qs.query.where)):
                    return 'residual-where'
            if f.query.offset is not None:
                return 'offset-below-join'
            return 'unexplained'
        if kind in ('semi', 'onconst'):
            rs = []
            for _, num, i in feats:
                j, side = self.join_of[num]
                if is_right_full(j.query.join_type):
                    rs.append('right-full-join')
                    continue
                c = conjuncts(self.by_num[num].query.where)[i]
                ctx = contexts(j.query.condition)
                if kind == 'onconst':
                    here = ctx.get(str(c))
                    if here is None:
                        # the pushed node is the ON node itself; compare modulo qualifier
                        here = set()
                        for k, v in ctx.items():
                            if norm(k).split('.')[-1] == norm(c).split('.')[-1]:
                                here |= v
                    if here - {'and'}:
                        rs.append('under-' + sorted(here - {'and'})[0])
                else:
                    col = norm(c.args[0])
                    bad = set()
                    for k, v in ctx.items():
                        if ' = ' in k and (v - {'and'}) and any(norm(p).split('.')[-1] == col for p in k.split(' = ')):
                            bad |= v - {'and'}
                    if bad:
                        rs.append('under-' + sorted(bad)[0])
            for r in ('right-full-join', 'under-not', 'under-or', 'under-nested'):
                if r in rs:
                    return r
            return rs[0] if rs else 'unexplained'
        if kind == 'where':
            rs = []
            for _, num, i in feats:
                st = self.by_num[num]
                qs = self.next_query_step(num)
                ctx = contexts(qs.query.where) if qs is not None else {}
                cs = [conjuncts(st.query.where)[i]]
                j, side = self.join_of[num]
                # is this operand on the null-supplying side of its own or a later join?
                null_side = (side == 'right' and j.query.join_type.upper().split()[0] in ('LEFT', 'FULL')) or \
                            (side == 'left' and is_right_full(j.query.join_type)) or \
                            any(is_right_full(k.query.join_type) for k in self.steps
                                if isinstance(k, S.JoinStep) and k.step_num > j.step_num)
                for c in cs:
                    o = getattr(c, '_orig_node', None)
                    here = ctx.get(str(o)) if o is not None else None
                    if here is None:
                        rs.append('origin-not-found')
                        continue
                    extra = here - {'and'}
                    if extra:
                        # process_subselect (operand = SubSelectStep) applies the collected comparisons even when WHERE has OR
                        sub = '-subselect' if isinstance(st, S.SubSelectStep) and sorted(extra)[0] == 'or' else ''
                        rs.append('under-' + sorted(extra)[0] + sub)
                    elif null_side and isinstance(c, ast.BinaryOperation) and c.op.lower() == 'is':
                        rs.append('is-null-on-null-supplying-side')
            for r in ('under-not', 'under-or', 'under-or-subselect', 'under-nested', 'is-null-on-null-supplying-side', 'origin-not-found'):
                if r in rs:
                    return r
            return 'unexplained'
        if kind == 'api-split':
            s = self.by_num[feats[0][1]]
            f = self.by_num[s.dataframe.step_num]
            if has_aggregate(s.query):
                return 'aggregate-or-distinct-evaluated-twice'
            if s.query.offset is not None and f.query.limit is not None:
                return 'offset-after-limit'
            if not plain_targets(f.query.targets) and not plain_targets(s.query.targets):
                # the fetch already evaluates / renames the select list and the sub-select evaluates it AGAIN over the
                # fetched columns (`SELECT x AS k` over a dataframe that only has `k`)
                return 'select-list-reprojected'
            return 'unexplained'
        return 'unexplained'


def analyse(world, q, steps, catalog, full_ref, compare):
    """returns list of signatures 'kind/reason' whose removal repairs the result (single kinds first, then all)"""
    a = Analysis(steps, catalog)
    kinds = a.kinds()
    if not kinds:
        return [], a

    def ok(ks):
        try:
            df = px.exec_plan(world, a.without(ks, q))
        except px.ExecError:
            return False
        return compare(q, full_ref, df.rows) is None
    single = [k for k in kinds if ok([k])]
    if single:
        return ['%s/%s' % (k, a.reason(k)) for k in single], a
    if len(kinds) > 1:
        # smallest combination
        import itertools
        for n in range(2, len(kinds) + 1):
            for ks in itertools.combinations(kinds, n):
                if ok(list(ks)):
                    return ['+'.join('%s/%s' % (k, a.reason(k)) for k in ks)], a
    return [], a
